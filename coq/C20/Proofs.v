(* C20 proofs: soundness of the abstract interpreter for every schedule and every initial environment,
   and the frame property (variables never written are never changed). *)
From Coq Require Import List Bool Arith Lia.
Import ListNotations.
From PV Require Import C20.Model.

(* ---------- list-backed finite maps ---------- *)

Lemma lget_lset {A} (d : A) l k x j : lget d (lset d l k x) j = if Nat.eqb j k then x else lget d l j.
Proof.
  unfold lget. revert l j; induction k as [|k IH]; intros l j.
  - destruct l as [|y l], j as [|j]; simpl; try reflexivity; destruct j; reflexivity.
  - destruct l as [|y l], j as [|j]; simpl; try reflexivity.
    + rewrite IH. destruct (Nat.eqb j k); [reflexivity | destruct j; reflexivity].
    + apply IH.
Qed.

Lemma lget_lzip {A} (f : A -> A -> A) (d : A) l1 l2 j : f d d = d ->
  lget d (lzip f d l1 l2) j = f (lget d l1 j) (lget d l2 j).
Proof.
  intros Hd. unfold lzip, lget.
  set (n := Nat.max (length l1) (length l2)).
  destruct (Nat.lt_ge_cases j n) as [Hlt|Hge].
  - rewrite (nth_indep _ d (f (nth 0 l1 d) (nth 0 l2 d))) by (rewrite map_length, seq_length; exact Hlt).
    rewrite (map_nth (fun j0 => f (nth j0 l1 d) (nth j0 l2 d)) (seq 0 n) 0 j).
    rewrite seq_nth by exact Hlt. reflexivity.
  - rewrite nth_overflow by (rewrite map_length, seq_length; exact Hge).
    rewrite (nth_overflow l1) by (subst n; lia). rewrite (nth_overflow l2) by (subst n; lia).
    symmetry; exact Hd.
Qed.

Lemma vget_vset av asl v x j : vget (vset av v x, asl) j = if Nat.eqb j v then x else vget (av, asl) j.
Proof. unfold vget, vset; simpl. apply lget_lset. Qed.
Lemma sget_sset av asl s x j : sget (av, sset asl s x) j = if Nat.eqb j s then x else sget (av, asl) j.
Proof. unfold sget, sset; simpl. apply lget_lset. Qed.
Lemma vget_sset av asl s x j : vget (av, sset asl s x) j = vget (av, asl) j.
Proof. reflexivity. Qed.
Lemma sget_vset av asl v x j : sget (vset av v x, asl) j = sget (av, asl) j.
Proof. reflexivity. Qed.
Lemma vget_join a b v : vget (join a b) v = join_ast (vget a v) (vget b v).
Proof. unfold vget, join; simpl. apply lget_lzip. reflexivity. Qed.
Lemma sget_join a b s : sget (join a b) s = join_slot (sget a s) (sget b s).
Proof. unfold sget, join; simpl. apply lget_lzip. reflexivity. Qed.

Definition gamma (orig : env) (a : astate) (st : state) : Prop :=
  (forall v, vget a v = AOrig -> fst st v = orig v) /\
  (forall s v b, sget a s = Some (v, b) -> snd st s = Some (orig v) /\ (b = true -> orig v <> None)).

Definition covers (orig : env) (x : aopt) (st : state) : Prop := exists a, x = Some a /\ gamma orig a st.

Lemma gamma_join_l orig a b st : gamma orig a st -> gamma orig (join a b) st.
Proof.
  intros [G1 G2]. split.
  - intros v H. rewrite vget_join in H. apply G1. destruct (vget a v); [reflexivity|discriminate].
  - intros s v b0 H. rewrite sget_join in H. unfold join_slot in H.
    destruct (sget a s) as [[v1 b1]|] eqn:A; [|discriminate].
    destruct (sget b s) as [[v2 b2]|]; [|discriminate].
    destruct (Nat.eqb v1 v2); [|discriminate]. inversion H; subst.
    destruct (G2 _ _ _ A) as [H1 H2]. split; [exact H1|]. intros Hb. apply H2.
    apply andb_true_iff in Hb. tauto.
Qed.

Lemma gamma_join_r orig a b st : gamma orig b st -> gamma orig (join a b) st.
Proof.
  intros [G1 G2]. split.
  - intros v H. rewrite vget_join in H. apply G1. destruct (vget a v); [|discriminate].
    destruct (vget b v); [reflexivity|discriminate].
  - intros s v b0 H. rewrite sget_join in H. unfold join_slot in H.
    destruct (sget a s) as [[v1 b1]|]; [|discriminate].
    destruct (sget b s) as [[v2 b2]|] eqn:B; [|discriminate].
    destruct (Nat.eqb v1 v2) eqn:Q; [|discriminate]. apply Nat.eqb_eq in Q. inversion H; subst.
    destruct (G2 _ _ _ B) as [H1 H2]. split; [exact H1|]. intros Hb. apply H2.
    apply andb_true_iff in Hb. tauto.
Qed.

Lemma covers_l orig x y st : covers orig x st -> covers orig (ojoin x y) st.
Proof.
  intros [a [-> G]]. destruct y as [b|]; simpl.
  - exists (join a b). split; [reflexivity|]. apply gamma_join_l; exact G.
  - exists a; auto.
Qed.

Lemma covers_r orig x y st : covers orig y st -> covers orig (ojoin x y) st.
Proof.
  intros [b [-> G]]. destruct x as [a|]; simpl.
  - exists (join a b). split; [reflexivity|]. apply gamma_join_r; exact G.
  - exists b; auto.
Qed.

Lemma step_sound orig i sc st a st' o sc' :
  gamma orig a st -> step i sc st = (st', o, sc') -> covers orig (sel o (astep i a)) st'.
Proof.
  destruct st as [e sl], a as [av asl]. intros [G1 G2] H. simpl in G1, G2. unfold covers.
  assert (Gmod : forall vv x, gamma orig (vset av vv AMod, asl) (upd e vv x, sl)).
  { intros vv x. split; simpl.
    - intros w. rewrite vget_vset. unfold upd. destruct (Nat.eqb w vv); [discriminate|auto].
    - intros s0 v0 b0. rewrite sget_vset. auto. }
  assert (Gorig : forall vv e', (forall w, w <> vv -> e' w = e w) -> e' vv = orig vv ->
                                gamma orig (vset av vv AOrig, asl) (e', sl)).
  { intros vv e' Hne Hv. split; simpl.
    - intros w. rewrite vget_vset. destruct (Nat.eqb w vv) eqn:Ew.
      + apply Nat.eqb_eq in Ew; subst; auto.
      + intros Hw. rewrite Hne; auto. now apply Nat.eqb_neq.
    - intros s0 v0 b0. rewrite sget_vset. auto. }
  assert (Gsave : forall vv ss b x, e vv = x -> (b = true -> x <> None) ->
            gamma orig (av, match vget (av, asl) vv with AOrig => sset asl ss (Some (vv, b)) | AMod => sset asl ss None end)
                  (e, upd sl ss (Some x))).
  { intros vv ss b x Hx Hb. split; simpl.
    - intros w Hw. apply G1. destruct (vget (av, asl) vv); exact Hw.
    - intros s1 v1 b1. unfold upd.
      destruct (vget (av, asl) vv) eqn:Av; rewrite sget_sset; destruct (Nat.eqb s1 ss) eqn:Es; intros Hs;
        try discriminate; auto.
      inversion Hs; subst. pose proof (G1 _ Av) as Ho. simpl in Ho.
      split; [now rewrite <- Ho | intros Hb1; rewrite <- Ho; auto]. }
  assert (Gid : gamma orig (av, asl) (e, sl)) by (split; auto).
  assert (Hupd_ne : forall (x : option val) vv w, w <> vv -> upd e vv x w = e w).
  { intros x vv w Hn. unfold upd. apply Nat.eqb_neq in Hn. now rewrite Hn. }
  assert (Hupd_eq : forall (x : option val) vv, upd e vv x vv = x).
  { intros x vv. unfold upd. now rewrite Nat.eqb_refl. }
  destruct i; simpl in H |- *.
  - (* SaveStrict *)
    destruct (e v) eqn:Ev; inversion H; subst; clear H; eexists; (split; [reflexivity|]); auto.
    apply Gsave; auto. discriminate.
  - (* SaveOpt *)
    inversion H; subst; clear H. eexists; (split; [reflexivity|]). apply Gsave; auto. discriminate.
  - (* ReadReq *)
    destruct (e v); inversion H; subst; eexists; (split; [reflexivity|]); auto.
  - (* Del *)
    destruct (e v) eqn:Ev; inversion H; subst; clear H; eexists; (split; [reflexivity|]); auto.
  - (* Pop *)
    inversion H; subst; clear H. eexists; (split; [reflexivity|]); auto.
  - (* SetC *)
    inversion H; subst; clear H. eexists; (split; [reflexivity|]); auto.
  - (* Restore *)
    destruct (sget (av, asl) s) as [[v' b]|] eqn:As; [destruct (Nat.eqb v' v) eqn:Ev|].
    + apply Nat.eqb_eq in Ev; subst v'. destruct (G2 _ _ _ As) as [Hs Hb]. simpl in Hs. rewrite Hs in H.
      destruct (orig v) eqn:Ov.
      * inversion H; subst. eexists; (split; [reflexivity|]).
        apply Gorig; [intros; now apply Hupd_ne | now rewrite Hupd_eq].
      * inversion H; subst. destruct b; [exfalso; apply Hb; auto|]. eexists; (split; [reflexivity|]); auto.
    + destruct (sl s) as [[x|]|]; inversion H; subst; clear H; eexists; (split; [reflexivity|]); auto.
    + destruct (sl s) as [[x|]|]; inversion H; subst; clear H; eexists; (split; [reflexivity|]); auto.
  - (* RestoreOpt *)
    destruct (sget (av, asl) s) as [[v' b]|] eqn:As; [destruct (Nat.eqb v' v) eqn:Ev|].
    + apply Nat.eqb_eq in Ev; subst v'. destruct (G2 _ _ _ As) as [Hs _]. simpl in Hs. rewrite Hs in H.
      destruct (orig v) eqn:Ov.
      * inversion H; subst. eexists; (split; [reflexivity|]).
        apply Gorig; [intros; now apply Hupd_ne | now rewrite Hupd_eq].
      * destruct (e v) eqn:Ev; inversion H; subst; eexists; (split; [reflexivity|]).
        -- apply Gorig; [intros; now apply Hupd_ne | now rewrite Hupd_eq].
        -- apply Gorig; auto; congruence.
    + destruct (sl s) as [[x|]|]; [|destruct (e v)|]; inversion H; subst; clear H;
        eexists; (split; [reflexivity|]); auto.
    + destruct (sl s) as [[x|]|]; [|destruct (e v)|]; inversion H; subst; clear H;
        eexists; (split; [reflexivity|]); auto.
  - (* RestoreOptPop *)
    destruct (sget (av, asl) s) as [[v' b]|] eqn:As; [destruct (Nat.eqb v' v) eqn:Ev|].
    + apply Nat.eqb_eq in Ev; subst v'. destruct (G2 _ _ _ As) as [Hs _]. simpl in Hs. rewrite Hs in H.
      destruct (orig v) eqn:Ov; inversion H; subst; eexists; (split; [reflexivity|]);
        (apply Gorig; [intros; now apply Hupd_ne | now rewrite Hupd_eq]).
    + destruct (sl s) as [[x|]|]; inversion H; subst; clear H; eexists; (split; [reflexivity|]); auto.
    + destruct (sl s) as [[x|]|]; inversion H; subst; clear H; eexists; (split; [reflexivity|]); auto.
  - (* Call *)
    destruct (pop sc) as [b sc1]. inversion H; subst. destruct b; eexists; (split; [reflexivity|]); auto.
Qed.

Arguments ojoin : simpl never.

Theorem aexec_sound orig p : forall sc st a st' o sc',
  gamma orig a st -> exec p sc st = (st', o, sc') -> covers orig (sel o (aexec p a)) st'.
Proof.
  induction p; intros sc st a st' o sc' G H; simpl in H.
  - (* Skip *) inversion H; subst. exists a; split; simpl; auto.
  - (* I *) eapply step_sound; eauto.
  - (* Seq *)
    destruct (exec p1 sc st) as [[st1 o1] sc1] eqn:E1.
    pose proof (IHp1 _ _ _ _ _ _ G E1) as C1.
    destruct o1.
    + destruct C1 as [a1 [I1 G1]]. pose proof (IHp2 _ _ _ _ _ _ G1 H) as C2.
      simpl in I1. simpl. rewrite I1. simpl.
      destruct o; simpl in *; [exact C2 | apply covers_r; exact C2 | apply covers_r; exact C2].
    + inversion H; subst. simpl. apply covers_l; exact C1.
    + inversion H; subst. simpl. apply covers_l; exact C1.
  - (* Choice *)
    destruct (pop sc) as [b sc1]. destruct b.
    + pose proof (IHp1 _ _ _ _ _ _ G H) as C. destruct o; simpl; apply covers_l; exact C.
    + pose proof (IHp2 _ _ _ _ _ _ G H) as C. destruct o; simpl; apply covers_r; exact C.
  - (* TryFinally *)
    destruct (exec p1 sc st) as [[st1 o1] sc1] eqn:E1.
    destruct (exec p2 sc1 st1) as [[st2 o2] sc2] eqn:E2.
    destruct (IHp1 _ _ _ _ _ _ G E1) as [a1 [I1 G1]].
    pose proof (IHp2 _ _ _ _ _ _ G1 E2) as C2.
    destruct o1, o2; inversion H; subst; simpl in I1 |- *; rewrite I1; simpl;
      first [ exact C2
            | apply covers_l; exact C2
            | apply covers_r; apply covers_l; exact C2
            | apply covers_r; apply covers_r; apply covers_l; exact C2
            | apply covers_r; apply covers_r; apply covers_r; exact C2 ].
  - (* TryExcept *)
    destruct (exec p1 sc st) as [[st1 o1] sc1] eqn:E1.
    pose proof (IHp1 _ _ _ _ _ _ G E1) as C1.
    destruct o1.
    + inversion H; subst. simpl. apply covers_l; exact C1.
    + destruct (pop sc1) as [b sc2]. destruct b.
      * destruct C1 as [a1 [I1 G1]]. pose proof (IHp2 _ _ _ _ _ _ G1 H) as C2.
        simpl in I1. simpl. rewrite I1. simpl. destruct o; simpl; apply covers_r; exact C2.
      * inversion H; subst. simpl. apply covers_l; exact C1.
    + inversion H; subst. simpl. apply covers_l; exact C1.
  - (* Scope *)
    destruct (exec p sc st) as [[st1 o1] sc1] eqn:E1.
    pose proof (IHp _ _ _ _ _ _ G E1) as C1.
    inversion H; subst.
    destruct o1; simpl in *; [apply covers_l; exact C1 | exact C1 | apply covers_r; exact C1].
  - (* Raise *) inversion H; subst. exists a; split; simpl; auto.
  - (* Ret *) inversion H; subst. exists a; split; simpl; auto.
Qed.

Lemma gamma_init env0 : gamma env0 a_init (env0, fun _ => None).
Proof.
  split; simpl; [auto|]. intros s v b H. unfold sget, a_init, lget in H. simpl in H. destruct s; discriminate.
Qed.

Theorem restores_check_sound vars p : restores_check vars p = true ->
  forall env0 sc st' o sc', exec p sc (env0, fun _ => None) = (st', o, sc') ->
  forall v, In v vars -> fst st' v = env0 v.
Proof.
  intros Hc env0 sc st' o sc' H v Hv.
  destruct (aexec_sound env0 p _ _ _ _ _ _ (gamma_init env0) H) as [a' [Ia [G1 _]]].
  apply G1. unfold restores_check in Hc. apply andb_true_iff in Hc as [Hc HR]. apply andb_true_iff in Hc as [HN HE].
  assert (Ha : all_orig vars a' = true).
  { destruct o; simpl in Ia; [rewrite Ia in HN; exact HN | rewrite Ia in HE; exact HE | rewrite Ia in HR; exact HR]. }
  unfold all_orig in Ha. eapply forallb_forall in Ha; eauto. destruct (vget a' v); [reflexivity|discriminate].
Qed.

(* ---------- frame: a variable that no instruction writes keeps its value ---------- *)

Lemma step_frame i sc st st' o sc' v :
  step i sc st = (st', o, sc') -> ~ In v (instr_writes i) -> fst st' v = fst st v.
Proof.
  destruct st as [e sl]. intros H Hn.
  assert (U : forall (x : option val) w, w <> v -> upd e w x v = e v).
  { intros x w Hw. unfold upd. destruct (Nat.eqb v w) eqn:Q; [apply Nat.eqb_eq in Q; congruence | reflexivity]. }
  destruct i; simpl in H, Hn;
    repeat match type of H with
           | context[match ?x with _ => _ end] => destruct x
           end; inversion H; subst; simpl; auto; apply U; intuition.
Qed.

Theorem exec_frame p : forall sc st st' o sc' v,
  exec p sc st = (st', o, sc') -> ~ In v (prog_writes p) -> fst st' v = fst st v.
Proof.
  induction p; intros sc st st' o sc' v H Hn; simpl in H, Hn.
  - inversion H; subst; auto.
  - eapply step_frame; eauto.
  - destruct (exec p1 sc st) as [[st1 o1] sc1] eqn:E1.
    assert (F1 : fst st1 v = fst st v) by (eapply IHp1; eauto; intro; apply Hn; apply in_or_app; auto).
    destruct o1; [|inversion H; subst; auto|inversion H; subst; auto].
    rewrite <- F1. eapply IHp2; eauto. intro; apply Hn; apply in_or_app; auto.
  - destruct (pop sc) as [b sc1]. destruct b;
      [eapply IHp1 | eapply IHp2]; eauto; intro; apply Hn; apply in_or_app; auto.
  - destruct (exec p1 sc st) as [[st1 o1] sc1] eqn:E1.
    destruct (exec p2 sc1 st1) as [[st2 o2] sc2] eqn:E2.
    assert (F1 : fst st1 v = fst st v) by (eapply IHp1; eauto; intro; apply Hn; apply in_or_app; auto).
    assert (F2 : fst st2 v = fst st1 v) by (eapply IHp2; eauto; intro; apply Hn; apply in_or_app; auto).
    destruct o2; inversion H; subst; congruence.
  - destruct (exec p1 sc st) as [[st1 o1] sc1] eqn:E1.
    assert (F1 : fst st1 v = fst st v) by (eapply IHp1; eauto; intro; apply Hn; apply in_or_app; auto).
    destruct o1; [inversion H; subst; auto| |inversion H; subst; auto].
    destruct (pop sc1) as [b sc2]. destruct b; [|inversion H; subst; auto].
    rewrite <- F1. eapply IHp2; eauto. intro; apply Hn; apply in_or_app; auto.
  - destruct (exec p sc st) as [[st1 o1] sc1] eqn:E1. inversion H; subst. eapply IHp; eauto.
  - inversion H; subst; auto.
  - inversion H; subst; auto.
Qed.

Lemma writes_within_spec vars p v : writes_within vars p = true -> ~ In v vars -> ~ In v (prog_writes p).
Proof.
  unfold writes_within. intros H Hn Hin. rewrite forallb_forall in H. specialize (H v Hin).
  apply existsb_exists in H. destruct H as [w [Hw Q]]. apply Nat.eqb_eq in Q. subst. auto.
Qed.

(* the property, for a program: after ANY execution (any fault schedule, any branch choices, any initial
   environment), every environment variable has exactly the value, or absence, it had on entry *)
Theorem environment_restored vars p :
  restores_check vars p = true -> writes_within vars p = true ->
  forall env0 sc st' o sc', exec p sc (env0, fun _ => None) = (st', o, sc') ->
  forall v, fst st' v = env0 v.
Proof.
  intros Hc Hw env0 sc st' o sc' H v.
  destruct (in_dec Nat.eq_dec v vars) as [Hin|Hout].
  - eapply restores_check_sound; eauto.
  - change (env0 v) with (fst (env0, fun _ : slot => @None (option val)) v).
    eapply exec_frame; eauto. eapply writes_within_spec; eauto.
Qed.
