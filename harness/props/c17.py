"""C17 -- Rejection, mask interpolation and sky masking act on exactly the intended pixels."""
from fractions import Fraction as Fr
import itertools

import os

from harness import common as C
from translate import c17 as T

ID = 'C17'
PROPS_V = 'C17/Props.v'
LEVEL = 'proof'
TRUSTED = [
    'translate/c17.py: Python ast -> Gallina for the statements it recognises (limit comparisons and badness terms, inmask / '
    'sticky products, grow loop bounds and clamps, qdone, skymask flag names / cast / tests / width / smooth arguments / test / '
    'final product, const rules of djs_maskinterp1; round 5: the decisions of aesthetics() -- bad-pixel test, all-bad shortcut, masks '
    'handed to djs_maskinterp, good-pixel test and destination of the mean assignment -- and the argument checks and the whole '
    '(ndim, xval, axis) dispatch table of djs_maskinterp with the loops and index pattern of every leaf); fail-closed, '
    '`recognised` recorded per generated file',
    'the hand-written remainder of C17/Model.v (fold / scatter plumbing, numpy.interp as `interp`, smooth as `smooth_model`, '
    'medfilt / medfilt2d as zero-padded window medians, numpy negative-index wrap) -- tied to the code by the correspondence run',
    'harness glue: scalar sigma / missing inmask / missing outmask expanded to per-point values; n-D reject arrays flattened '
    '(grow = 0); float samples of the median scaled to integers; numpy.moveaxis line lists passed along and compared inside Coq '
    'with the lists derived from (shape, axis)',
    'numpy.interp = clamped piecewise-linear interpolation, scipy.signal.medfilt/medfilt2d = zero-padded window '
    'median, ndarray.astype(uint64) = reduction mod 2^64 (modelled by their meaning; exercised on every run)',
    'SPPIXMASK bit numbers: the packaged tests/t/testMaskbits.par has no SPPIXMASK group, so the runner appends one '
    '(BADSKYCHI=27, REDMONSTER=28 as in sdssMaskbits.par, and two other placements) and loads it through the real '
    'set_maskbits/sdss_flagval',
    'Coq stdlib ZArith, QArith, Lia, Lqa (theorems closed under the global context)',
]
ASSUMPTIONS = [
    'djs_reject: calls with BOTH sigma and invvar are inside: the supplied sigma sets the units and invvar is ignored (documented precedence; '
    'reject_spec2, C17_reject_sigma_wins); inmask / outmask of integer, float or bool dtype: an entry marks a good point iff it is non-zero '
    '(any non-zero value is generated; harness glue turns the values into the booleans of the model); '
    'the property speaks of limits "in units of the SUPPLIED sigma or 1/sqrt(invvar), or the absolute limit": '
    'calls with lower/upper but neither sigma nor invvar (the branch that estimates a standard deviation from the data) are '
    'OUTSIDE the property and are neither generated nor modelled; maxdev-only calls (no sigma, no invvar) ARE inside and '
    'are generated (the estimated sigma is computed by the routine but never used); lower, upper >= 0, maxdev > 0, sigma >= 0, invvar >= 0; maxrej/groupdim/groupsize/groupbadpix '
    'not used; grow > 0 only for 1-D data (the routine indexes axis 0 only)',
    'djs_maskinterp: xval distinct within every line; pydl numbers axes the IDL way (axis 0 = last numpy axis); a mask entry is '
    'bad iff it is != 0 (harness glue `is_bad`; NaN and the infinities are != 0, -0.0 is == 0) for every storage type generated: '
    'bool, int8..int64, uint8..uint64, float16/32/64, with negative, sign-bit, byte-boundary and tiny values; the whole-call '
    'specification refuses (ValueError) a mask / xval of another shape, a missing / negative / too large axis for 2-D and 3-D '
    'arrays and arrays of more than 3 dimensions; a non-integer axis is not generated',
    "aesthetics: inverse variances >= 0 (decision of the main session: a NEGATIVE inverse variance is outside the generated domain; "
    "there method 'mean' overwrites the pixel although its inverse variance is not zero -- C17_aesthetics_support_mean_refuted is "
    "the witness, C17_aesthetics_support_exact says it is the only exception); a spectrum without any good pixel IS inside (every "
    "method returns it unchanged); method 'damp' is not in the property",
    'djs_median(boundary=reflect): S is total -- width 1 returns the input, even widths and arrays/images with fewer than '
    'ceil(width/2) samples per axis (but more than one sample) must raise ValueError, everything else is the reflected-window '
    'median; 2-D images with a single row or column shorter than the padding (numpy broadcasts them) are not generated',
    'skymask: a mask pixel is flagged when its stored integer value (two\'s complement) shares a bit with a flag value; the '
    'dilation width is swept: every ngrow of 0..120 in the quick tier (0..300 three times in the thorough tier) plus a few larger '
    'ones, rows shorter than ngrow, rows that only reach the edge branches of smooth() and rows longer than the window',
    'caller-owned ndarray arguments must be bit-identical after every call (checked for every call, violation otherwise); a result '
    'that shares memory with an UNMODIFIED argument (djs_maskinterp1 / aesthetics / djs_median return their input when there is '
    'nothing to do) is counted in coverage.argument_checks and not reported; histories of calls on the same arrays are compared '
    'step by step with the model evaluated on the values the arrays hold at that step (the caller may refill an array in place between steps)',
    'floating point: values compared at 1e-12 relative; thresholds are either hit exactly (exact dyadic arithmetic) or '
    'missed by >= 1e-6 relative',
]

def translate(ctx):
    res = {}
    for name, (text, info) in T.generate(C.REPO).items():
        path = os.path.join(C.COQ, 'Generated', name + '.v')
        if text is not None:
            info['changed'] = C.write_if_changed(path, text)
        else:
            info['note'] = ('source shape not recognised; the previous Generated/%s.v is kept and the correspondence run '
                            'alone ties the model to the code' % name)
        res[name] = info
    return res


HEADER = '''From Coq Require Import ZArith QArith List Bool. Import ListNotations.
From PV Require Import C17.Model. Open Scope Q_scope.'''

q = C.qlit


def qopt(x):
    return C.optlit(x, q)


def blist(l):
    return C.coq_list([C.boollit(b) for b in l])


def qlist(l):
    return C.coq_list([q(v) for v in l])


def zl(v):
    return '(%d)%%Z' % int(v)


def zlist(l):
    return C.coq_list([zl(v) for v in l])


# ---------------------------------------------------------------- djs_reject

def beyond_ref(d, sc, lower, upper, maxdev):
    """harness-side reference, used ONLY to steer generation (ties, margins, outmask = expected mask)"""
    kind, v = sc
    d, v = Fr(d), Fr(v)
    out = False
    if lower is not None:
        l = Fr(lower)
        out |= (d < -l * v) if kind == 's' else (d < 0 and d * d * v > l * l)
    if upper is not None:
        u = Fr(upper)
        out |= (d > u * v) if kind == 's' else (d > 0 and d * d * v > u * u)
    if maxdev is not None:
        out |= abs(d) > Fr(maxdev)
    return out


def margin_ok(d, sc, lower, upper, maxdev):
    """every threshold is hit exactly or missed by >= 1e-6 relative"""
    kind, v = sc
    d, v = Fr(d), Fr(v)
    for lim, sign in ((lower, -1), (upper, 1)):
        if lim is None:
            continue
        L = Fr(lim)
        if kind == 's':
            gap = abs(sign * d - L * v)
            if gap != 0 and gap < Fr(1, 10 ** 6) * (1 + L * v):
                return False
        else:
            a, b = d * d * v, L * L
            if a != b and abs(a - b) < Fr(1, 10 ** 6) * max(a, b):
                return False
    if maxdev is not None:
        gap = abs(abs(d) - Fr(maxdev))
        if gap != 0 and gap < Fr(1, 10 ** 6) * (1 + Fr(maxdev)):
            return False
    return True


def ref_reject(c):
    n = len(c['data'])
    sc = c['_scales']
    inm = c['inmask'] or [True] * n
    outm = c['outmask'] or [True] * n
    st = c['sticky']
    elig = [inm[i] and (outm[i] or not st) for i in range(n)]
    bad = [elig[i] and beyond_ref(c['data'][i] - c['model'][i], sc[i], c['lower'], c['upper'], c['maxdev']) for i in range(n)]
    g = c['grow']
    return [elig[i] and not any(bad[max(0, i - g):i + g + 1]) for i in range(n)]


def gen_reject(rng, ctx, k):
    nd = 1 if rng.random() < 0.8 else rng.choice([2, 3])
    if nd == 1:
        shape = [rng.choice([1, 2, 3, 4, 5, 6, 7, 8, 9, 10, 12, 12, 20, 33])]
    else:
        shape = [rng.randint(1, 3) for _ in range(nd)]
    n = 1
    for s_ in shape:
        n *= s_
    lower = rng.choice([None, 0.0, C.dyadic(rng, 0.5, 4, 3)]) if rng.random() < 0.75 else None
    upper = rng.choice([None, 0.0, C.dyadic(rng, 0.5, 4, 3)]) if rng.random() < 0.75 else None
    maxdev = C.dyadic(rng, 0.25, 6, 3) if rng.random() < 0.4 else None
    if lower is None and upper is None and maxdev is None and rng.random() < 0.8:
        upper = C.dyadic(rng, 0.5, 4, 3)
    mode = rng.choice(['sigma_scalar', 'sigma_array', 'invvar', 'invvar', 'both_scalar', 'both_array'])
    if rng.random() < 0.12:
        # "or the absolute limit": maxdev alone, neither sigma nor invvar supplied (the routine then estimates a
        # sigma it never uses)
        mode, lower, upper = 'maxdev_only', None, None
        maxdev = C.dyadic(rng, 0.25, 6, 3)
    sq = [0.0, 0.0625, 0.25, 1.0, 2.25, 4.0, 9.0]
    if mode == 'maxdev_only':
        scales = [('s', 0.0)] * n
    elif mode in ('sigma_scalar', 'both_scalar'):
        s0 = rng.choice([0.0, 1.0, C.dyadic(rng, 0.125, 3, 3)])
        scales = [('s', s0)] * n
    elif mode in ('sigma_array', 'both_array'):
        scales = [('s', rng.choice([0.0, 1.0, C.dyadic(rng, 0.125, 3, 3), C.dyadic(rng, 0.125, 3, 3)])) for _ in range(n)]
    else:
        scales = [('i', rng.choice(sq) if rng.random() < 0.5 else C.dyadic(rng, 0, 8, 4)) for _ in range(n)]
    model = [C.dyadic(rng, -8, 8, 4) for _ in range(n)]
    data = []
    p_out = rng.choice([0.1, 0.3, 0.6])
    for i in range(n):
        kind, v = scales[i]
        for _try in range(50):
            t = rng.random()
            unit = (v if kind == 's' else (1 / v ** 0.5 if v > 0 else 1.0))
            lim = rng.choice([x for x in (lower, upper) if x is not None] or [1.0])
            if t < 0.15 and kind == 's':
                d = rng.choice([-1, 1]) * lim * v                      # exactly on the sigma threshold
            elif t < 0.15 and kind == 'i' and v in sq and v > 0:
                d = rng.choice([-1, 1]) * lim / (v ** 0.5)             # exactly on the invvar threshold (sqrt exact)
            elif t < 0.22 and maxdev is not None:
                d = rng.choice([-1, 1]) * maxdev                       # exactly on maxdev
            elif t < 0.3:
                d = 0.0
            elif t < 0.3 + p_out:
                d = rng.choice([-1, 1]) * (lim * unit + C.dyadic(rng, 0, 6, 6))
            else:
                d = rng.choice([-1, 1]) * C.dyadic(rng, 0, 1, 8) * lim * unit
            d = round(d * 4096) / 4096
            if margin_ok(d, scales[i], lower, upper, maxdev) and abs(d) < 1e4:
                break
        else:
            d = 0.0
        data.append(model[i] + d)
    c = {'f': 'reject', 'shape': shape, 'data': data, 'model': model,
         'lower': lower, 'upper': upper, 'maxdev': maxdev,
         'sticky': rng.random() < 0.4, 'grow': (rng.choice([0, 0, 1, 1, 2, 3, 4]) if nd == 1 else 0),
         'inmask': None if rng.random() < 0.3 else [rng.random() < 0.8 for _ in range(n)],
         'outmask': None, '_scales': scales, '_mode': mode}
    if mode == 'maxdev_only':
        pass
    elif mode in ('sigma_scalar', 'both_scalar'):
        c['sigma'] = scales[0][1]
    elif mode in ('sigma_array', 'both_array'):
        c['sigma'] = [v for _, v in scales]
    else:
        c['invvar'] = [v for _, v in scales]
    if mode.startswith('both'):
        # BOTH keywords in one call, and the invvar is NOT 1/sigma^2 (zeros included): the documented precedence
        # (sigma sets the units, invvar is ignored) then shows in the mask
        # (half of the entries are 0 -- the invvar rule could never reject there -- or large -- it would reject almost
        # any residual --, so that the two rules disagree on many points)
        c['invvar'] = [rng.choice([0.0, 0.0, 64.0, 256.0, 1024.0]) if rng.random() < 0.5 else
                       (rng.choice(sq) if rng.random() < 0.5 else C.dyadic(rng, 0, 8, 4)) for _ in range(n)]
    t = rng.random()
    if t < 0.35:
        c['outmask'] = [rng.random() < 0.8 for _ in range(n)]
    elif t < 0.7:
        c['outmask'] = [True] * n
        c['outmask'] = ref_reject(c)          # a fixed point of the iteration: qdone must be True
        if rng.random() < 0.3 and n > 1:
            j = rng.randrange(n)
            c['outmask'][j] = not c['outmask'][j]
    return c


def reject_term(c, r, call_level=False):
    """call_level: the keywords as the caller supplied them (sigma and/or invvar, either may be absent), resolved
    inside Coq -- by the selectors generated from the source in M, by the documented precedence in S"""
    n = len(c['data'])
    inm = c['inmask'] or [True] * n
    outm = c['outmask'] or [True] * n
    o = '(mkO %s %s %s %s %d%%nat)' % (qopt(c['lower']), qopt(c['upper']), qopt(c['maxdev']), C.boollit(c['sticky']), c['grow'])
    if 'ok' in r:
        e = '(ROk %s %s)' % (blist(r['ok']['mask']), C.boollit(r['ok']['qdone']))
    else:
        e = 'RErr'
    if call_level:
        sg, ivg = c.get('sigma') is not None, c.get('invvar') is not None
        sig = (c['sigma'] if isinstance(c['sigma'], list) else [c['sigma']] * n) if sg else [0.0] * n
        iv = c['invvar'] if ivg else [0.0] * n
        qs = ['(mkP2 (mkP %s %s (Sig 0) %s %s) %s %s)' % (q(c['data'][i]), q(c['model'][i]), C.boollit(inm[i]), C.boollit(outm[i]),
                                                        q(sig[i]), q(iv[i])) for i in range(n)]
        return '(CReject2 %s %s %s %s %s)' % (o, C.boollit(sg), C.boollit(ivg), C.coq_list(qs), e)
    pts = []
    for i in range(n):
        kind, v = c['_scales'][i]
        pts.append('(mkP %s %s (%s %s) %s %s)' % (q(c['data'][i]), q(c['model'][i]), 'Sig' if kind == 's' else 'Ivar', q(v),
                                                   C.boollit(inm[i]), C.boollit(outm[i])))
    return '(CReject %s %s %s)' % (o, C.coq_list(pts), e)


def both_discriminates(c):
    """would measuring in units of 1/sqrt(invvar) give another mask than the supplied sigma does?"""
    if not c['_mode'].startswith('both'):
        return False
    alt = dict(c)
    alt['_scales'] = [('i', v) for v in c['invvar']]
    return ref_reject(alt) != ref_reject(c)


# ---------------------------------------------------------------- djs_maskinterp

def lines_of(shape, np_axis):
    """flat index lists of the 1-D lines along numpy axis np_axis of a C-ordered array"""
    strides = []
    s = 1
    for d in reversed(shape):
        strides.insert(0, s)
        s *= d
    others = [range(d) if a != np_axis else [0] for a, d in enumerate(shape)]
    out = []
    for idx in itertools.product(*others):
        base = sum(i * st for i, st in zip(idx, strides))
        out.append([base + k * strides[np_axis] for k in range(shape[np_axis])])
    return out


def gen_mask_line(rng, L):
    t = rng.random()
    if t < 0.08:
        return [0] * L
    if t < 0.16:
        return [rng.choice([1, 2, 7])] * L
    if t < 0.28:
        m = [rng.choice([1, 3])] * L
        m[rng.randrange(L)] = 0
        return m
    dens = rng.choice([0.2, 0.5, 0.8])
    m = [(rng.choice([1, 1, 5]) if rng.random() < dens else 0) for _ in range(L)]
    if rng.random() < 0.4:
        m[0] = 1
    if rng.random() < 0.4:
        m[-1] = 1
    if rng.random() < 0.2 and L > 2:
        m[1] = 1
    return m


# "mask != 0 means bad" is the specification whatever the storage type and the sign of the entries: every
# numpy dtype a mask can reasonably have, with the values that distinguish `!= 0` from `> 0`, `max() == 0`,
# a truncating cast, a bit test or truthiness of a particular width
MASK_DTYPES = ['bool', 'i1', 'i2', 'i4', 'i8', 'u1', 'u2', 'u4', 'u8', 'f2', 'f4', 'f8']


def mask_palette(dt):
    """(non-zero values, zero values) representable in dtype dt"""
    if dt == 'bool':
        return [1], [0]
    if dt[0] in 'iu':
        w = 8 * int(dt[1])
        if dt[0] == 'u':
            vals = [1, 2, 1 << (w - 1), (1 << w) - 1] + [1 << b for b in (8, 16, 32) if b < w]
            return vals, [0]
        vals = [1, -1, -2, -(1 << (w - 1)), (1 << (w - 1)) - 1] + [s_ << b for b in (8, 16, 32) if b < w - 1 for s_ in (1, -1)]
        return vals, [0]
    tiny = {'f2': 2.0 ** -14, 'f4': 2.0 ** -100, 'f8': 2.0 ** -1000}[dt]
    return [1.0, -1.0, 0.5, -0.25, tiny, -tiny, 'nan', 'inf', '-inf'], [0.0, -0.0]


def is_bad(v):
    """the specification of a mask entry: bad iff it is not equal to zero (NaN and the infinities are not)"""
    return True if isinstance(v, str) else v != 0


def remap_masks(rng, masks, dt):
    """masks: lists of small non-negative flags (0 = good).  Returns the same masks with every entry replaced by a
    value of dtype dt of the same class (zero / non-zero), in one of four styles"""
    nz, zs = mask_palette(dt)
    neg = [v for v in nz if not isinstance(v, str) and v < 0]
    style = rng.choice(['asis', 'negative', 'mixed', 'mixed'])
    if style == 'negative' and not neg:
        style = 'mixed'
    if style == 'asis' and dt != 'bool' and dt != 'i1' and dt != 'u1':
        return [list(m) for m in masks], style
    out = []
    for m in masks:
        if style == 'negative':
            one = rng.choice(neg)
            pick = (lambda: one) if rng.random() < 0.5 else (lambda: rng.choice(neg))
        elif style == 'asis':
            pick = lambda: 1                                                   # noqa: E731
        else:
            pick = lambda: rng.choice(nz)                                      # noqa: E731
        out.append([pick() if v != 0 else rng.choice(zs) for v in m])
    return out, style


def gen_interp(rng, ctx, k):
    nd = rng.choice([1, 1, 2, 2, 3])
    if nd == 1:
        shape = [rng.choice([1, 2, 3, 4, 5, 6, 7, 8, 9, 10, 17, 24])]
    elif nd == 2:
        shape = [rng.randint(1, 6), rng.randint(1, 6)]
    else:
        shape = [rng.randint(1, 4), rng.randint(1, 4), rng.randint(1, 4)]
    axis = rng.randrange(nd)
    np_axis = nd - 1 - axis
    n = 1
    for s_ in shape:
        n *= s_
    lines = lines_of(shape, np_axis)
    mask = [0] * n
    for ln in lines:
        for p, v in zip(ln, gen_mask_line(rng, len(ln))):
            mask[p] = v
    y = [C.dyadic(rng, -16, 16, 6) for _ in range(n)]
    xval = None
    if rng.random() < 0.5:
        pool = rng.sample(range(-400, 400), n)       # distinct, shuffled
        if rng.random() < 0.3:
            pool = sorted(pool)
        xval = [v / 8.0 for v in pool]
    dt = rng.choice(MASK_DTYPES)
    # the remapping is done line by line so that a whole line can hold only zeros and negative values
    lm, style = remap_masks(rng, [[mask[p] for p in ln] for ln in lines], dt)
    for ln, vals in zip(lines, lm):
        for p, v in zip(ln, vals):
            mask[p] = v
    c = {'f': 'interp', 'shape': shape, 'y': y, 'mask': mask, 'xval': xval, 'const': rng.random() < 0.5,
         'maskdtype': dt, '_lines': lines, '_maskstyle': style}
    if nd == 1 and rng.random() < 0.4:
        c['direct1'] = True
    if nd > 1 or rng.random() < 0.5:
        c['axis'] = axis
    return c


def natlist(l):
    return '[' + '; '.join('%d' % v for v in l) + ']%nat'


def call_term(c, r):
    """the whole call: shapes of the three arrays, the axis as given (None = not given), outcome class"""
    xv = 'None' if c['xval'] is None else '(Some %s)' % qlist(c['xval'])
    xs = 'None' if c['xval'] is None else '(Some %s)' % natlist(c.get('xshape') or c['shape'])
    ax = 'None' if c.get('axis') is None else '(Some %s)' % zl(c['axis'])
    if 'ok' in r:
        e = '(NDOk %s)' % qlist(r['ok'])
    else:
        e = 'NDErr' if r.get('err') == 'ValueError' else 'NDOther'
    return '(CInterpCall %s %s %s %s %s %s %s %s)' % (qlist(c['y']), blist([is_bad(m) for m in c['mask']]), xv, natlist(c['shape']),
                                                     natlist(c.get('mshape') or c['shape']), xs, ax, e)


def gen_interp_call(rng, ctx, k):
    """calls that exercise the argument checks and the dispatch of djs_maskinterp: mask / xval of another shape,
    axis missing / negative / too large, 4-D arrays, and valid calls as controls"""
    while True:
        c = gen_interp(rng, ctx, k)
        if 'direct1' not in c:
            break
    nd = len(c['shape'])
    n = len(c['y'])
    kind = rng.choice(['mshape', 'xshape', 'axis_none', 'axis_neg', 'axis_big', 'ndim4', 'valid', 'valid'])
    if kind == 'xshape' and c['xval'] is None:
        kind = 'mshape'
    if kind in ('mshape', 'xshape'):
        alt = rng.choice([[n], list(reversed(c['shape'])), c['shape'] + [1], [1] + c['shape'], [n + 1]])
        if alt == c['shape']:
            alt = c['shape'] + [1]
        key, vals = ('mshape', 'mask') if kind == 'mshape' else ('xshape', 'xval')
        c[key] = alt
        if alt == [n + 1]:
            c[vals] = c[vals] + [c[vals][0] if kind == 'mshape' else 999.0]
    elif kind == 'axis_none':
        c.pop('axis', None)
    elif kind == 'axis_neg':
        c['axis'] = rng.choice([-1, -1, -2, -nd])
    elif kind == 'axis_big':
        c['axis'] = nd + rng.choice([0, 0, 1, 5])
    elif kind == 'ndim4':
        shape = [rng.randint(1, 2) for _ in range(4)]
        n = shape[0] * shape[1] * shape[2] * shape[3]
        c.update({'shape': shape, 'y': [C.dyadic(rng, -16, 16, 6) for _ in range(n)], 'mask': [rng.choice([0, 0, 1]) for _ in range(n)],
                  'maskdtype': 'i4', 'xval': None, 'axis': rng.randrange(4), '_lines': []})
    c['_call'] = kind
    return c


def interp_terms(c, r):
    if '_call' in c:
        return [(0, call_term(c, r))]
    if len(c['shape']) > 1:
        # n-D: one case for the whole array (flat, C order) with the index lists of its lines
        xv = 'None' if c['xval'] is None else '(Some %s)' % qlist(c['xval'])
        e = '(QOk %s)' % qlist(r['ok']) if 'ok' in r else 'QErr'
        # the lines are derived inside Coq from (shape, axis); numpy's own cutting (moveaxis) goes along for comparison
        npl = r.get('np_lines') or c['_lines']
        return [(0, '(CInterpND %s %s %s %s %d%%nat %s %s)' % (qlist(c['y']), blist([is_bad(m) for m in c['mask']]), xv,
                                                              natlist(c['shape']), c['axis'],
                                                              C.coq_list([natlist(ln) for ln in npl]), e)),
                # the same call through the GENERATED argument checks and dispatch table
                (1, call_term(c, r))]
    out = []
    for li, ln in enumerate(c['_lines']):
        ys = [c['y'][p] for p in ln]
        ms = [is_bad(c['mask'][p]) for p in ln]
        xv = 'None' if c['xval'] is None else '(Some %s)' % qlist([c['xval'][p] for p in ln])
        e = '(QOk %s)' % qlist([r['ok'][p] for p in ln]) if 'ok' in r else 'QErr'
        out.append((li, '(CInterp %s %s %s %s)' % (qlist(ys), blist(ms), xv, e)))
    return out


# ---------------------------------------------------------------- aesthetics

def gen_aesth(rng, ctx, k):
    n = rng.randint(1, 12)
    meth = rng.choice(['traditional', 'noconst', 'mean', 'nothing'])
    t = rng.random()
    if t < 0.1:
        iv = [C.dyadic(rng, 0.125, 4, 3) for _ in range(n)]
    elif t < 0.2:
        iv = [0.0] * n                      # no good pixel at all: every method returns the spectrum as it is
    else:
        dens = rng.choice([0.2, 0.5, 0.8])
        iv = [0.0 if rng.random() < dens else C.dyadic(rng, 0.125, 4, 3) for _ in range(n)]
        if rng.random() < 0.4:
            iv[0] = 0.0
        if rng.random() < 0.4:
            iv[-1] = 0.0
    return {'f': 'aesth', 'method': meth, 'flux': [C.dyadic(rng, -16, 16, 6) for _ in range(n)], 'invvar': iv}


def aesth_term(c, r):
    e = '(QOk %s)' % qlist(r['ok']) if 'ok' in r else 'QErr'
    return '(CAesth %s %s %s %s)' % (c['method'].capitalize(), qlist(c['flux']), qlist(c['invvar']), e)


# ---------------------------------------------------------------- djs_median(reflect)

def gen_median(rng, ctx, k):
    if rng.random() < 0.75:
        shape = [rng.randint(1, 12)]
        width = rng.choice([1, 2, 3, 3, 4, 5, 5, 6, 7, 7, 8, 9, 9])
    else:
        width = rng.choice([1, 3, 3, 5, 5, 2, 4, 7])
        pad = (width + 1) // 2
        shape = [rng.randint(pad, pad + 4), rng.randint(pad, pad + 4)]
        if rng.random() < 0.15 and pad > 2:
            shape[rng.randrange(2)] = rng.randint(2, pad - 1)      # too short for the padding (not 1: that broadcasts)
    n = 1
    for s_ in shape:
        n *= s_
    span = rng.choice([2, 5, 50])
    xs = [rng.randint(-span, span) / 4.0 for _ in range(n)]
    return {'f': 'median', 'shape': shape, 'xs': xs, 'width': width}


def median_term(c, r):
    xs = [int(v * 4) for v in c['xs']]
    if len(c['shape']) == 1:
        e = '(MOk %s)' % zlist([int(Fr(v) * 4) for v in r['ok']]) if 'ok' in r else ('MErr' if r.get('err') == 'ValueError' else 'MOther')
        return '(CMedian %s %s %s)' % (zlist(xs), zl(c['width']), e)
    nr, nc = c['shape']
    rows = C.coq_list([zlist(xs[i * nc:(i + 1) * nc]) for i in range(nr)])
    if 'ok' in r:
        ok = r['ok']
        ex = '(M2Ok %s)' % C.coq_list([zlist([int(Fr(v) * 4) for v in ok[i * nc:(i + 1) * nc]]) for i in range(len(ok) // nc)])
    else:
        ex = 'M2Err' if r.get('err') == 'ValueError' else 'M2Other'
    return '(CMedian2 %s %s %s)' % (rows, zl(c['width']), ex)


# ---------------------------------------------------------------- skymask

DT = {'int16': (16, True), 'int32': (32, True), 'int64': (64, True), 'uint64': (64, False)}
BITSETS = [(27, 28), (3, 14), (31, 63)]


def gen_sky(rng, ctx, k, bits):
    dtype = rng.choice(['int16', 'int32', 'int32', 'int64', 'uint64'])
    w, signed = DT[dtype]
    nrows, npix = rng.randint(1, 3), rng.choice([1, 2, 3, 4, 5, 6, 8, 10, 12, 12, 25, 40])
    lo, hi = (-(1 << (w - 1)), (1 << (w - 1)) - 1) if signed else (0, (1 << w) - 1)
    fl = [1 << b for b in bits if b < w] or [0]
    other = [1 << b for b in range(w) if b not in bits]

    def pix(flag):
        v = 0
        for _ in range(rng.choice([0, 0, 1, 2, 5])):
            v |= rng.choice(other)
        if rng.random() < 0.1:
            v |= (1 << bits[0] - 1) if bits[0] > 0 else 0      # neighbouring bit: must not count
        if rng.random() < 0.1 and bits[1] + 1 < w:
            v |= 1 << (bits[1] + 1)
        if flag:
            v |= rng.choice(fl + [fl[0] | fl[-1]])
        v &= (1 << w) - 1
        if signed and v >= (1 << (w - 1)):
            v -= 1 << w
        return min(max(v, lo), hi)
    mask = []
    for _r in range(nrows):
        dens = rng.choice([0.0, 0.1, 0.1, 0.3])
        row = [rng.random() < dens for _ in range(npix)]
        if rng.random() < 0.35:
            row[0] = True
        if rng.random() < 0.35:
            row[-1] = True
        mask.extend(pix(f) for f in row)
    iv = [0.0 if rng.random() < 0.1 else C.dyadic(rng, 0.125, 8, 4) for _ in range(nrows * npix)]
    c = {'f': 'sky', 'shape': [nrows, npix], 'dtype': dtype, 'invvar': iv, 'mask': mask,
         'ngrow': rng.choice([0, 1, 2, 2, 3, 4, None, rng.randint(5, 130)]), '_bits': list(bits)}
    if rng.random() < 0.05:
        c['mask'] = None
    return c


def gen_sky_sweep(rng, ngrow, bits, dtype=None):
    """the dilation width is a free parameter of the property ("within ngrow pixels"): one call per ngrow with rows
    built to expose any artefact of routing the integer decision through floating point (smooth() of the scaled
    mask, then truncation and `> 0`): an isolated flagged pixel, flagged pixels at the row ends (the edge branches of
    smooth() add (istart-i)*signal[0]), clusters of 2..5 flagged pixels (sums k*width), a clean row between
    flagged rows, rows shorter than ngrow, rows just longer than the window"""
    dtype = dtype or rng.choice(['int32', 'int32', 'int32', 'int16', 'int64', 'uint64'])
    w, signed = DT[dtype]
    t = rng.random()
    if t < 0.3:
        npix = rng.randint(1, min(ngrow + 1, 60))              # ngrow >= row length
    elif t < (0.8 if ngrow <= 60 else 0.9) or ngrow > 150:
        npix = rng.randint(ngrow + 2, min(2 * ngrow + 3, ngrow + 40))    # only the edge branches of smooth()
    else:
        npix = 2 * ngrow + 1 + rng.randint(1, 12)              # the central branch as well
    fl = [1 << b for b in bits if b < w] or [0]

    def flagval():
        v = rng.choice(fl + [fl[0] | fl[-1]])
        if rng.random() < 0.3:
            v |= 1 << rng.choice([b for b in range(w - 1) if b not in bits])
        if signed and v >= (1 << (w - 1)):
            v -= 1 << w
        return v
    clean = rng.choice([0, 0, 1 << [b for b in range(w - 1) if b not in bits][0]])
    kinds = ['isolated', 'ends', 'cluster', 'clean', rng.choice(['isolated', 'ends', 'cluster', 'two'])]
    rng.shuffle(kinds)
    kinds = kinds[:rng.randint(3, 4)]
    mask = []
    for kind in kinds:
        row = [clean] * npix
        if kind == 'isolated':
            row[rng.randrange(npix)] = flagval()
        elif kind == 'ends':
            e = rng.choice(['l', 'r', 'lr'])
            if 'l' in e:
                row[0] = flagval()
            if 'r' in e:
                row[-1] = flagval()
            if rng.random() < 0.4:
                row[rng.randrange(npix)] = flagval()
        elif kind == 'cluster':
            k_, p0 = rng.randint(2, 5), rng.randrange(npix)
            step = rng.choice([1, 1, 2, max(1, ngrow // 2)])
            for j in range(k_):
                if p0 + j * step < npix:
                    row[p0 + j * step] = flagval()
        elif kind == 'two':
            for _ in range(2):
                row[rng.randrange(npix)] = flagval()
        mask.extend(row)
    nrows = len(kinds)
    iv = [C.dyadic(rng, 0.125, 8, 3) for _ in range(nrows * npix)]
    return {'f': 'sky', 'shape': [nrows, npix], 'dtype': dtype, 'invvar': iv, 'mask': mask, 'ngrow': ngrow,
            '_bits': list(bits), '_sweep': kinds}


def sky_terms(c, r, flags):
    nrows, npix = c['shape']
    ng = 2 if c['ngrow'] is None else c['ngrow']
    out = []
    for i in range(nrows):
        sl = slice(i * npix, (i + 1) * npix)
        m = 'None' if c['mask'] is None else '(Some %s)' % zlist(c['mask'][sl])
        e = '(QOk %s)' % qlist(r['ok'][sl]) if 'ok' in r else 'QErr'
        out.append((i, '(CSky %s %s %d%%nat %s %s %s)' % (zl(flags[0]), zl(flags[1]), ng, qlist(c['invvar'][sl]), m, e)))
    return out


# ---------------------------------------------------------------- input classes, histories

# the forms of the scalar / mask arguments a caller may use besides the usual ones: integer 0/1 masks (int8 .. uint8;
# the returned mask then has the integer type and is read by truthiness), int / numpy.bool_ sticky, numpy integer grow,
# Python int limits and sigma where the value is integral, explicit None for every absent keyword
LAYOUTS_1D = ['c', 'strided', 'rev', 'be']
LAYOUTS_ND = ['c', 'f', 't', 'strided', 'rev', 'be']
REJECT_ARGSTYLES = ['intmask', 'intflags', 'intlimits', 'explicit_none']


def pow2(k):
    return k > 0 and (k & (k - 1)) == 0


def decorate(rng, c):
    """input classes applied uniformly to every family: read-only arguments, float32 data (only where float32
    arithmetic stays exact, so that the 1e-12 comparison remains meaningful), further mask dtypes"""
    if rng.random() < 0.2:
        c['readonly'] = True
    f32 = rng.random() < 0.15
    f = c['f']
    # memory layout of the array arguments (every array of the call drawn independently): C, Fortran order, transposed
    # view, strided view of a longer buffer, reversed view -- the answer depends on the VALUES at the subscripts only
    nd = len(c.get('shape') or [1])
    if rng.random() < (0.6 if nd >= 2 else 0.3):
        pool = LAYOUTS_ND if nd >= 2 else LAYOUTS_1D
        c['layout'] = {k_: rng.choice(pool) for k_ in ('data', 'model', 'sigma', 'invvar', 'inmask', 'outmask', 'y', 'mask', 'xval',
                                                       'flux', 'xs', 'andmask')}
    if f == 'reject' and rng.random() < 0.25:
        c['argstyle'] = rng.choice(REJECT_ARGSTYLES)
        if c['argstyle'] == 'intmask':
            # masks of any dtype: a non-zero entry marks a good point (doc: bad points "evaluate to False"), for inmask
            # and for outmask (sticky, qdone) alike: any non-zero value of the dtype
            dt = rng.choice(['i1', 'i4', 'i8', 'u1', 'f4', 'f8', 'bool'])
            c['maskint'] = dt
            for key in ('inmask', 'outmask'):
                if c.get(key) is None:
                    continue
                if dt == 'bool':
                    good, zero = [True], [False]
                elif dt[0] == 'f':
                    good, zero = [1.0, 1.0, 0.5, 2.0, -1.0, 1e-30], [0.0, -0.0]
                else:
                    w = 8 * int(dt[1])
                    good = [1, 1, 2, 3, 4, 6] + ([-1, -2, -(1 << (w - 1))] if dt[0] == 'i' else [(1 << w) - 1, 1 << (w - 1)])
                    zero = [0]
                one = rng.choice(good)
                pick = (lambda one=one: one) if rng.random() < 0.4 else (lambda good=good: rng.choice(good))
                c[key + '_values'] = [pick() if b else rng.choice(zero) for b in c[key]]
    if f == 'reject' and f32 and c['_mode'] != 'invvar':
        c['dtypes'] = {'data': 'f4', 'model': 'f4', 'sigma': 'f4'}
    elif f == 'interp':
        if f32 and len(c['shape']) == 1:
            c['dtypes'] = {'y': 'f4', 'xval': 'f4'}
    elif f == 'aesth' and f32:
        if c['method'] == 'mean' and not pow2(sum(1 for v in c['invvar'] if v > 0)):
            c['method'] = 'traditional'          # a float32 mean is exact only over 2^k pixels
        c['dtypes'] = {'flux': 'f4', 'invvar': 'f4'}
    elif f == 'median' and f32:
        c['dtypes'] = {'xs': 'f4'}
    elif f == 'sky' and f32:
        c['dtypes'] = {'invvar': 'f4'}
    return c


def shared(values, shape, dtype, rng):
    return {'v': values, 'shape': shape, 'dtype': dtype, 'readonly': rng.random() < 0.15,
            'layout': rng.choice(['c', 'c'] + (LAYOUTS_ND if len(shape) >= 2 else LAYOUTS_1D))}


def gen_history(rng, ctx, k, bits):
    """several calls in ONE process on the SAME array objects.  -> (arrays, [ref-form step], [resolved step]);
    every resolved step is an ordinary call carrying the ORIGINAL values, so the model's answer for it does not
    depend on what earlier steps did."""
    fam = rng.choice(['aesth', 'aesth', 'reject', 'reject', 'interp', 'sky', 'median'])
    arrays, refs, steps = {}, [], []
    if fam == 'aesth':
        n = rng.randint(2, 12)
        f32 = rng.random() < 0.3
        dt = 'f4' if f32 else 'd'
        flux = [C.dyadic(rng, -16, 16, 6) for _ in range(n)]
        ivs = {}
        for nm in ('ivA', 'ivB'):
            iv = [0.0 if rng.random() < rng.choice([0.3, 0.6]) else C.dyadic(rng, 0.125, 4, 3) for _ in range(n)]
            if not any(iv):
                iv[rng.randrange(n)] = 1.5
            ivs[nm] = iv
            arrays[nm] = shared(iv, [n], dt, rng)
        arrays['flux'] = shared(flux, [n], dt, rng)
        meths = [rng.choice(['traditional', 'noconst', 'mean', 'mean', 'nothing']) for _ in range(rng.randint(3, 5))]
        if 'mean' not in meths[:-1]:
            meths[0] = 'mean'
        for m in meths:
            nm = rng.choice(['ivA', 'ivB'])
            if m == 'mean' and f32 and not pow2(sum(1 for v in ivs[nm] if v > 0)):
                m = 'nothing'
            refs.append({'f': 'aesth', 'method': m, 'flux': {'ref': 'flux'}, 'invvar': {'ref': nm}})
            steps.append({'f': 'aesth', 'method': m, 'flux': flux, 'invvar': ivs[nm]})
    elif fam == 'reject':
        while True:
            c = gen_reject(rng, ctx, k)
            if len(c['shape']) == 1:
                break
        n = c['shape'][0]
        arrays['data'] = shared(c['data'], [n], 'd', rng)
        arrays['model'] = shared(c['model'], [n], 'd', rng)
        scale_keys = tuple(k_ for k_ in ('sigma', 'invvar') if isinstance(c.get(k_), list))
        for scale_key in scale_keys:
            arrays[scale_key] = shared(c[scale_key], [n], 'd', rng)
        if c['inmask'] is not None:
            arrays['inmask'] = shared(c['inmask'], [n], 'bool', rng)
        if c['outmask'] is not None:
            arrays['outmask'] = shared(c['outmask'], [n], 'bool', rng)
        for j in range(rng.randint(2, 4)):          # iterations re-using the previous output mask
            st = dict(c)
            st['sticky'] = rng.random() < 0.5
            st['grow'] = rng.choice([0, 0, 1, 2])
            for lim in ('lower', 'upper', 'maxdev'):
                if c[lim] is not None and rng.random() < 0.3 and c['_mode'] != 'maxdev_only':
                    st[lim] = None
            rf = public(st)
            for key in ('data', 'model', 'inmask') + scale_keys:
                if key in arrays:
                    rf[key] = {'ref': key}
            if j == 0:
                rf['outmask'] = {'ref': 'outmask'} if 'outmask' in arrays else None
            else:
                rf['outmask'] = {'prev': j - 1}
                st['outmask'] = ('prev', j - 1)
            refs.append(rf)
            steps.append(st)
    elif fam == 'interp':
        while True:
            c = gen_interp(rng, ctx, k)
            if len(c['shape']) == 1:
                break
        n = c['shape'][0]
        masks = {'mask': c['mask'], 'mask2': remap_masks(rng, [gen_mask_line(rng, n)], c['maskdtype'])[0][0]}
        arrays['y'] = shared(c['y'], [n], 'd', rng)
        for nm, m in masks.items():
            arrays[nm] = shared(m, [n], c['maskdtype'], rng)
        if c['xval'] is not None:
            arrays['xval'] = shared(c['xval'], [n], 'd', rng)
        for j in range(rng.randint(2, 4)):
            nm = rng.choice(['mask', 'mask2'])
            usex = c['xval'] is not None and rng.random() < 0.6
            st = {'f': 'interp', 'shape': [n], 'y': c['y'], 'mask': masks[nm], 'xval': c['xval'] if usex else None,
                  'const': rng.random() < 0.5, 'maskdtype': c['maskdtype'], '_lines': [list(range(n))], 'axis': 0}
            if rng.random() < 0.5:
                st['direct1'] = True
            rf = public(st)
            rf.update({'y': {'ref': 'y'}, 'mask': {'ref': nm}, 'xval': {'ref': 'xval'} if usex else None})
            refs.append(rf)
            steps.append(st)
    elif fam == 'sky':
        c = gen_sky(rng, ctx, k, bits)
        if c['mask'] is None:
            c['mask'] = [0] * (c['shape'][0] * c['shape'][1])
        arrays['invvar'] = shared(c['invvar'], c['shape'], 'd', rng)
        arrays['mask'] = shared(c['mask'], c['shape'], c['dtype'], rng)
        for j in range(rng.randint(2, 3)):
            st = dict(c)
            st['ngrow'] = rng.choice([0, 1, 2, 3, None, rng.randint(4, 130)])
            rf = public(st)
            rf.update({'invvar': {'ref': 'invvar'}, 'mask': {'ref': 'mask'}})
            refs.append(rf)
            steps.append(st)
    else:
        c = gen_median(rng, ctx, k)
        arrays['xs'] = shared(c['xs'], c['shape'], 'd', rng)
        for j in range(rng.randint(2, 3)):
            st = dict(c)
            ws = [w for w in (1, 3, 3, 5, c['width'])
                  if len(c['shape']) == 1 or all(d >= (w + 1) // 2 or d >= 2 for d in c['shape'])]   # a single row/column shorter than the padding broadcasts: not modelled
            st['width'] = rng.choice(ws)
            rf = public(st)
            rf['xs'] = {'ref': 'xs'}
            refs.append(rf)
            steps.append(st)
    # class A: the CALLER refills one of the shared arrays in place between two calls (x[...] = new, or x += delta);
    # the calls after it are judged on the values the array then holds -- nothing may be remembered per array object
    field = {'aesth': 'flux', 'interp': 'y', 'median': 'xs', 'sky': 'invvar'}.get(fam)
    if field and len(steps) >= 2 and rng.random() < 0.6:
        name = field
        old = arrays[name]['v']
        if fam == 'median':
            new = [rng.randint(-50, 50) / 4.0 for _ in old]
        elif fam == 'sky':
            new = [0.0 if rng.random() < 0.1 else C.dyadic(rng, 0.125, 8, 4) for _ in old]
        else:
            new = [C.dyadic(rng, -16, 16, 6) for _ in old]
        k_ = rng.randint(1, len(steps) - 1)
        for st in steps[k_:]:
            st[field] = new
        refs.insert(k_, {'f': 'mutate', 'name': name, 'v': new, 'how': rng.choice(['assign', 'iadd'])})
    return arrays, refs, steps


# ---------------------------------------------------------------- signatures

def impl_class(r):
    return 'ok' if 'ok' in r else r.get('err', '?')


def signature(c, r, verdict):
    f = c['f']
    what = 'property' if verdict & 2 else 'model'
    if f == 'reject':
        g = c['grow']
        cls = 'grow=0' if g == 0 else ('grow=1' if g == 1 else 'grow>=2')
        if c['_mode'].startswith('both'):
            cls += ':sigma+invvar'
        if c.get('argstyle') == 'intmask':
            cls = 'intmask-values'
        elif c.get('argstyle'):
            cls += ':' + c['argstyle']
    elif f == 'interp':
        cls = ('call:' if '_call' in c else '') + ('xval' if c['xval'] is not None else 'index')
    elif f == 'aesth':
        cls = c['method']
    elif f == 'median':
        cls = '%dd' % len(c['shape'])
    else:
        cls = ('signed' if DT[c['dtype']][1] else 'unsigned') + (':ngrow>=5' if (c.get('ngrow') or 0) >= 5 else '')
        f = 'skymask'
    hist = ':after-other-calls-on-the-same-arrays' if c.get('_hist', (0, 0))[1] > 0 else ''
    return 'C17:%s:%s:impl=%s:%s%s' % (f, cls, impl_class(r), what, hist)


def public(c):
    return {k: v for k, v in c.items() if not k.startswith('_')}


def size_of(c):
    """rank used to choose the representative failing input: int32 masks (what spPlate stores) first, then small"""
    return (0 if c.get('dtype', 'int32') == 'int32' else 1, sum(len(v) for v in c.values() if isinstance(v, list)))


def correspond(ctx, proof_ok=True):
    ok, log = C.coq_make(['C17/Model.vo'])
    if not ok:
        raise RuntimeError('C17/Model.v does not build:\n' + log[-2000:])
    rng = ctx.rng
    calls = []                                   # (bits index, call)
    for k in range(ctx.n(640, 12000)):
        calls.append((0, decorate(rng, gen_reject(rng, ctx, k))))
    for k in range(ctx.n(600, 8000)):
        calls.append((0, decorate(rng, gen_interp(rng, ctx, k))))
    for k in range(ctx.n(200, 3000)):
        calls.append((0, decorate(rng, gen_interp_call(rng, ctx, k))))
    for k in range(ctx.n(250, 4000)):
        calls.append((0, decorate(rng, gen_aesth(rng, ctx, k))))
    for k in range(ctx.n(300, 5000)):
        calls.append((0, decorate(rng, gen_median(rng, ctx, k))))
    for k in range(ctx.n(450, 8000)):
        bi = 0 if k % 2 == 0 else (1 if k % 4 == 1 else 2)
        calls.append((bi, decorate(rng, gen_sky(rng, ctx, k, BITSETS[bi]))))
    # the dilation width swept over its range: every ngrow of 0..120 (thorough: 0..300, three times), some beyond
    sweep = list(range(0, 121)) + [rng.randint(121, 400) for _ in range(6)]
    if ctx.thorough:
        sweep = list(range(0, 301)) * 3 + [rng.randint(301, 1200) for _ in range(30)]
    n_plain = len(calls)
    for k, g in enumerate(sweep):
        bi = 0 if k % 3 else rng.choice([1, 2])
        calls.append((bi, decorate(rng, gen_sky_sweep(rng, g, BITSETS[bi]))))
    # histories: several calls in one process on the same array objects; every step is an ordinary entry of
    # `calls` (with the ORIGINAL values) that is executed as part of its history
    histories = []                               # {'arrays', 'steps' (ref form), 'members' (indices into calls)}
    for k in range(ctx.n(300, 5000)):
        arrays, refs, steps = gen_history(rng, ctx, k, BITSETS[0])
        members = []
        for j, st in enumerate(steps):
            st['_hist'] = (len(histories), j)
            members.append(len(calls))
            calls.append((0, st))
        histories.append({'arrays': arrays, 'steps': refs, 'members': members})
    # run the implementation: one process per (bit placement, slice)
    nb = 5
    payloads, where = [], []
    for bi in range(len(BITSETS)):
        mine = [k for k, (b, c_) in enumerate(calls) if b == bi and '_hist' not in c_]
        for s_ in range(nb):
            part = mine[s_::nb]
            if part:
                payloads.append({'bits': list(BITSETS[bi]), 'calls': [public(calls[k][1]) for k in part]})
                where.append(part)
    for s_ in range(nb):
        hs = histories[s_::nb]
        if hs:
            payloads.append({'bits': list(BITSETS[0]), 'calls': [{'f': 'history', 'arrays': h['arrays'], 'steps': h['steps']} for h in hs]})
            where.append(('hist', hs))
    outs = C.run_impl_parallel('c17_impl.py', payloads)
    results = [None] * len(calls)
    flags_of = {}
    for part, o, pl in zip(where, outs, payloads):
        flags_of[tuple(pl['bits'])] = o['flags']
        if isinstance(part, tuple):
            for h, r in zip(part[1], o['results']):
                for k, sr in zip(h['members'], [sr_ for sr_ in r.get('steps', []) if not sr_.get('mutate')]):
                    results[k] = sr
            continue
        for k, r in zip(part, o['results']):
            results[k] = r
    for k in range(len(results)):
        if results[k] is None:
            results[k] = {'err': 'NotRun'}
        # a NaN / infinity in a returned array is an outcome class of its own (never expected: all inputs are finite);
        # the case then carries QErr / NDOther, so that M and S both disagree and the input is reported
        ok = results[k].get('ok')
        if isinstance(ok, list) and any(isinstance(v, float) and (v != v or v in (float('inf'), float('-inf'))) for v in ok):
            results[k] = {'err': 'NonFinite', 'msg': 'returned array holds NaN or infinity: %s' % str(ok)[:160],
                          'mutated': results[k].get('mutated', []), 'aliased': results[k].get('aliased', [])}
    # a djs_reject iteration takes the mask returned by the previous step of its history as its outmask
    for h in histories:
        for k in h['members']:
            c_ = calls[k][1]
            if isinstance(c_.get('outmask'), tuple):
                pr = results[h['members'][c_['outmask'][1]]]
                if 'ok' in pr:
                    c_['outmask'] = pr['ok']['mask']
                else:
                    c_['outmask'] = None
                    results[k] = {'err': 'NotRun'}
    ctx.coverage['pydl_file'] = outs[0]['pydl_file']
    ctx.coverage['numpy'] = outs[0]['numpy']
    ctx.coverage['flag_values'] = {str(k): v for k, v in flags_of.items()}
    # the harness's cutting of n-D arrays into lines must be numpy's own (moveaxis) cutting
    for (bi, c), r in zip(calls, results):
        if c['f'] == 'interp' and '_call' not in c and 'np_lines' in r and sorted(map(tuple, r['np_lines'])) != sorted(map(tuple, c['_lines'])):
            raise RuntimeError('harness lines_of disagrees with numpy.moveaxis for shape %s' % c['shape'])
    for bits, fl in flags_of.items():
        if fl != [1 << bits[0], 1 << bits[1]]:
            ctx.violation('C17:skymask:flagval', 'sdss_flagval does not return 2^bit for SPPIXMASK bits %s: %s' % (bits, fl),
                          {'kind': 'broken-correspondence', 'item': 'sdss_flagval(SPPIXMASK, BADSKYCHI/REDMONSTER)', 'bits': bits, 'flags': fl}, False)
    # Coq terms
    terms = []                                   # (call index, sub index, term)
    for ci, ((bi, c), r) in enumerate(zip(calls, results)):
        f = c['f']
        if r.get('err') == 'NotRun':
            continue
        if f == 'reject':
            if c['_mode'].startswith('both'):
                terms.append((ci, 0, reject_term(c, r, call_level=True)))
            else:
                terms.append((ci, 0, reject_term(c, r)))
                if ci % 4 == 0:
                    # the same call once more with the keywords as supplied (one keyword alone / neither)
                    terms.append((ci, 1, reject_term(c, r, call_level=True)))
        elif f == 'interp':
            terms.extend((ci, j, t) for j, t in interp_terms(c, r))
        elif f == 'aesth':
            terms.append((ci, 0, aesth_term(c, r)))
        elif f == 'median':
            terms.append((ci, 0, median_term(c, r)))
        else:
            terms.extend((ci, j, t) for j, t in sky_terms(c, r, flags_of[tuple(c['_bits'])]))
    # rows with a wide dilation are expensive for S (exhaustive search): they get small shards of their own
    heavy = [k for k, (ci, _, _) in enumerate(terms) if calls[ci][1]['f'] == 'sky' and (calls[ci][1].get('ngrow') or 0) > 8]
    hs = set(heavy)
    light = [k for k in range(len(terms)) if k not in hs]
    cc = C.CoqCases(ctx.work, HEADER, 'run_cases', shard=ctx.n(120, 250))
    verdicts = [None] * len(terms)
    for k, v in zip(light, cc.run([terms[k][2] for k in light])):
        verdicts[k] = v
    cc.shard = ctx.n(10, 25)
    for k, v in zip(heavy, cc.run([terms[k][2] for k in heavy], tag='wide')):
        verdicts[k] = v
    ctx.coverage['coq_eval_s'] = round(cc.coq_seconds, 1)

    # bookkeeping
    dist = {}
    for (bi, c), r in zip(calls, results):
        key = '%s:%s' % (c['f'], impl_class(r))
        dist[key] = dist.get(key, 0) + 1
    rej = [(c, r) for (_, c), r in zip(calls, results) if c['f'] == 'reject']
    sky = [(c, r) for (_, c), r in zip(calls, results) if c['f'] == 'sky']
    itp = [(c, r) for (_, c), r in zip(calls, results) if c['f'] == 'interp']
    med = [(c, r) for (_, c), r in zip(calls, results) if c['f'] == 'median']
    bad = [(ci, j, t, v) for (ci, j, t), v in zip(terms, verdicts) if v != 0]
    ctx.coverage.update({
        'evaluations': len(terms),
        'distinct_nontrivial': len(set(t for _, _, t in terms)),
        'rule': 'one evaluation = one call (alone, or as a step of a history of calls on the same array objects) of djs_reject / aesthetics / djs_median(reflect) / djs_maskinterp (1-D: the '
                'vector; n-D: the whole array with the index lists of its lines), or one row of a skymask call, whose observed output is compared inside Coq with the '
                'transliterated model M (bit 1) and with the specification S (bit 2); distinct = distinct Coq case terms',
        'calls_by_function_and_outcome': dist,
        'reject': {'grow': {str(g): sum(1 for c, _ in rej if c['grow'] == g) for g in range(5)},
                   'sticky': sum(1 for c, _ in rej if c['sticky']),
                   'scale': {m: sum(1 for c, _ in rej if c['_mode'] == m)
                             for m in ('sigma_scalar', 'sigma_array', 'invvar', 'maxdev_only', 'both_scalar', 'both_array')},
                   'both_keywords_where_the_invvar_rule_would_give_another_mask': sum(1 for c, _ in rej if both_discriminates(c)),
                   'argstyle': {a_: sum(1 for c, _ in rej if c.get('argstyle') == a_) for a_ in REJECT_ARGSTYLES},
                   'qdone_true': sum(1 for _, r in rej if 'ok' in r and r['ok']['qdone']),
                   'with_rejections': sum(1 for _, r in rej if 'ok' in r and not all(r['ok']['mask'])),
                   'ndim>1': sum(1 for c, _ in rej if len(c['shape']) > 1)},
        'interp': {'ndim': {str(d): sum(1 for c, _ in itp if len(c['shape']) == d) for d in (1, 2, 3)},
                   'xval': sum(1 for c, _ in itp if c['xval'] is not None),
                   'lines': sum(len(c['_lines']) for c, _ in itp),
                   'mask_dtype': {d: sum(1 for c, _ in itp if c['maskdtype'] == d) for d in MASK_DTYPES},
                   'mask_style': {st: sum(1 for c, _ in itp if c.get('_maskstyle') == st) for st in ('asis', 'negative', 'mixed')},
                   'lines_with_only_zero_and_negative_entries': sum(
                       1 for c, _ in itp for ln in c['_lines']
                       if any(is_bad(c['mask'][p]) for p in ln if p < len(c['mask']))
                       and all(isinstance(c['mask'][p], str) or c['mask'][p] <= 0 for p in ln if p < len(c['mask']))),
                   'call_family': {kd: sum(1 for c, _ in itp if c.get('_call') == kd)
                                   for kd in ('mshape', 'xshape', 'axis_none', 'axis_neg', 'axis_big', 'ndim4', 'valid')},
                   'call_outcomes': {o: sum(1 for c, r in itp if '_call' in c and impl_class(r) == o)
                                     for o in set(impl_class(r) for c, r in itp if '_call' in c)}},
        'aesthetics': {'all_bad': sum(1 for (_, c), r in zip(calls, results) if c['f'] == 'aesth' and not any(c['invvar'])),
                       'by_method': {m: sum(1 for (_, c) in calls if c['f'] == 'aesth' and c['method'] == m)
                                     for m in ('traditional', 'noconst', 'mean', 'nothing')}},
        'median': {'widths': {str(w): sum(1 for c, _ in med if c['width'] == w) for w in range(1, 10)},
                   '2d': sum(1 for c, _ in med if len(c['shape']) == 2)},
        'skymask': {'dtype': {d: sum(1 for c, _ in sky if c['dtype'] == d) for d in DT},
                    'ngrow': {str(g): sum(1 for c, _ in sky if c['ngrow'] == g) for g in (0, 1, 2, 3, 4, None)},
                    'ngrow_5_to_120': sum(1 for c, _ in sky if (c['ngrow'] or 0) in range(5, 121)),
                    'ngrow_above_120': sum(1 for c, _ in sky if (c['ngrow'] or 0) > 120),
                    'distinct_ngrow': len(set(c['ngrow'] for c, _ in sky)),
                    'ngrow>=row_length': sum(1 for c, _ in sky if (c['ngrow'] or 0) >= c['shape'][1]),
                    'sweep_calls': sum(1 for c, _ in sky if '_sweep' in c),
                    'sweep_row_kinds': {kd: sum(c['_sweep'].count(kd) for c, _ in sky if '_sweep' in c)
                                        for kd in ('isolated', 'ends', 'cluster', 'two', 'clean')},
                    'bit_placements': [list(b) for b in BITSETS]},
        'model_disagreements': sum(1 for b in bad if b[3] & 1),
        'spec_violations': sum(1 for b in bad if b[3] & 2),
        'samples': [{'call': public(calls[ci][1]), 'impl': results[ci], 'coq_case': t[:400]}
                    for ci, j, t in [terms[0], terms[len(terms) // 3], terms[len(terms) // 2], terms[-1]]],
    })
    # generic post-conditions of every call: caller-owned arguments bit-identical afterwards
    hist_of = lambda c_: histories[c_['_hist'][0]] if '_hist' in c_ else None      # noqa: E731
    seen_mut = set()
    n_mut = 0
    alias = {}
    for ci, ((bi, c), r) in enumerate(zip(calls, results)):
        for a_ in r.get('aliased') or []:
            key = '%s:%s' % (c['f'], a_)
            alias[key] = alias.get(key, 0) + 1
        if r.get('mutated'):
            n_mut += 1
            sig = 'C17:%s:argument-modified:%s' % ('skymask' if c['f'] == 'sky' else c['f'], '+'.join(sorted(r['mutated'])))
            if sig in seen_mut:
                continue
            seen_mut.add(sig)
            h = hist_of(c)
            rep = {'kind': 'failing-input', 'call': public(c), 'bits': list(BITSETS[bi]), 'impl_result': r,
                   'modified_arguments': r['mutated'],
                   'meaning': 'after the call the listed caller-owned ndarray arguments are no longer bit-identical to the copy '
                              'taken before it: the routine wrote into its input, so any later use of the same array sees altered data'}
            if h is not None:
                rep['history'] = {'arrays': h['arrays'], 'steps': h['steps'], 'step': c['_hist'][1]}
            ctx.violation(sig, '%s modified its argument(s) %s in place, e.g. %s' % (c['f'], r['mutated'], str(public(c))[:300]), rep, True)
    ctx.coverage['argument_checks'] = {
        'calls_checked': sum(1 for r in results if 'mutated' in r), 'calls_with_modified_argument': n_mut,
        'result_shares_memory_with_argument': alias,
        'read_only_arguments': sum(1 for _, c in calls if c.get('readonly')) + sum(1 for h in histories for a_ in h['arrays'].values() if a_['readonly']),
        'float32_calls': sum(1 for _, c in calls if c.get('dtypes')) + sum(1 for h in histories if any(a_['dtype'] == 'f4' for a_ in h['arrays'].values())),
        'histories': len(histories), 'history_steps': sum(len(h['members']) for h in histories),
        'histories_with_an_array_refilled_in_place_by_the_caller': sum(1 for h in histories if any(st.get('f') == 'mutate' for st in h['steps'])),
        'layouts': {l_: sum(1 for _, c in calls if isinstance(c.get('layout'), dict) and l_ in c['layout'].values()) for l_ in LAYOUTS_ND},   # 'be' = non-native byte order
        'note': 'a result that shares memory with an UNMODIFIED argument (the routine returned its input because there was nothing to do) '
                'is counted here and not reported; a modified argument is a violation'}
    # one violation per signature, smallest input first
    best = {}
    for ci, j, t, v in bad:
        c = calls[ci][1]
        sig = signature(c, results[ci], v)
        if sig not in best or size_of(c) < size_of(calls[best[sig][0]][1]):
            best[sig] = (ci, j, t, v)
    count = {}
    for ci, j, t, v in bad:
        sig = signature(calls[ci][1], results[ci], v)
        count[sig] = count.get(sig, 0) + 1
    for sig, (ci, j, t, v) in sorted(best.items()):
        bi, c = calls[ci]
        rep = {'call': public(c), 'bits': list(BITSETS[bi]), 'sub_index': j, 'impl_result': results[ci], 'coq_case': t,
               'verdict': v, 'cases_with_this_signature': count[sig],
               'history': (None if '_hist' not in c else
                           {'arrays': histories[c['_hist'][0]]['arrays'], 'steps': histories[c['_hist'][0]]['steps'], 'step': c['_hist'][1],
                            'note': 'the call above is step `step` of this history: all steps run in one process on the same array '
                                    'objects; `call` shows the ORIGINAL values the arrays held, which is what the expected answer is computed from'}),
               'meaning': 'verdict bit 2: the observed output contradicts the specification S of C17/Model.v (certified by the '
                          'theorems of C17/Props.v); bit 1: the transliterated model M differs from the observed output'}
        if v & 2:
            rep['kind'] = 'failing-input'
            ctx.violation(sig, '%s: observed output contradicts the specification (%d cases), e.g. %s -> %s' % (
                c['f'], count[sig], str(public(c))[:300], str(results[ci])[:200]), rep, True)
        else:
            rep['kind'] = 'broken-correspondence'
            rep['item'] = 'C17.Model.run_case (%s)' % c['f']
            ctx.violation(sig, '%s: model and implementation disagree, specification satisfied (%d cases)' % (c['f'], count[sig]),
                          rep, False)


def replay(ctx, rep):
    c = rep.get('call')
    if not c:
        print('replay file has no call (kind=%s, item=%s)' % (rep.get('kind'), rep.get('item')))
        return 2
    h = rep.get('history')
    if h:
        out = C.run_impl('c17_impl.py', {'bits': rep.get('bits', [27, 28]), 'calls': [{'f': 'history', 'arrays': h['arrays'], 'steps': h['steps']}]})
        steps = [sr_ for sr_ in out['results'][0].get('steps', []) if not sr_.get('mutate')]
        print('history:', h['steps'])
        out = {'results': [steps[h['step']] if h['step'] < len(steps) else None]}
        print('step   :', h['step'])
    else:
        out = C.run_impl('c17_impl.py', {'bits': rep.get('bits', [27, 28]), 'calls': [c]})
    print('call   :', c)
    print('impl   :', out['results'][0])
    print('before :', rep.get('impl_result'))
    if rep.get('coq_case'):
        cc = C.CoqCases(ctx.work, HEADER, 'run_cases')
        print('coq verdict on the recorded output:', cc.show('run_case %s' % rep['coq_case']))
    return 0
