(* C12 -- Mangle window functions decide point membership exactly as the caps define.
   The algorithmic model (in_polygon, in_window, set_use_caps, balkans_slice, is_cap_used, usencaps, same_cap) is built
   from Generated/Mangle.v and the real-valued formula gen_is_in_cap / gen_cap_distance / gen_x0..2 is
   Generated/MangleR.v: both are REGENERATED from pydl/pydlutils/mangle.py and pydl/photoop/window.py on every run
   (translate/c12.py), so the theorems below hold or fail with the source.
   Property theorems only; each is closed by `exact` and followed by Print Assumptions.
   Theorems over R (the arccos formula of cap_distance) depend on the axioms of Coq's standard
   real-number library; everything about the executable model (Q, Z, lists) is axiom-free. *)
From Coq Require Import ZArith QArith Qabs Qreals Reals List Bool.
Import ListNotations.
From PV Require Import C12.Spec Generated.Mangle C12.RBase Generated.MangleR C12.Model C12.Arccos C12.Proofs C12.SetUse
  C12.Storage C12.Bridge C12.Region C12.RaDec C12.Loops C12.Tolerance C12.Ties C12.Pointwise.
Open Scope Z_scope.

(* ---- the code's formula is the property's algebraic test (over the reals) ---- *)

Theorem C12_arccos_test_equiv : forall d c : R, (-1 <= d <= 1)%R -> (0 <= c <= 2)%R ->
  ((acos (1 - c) - acos d >= 0)%R <-> (1 - d <= c)%R).
Proof. exact arccos_test_equiv. Qed.
Print Assumptions C12_arccos_test_equiv.

(* gen_is_in_cap cm d  =  gen_cap_distance cm d >= 0  with  gen_cap_distance = degrees(acos(1-|cm|) - acos(clip d)),
   times -1 for cm < 0: the text of cap_distance / is_in_cap *)
Theorem C12_cap_distance_sign : forall cm d : R, (-1 <= d <= 1)%R -> (-2 <= cm <= 2)%R ->
  (gen_is_in_cap cm d <-> if Rlt_dec cm 0 then (- cm <= 1 - d)%R else (1 - d <= cm)%R).
Proof. exact cap_distance_sign. Qed.
Print Assumptions C12_cap_distance_sign.

(* thanks to the clip a rounded dot product d > 1 (point at the cap's own centre) is harmless *)
Theorem C12_cap_distance_clipped_sign : forall cm d : R, (-1 <= d)%R -> (0 <= cm <= 2)%R ->
  (gen_is_in_cap cm d <-> (1 - d <= cm)%R).
Proof. exact cap_distance_clipped_sign. Qed.
Print Assumptions C12_cap_distance_clipped_sign.

Theorem C12_centre_always_inside : forall cm d : R, (1 <= d)%R -> (0 <= cm <= 2)%R -> gen_is_in_cap cm d.
Proof. exact centre_always_inside. Qed.
Print Assumptions C12_centre_always_inside.

(* cm < 0 is the complement -- off the common boundary, where the code answers "inside" for both signs *)
Theorem C12_neg_cap_is_complement_R : forall c d : R, (-1 <= d <= 1)%R -> (0 < c <= 2)%R -> (1 - d <> c)%R ->
  (gen_is_in_cap (- c) d <-> ~ gen_is_in_cap c d).
Proof. exact neg_cap_is_complement. Qed.
Print Assumptions C12_neg_cap_is_complement_R.

Theorem C12_boundary_in_both_R : forall c d : R, (-1 <= d <= 1)%R -> (0 < c <= 2)%R -> (1 - d = c)%R ->
  gen_is_in_cap (- c) d /\ gen_is_in_cap c d.
Proof. exact Arccos.boundary_in_both. Qed.
Print Assumptions C12_boundary_in_both_R.

(* ---- RA/Dec input: angles_to_x(points, latitude=True) as extracted (gen_phi, gen_theta_lat, gen_x0..2) ---- *)

Theorem C12_angles_to_x_is_unit_vector : forall ra dec : R,
  angles_to_x_lat ra dec = radec_unit ra dec /\ unitR (radec_unit ra dec).
Proof. exact (fun ra dec => conj (angles_to_x_lat_is_radec_unit ra dec) (radec_unit_is_unit ra dec)). Qed.
Print Assumptions C12_angles_to_x_is_unit_vector.

(* membership decided on RA/Dec input = the property's cap test on (cos dec cos ra, cos dec sin ra, sin dec) *)
Theorem C12_radec_membership : forall x cm ra dec, unitR x -> (-2 <= cm <= 2)%R ->
  (gen_is_in_cap cm (dotR (angles_to_x_lat ra dec) x) <->
   if Rlt_dec cm 0 then (- cm <= 1 - dotR (radec_unit ra dec) x)%R else (1 - dotR (radec_unit ra dec) x <= cm)%R).
Proof. exact radec_membership. Qed.
Print Assumptions C12_radec_membership.

Theorem C12_radec_and_cartesian_agree : forall x cm ra dec,
  gen_is_in_cap cm (dotR (angles_to_x_lat ra dec) x) <-> gen_is_in_cap cm (dotR (radec_unit ra dec) x).
Proof. exact radec_and_cartesian_agree. Qed.
Print Assumptions C12_radec_and_cartesian_agree.

(* the executable cap test of the model, on rationals, IS the sign test of the code's formula on the same numbers *)
Theorem C12_in_cap_is_arccos_test : forall c p,
  (-1 <= Q2R (dot (cx c) p) <= 1)%R -> (-2 <= Q2R (ccm c) <= 2)%R ->
  (in_cap c p = true <-> gen_is_in_cap (Q2R (ccm c)) (Q2R (dot (cx c) p))).
Proof. exact in_cap_is_arccos_test. Qed.
Print Assumptions C12_in_cap_is_arccos_test.

(* ... also when rounding pushed x.p above 1 (cm >= 0) *)
Theorem C12_in_cap_is_arccos_test_pos : forall c p,
  (-1 <= Q2R (dot (cx c) p))%R -> (0 <= Q2R (ccm c) <= 2)%R ->
  (in_cap c p = true <-> gen_is_in_cap (Q2R (ccm c)) (Q2R (dot (cx c) p))).
Proof. exact in_cap_is_arccos_test_pos. Qed.
Print Assumptions C12_in_cap_is_arccos_test_pos.

(* ---- caps (executable model over Q) ---- *)

Theorem C12_in_cap_spec : forall c p,
  in_cap c p = true <->
  ((0 <= ccm c)%Q /\ (1 - dot (cx c) p <= ccm c)%Q) \/ ((ccm c < 0)%Q /\ (- ccm c <= 1 - dot (cx c) p)%Q).
Proof. exact in_cap_spec. Qed.
Print Assumptions C12_in_cap_spec.

Theorem C12_centre_in_cap : forall c, (0 <= ccm c)%Q -> (1 - ccm c <= dot (cx c) (cx c))%Q -> in_cap c (cx c) = true.
Proof. exact centre_in_cap. Qed.
Print Assumptions C12_centre_in_cap.

Theorem C12_neg_cap_complement : forall c p, (0 < ccm c)%Q -> ~ (1 - dot (cx c) p == ccm c)%Q ->
  in_cap (negate c) p = negb (in_cap c p).
Proof. exact neg_cap_complement. Qed.
Print Assumptions C12_neg_cap_complement.

Theorem C12_in_cap_strict_off_boundary : forall c p, on_boundary c p = false -> in_cap_strict c p = in_cap c p.
Proof. exact in_cap_strict_off_boundary. Qed.
Print Assumptions C12_in_cap_strict_off_boundary.

(* ---- polygons ---- *)

Theorem C12_is_cap_used_testbit : forall u i, is_cap_used u i = Z.testbit u (Z.of_nat i).
Proof. exact is_cap_used_testbit. Qed.
Print Assumptions C12_is_cap_used_testbit.

(* the extracted restriction  usencaps = NCAPS; if ncaps > 0: usencaps = min(ncaps, NCAPS) *)
Theorem C12_usencaps_is_spec : forall P ncaps, usencaps P ncaps = spec_usencaps P ncaps.
Proof. exact usencaps_eq. Qed.
Print Assumptions C12_usencaps_is_spec.

Theorem C12_in_polygon_spec : forall P ncaps p, (pn P <= length (pcaps P))%nat ->
  (in_polygon P ncaps p = true <->
   (forall i c, (i < spec_usencaps P ncaps)%nat -> nth_error (pcaps P) i = Some c ->
                Z.testbit (puse P) (Z.of_nat i) = true -> in_cap c p = true)).
Proof. exact in_polygon_spec. Qed.
Print Assumptions C12_in_polygon_spec.

Theorem C12_in_polygon_refines : forall P ncaps p, (pn P <= length (pcaps P))%nat ->
  in_polygon P ncaps p = spec_in_polygon P ncaps p.
Proof. exact in_polygon_refines. Qed.
Print Assumptions C12_in_polygon_refines.

Theorem C12_no_caps_contains_all : forall P ncaps p, pn P = 0%nat -> in_polygon P ncaps p = true.
Proof. exact no_caps_contains_all. Qed.
Print Assumptions C12_no_caps_contains_all.

Theorem C12_no_used_caps_contains_all : forall P ncaps p, (pn P <= length (pcaps P))%nat ->
  (forall i, (i < pn P)%nat -> Z.testbit (puse P) (Z.of_nat i) = false) -> in_polygon P ncaps p = true.
Proof. exact no_used_caps_contains_all. Qed.
Print Assumptions C12_no_used_caps_contains_all.

Theorem C12_first_n_caps_spec : forall P n p, 0 < n -> (pn P <= length (pcaps P))%nat ->
  (in_polygon P n p = true <->
   (forall i c, (i < Z.to_nat n)%nat -> (i < pn P)%nat -> nth_error (pcaps P) i = Some c ->
                Z.testbit (puse P) (Z.of_nat i) = true -> in_cap c p = true)).
Proof. exact first_n_caps_spec. Qed.
Print Assumptions C12_first_n_caps_spec.

Theorem C12_first_n_caps_ignores_rest : forall P P' n p,
  0 < n -> (pn P <= length (pcaps P))%nat -> (pn P' <= length (pcaps P'))%nat ->
  Nat.min (Z.to_nat n) (pn P) = Nat.min (Z.to_nat n) (pn P') ->
  (forall i, (i < Z.to_nat n)%nat -> (i < pn P)%nat ->
             nth_error (pcaps P) i = nth_error (pcaps P') i /\
             Z.testbit (puse P) (Z.of_nat i) = Z.testbit (puse P') (Z.of_nat i)) ->
  in_polygon P n p = in_polygon P' n p.
Proof. exact first_n_caps_ignores_rest. Qed.
Print Assumptions C12_first_n_caps_ignores_rest.

Theorem C12_all_caps_mask : forall n i, Z.testbit (Z.shiftl 1 (Z.of_nat n) - 1) (Z.of_nat i) = (i <? n)%nat.
Proof. exact all_caps_mask_testbit. Qed.
Print Assumptions C12_all_caps_mask.

(* ---- window lookup ---- *)

Theorem C12_in_window_refines : forall Ps ncaps pts, Forall wf_poly Ps ->
  in_window Ps ncaps pts = spec_window Ps ncaps pts.
Proof. exact in_window_refines. Qed.
Print Assumptions C12_in_window_refines.

Theorem C12_first_match_some : forall Ps ncaps p k,
  first_match Ps ncaps p = Some k <->
  (exists P, nth_error Ps k = Some P /\ spec_in_polygon P ncaps p = true) /\
  (forall j Pj, (j < k)%nat -> nth_error Ps j = Some Pj -> spec_in_polygon Pj ncaps p = false).
Proof. exact first_match_some. Qed.
Print Assumptions C12_first_match_some.

Theorem C12_first_match_none : forall Ps ncaps p,
  first_match Ps ncaps p = None <->
  (forall j Pj, nth_error Ps j = Some Pj -> spec_in_polygon Pj ncaps p = false).
Proof. exact first_match_none. Qed.
Print Assumptions C12_first_match_none.

(* what is_in_window returns for point i: (True, k) <-> polygon k contains it and none before does;
   (False, -1) <-> no polygon contains it; nothing else is ever returned *)
Theorem C12_in_window_first : forall Ps ncaps pts i p, Forall wf_poly Ps -> nth_error pts i = Some p ->
  forall r, nth_error (in_window Ps ncaps pts) i = Some r ->
  (forall k, r = (true, Z.of_nat k) <->
     (exists P, nth_error Ps k = Some P /\ in_polygon P ncaps p = true) /\
     (forall j Pj, (j < k)%nat -> nth_error Ps j = Some Pj -> in_polygon Pj ncaps p = false)) /\
  (r = (false, -1) <-> (forall j Pj, nth_error Ps j = Some Pj -> in_polygon Pj ncaps p = false)) /\
  (r = (false, -1) \/ exists k, r = (true, Z.of_nat k)).
Proof. exact in_window_first. Qed.
Print Assumptions C12_in_window_first.

(* identical answers from every storage route: only NCAPS, USE_CAPS and the first NCAPS caps matter *)
Theorem C12_in_polygon_same_visible : forall P P' ncaps p, same_visible P P' -> in_polygon P ncaps p = in_polygon P' ncaps p.
Proof. exact in_polygon_same_visible. Qed.
Print Assumptions C12_in_polygon_same_visible.

Theorem C12_in_window_storage_independent : forall Ps Ps' ncaps pts, Forall2 same_visible Ps Ps' ->
  in_window Ps ncaps pts = in_window Ps' ncaps pts.
Proof. exact in_window_storage_independent. Qed.
Print Assumptions C12_in_window_storage_independent.

Theorem C12_in_window_nil : forall ncaps pts, in_window [] ncaps pts = map (fun _ => (false, -1)) pts.
Proof. exact in_window_nil. Qed.
Print Assumptions C12_in_window_nil.

(* a polygon without caps (whole sky) takes every point no earlier polygon contains *)
Theorem C12_whole_sky_takes_rest : forall Ps P Qs ncaps p, Forall wf_poly Ps -> pn P = 0%nat ->
  first_match Ps ncaps p = None -> first_match (Ps ++ P :: Qs) ncaps p = Some (length Ps).
Proof. exact whole_sky_takes_rest. Qed.
Print Assumptions C12_whole_sky_takes_rest.

(* ---- set_use_caps ---- *)

Theorem C12_set_bits_testbit : forall idx u b,
  Z.testbit (set_bits u idx) (Z.of_nat b) = Z.testbit u (Z.of_nat b) || existsb (fun i => i =? Z.of_nat b) idx.
Proof. exact set_bits_testbit. Qed.
Print Assumptions C12_set_bits_testbit.

(* every bit of the result: selected, minus later doubles of caps still in use *)
Theorem C12_set_use_caps_spec : forall P idx o b,
  Z.testbit (set_use_caps P idx o) (Z.of_nat b) = spec_bit P idx o b.
Proof. exact set_use_caps_spec. Qed.
Print Assumptions C12_set_use_caps_spec.

(* the extracted nested tests in front of the decrement = the documented notion of doubles *)
Theorem C12_same_cap_spec : forall tol an a b,
  same_cap tol an a b = true <->
  (dist2 (cx a) (cx b) < tol * tol)%Q /\
  ((Qabs (ccm a - ccm b) < tol)%Q \/ ((Qabs (ccm a + ccm b) < tol)%Q /\ an = false)).
Proof. exact same_cap_spec. Qed.
Print Assumptions C12_same_cap_spec.

Theorem C12_kept_spec : forall dup sel j,
  kept dup sel j = true <->
  sel j = true /\ (forall i, (i < j)%nat -> kept dup sel i = true -> dup i j = false).
Proof. exact kept_spec. Qed.
Print Assumptions C12_kept_spec.

Theorem C12_kept_spec_equiv : forall dup sel j,
  (forall a b, dup a b = true -> dup b a = true) ->
  (forall a b c, dup a b = true -> dup b c = true -> dup a c = true) ->
  (kept dup sel j = true <->
   sel j = true /\ (forall i, (i < j)%nat -> sel i = true -> dup i j = false)).
Proof. exact kept_spec_equiv. Qed.
Print Assumptions C12_kept_spec_equiv.

(* `use_caps -= 1 << j` never borrows: it is executed only with bit j set, so it clears that bit *)
Theorem C12_decrement_is_clearbit : forall u i j, is_cap_used u j = true ->
  gen_clear_bit u i (Z.of_nat j) = Z.clearbit u (Z.of_nat j).
Proof. exact decrement_is_clearbit. Qed.
Print Assumptions C12_decrement_is_clearbit.

Theorem C12_decrement_never_borrows : forall dup n u, dedup dup n u = dedup_clear dup n u.
Proof. exact dedup_never_borrows. Qed.
Print Assumptions C12_decrement_never_borrows.

Theorem C12_set_use_caps_nonneg : forall P idx o, (o_add o = true -> 0 <= puse P) -> 0 <= set_use_caps P idx o.
Proof. exact set_use_caps_nonneg. Qed.
Print Assumptions C12_set_use_caps_nonneg.

Theorem C12_checker_accepts_only_model : forall P idx o width r,
  set_use_caps P idx o < 2 ^ Z.of_nat width -> (o_add o = true -> 0 <= puse P) ->
  (spec_set_use_caps_ok P idx o width r = true <-> r = set_use_caps P idx o).
Proof. exact checker_accepts_only_model. Qed.
Print Assumptions C12_checker_accepts_only_model.

(* removing doubles keeps the region when doubles have identical membership (exact same-sign duplicates) *)
Theorem C12_dedup_preserves_region : forall P dup u1 ncaps p,
  (pn P <= length (pcaps P))%nat ->
  (forall i j a b, dup i j = true -> nth_error (pcaps P) i = Some a -> nth_error (pcaps P) j = Some b ->
                   in_cap a p = in_cap b p) ->
  in_polygon (with_use P (dedup dup (pn P) u1)) ncaps p = in_polygon (with_use P u1) ncaps p.
Proof. exact dedup_preserves_region. Qed.
Print Assumptions C12_dedup_preserves_region.

Theorem C12_set_use_caps_preserves_region : forall P idx o ncaps p,
  (pn P <= length (pcaps P))%nat -> o_allow_doubles o = false ->
  (forall i j a b, dup_at (o_tol o) (o_allow_neg_doubles o) (pcaps P) i j = true ->
                   nth_error (pcaps P) i = Some a -> nth_error (pcaps P) j = Some b -> in_cap a p = in_cap b p) ->
  in_polygon (with_use P (set_use_caps P idx o)) ncaps p
  = in_polygon (with_use P (set_bits (if o_add o then puse P else 0) idx)) ncaps p.
Proof. exact set_use_caps_preserves_region. Qed.
Print Assumptions C12_set_use_caps_preserves_region.

(* ---- window_read(balkans=True) ---- *)

Theorem C12_balkans_slice_spec : forall bcaps blist k icap n,
  nth_error blist k = Some (icap, n) ->
  exists P, nth_error (balkans_slice bcaps blist) k = Some P /\
    pn P = n /\
    (forall i, (i < n)%nat -> nth_error (pcaps P) i = nth_error bcaps (icap + i)) /\
    (forall i, Z.testbit (puse P) (Z.of_nat i) = (i <? n)%nat) /\
    ((icap + n <= length bcaps)%nat -> length (pcaps P) = n).
Proof. exact balkans_slice_spec. Qed.
Print Assumptions C12_balkans_slice_spec.

Theorem C12_balkans_membership : forall bcaps blist k icap n P p,
  nth_error blist k = Some (icap, n) -> (icap + n <= length bcaps)%nat ->
  nth_error (balkans_slice bcaps blist) k = Some P ->
  (in_polygon P 0 p = true <->
   forall i c, (i < n)%nat -> nth_error bcaps (icap + i) = Some c -> in_cap c p = true).
Proof. exact balkans_membership. Qed.
Print Assumptions C12_balkans_membership.

Theorem C12_balkans_slice_wf : forall bcaps blist,
  Forall (fun r : nat * nat => (fst r + snd r <= length bcaps)%nat) blist ->
  Forall wf_poly (balkans_slice bcaps blist).
Proof. exact balkans_slice_wf. Qed.
Print Assumptions C12_balkans_slice_wf.

(* ---- round 5: the whole function bodies, compiled statement by statement from the source, are the model ---- *)

(* set_use_caps: initialisation, t2, the selection loop over index_list, the allow_doubles guard and the double loop
   (bounds range(ncaps) / range(i+1, ncaps), both is_cap_used guards, the nested tolerance tests in their order,
   the decrement) -- with d2 i j = |x_i - x_j|^2 and cm i read from the polygon's caps *)
Theorem C12_set_use_caps_body_is_model : forall P idx o, wf_poly P ->
  gen_set_use_caps_body (Z.of_nat (pn P)) (d2_of (pcaps P)) (cm_of (pcaps P)) idx
                        (o_add o) (o_tol o) (o_allow_doubles o) (o_allow_neg_doubles o) (puse P)
  = set_use_caps P idx o.
Proof. exact set_use_caps_body_is_model. Qed.
Print Assumptions C12_set_use_caps_body_is_model.

(* is_in_polygon for one point: usencaps, the start value, range(usencaps), the use-mask guard, the accumulation *)
Theorem C12_is_in_polygon_body_is_model : forall P ncaps p,
  gen_is_in_polygon_body (Z.of_nat (pn P)) (puse P) ncaps (incap_of (pcaps P) p) = in_polygon P ncaps p.
Proof. exact is_in_polygon_body_is_model. Qed.
Print Assumptions C12_is_in_polygon_body_is_model.

(* is_in_window for one point: -1 start, curr_polygon = 0, `while curr_polygon < npoly`, the still-unassigned guard,
   the assignment, the increment, (in_polygon >= 0, in_polygon); the while loop terminates within len(polygons)
   passes (any larger fuel gives the same answer) *)
Theorem C12_is_in_window_body_is_model : forall Ps ncaps pts i p fuel,
  (length Ps <= fuel)%nat -> nth_error pts i = Some p ->
  nth_error (in_window Ps ncaps pts) i
  = Some (gen_is_in_window_body fuel (Z.of_nat (length Ps)) (inpoly_of Ps ncaps p)).
Proof. exact is_in_window_body_is_model. Qed.
Print Assumptions C12_is_in_window_body_is_model.

(* ---- round 5: the duplicate tolerance of set_use_caps is absolute ---- *)

(* a selected cap that differs from every earlier cap by at least tol (axis: Euclidean distance; or cm: difference and,
   unless allow_neg_doubles, sum) keeps its bit -- no matter how small the difference is relative to the values *)
Theorem C12_distinct_cap_kept : forall P idx o j cj,
  o_allow_doubles o = false -> (j < pn P)%nat -> nth_error (pcaps P) j = Some cj ->
  selected (if o_add o then puse P else 0) idx j = true ->
  (forall i ci, (i < j)%nat -> nth_error (pcaps P) i = Some ci -> far_apart (o_tol o) (o_allow_neg_doubles o) ci cj) ->
  Z.testbit (set_use_caps P idx o) (Z.of_nat j) = true.
Proof. exact distinct_cap_kept. Qed.
Print Assumptions C12_distinct_cap_kept.

Theorem C12_far_apart_iff_not_double : forall tol an a b, far_apart tol an a b <-> spec_same_cap tol an a b = false.
Proof. exact far_apart_not_same. Qed.
Print Assumptions C12_far_apart_iff_not_double.

(* a cap within tol of an earlier cap whose bit stays set loses its bit *)
Theorem C12_duplicate_cap_dropped : forall P idx o i j ci cj,
  o_allow_doubles o = false -> (i < j)%nat -> (j < pn P)%nat ->
  nth_error (pcaps P) i = Some ci -> nth_error (pcaps P) j = Some cj ->
  spec_same_cap (o_tol o) (o_allow_neg_doubles o) ci cj = true ->
  Z.testbit (set_use_caps P idx o) (Z.of_nat i) = true ->
  Z.testbit (set_use_caps P idx o) (Z.of_nat j) = false.
Proof. exact duplicate_cap_dropped. Qed.
Print Assumptions C12_duplicate_cap_dropped.

(* and a selected bit is lost ONLY to an earlier cap within tol that stays in use *)
Theorem C12_dropped_only_for_duplicate : forall P idx o j,
  o_allow_doubles o = false -> (j < pn P)%nat ->
  selected (if o_add o then puse P else 0) idx j = true ->
  Z.testbit (set_use_caps P idx o) (Z.of_nat j) = false ->
  exists i ci cj, (i < j)%nat /\ nth_error (pcaps P) i = Some ci /\ nth_error (pcaps P) j = Some cj /\
                  Z.testbit (set_use_caps P idx o) (Z.of_nat i) = true /\
                  spec_same_cap (o_tol o) (o_allow_neg_doubles o) ci cj = true.
Proof. exact dropped_only_for_duplicate. Qed.
Print Assumptions C12_dropped_only_for_duplicate.

Theorem C12_same_cap_sym : forall tol an a b, spec_same_cap tol an a b = spec_same_cap tol an b a.
Proof. exact same_cap_sym. Qed.
Print Assumptions C12_same_cap_sym.

(* ---- round 5: boundary values of cm and dot products outside [-1, 1], both signs (over R) ---- *)

(* whatever real number the float dot product is (rounding may leave [-1, 1] on either side) and whatever the sign of cm:
   the code's answer is the algebraic test on the clipped dot product *)
Theorem C12_is_in_cap_any_dot : forall cm d : R, (-2 <= cm <= 2)%R ->
  (gen_is_in_cap cm d <-> if Rlt_dec cm 0 then (- cm <= 1 - clip d)%R else (1 - clip d <= cm)%R).
Proof. exact is_in_cap_any_dot. Qed.
Print Assumptions C12_is_in_cap_any_dot.

(* cm = 0 (+0.0 or -0.0): the cap is its centre;  cm = 2: the whole sphere;  cm = -2: only the antipode *)
Theorem C12_zero_cap_only_centre : forall d : R, gen_is_in_cap 0 d <-> (1 <= d)%R.
Proof. exact zero_cap_only_centre. Qed.
Print Assumptions C12_zero_cap_only_centre.

Theorem C12_full_cap_contains_all : forall d : R, gen_is_in_cap 2 d.
Proof. exact full_cap_contains_all. Qed.
Print Assumptions C12_full_cap_contains_all.

Theorem C12_neg_full_cap_only_antipode : forall d : R, gen_is_in_cap (-2) d <-> (d <= -1)%R.
Proof. exact neg_full_cap_only_antipode. Qed.
Print Assumptions C12_neg_full_cap_only_antipode.

(* the antipode of the centre is in every cap with cm < 0 and in no cap with 0 <= cm < 2; the centre is in no cap with cm < 0 *)
Theorem C12_antipode_in_neg_cap : forall cm d : R, (d <= -1)%R -> (-2 <= cm < 0)%R -> gen_is_in_cap cm d.
Proof. exact antipode_in_neg_cap. Qed.
Print Assumptions C12_antipode_in_neg_cap.

Theorem C12_antipode_in_pos_cap : forall cm d : R, (d <= -1)%R -> (0 <= cm <= 2)%R -> (gen_is_in_cap cm d <-> cm = 2%R).
Proof. exact antipode_in_pos_cap. Qed.
Print Assumptions C12_antipode_in_pos_cap.

Theorem C12_centre_not_in_neg_cap : forall cm d : R, (1 <= d)%R -> (-2 <= cm < 0)%R -> ~ gen_is_in_cap cm d.
Proof. exact centre_not_in_neg_cap. Qed.
Print Assumptions C12_centre_not_in_neg_cap.

(* ---- round 6: answers are point by point, whatever the number of points in the call ---- *)

(* is_in_window on a list of points = the list of the answers each point gets when passed alone *)
Theorem C12_in_window_pointwise : forall Ps ncaps pts, Forall wf_poly Ps ->
  in_window Ps ncaps pts = map (window_answer Ps ncaps) pts.
Proof. exact in_window_pointwise. Qed.
Print Assumptions C12_in_window_pointwise.

(* ... and that single answer is the first containing polygon *)
Theorem C12_window_answer_spec : forall Ps ncaps p, Forall wf_poly Ps ->
  window_answer Ps ncaps p =
  match first_match Ps ncaps p with Some k => (true, Z.of_nat k) | None => (false, -1) end.
Proof. exact window_answer_spec. Qed.
Print Assumptions C12_window_answer_spec.

(* one call with all the points = two calls with the two parts, concatenated *)
Theorem C12_in_window_split : forall Ps ncaps a b, Forall wf_poly Ps ->
  in_window Ps ncaps (a ++ b) = in_window Ps ncaps a ++ in_window Ps ncaps b.
Proof. exact in_window_split. Qed.
Print Assumptions C12_in_window_split.

(* n positions holding copies of a few points (position j holds f (idx_j)): position j gets the answer of f (idx_j) *)
Theorem C12_in_window_copies : forall Ps ncaps (f : nat -> vec) (idx : list nat), Forall wf_poly Ps ->
  in_window Ps ncaps (map f idx) = map (fun i => window_answer Ps ncaps (f i)) idx.
Proof. exact in_window_copies. Qed.
Print Assumptions C12_in_window_copies.

(* the same point at two positions of one call gets the same answer *)
Theorem C12_in_window_same_point : forall Ps ncaps pts i j p ri rj, Forall wf_poly Ps ->
  nth_error pts i = Some p -> nth_error pts j = Some p ->
  nth_error (in_window Ps ncaps pts) i = Some ri -> nth_error (in_window Ps ncaps pts) j = Some rj ->
  ri = rj.
Proof. exact in_window_same_point. Qed.
Print Assumptions C12_in_window_same_point.

(* ---- non-vacuity witnesses ---- *)

Definition ex_cap_z : cap := mkcap (0, 0, 1)%Q (1 # 2)%Q.           (* 60 degrees around the pole *)
Definition ex_cap_x : cap := mkcap (1, 0, 0)%Q (- (1 # 2))%Q.       (* outside 60 degrees around +x *)
Definition ex_poly : polygon := mkpoly 2 3 [ex_cap_z; ex_cap_x].

Example ex_pole_inside : in_polygon ex_poly 0 (0, 0, 1)%Q = true.
Proof. exact (eq_refl true). Qed.
Example ex_x_outside : in_polygon ex_poly 0 (1, 0, 0)%Q = false.
Proof. exact (eq_refl false). Qed.
Example ex_x_inside_first_cap_unused : in_polygon (mkpoly 2 0 [ex_cap_z; ex_cap_x]) 0 (1, 0, 0)%Q = true.
Proof. exact (eq_refl true). Qed.
Example ex_window : in_window [mkpoly 1 1 [ex_cap_x]; ex_poly; mkpoly 0 0 []] 0 [(0, 0, 1); (1, 0, 0); (0, 0, -1)]%Q
                    = [(true, 0); (true, 2); (true, 0)].
Proof. exact (eq_refl _). Qed.
Example ex_window_none : in_window [ex_poly] 0 [(1, 0, 0)%Q] = [(false, -1)].
Proof. exact (eq_refl _). Qed.
(* index list [2;0] over caps 0,1,2 where cap 2 duplicates cap 0: bit 2 is removed again *)
Example ex_set_use_caps :
  set_use_caps (mkpoly 3 0 [ex_cap_z; ex_cap_x; ex_cap_z]) [2; 0] default_opts = 1.
Proof. exact (eq_refl _). Qed.
Example ex_set_use_caps_nodup :
  set_use_caps (mkpoly 3 0 [ex_cap_z; ex_cap_x; ex_cap_z]) [2; 1] default_opts = 6.
Proof. exact (eq_refl _). Qed.
Example ex_balkans :
  map pn (balkans_slice [ex_cap_z; ex_cap_x; ex_cap_z] [(0, 1); (1, 2)]%nat) = [1; 2]%nat
  /\ map puse (balkans_slice [ex_cap_z; ex_cap_x; ex_cap_z] [(0, 1); (1, 2)]%nat) = [1; 3].
Proof. exact (conj (eq_refl _) (eq_refl _)). Qed.

(* round 5 witnesses.  Two caps on the axis (3/5, 0, 4/5) whose cm differ by 2e-6 (relative 4e-6: numpy.isclose
   with its default rtol would call them equal) are distinct at tol = 1e-10: both keep their bits *)
Definition ex_ax : vec := (3 # 5, 0, 4 # 5)%Q.
Example ex_tolerance_is_absolute :
  set_use_caps (mkpoly 3 0 [mkcap ex_ax (1 # 2); mkcap ex_ax ((1 # 2) - (2 # 1000000)); ex_cap_x]%Q) [0; 1; 2] default_opts = 7.
Proof. exact (eq_refl _). Qed.
(* a difference of 1e-11 is below tol: the later cap is dropped *)
Example ex_tolerance_within :
  set_use_caps (mkpoly 3 0 [mkcap ex_ax (1 # 2); mkcap ex_ax ((1 # 2) + (1 # 100000000000)); ex_cap_x]%Q) [0; 1; 2] default_opts = 5.
Proof. exact (eq_refl _). Qed.
(* doubles are not transitive: cm, cm + 0.6 tol, cm + 1.2 tol -- cap 1 goes (double of 0), cap 2 stays (cap 1 is no longer
   in use and cap 0 is 1.2 tol away) *)
Example ex_tolerance_chain :
  set_use_caps (mkpoly 3 0 [mkcap ex_ax (1 # 2); mkcap ex_ax ((1 # 2) + (6 # 100000000000)); mkcap ex_ax ((1 # 2) + (12 # 100000000000))]%Q)
               [0; 1; 2] default_opts = 5.
Proof. exact (eq_refl _). Qed.
Example ex_far_apart : far_apart (o_tol default_opts) false (mkcap ex_ax (1 # 2)) (mkcap ex_ax ((1 # 2) - (2 # 1000000)))%Q.
Proof. right. split; [|left]; apply Qle_bool_iff; exact (eq_refl true). Qed.
(* the compiled bodies compute *)
Example ex_set_use_caps_body :
  gen_set_use_caps_body 3 (d2_of [ex_cap_z; ex_cap_x; ex_cap_z]) (cm_of [ex_cap_z; ex_cap_x; ex_cap_z]) [2; 0]
                        false (o_tol default_opts) false false 0 = 1.
Proof. exact (eq_refl _). Qed.
Example ex_is_in_window_body :
  gen_is_in_window_body 3 3 (inpoly_of [mkpoly 1 1 [ex_cap_x]; ex_poly; mkpoly 0 0 []] 0 (1, 0, 0)%Q) = (true, 2).
Proof. exact (eq_refl _). Qed.
Example ex_is_in_polygon_body :
  gen_is_in_polygon_body 2 3 0 (incap_of [ex_cap_z; ex_cap_x] (1, 0, 0)%Q) = false.
Proof. exact (eq_refl _). Qed.
(* round 6: seven positions holding copies of three points; the answer is gathered through the same indices *)
Example ex_window_copies :
  in_window [mkpoly 1 1 [ex_cap_x]; ex_poly; mkpoly 0 0 []] 0
            (map (fun i => nth i [(0, 0, 1); (1, 0, 0); (0, 0, -1)]%Q (0, 0, 1)%Q) [0; 1; 2; 2; 1; 0; 1]%nat)
  = [(true, 0); (true, 2); (true, 0); (true, 0); (true, 2); (true, 0); (true, 2)].
Proof. exact (eq_refl _). Qed.
Example ex_window_answer : window_answer [ex_poly] 0 (1, 0, 0)%Q = (false, -1).
Proof. exact (eq_refl _). Qed.
