"""C20 -- a failing pipeline call leaves the process environment as it found it."""
import itertools
import os
import time

from harness import common as C
from translate import c20 as T

ID = 'C20'
PROPS_V = 'C20/Props.v'
LEVEL = 'proof'
TRUSTED = [
    'translate/c20.py: Python ast -> environment-program skeleton (idioms: save/get/del/pop/set/restore, try/finally/except, '
    'literal-tuple loops unrolled, everything else = Call that may raise) and the call graph over pydl (names through definitions and '
    'imports, attributes of imported modules, methods by name for unknown receivers) that decides which callees may write the environment: '
    'callees that may write are inlined (any module) or listed in uninlined_writers, and C20_collaborators_do_not_write re-proves '
    'uninlined_writers = [] on every run',
    'C20.Model.accepts (trace matcher, evaluated by vm_compute) checks on every real run that the skeleton covers the observed os.environ operations; '
    'proved sound and complete for the control-flow semantics `runs` (C20_accepts_iff_runs) and complete for exec (C20_accepts_complete); '
    'it does not track the data flow between operations (C20_runs_not_exec_sound shows the gap), presence flags are checked separately by `consistent`',
    'harness/impl/c20_impl.py: sys.settrace fault injector + tracing os.environ wrapper (frame-based attribution of operations to the entry point / inlined helpers; '
    'writes by any other frame are reported), os.putenv/os.unsetenv wrapped; CPython exception/finally semantics',
    'code outside pydl (numpy, astropy, matplotlib, the standard library) does not write the environment: observed on every run through the '
    'full-environment diff and the foreign-write log, not proved',
]
ASSUMPTIONS = [
    'faults are injected at Python-level calls made directly by the entry point (and by the helpers inlined in its skeleton), including calls made inside handlers and finally blocks '
    '(as single faults, and as second faults after a first one); C-level builtins and the os.environ operations themselves are not fault points',
    'initial values of the touched variables are taken from a fixed list of lengths / contents (0 .. 4096 characters, non-ASCII, non-UTF-8 bytes, =, blanks, newline), not all strings; '
    'PHOTO_RESOLVE must be a usable directory or absent',
    'fresh-interpreter runs import the module of the entry point only (pydl.photoop.window / pydl.pydlspec2d.spec1d); other import orders of a user script are not enumerated',
    'template_input is driven through its dump-file path (readspec/skymask/preprocess_spectra are skipped when the dump file exists) and, without a dump file, '
    'up to the failure of readspec on the missing spPlate files; fault points before and after that branch are all exercised',
    'window_score runs its real scoring stage on synthetic window_flist/fpFieldStat/psField files (sdss_name and sdss_path are executed for every field); '
    'under numpy 2 the stage then fails inside sdss_score (int32 & uint64, np.find), so the return path of window_score is explored with a stub for sdss_score',
]

DEFAULT_VARS = {'window_score': ['PHOTO_CALIB', 'PHOTO_RESOLVE'], 'template_input': ['RUN2D', 'RUN1D'],
                'window_read': ['PHOTO_RESOLVE', 'PHOTO_CALIB']}
TARGETS = ('window_score', 'template_input', 'window_read')
ONLY = [x for x in os.environ.get('C20_ONLY', '').split(',') if x]
_meta = {}


def translate(ctx):
    text, info = T.generate(C.REPO)
    path = os.path.join(C.COQ, 'Generated', 'EnvSkeletons.v')
    if text is not None:
        info['changed'] = C.write_if_changed(path, text)
    else:
        info['restored_committed_file'] = C.restore_generated('coq/Generated/EnvSkeletons.v')
        info['note'] = 'source shape not recognised; the committed Generated/EnvSkeletons.v is kept and only the fault-injection run ties the result to the code'
    _meta.clear()
    _meta.update(info.get('functions', {}))
    _meta['<info>'] = {k: v for k, v in info.items() if k != 'functions'}
    return {'EnvSkeletons': info}


def ev_term(ev, names):
    kind, name, ok = ev
    i = names.index(name)
    if kind == 'get':
        return '(EvGet %d %s)' % (i, C.boollit(ok))
    if kind == 'del':
        return '(EvDel %d %s)' % (i, C.boollit(ok))
    return '(EvSet %d)' % i


HEADER = '''From Coq Require Import List. Import ListNotations.
From PV Require Import C20.Model Generated.EnvSkeletons.'''

FILEVAL = {'RUN2D': 'v9_9_9', 'RUN1D': 'v8_8_8'}


def touched_choices(v):
    """initial states of a touched variable: some other value / unset / the empty string / (template_input) the very
    value the parameter file is about to set -- restoration keyed on "did it change?" or on truthiness shows only there"""
    c = ['orig-value', None, '']
    if v in FILEVAL:
        c.append(FILEVAL[v])
    if v == 'PHOTO_RESOLVE':
        c = ['orig-value', None]          # must be a usable directory or absent
    return c


def extra_states(extras, rng, n_random, full):
    """initial states of the variables that reachable code READS but the entry point does not touch: a usable directory /
    unset / the empty string.  Structured part: all set, all unset, all empty, each one alone set, each one alone
    unset, each one alone empty; plus random assignments (or the full product when it is small enough)."""
    if not extras:
        return [{}]
    vals = ['@dir', None, '']
    if full and len(vals) ** len(extras) <= 729:
        return [dict(zip(extras, combo)) for combo in itertools.product(vals, repeat=len(extras))]
    out = [dict((e, v) for e in extras) for v in vals]
    for e in extras:
        out.append(dict(((x, '@dir' if x == e else None) for x in extras)))
        out.append(dict(((x, None if x == e else '@dir') for x in extras)))
        out.append(dict(((x, '' if x == e else '@dir') for x in extras)))
    for _ in range(n_random):
        out.append(dict((e, rng.choice(vals)) for e in extras))
    seen = []
    for s in out:
        if s not in seen:
            seen.append(s)
    return seen


VALUE_LABELS = ['', '@len1', '@len16', '@len17', '@len64', '@len4096', '@nonascii', '@eqsp', '@trail', '@lead', '@newline', '@bytes',
                '@zero', '@none']
DIR_VALUED = ('PHOTO_RESOLVE',)
PAR_KINDS = ['missing', 'isdir', 'empty', 'garbage', 'truncated', 'early', 'badvalue', 'norun1d', 'badhmf', 'badhmfvalue', 'badmethod', 'norows']
DUMP_KINDS = ['empty', 'garbage', 'truncated', 'isdir']
FLIST_KINDS = ['missing', 'empty', 'garbage', 'truncated', 'isdir']


def option_variants(keywords, rng, full):
    """keyword options of the entry point (names and defaults read off the signature by translate/c20.py): every boolean
    keyword alone at the other value, all of them at the other value, an assignment of non-bool spellings of the same
    truth values (1 / 0 / None / a non-empty string), random assignments; the full product in the thorough tier"""
    bools = [k for k, d in keywords if isinstance(d, bool)]
    dflt = dict((k, d) for k, d in keywords)
    out = []
    for k in bools:
        out.append({k: not dflt[k]})
    if len(bools) > 1:
        out.append(dict((k, not dflt[k]) for k in bools))
    if bools:
        out.append(dict((k, rng.choice([1, 'yes']) if not dflt[k] else rng.choice([0, None])) for k in bools))
        out.append(dict((k, rng.choice([0, None, False])) for k in bools))
    if full and 0 < len(bools) <= 7:
        for combo in itertools.product([False, True], repeat=len(bools)):
            out.append(dict(zip(bools, combo)))
    else:
        for _ in range(2 if len(bools) > 2 else 0):
            out.append(dict((k, rng.random() < 0.5) for k in bools))
    seen = []
    for o in out:
        if o not in seen:
            seen.append(o)
    return seen


def spread(n, count):
    """about `count` call indices spread over range(n), always with the first and the last"""
    if n <= 0:
        return []
    if n <= count:
        return list(range(n))
    return sorted(set([0, n - 1] + [(i * (n - 1)) // (count - 1) for i in range(count)]))


def run_batches(target, workdir, names, inlined, runs, fresh_runs=()):
    """runs: spread over NPROC worker processes; fresh_runs: each in its own interpreter that imports only the entry
    point's module -- all in one pool.  Returns the results of `runs` (and of fresh_runs, when given)."""
    nb = max(1, min(C.NPROC, len(runs))) if runs else 0
    payloads = [{'target': target, 'workdir': workdir, 'vars': names, 'inlined': inlined, 'runs': runs[i::nb]} for i in range(nb)]
    payloads += [{'target': target, 'workdir': workdir, 'vars': names, 'inlined': inlined, 'fresh': True, 'runs': [r]} for r in fresh_runs]
    outs = C.run_impl_parallel('c20_impl.py', payloads) if payloads else []
    res = [None] * len(runs)
    for i, o in enumerate(outs[:nb]):
        for k, r in enumerate(o['results']):
            res[i + k * nb] = r
    if fresh_runs != ():
        return res, [o['results'][0] for o in outs[nb:]]
    return res


def correspond(ctx, proof_ok=True):
    ok, log = C.coq_make(['C20/Model.vo', 'Generated/EnvSkeletons.vo'])
    if not ok:
        raise RuntimeError('C20 model does not build:\n' + log[-2000:])
    if not _meta:
        translate(ctx)
    all_runs = []      # (target, names, run, result)
    cov_states = {}
    timing = {}
    for target in TARGETS:
        meta = _meta.get(target) or {}
        names = list(meta.get('vars') or DEFAULT_VARS[target])
        for v in DEFAULT_VARS[target]:
            if v not in names:
                names.append(v)
        inlined = list(meta.get('inlined') or [])
        # variables read by code reachable from the entry point (call graph of translate/c20.py), not touched by it
        extras = [v for v in (meta.get('reads') or []) if v not in names]
        workdir = os.path.join(ctx.work, target)
        base_extra = dict((e, '@dir') for e in extras)
        states = [dict(base_extra, **dict(zip(names, combo))) for combo in itertools.product(*[touched_choices(v) for v in names])]
        if target == 'window_score':
            variants = [{'rescore': False, 'stub_score': True}, {'rescore': True, 'stub_score': True},
                        {'rescore': False, 'stub_score': False}]
            deep = [{'rescore': False, 'stub_score': False}]
        elif target == 'window_read':
            variants = [{'stub_score': True}, {'stub_score': False}]
            deep = [{'stub_score': False}]
        else:
            variants = [{'flux': False}, {'flux': False, 'method': 'hmf'}]
            if ctx.thorough:
                variants.append({'flux': True})
            deep = [{'flux': False, 'nodump': True}]
        base = []
        for st in states:
            for va in variants:
                base.append({'init': st, 'fault': None, 'args': va, 'family': 'touched-states'})
        # the read-variable family: every touched variable set, the read variables in all the states above; the real
        # collaborators run (no stub, no dump file) so that whatever they do with these variables happens
        xs = extra_states(extras, ctx.rng, ctx.n(6, 40), ctx.thorough)
        cov_states[target] = {'touched': names, 'read_by_reachable_code': extras, 'touched_states': len(states), 'read_states': len(xs),
                              'reads_with_computed_key': bool(meta.get('reads_unknown_key'))}
        for xst in xs:
            st = dict(xst, **dict((v, 'orig-value') for v in names))
            for va in deep:
                base.append({'init': st, 'fault': None, 'args': va, 'family': 'read-states'})
        mx = ((_meta.get('<info>') or {}).get('matrix') or {}).get(target) or {}
        free = [v for v in names if v not in DIR_VALUED]
        set_all = dict(base_extra, **dict((v, 'orig-value') for v in names))
        unset_free = dict(set_all, **dict((v, None) for v in free))
        # family options: the keyword options of the signature, in the states all set / all unset / each one alone unset
        opt_states = [set_all, unset_free] + [dict(set_all, **{v: None}) for v in free if len(free) > 1]
        opts = option_variants(mx.get('keywords') or [], ctx.rng, ctx.thorough)
        if target == 'template_input' and not ctx.thorough:
            # a complete run costs seconds here: all unset, and one of the other states drawn per run of the check;
            # the all-falsy assignment (same truth values as the defaults) is left to the thorough tier
            opt_states = [unset_free, ctx.rng.choice([x for x in opt_states if x != unset_free])]
            opts = [o for o in opts if any(o.values())]
        stub = {} if target == 'template_input' else {'stub_score': True}
        for st in opt_states:
            for kw in opts:
                base.append({'init': st, 'fault': None, 'args': dict(stub, kwargs=kw), 'family': 'options'})
        # family value-variety: initial values of the touched variables of different lengths and contents (compared as
        # exact strings = byte for byte): both at the same value, each alone, random mixtures
        vstates = []
        for lab in VALUE_LABELS:
            vstates.append(dict(set_all, **dict((v, lab) for v in free)))
        pool = VALUE_LABELS + [None, 'orig-value']
        for lab in (VALUE_LABELS if ctx.thorough else ctx.rng.sample(VALUE_LABELS, 4)):
            for v in free:
                vstates.append(dict(set_all, **dict((w, lab if w == v else ctx.rng.choice(pool)) for w in free)))
        vdone = []
        vlater = []       # template_input: no fault-free run of its own (the call sequence does not depend on the values)
        for st in vstates:
            if st in vdone:
                continue
            vdone.append(st)
            if target == 'template_input' and not ctx.thorough and len(vdone) > 3:
                vlater.append(st)
            else:
                base.append({'init': st, 'fault': None, 'args': dict(variants[0]), 'family': 'value-variety'})
        # family natural-failures: files that are missing, unreadable or malformed (no injected fault)
        if target == 'template_input':
            nat = [{'parfile': k} for k in PAR_KINDS] + [{'dumpfile': k} for k in DUMP_KINDS]
            nat_kw = [{}, {'verbose': True}]
        else:
            nat = [{'flist_state': k, 'stub_score': False} for k in FLIST_KINDS] + [{'flist_state': k, 'stub_score': True, 'rescore': True} for k in FLIST_KINDS[:3]]
            nat_kw = [{}]
        for st in (set_all, unset_free) if target == 'template_input' else (set_all,):
            for a in nat:
                for kw in (nat_kw if st is not set_all or target != 'template_input' or ctx.thorough else nat_kw[:1]):
                    base.append({'init': st, 'fault': None, 'args': dict(a, kwargs=kw), 'family': 'natural-failures'})
        if ONLY:
            # development aid (C20_ONLY=family,family): only these families (the very first run still makes the input files)
            base = base[:1] + [b for b in base[1:] if b['family'] in ONLY]
            vlater = vlater if 'value-variety' in ONLY else []
        # phase 1: fault-free runs (the first one alone: it creates the input files)
        t0 = time.time()
        first = C.run_impl('c20_impl.py', {'target': target, 'workdir': workdir, 'vars': names, 'inlined': inlined, 'runs': base[:1]})
        optkeys = (first.get('paths') or {}).get('optional_keywords') or []
        if target == 'template_input' and optkeys:
            # the source reads parameter-file keywords the standard file does not define: run every initial state
            # once more with a file that sets them, so that code guarded by `'key' in par` is exercised as well
            for st in states:
                base.append({'init': st, 'fault': None, 'args': {'flux': False, 'optional_keywords': True}, 'family': 'touched-states'})
        ctx.coverage.setdefault('optional_keywords', {})[target] = optkeys
        res0 = [first['results'][0]] + run_batches(target, workdir, names, inlined, base[1:])
        ctx.coverage['pydl_file'] = first['pydl_file']
        timing[target + ':fault-free'] = round(time.time() - t0, 1)
        t0 = time.time()
        # phase 2: every fault point of every (state, variant)
        fault_runs = []
        n_ref = 0
        hclasses = [c for c in (mx.get('handler_classes') or []) if c != 'InjectedFault']
        for b, r in zip(base, res0):
            all_runs.append((target, names, b, r))
            n = r['ncalls']
            both_set = all(b['init'].get(v) == 'orig-value' for v in names)
            if b['family'] == 'touched-states' and b['args'] == variants[0] and b['init'] == set_all:
                n_ref = n
            if b['family'] == 'natural-failures' or (ONLY and b['family'] not in ONLY and b['family'] != 'touched-states'):
                continue
            if b['family'] in ('options', 'value-variety'):
                cnt = (n if ctx.thorough else 6) if target != 'template_input' else (24 if ctx.thorough else 3)
                # template_input, quick tier: a complete run costs seconds, so three interior points (before / after the export, late)
                for k in (spread(n, cnt) if target != 'template_input' or ctx.thorough else sorted(set([n // 12, n // 2, (5 * n) // 6]))):
                    if k < n:
                        fault_runs.append(dict(b, fault=k))
                continue
            if b['family'] == 'touched-states' and b['args'] == variants[0] and (both_set or b['init'] == unset_free) \
                    and (not ONLY or 'handler-faults' in ONLY):
                # family handler-faults: the injected exception has a class that a handler of the entry point (or of an
                # inlined helper) names, so that the handler path is taken
                if b['init'] == set_all:
                    n_ref = n
                for c in hclasses:
                    for k in spread(n, n if target != 'template_input' else (40 if ctx.thorough else 4)):
                        fault_runs.append(dict(b, fault=k, fault_class=c, family='handler-faults'))
            if ONLY and b['family'] not in ONLY:
                continue
            if ctx.thorough:
                stride = 1
            elif target != 'template_input':
                # every call index, unless helpers with long call sequences are inlined: then an even sample
                stride = max(1, n // (12 if b['family'] == 'read-states' else 40))
            elif b['family'] == 'read-states':
                stride = 5
            else:
                stride = 2 if both_set else 13
            for k in range(0, n, stride):
                fault_runs.append(dict(b, fault=k))
        for st in vlater:
            # a fault before the export, one after it (early, so that the run is short)
            for k in sorted(set([min(2, max(n_ref - 1, 0)), n_ref // 4])) if n_ref else []:
                fault_runs.append({'init': st, 'fault': k, 'args': dict(variants[0]), 'family': 'value-variety'})
        # family fresh-interpreter: the first call in a process that has imported only the entry point's module; the
        # variables that module bodies of (lazily) imported pydl modules read or write, unset and set; a minimal environment
        ivars = [v for v in (mx.get('import_time_vars') or []) if v not in names]
        module = mx.get('module') or ('pydl.pydlspec2d.spec1d' if target == 'template_input' else 'pydl.photoop.window')
        fstates = [dict(set_all, **dict((v, None) for v in ivars)), dict(unset_free, **dict((v, None) for v in ivars))]
        if ivars:
            fstates.append(dict(set_all, **dict((v, '@dir') for v in ivars)))
            if ctx.thorough:
                for v in ivars:
                    fstates.append(dict(set_all, **dict((w, '@dir' if w == v else None) for w in ivars)))
        if target == 'template_input':
            fvars = [{}, {'nodump': True}, {'kwargs': {'verbose': True}}, {'parfile': 'missing'}]
        elif target == 'window_score':
            fvars = [{'stub_score': False}, {'stub_score': True, 'rescore': True}]
        else:
            fvars = [{'stub_score': False}, {'stub_score': True}]
        fresh = []
        for i, st in enumerate(fstates):
            for va in (fvars if i != 1 or ctx.thorough else fvars[1:2]):
                fresh.append({'init': st, 'fault': None, 'args': va, 'family': 'fresh-interpreter', 'module': module})
        for va in (fvars[:2] if ctx.thorough else fvars[1:2]):
            fresh.append({'init': fstates[0], 'fault': None, 'args': va, 'family': 'fresh-interpreter', 'module': module, 'minimal_env': True,
                          'keep': sorted(fstates[0])})
        n0 = dict((str(b['args']), r['ncalls']) for b, r in zip(base, res0) if b['init'] == set_all)
        for va in fvars[:2]:
            n = n0.get(str(dict(va))) or n0.get(str(dict(variants[0]))) or 0
            for k in (range(0, n, 8) if ctx.thorough else ctx.rng.sample(range(n), min(n, 1))):
                fresh.append({'init': fstates[0], 'fault': k, 'args': va, 'family': 'fresh-interpreter', 'module': module})
        if ONLY and 'fresh-interpreter' not in ONLY:
            fresh = []
        res1, fres = run_batches(target, workdir, names, inlined, fault_runs, fresh)
        second = []
        seen_sites = set()
        for b, r in zip(fault_runs, res1):
            all_runs.append((target, names, b, r))
            # family double-fault: calls made by handlers and finally blocks after the first fault fail in turn
            na = r.get('ncalls_after') or 0
            if r.get('fired_at') and na:
                sites = r.get('after_names') or []
                for j in range(na if ctx.thorough else min(na, 3)):
                    site = (b.get('fault_class'), sites[j] if j < len(sites) else j, any(e[0] != 'get' for e in r['trace']))
                    if ctx.thorough or site not in seen_sites:
                        # quick tier: one second fault per distinct call site, class of the first fault, and whether the
                        # environment had been written by then
                        seen_sites.add(site)
                        second.append(dict(b, fault2=j, family='double-fault'))
        if not ctx.thorough and len(second) > 160:
            second = ctx.rng.sample(second, 160)
        for b, r in zip(second, run_batches(target, workdir, names, inlined, second)):
            all_runs.append((target, names, b, r))
        timing[target + ':faults'] = round(time.time() - t0, 1)
        for b, r in zip(fresh, fres):
            all_runs.append((target, names, b, r))
    # Coq: does the generated skeleton accept each observed trace; restoration verdicts
    t0 = time.time()
    terms = []
    for target, names, run, r in all_runs:
        nm = list(names)
        for e in r['trace']:
            if e[1] not in nm:
                nm.append(e[1])      # a variable outside the skeleton: no skeleton accepts an operation on it
        tr = C.coq_list([ev_term(e, nm) for e in r['trace']])
        restored = not r['env_diff']
        pres = C.coq_list([C.boollit(r['presence'][v] if v in r.get('presence', {}) else run['init'].get(v) is not None) for v in nm])
        terms.append('(CRunP %s_skel %s_vars %s %s %s %s)' % (target, target, pres, tr, C.boollit(r['outcome'] == 'raised'), C.boollit(restored)))
    cc = C.CoqCases(ctx.work, HEADER, 'run_cases', shard=40)
    verdicts = cc.run(terms)
    timing['coq-evaluation'] = round(time.time() - t0, 1)
    dist = {}
    for (target, names, run, r), v in zip(all_runs, verdicts):
        k = '%s:%s:%s:%s' % (target, run['family'], 'fault' if run['fault'] is not None else 'nofault', r['outcome'])
        dist[k] = dist.get(k, 0) + 1
    fired = sum(1 for _, _, run, r in all_runs if run['fault'] is not None and r['fired_at'])
    info = _meta.get('<info>') or {}
    ctx.coverage.update({
        'evaluations': len(all_runs),
        'distinct_nontrivial': len(set((t, str(sorted(run['init'].items(), key=str)), str(run['args']), run['fault']) for t, _, run, _ in all_runs if run['fault'] is not None)),
        'rule': 'one evaluation = one real execution of window_score / template_input / window_read with an exception injected at the k-th '
                'Python-level call made by the entry point or a helper inlined in its skeleton (k = every call index of the fault-free run; in the quick tier template_input uses every 2nd index '
                'with both variables set to an unrelated value and every 13th for the other states: unset, empty string, or equal to the value the parameter file sets). '
                'Family touched-states: every combination of initial states of the touched variables (unset / other value / empty string / for RUN2D,RUN1D also the value the parameter file sets). '
                'Family read-states: the variables that code reachable from the entry point reads (derived by the call graph of translate/c20.py) in the states usable directory / unset / empty '
                '(all set, all unset, all empty, each alone set / unset / empty, random assignments; the full product in the thorough tier), with the real collaborators '
                '(sdss_score on synthetic fpFieldStat/psField files; template_input without a dump file). '
                'The full process environment is compared before/after, every write to os.environ (os.putenv, os.unsetenv) by a frame that is not the entry point or an inlined helper is logged, '
                'and the observed os.environ operations must be a trace of the generated skeleton (Coq: accepts) whose presence flags are consistent with the initial state (Coq: consistent). '
                'Family options: the keyword options of each entry point (names and defaults read off the signature by translate/c20.py): every boolean keyword alone at the other value, all of them, '
                'non-bool spellings (1 / 0 / None / a string), in the states all set / all unset / one unset, with faults spread over the call sequence. '
                'Family value-variety: initial values of the touched variables of length 0, 1, 16, 17, 64, 4096, non-ASCII, non-UTF-8 bytes, with = / blanks / a newline, compared as exact strings. '
                'Family handler-faults: the injected exception has a class named by a handler of the entry point or an inlined helper (read off the source), so the handler path runs. '
                'Family double-fault: after a first fault, each call made by a handler / finally block fails in turn. '
                'Family natural-failures: missing, empty, truncated, binary, directory-in-place-of parameter / dump / window_flist files and parameter files lacking or mis-spelling keywords before and after the export. '
                'Family fresh-interpreter: the first call in a new interpreter that imported only the module of the entry point (sys.modules recorded before the call; modules imported during the call listed), '
                'with the variables that module bodies of reachable pydl modules read or write (derived from the call graph) unset and set, and in a minimal environment; the environment is also compared across the import. '
                'non-trivial = a run with an injected fault; distinct by (entry point, state, variant, k)',
        'runs_by_kind': dist,
        'seconds': timing,
        'initial_states': cov_states,
        'call_graph': {'env_writers_in_package': info.get('env_writers_in_package'), 'uninlined_writers': info.get('uninlined_writers'),
                       'reachable_units': dict((t, (_meta.get(t) or {}).get('reachable_units')) for t in TARGETS),
                       'inlined': dict((t, (_meta.get(t) or {}).get('inlined')) for t in TARGETS)},
        'faults_fired': fired,
        'second_faults_fired': sum(1 for _, _, run, r in all_runs if run.get('fault2') is not None and r.get('fired2_at')),
        'calls_after_first_fault': sorted(set(n for _, _, run, r in all_runs for n in (r.get('after_names') or [])))[:20],
        'run_matrix': dict((t, dict((k, v) for k, v in (((_meta.get('<info>') or {}).get('matrix') or {}).get(t) or {}).items() if k != 'eager_modules'))
                           for t in TARGETS),
        'fresh_interpreter': dict((t, {'runs': sum(1 for tt, _, run, _ in all_runs if tt == t and run['family'] == 'fresh-interpreter'),
                                       'pydl_modules_before_call': max([len(r.get('pydl_modules_before_call') or []) for tt, _, run, r in all_runs
                                                                        if tt == t and run['family'] == 'fresh-interpreter'] or [0]),
                                       'imported_by_call': sorted(set(m for tt, _, run, r in all_runs if tt == t for m in (r.get('pydl_modules_imported_by_call') or [])))})
                                  for t in TARGETS),
        'initial_values': VALUE_LABELS,
        'not_restored': sum(1 for v in verdicts if v & 2),
        'trace_not_accepted': sum(1 for v in verdicts if v & 1),
        'foreign_writes': sum(1 for _, _, _, r in all_runs if r.get('foreign_writes')),
        'deepest_failures': sorted(set('%s: %s' % (t, (r['exc'] or '')[:60]) for t, _, run, r in all_runs
                                       if run['fault'] is None and r['outcome'] == 'raised'))[:12],
        'samples': [{'target': t, 'init': run['init'], 'fault': run['fault'], 'args': run['args'], 'outcome': r['outcome'],
                     'exc': r['exc'], 'fired_at': r['fired_at'], 'trace': r['trace'], 'env_diff': r['env_diff']}
                    for t, _, run, r in (all_runs[:2] + all_runs[-2:])],
    })
    seen = set()
    for (target, names, run, r), v, term in zip(all_runs, verdicts, terms):
        if v & 2:
            sig = 'C20:%s:not-restored:%s' % (target, ','.join(sorted(r['env_diff'])))
            if sig in seen:
                continue
            seen.add(sig)
            how = []
            if run['args'].get('kwargs'):
                how.append('options %s' % run['args']['kwargs'])
            oth = dict((k, x) for k, x in run['args'].items() if k not in ('kwargs',) and x not in (False, None))
            if oth:
                how.append('variant %s' % oth)
            if run.get('family') == 'fresh-interpreter':
                how.append('first call in a fresh interpreter that imported only %s%s (pydl modules imported during the call: %s)' % (
                    run.get('module'), ', minimal environment' if run.get('minimal_env') else '',
                    ', '.join((r.get('pydl_modules_imported_by_call') or [])[:6]) or 'none'))
            state = dict((k, x) for k, x in run['init'].items() if x not in ('orig-value', '@dir'))
            if run['fault'] is not None:
                where = 'call #%s (%s) fails%s%s' % (run['fault'], r['fired_at'], ' with %s' % run['fault_class'] if run.get('fault_class') else '',
                                                    ' and then call #%s after it (%s) fails too' % (run['fault2'], r.get('fired2_at')) if run.get('fault2') is not None else '')
                where += ' (it %s: %s), initial state %s' % (r['outcome'], (r['exc'] or 'no exception')[:60], state)
            else:
                where = 'it %s (%s) from the initial state %s' % (r['outcome'], (r['exc'] or 'no exception')[:60], state)
            if how:
                where += '; ' + '; '.join(how)
            where += '; ' + ', '.join('%s: %r -> %r' % (k, d[0], d[1]) for k, d in sorted(r['env_diff'].items()))[:300]
            ctx.violation(sig, '%s leaves %s changed when %s%s' % (target, sorted(r['env_diff']), where,
                                                                   '; written by %s' % r['foreign_writes'][0][2] if r.get('foreign_writes') else ''),
                          {'kind': 'failing-input', 'target': target, 'init': run['init'], 'fault': run['fault'], 'args': run['args'],
                           'run': run, 'vars': names, 'inlined': (_meta.get(target) or {}).get('inlined') or [],
                           'observed': r, 'coq_case': term[:2000], 'verdict': v}, True)
        elif v & 1:
            sig = 'C20:%s:trace-not-in-skeleton' % target
            if r.get('foreign_writes'):
                sig = 'C20:%s:collaborator-writes-environment:%s' % (target, ','.join(sorted(set(w[1] for w in r['foreign_writes']))))
            if sig in seen:
                continue
            seen.add(sig)
            ctx.violation(sig, 'observed os.environ operations of %s are not a behaviour of the generated skeleton%s' % (
                target, ' (written by %s)' % r['foreign_writes'][0][2] if r.get('foreign_writes') else ''),
                          {'kind': 'broken-correspondence', 'item': 'C20.Model.accepts %s_skel' % target, 'init': run['init'],
                           'fault': run['fault'], 'args': run['args'], 'run': run, 'target': target, 'vars': names,
                           'inlined': (_meta.get(target) or {}).get('inlined') or [], 'observed': r, 'coq_case': term[:2000]}, False)
    # process-global side effect at import: the environment differs across the import of the entry point's module
    for target, names, run, r in all_runs:
        if r.get('import_env_diff'):
            sig = 'C20:import-time-environment-write:%s' % ','.join(sorted(r['import_env_diff']))
            if sig not in seen:
                seen.add(sig)
                ctx.violation(sig, 'importing %s in a fresh interpreter changes the environment: %s' % (run.get('module'), r['import_env_diff']),
                              {'kind': 'broken-correspondence', 'item': 'import of %s leaves os.environ unchanged' % run.get('module'),
                               'target': target, 'run': run, 'vars': names, 'observed': r}, False)
    # the call-graph obligation, reported with its reason (Props.v: C20_collaborators_do_not_write fails on it)
    for u in info.get('uninlined_writers') or []:
        ctx.violation('C20:uninlined-environment-writer', 'a collaborator that may write the environment cannot be placed in the skeleton: %s' % u,
                      {'kind': 'broken-proof', 'item': 'C20_collaborators_do_not_write', 'detail': info.get('uninlined_writers')}, False)
        break


def replay(ctx, rep):
    if 'target' not in rep:
        print('replay file has no fault schedule (kind=%s item=%s)' % (rep.get('kind'), rep.get('item')))
        return 2
    run = rep.get('run') or {'init': rep['init'], 'fault': rep['fault'], 'args': rep['args']}
    wd = os.path.join(ctx.work, 'replay')
    if run.get('family') == 'fresh-interpreter':
        # the input files are made by an ordinary run first
        C.run_impl('c20_impl.py', {'target': rep['target'], 'workdir': wd, 'vars': rep['vars'], 'inlined': rep.get('inlined') or [],
                                   'runs': [{'init': rep['init'], 'fault': 0, 'args': {}}]})
    out = C.run_impl('c20_impl.py', {'target': rep['target'], 'workdir': wd, 'vars': rep['vars'],
                                     'inlined': rep.get('inlined') or [], 'fresh': run.get('family') == 'fresh-interpreter',
                                     'runs': [run]})
    print('schedule:', rep['target'], run)
    print('now     :', out['results'][0])
    print('before  :', rep.get('observed'))
    return 0
