(* Proofs about BSpline/Eval.v, part "basis":
   1. BSPLVN returns non-negative numbers summing to one (loop invariant of bsplvn_loop over pass_sum / pass_nonneg);
   2. the interval search: advance / intrv1 / intrv, and evaluation of sorted points one by one. *)
From Coq Require Import QArith Qround Qabs Lqa List Bool Arith Lia Setoid Morphisms.
Import ListNotations.
From PV Require Import Lib.WLS BSpline.Eval BSpline.CoxDeBoor BSpline.EvalProofs.
Open Scope Q_scope.

(* ================================================================== PART 1: BSPLVN *)

(* ------------------------------------------------------------------ lists given by map over seq *)
Lemma Forall_map_seq (P : Q -> Prop) (f : nat -> Q) : forall n r,
  (forall q, (r <= q < r + n)%nat -> P (f q)) -> Forall P (map f (seq r n)).
Proof.
  induction n; intros r H; cbn [seq map]; constructor.
  - apply H. lia.
  - apply IHn. intros q Hq. apply H. lia.
Qed.

Lemma Forall2_map_seq (R : Q -> Q -> Prop) (f g : nat -> Q) : forall n r,
  (forall q, (r <= q < r + n)%nat -> R (f q) (g q)) -> Forall2 R (map f (seq r n)) (map g (seq r n)).
Proof.
  induction n; intros r H; cbn [seq map]; constructor.
  - apply H. lia.
  - apply IHn. intros q Hq. apply H. lia.
Qed.

(* the two difference tables of BSPLVN after j steps:
   dpl = deltap[0..j-1],  dml = deltam[j-1], ..., deltam[0] *)
Definition dpl (t : list Q) (x : Q) (l j : nat) : list Q :=
  map (fun q => nthQ t (l + q + 1) - x) (seq 0 j).
Definition dml (t : list Q) (x : Q) (l j : nat) : list Q :=
  map (fun q => x - nthQ t (l - j + 1 + q)) (seq 0 j).

Lemma dpl_length t x l j : length (dpl t x l j) = j.
Proof. unfold dpl. rewrite map_length, seq_length. reflexivity. Qed.
Lemma dml_length t x l j : length (dml t x l j) = j.
Proof. unfold dml. rewrite map_length, seq_length. reflexivity. Qed.

Lemma dpl_S t x l j : dpl t x l j ++ [nthQ t (l + j + 1) - x] = dpl t x l (S j).
Proof. unfold dpl. rewrite seq_S, map_app. reflexivity. Qed.

Lemma dml_S t x l j : (j < l)%nat -> (x - nthQ t (l - j)) :: dml t x l j = dml t x l (S j).
Proof.
  intros Hj. unfold dml. cbn [seq map].
  replace (l - S j + 1 + 0)%nat with (l - j)%nat by lia. f_equal.
  rewrite <- seq_shift, map_map. apply map_ext. intros q. do 2 f_equal. lia.
Qed.

Section Tables.
Variables (t : list Q) (x : Q) (l : nat).
Hypothesis Hnd : nondecr t.
Hypothesis Hcell : nthQ t l < nthQ t (S l).

(* deltap[r] + deltam[j-1-r] = t_{l+r+1} - t_{l-j+1+r} > 0 *)
Lemma dpl_dml_pos j : (j <= l)%nat -> (l + j < length t)%nat ->
  Forall2 (fun p m => 0 < p + m) (dpl t x l j) (dml t x l j).
Proof.
  intros Hj Hlen. unfold dpl, dml. apply Forall2_map_seq. intros q Hq. cbv beta.
  assert (H1 : nthQ t (l - j + 1 + q) <= nthQ t l) by (apply Hnd; lia).
  assert (H2 : nthQ t (S l) <= nthQ t (l + q + 1)) by (apply Hnd; lia).
  lra.
Qed.

Lemma dpl_dml_nz j : (j <= l)%nat -> (l + j < length t)%nat ->
  Forall2 (fun p m => ~ p + m == 0) (dpl t x l j) (dml t x l j).
Proof.
  intros Hj Hlen. unfold dpl, dml. apply Forall2_map_seq. intros q Hq. cbv beta.
  assert (H1 : nthQ t (l - j + 1 + q) <= nthQ t l) by (apply Hnd; lia).
  assert (H2 : nthQ t (S l) <= nthQ t (l + q + 1)) by (apply Hnd; lia).
  intro E. lra.
Qed.

Lemma dpl_nonneg j : (l + j < length t)%nat -> x <= nthQ t (S l) ->
  Forall (fun p => 0 <= p) (dpl t x l j).
Proof.
  intros Hlen Hx. unfold dpl. apply Forall_map_seq. intros q Hq.
  assert (H2 : nthQ t (S l) <= nthQ t (l + q + 1)) by (apply Hnd; lia).
  lra.
Qed.

Lemma dml_nonneg j : (j <= l)%nat -> (l < length t)%nat -> nthQ t l <= x ->
  Forall (fun m => 0 <= m) (dml t x l j).
Proof.
  intros Hj Hlen Hx. unfold dml. apply Forall_map_seq. intros q Hq.
  assert (H1 : nthQ t (l - j + 1 + q) <= nthQ t l) by (apply Hnd; lia).
  lra.
Qed.
End Tables.

(* ------------------------------------------------------------------ the loop carries any pass-invariant *)
Lemma bsplvn_loop_inv (P : list Q -> Prop) t x l :
  (forall j v, (j < l)%nat -> (l + S j < length t)%nat -> length v = S j -> P v ->
               P (pass v (dpl t x l (S j)) (dml t x l (S j)) 0)) ->
  forall steps j v, (j + steps <= l)%nat -> (l + j + steps < length t)%nat -> length v = S j -> P v ->
  P (bsplvn_loop steps j t x l v (dpl t x l j) (dml t x l j)).
Proof.
  intros Hstep. induction steps as [|s IH]; intros j v Hj Hlen Hv HP; cbn [bsplvn_loop].
  - exact HP.
  - rewrite dpl_S, dml_S by lia. apply IH; try lia.
    + rewrite pass_length'; [lia | rewrite dpl_length; lia | rewrite dml_length; lia].
    + apply Hstep; try lia. exact HP.
Qed.

Lemma bsplvn_as_loop t k x l : bsplvn t k x l = bsplvn_loop (k - 1) 0 t x l [1] (dpl t x l 0) (dml t x l 0).
Proof. reflexivity. Qed.

(* 1. partition of unity: for every x *)
Theorem bsplvn_partition_of_unity : forall t k x l,
  nondecr t -> (1 <= k)%nat -> (k - 1 <= l)%nat -> (l + k <= length t)%nat ->
  nthQ t l < nthQ t (S l) ->
  sumQ (bsplvn t k x l) == 1.
Proof.
  intros t k x l Hnd Hk Hkl Hlen Hcell. rewrite bsplvn_as_loop.
  apply (bsplvn_loop_inv (fun v => sumQ v == 1)); try lia.
  - intros j v Hj Hl Hv Hs.
    rewrite pass_sum.
    + rewrite Hs. ring.
    + rewrite dpl_length; lia.
    + rewrite dml_length; lia.
    + apply dpl_dml_nz; try assumption; lia.
  - reflexivity.
  - cbn [sumQ]. ring.
Qed.

(* 2. non-negativity inside the (closed) cell *)
Theorem bsplvn_nonneg : forall t k x l,
  nondecr t -> (1 <= k)%nat -> (k - 1 <= l)%nat -> (l + k <= length t)%nat ->
  nthQ t l < nthQ t (S l) -> nthQ t l <= x -> x <= nthQ t (S l) ->
  Forall (fun a => 0 <= a) (bsplvn t k x l).
Proof.
  intros t k x l Hnd Hk Hkl Hlen Hcell Hx1 Hx2. rewrite bsplvn_as_loop.
  apply (bsplvn_loop_inv (fun v => Forall (fun a => 0 <= a) v)); try lia.
  - intros j v Hj Hl Hv Hs.
    apply pass_nonneg.
    + lra.
    + exact Hs.
    + apply dpl_nonneg; try assumption.
    + apply dml_nonneg; try assumption; lia.
    + apply dpl_dml_pos; try assumption; lia.
  - reflexivity.
  - constructor; [lra | constructor].
Qed.

Lemma sumQ_nonneg v : Forall (fun a => 0 <= a) v -> 0 <= sumQ v.
Proof.
  induction 1 as [|a v Ha Hv IH]; cbn [sumQ]; lra.
Qed.

Lemma nonneg_le_sumQ v : Forall (fun a => 0 <= a) v -> Forall (fun a => a <= sumQ v) v.
Proof.
  induction 1 as [|a v Ha Hv IH]; cbn [sumQ]; constructor.
  - pose proof (sumQ_nonneg v Hv). lra.
  - eapply Forall_impl; [|exact IH]. intros b Hb. cbv beta in Hb. lra.
Qed.

(* 3. every basis value is at most one *)
Corollary bsplvn_le_one : forall t k x l,
  nondecr t -> (1 <= k)%nat -> (k - 1 <= l)%nat -> (l + k <= length t)%nat ->
  nthQ t l < nthQ t (S l) -> nthQ t l <= x -> x <= nthQ t (S l) ->
  Forall (fun a => a <= 1) (bsplvn t k x l).
Proof.
  intros t k x l Hnd Hk Hkl Hlen Hcell Hx1 Hx2.
  pose proof (bsplvn_partition_of_unity t k x l Hnd Hk Hkl Hlen Hcell) as Hs.
  pose proof (nonneg_le_sumQ _ (bsplvn_nonneg t k x l Hnd Hk Hkl Hlen Hcell Hx1 Hx2)) as Hle.
  eapply Forall_impl; [|exact Hle]. intros a Ha. cbv beta in Ha. rewrite Hs in Ha. exact Ha.
Qed.

(* ================================================================== PART 2: the interval search *)

(* 4. what the walk returns.  No monotonicity of gb is needed; the fuel only has to cover the distance
      to the ceiling n-1 (fuel >= n, or fuel = length gb with n = length gb - k, are special cases). *)
Lemma advance_spec : forall fuel gb n x i0,
  (n - 1 - i0 <= fuel)%nat -> (i0 <= n - 1)%nat ->
  let l := advance fuel gb n x i0 in
  (i0 <= l <= n - 1)%nat /\
  (forall i, (i0 < i <= l)%nat -> nthQ gb i < x) /\
  ((l < n - 1)%nat -> x <= nthQ gb (S l)).
Proof.
  induction fuel as [|f IH]; intros gb n x i0 Hf Hi; cbv zeta; cbn [advance].
  - split; [lia|]. split; intros; lia.
  - destruct (Qltb (nthQ gb (S i0)) x) eqn:E1; cbn [andb].
    + destruct (S i0 <? n)%nat eqn:E2.
      * apply Nat.ltb_lt in E2. apply Qltb_lt in E1.
        destruct (IH gb n x (S i0)) as (A & B & C); try lia.
        split; [lia|]. split; [|exact C].
        intros i Hi'. destruct (Nat.eq_dec i (S i0)) as [->|Hne]; [exact E1|].
        apply B. lia.
      * apply Nat.ltb_ge in E2.
        split; [lia|]. split; intros; lia.
    + apply Qltb_ge in E1.
      split; [lia|]. split; [intros; lia|]. intros _. exact E1.
Qed.

(* the converse: the walk is determined by these properties *)
Lemma advance_reach gb n x : forall fuel i0 L,
  (i0 <= L)%nat -> (L - i0 <= fuel)%nat -> (L <= n - 1)%nat ->
  (forall i, (i0 < i <= L)%nat -> nthQ gb i < x) ->
  ((L < n - 1)%nat -> x <= nthQ gb (S L)) ->
  advance fuel gb n x i0 = L.
Proof.
  induction fuel as [|f IH]; intros i0 L H1 H2 H3 H4 H5; cbn [advance].
  - lia.
  - destruct (Nat.eq_dec i0 L) as [->|Hne].
    + destruct (S L <? n)%nat eqn:E2.
      * apply Nat.ltb_lt in E2.
        assert (E1 : Qltb (nthQ gb (S L)) x = false) by (apply Qltb_ge, H5; lia).
        rewrite E1. reflexivity.
      * rewrite andb_false_r. reflexivity.
    + assert (E1 : Qltb (nthQ gb (S i0)) x = true) by (apply Qltb_lt, H4; lia).
      assert (E2 : (S i0 <? n)%nat = true) by (apply Nat.ltb_lt; lia).
      rewrite E1, E2. cbn [andb]. apply IH; try lia; [|exact H5].
      intros i Hi. apply H4. lia.
Qed.

(* composition: restarting the walk anywhere between the start and its result gives the same result *)
Lemma advance_restart : forall f f' gb n x i0 i1,
  (n - 1 - i0 <= f)%nat -> (n - 1 - i1 <= f')%nat -> (i0 <= n - 1)%nat ->
  (i0 <= i1 <= advance f gb n x i0)%nat ->
  advance f' gb n x i1 = advance f gb n x i0.
Proof.
  intros f f' gb n x i0 i1 Hf Hf' Hi0 Hi1.
  destruct (advance_spec f gb n x i0 Hf Hi0) as (A & B & C).
  apply advance_reach; try lia; [|exact C].
  intros i Hi. apply B. lia.
Qed.

Lemma advance_idem : forall f f' gb n x i0,
  (n - 1 - i0 <= f)%nat -> (i0 <= n - 1)%nat ->
  advance f' gb n x (advance f gb n x i0) = advance f gb n x i0.
Proof.
  intros f f' gb n x i0 Hf Hi0.
  destruct (advance_spec f gb n x i0 Hf Hi0) as (A & B & C).
  apply advance_reach; try lia. exact C.
Qed.

(* the walk is monotone in the point (still no monotonicity of gb) *)
Lemma advance_mono : forall f f' gb n x x' i0,
  (n - 1 - i0 <= f)%nat -> (n - 1 - i0 <= f')%nat -> (i0 <= n - 1)%nat -> x <= x' ->
  (advance f gb n x i0 <= advance f' gb n x' i0)%nat.
Proof.
  intros f f' gb n x x' i0 Hf Hf' Hi0 Hxx.
  destruct (advance_spec f gb n x i0 Hf Hi0) as (A & B & C).
  destruct (advance_spec f' gb n x' i0 Hf' Hi0) as (A' & B' & C').
  destruct (le_lt_dec (advance f gb n x i0) (advance f' gb n x' i0)) as [Hle|Hlt]; [exact Hle|].
  exfalso.
  assert (H1 : x' <= nthQ gb (S (advance f' gb n x' i0))) by (apply C'; lia).
  assert (H2 : nthQ gb (S (advance f' gb n x' i0)) < x) by (apply B; lia).
  lra.
Qed.

(* 5. the interval of one point: left-open (gb_l, gb_{l+1}], clamped at both ends *)
Theorem intrv1_spec : forall gb k x, (1 <= k)%nat -> (2 * k <= length gb)%nat ->
  let n := (length gb - k)%nat in
  let l := intrv1 gb k x in
  (k - 1 <= l <= n - 1)%nat /\
  ((k - 1 < l)%nat -> nthQ gb l < x) /\
  ((l < n - 1)%nat -> x <= nthQ gb (S l)).
Proof.
  intros gb k x Hk Hlen. cbv zeta. unfold intrv1.
  destruct (advance_spec (length gb) gb (length gb - k) x (k - 1)) as (A & B & C); try lia.
  split; [exact A|]. split; [|exact C].
  intros Hl. apply B. lia.
Qed.

Lemma intrv1_mono : forall gb k x x', (1 <= k)%nat -> (2 * k <= length gb)%nat -> x <= x' ->
  (intrv1 gb k x <= intrv1 gb k x')%nat.
Proof.
  intros gb k x x' Hk Hlen Hxx. unfold intrv1. apply advance_mono; try lia. exact Hxx.
Qed.

(* 6. walking the sorted points from the previous interval = walking each from the floor.
      (gb need not be monotone for this; see intrv_pointwise below for the statement with nondecr gb) *)
Lemma intrv_walk_pointwise gb k : (1 <= k)%nat -> (2 * k <= length gb)%nat ->
  forall xs i0, sortedQ xs = true -> (k - 1 <= i0)%nat ->
  match xs with [] => True | x :: _ => (i0 <= intrv1 gb k x)%nat end ->
  intrv_walk gb (length gb - k) xs i0 = map (intrv1 gb k) xs.
Proof.
  intros Hk Hlen. induction xs as [|x xs IH]; intros i0 Hs Hi0 Hle; cbn [intrv_walk map]; [reflexivity|].
  assert (E : advance (length gb) gb (length gb - k) x i0 = intrv1 gb k x).
  { unfold intrv1 in *. apply advance_restart; lia. }
  cbv zeta. rewrite E. f_equal.
  pose proof (intrv1_spec gb k x Hk Hlen) as (A & _). cbv zeta in A.
  destruct xs as [|x' xs'].
  - reflexivity.
  - cbn [sortedQ] in Hs. apply andb_true_iff in Hs. destruct Hs as [Hxx Hs'].
    apply Qle_bool_iff in Hxx.
    apply IH; [exact Hs' | lia |].
    apply intrv1_mono; assumption.
Qed.

Theorem intrv_pointwise_gen : forall gb k xs, (1 <= k)%nat -> (2 * k <= length gb)%nat ->
  sortedQ xs = true -> intrv gb k xs = map (intrv1 gb k) xs.
Proof.
  intros gb k xs Hk Hlen Hs. unfold intrv. apply intrv_walk_pointwise; try assumption; try lia.
  destruct xs as [|x xs']; [exact I|].
  pose proof (intrv1_spec gb k x Hk Hlen) as (A & _). cbv zeta in A. lia.
Qed.

Theorem intrv_pointwise : forall gb k xs, nondecr gb -> (1 <= k)%nat -> (2 * k <= length gb)%nat ->
  sortedQ xs = true -> intrv gb k xs = map (intrv1 gb k) xs.
Proof.
  intros gb k xs _. apply intrv_pointwise_gen.
Qed.

(* 7. the specification of every index returned by intrv *)
Lemma intrv1_spec_Forall2 gb k : (1 <= k)%nat -> (2 * k <= length gb)%nat -> forall xs,
  Forall2 (fun x l => (k - 1 <= l <= length gb - k - 1)%nat /\
                      ((k - 1 < l)%nat -> nthQ gb l < x) /\
                      ((l < length gb - k - 1)%nat -> x <= nthQ gb (S l)))
          xs (map (intrv1 gb k) xs).
Proof.
  intros Hk Hlen. induction xs as [|x xs IH]; cbn [map]; constructor; [|exact IH].
  exact (intrv1_spec gb k x Hk Hlen).
Qed.

Corollary intrv_spec : forall gb k xs, nondecr gb -> (1 <= k)%nat -> (2 * k <= length gb)%nat ->
  sortedQ xs = true ->
  Forall2 (fun x l => (k - 1 <= l <= length gb - k - 1)%nat /\
                      ((k - 1 < l)%nat -> nthQ gb l < x) /\
                      ((l < length gb - k - 1)%nat -> x <= nthQ gb (S l)))
          xs (intrv gb k xs).
Proof.
  intros gb k xs Hnd Hk Hlen Hs. rewrite (intrv_pointwise gb k xs Hnd Hk Hlen Hs).
  apply intrv1_spec_Forall2; assumption.
Qed.

(* 8. lengths, and evaluation of sorted points *)
Lemma intrv_walk_length gb n : forall xs i0, length (intrv_walk gb n xs i0) = length xs.
Proof.
  induction xs as [|x xs IH]; intros i0; cbn [intrv_walk length]; [reflexivity|].
  rewrite IH. reflexivity.
Qed.

Theorem intrv_length : forall gb k xs, length (intrv gb k xs) = length xs.
Proof.
  intros gb k xs. unfold intrv. apply intrv_walk_length.
Qed.

Lemma map_combine_map {A B C} (f : A -> B) (g : A * B -> C) : forall xs,
  map g (combine xs (map f xs)) = map (fun x => g (x, f x)) xs.
Proof.
  induction xs as [|x xs IH]; cbn [map combine]; [reflexivity|]. rewrite IH. reflexivity.
Qed.

Theorem value_sorted_pointwise_gen : forall gb k c xs, (1 <= k)%nat -> (2 * k <= length gb)%nat ->
  sortedQ xs = true -> value_sorted gb k c xs = map (eval1 gb k c) xs.
Proof.
  intros gb k c xs Hk Hlen Hs. unfold value_sorted.
  rewrite (intrv_pointwise_gen gb k xs Hk Hlen Hs), map_combine_map. reflexivity.
Qed.

Theorem value_sorted_pointwise : forall gb k c xs, nondecr gb -> (1 <= k)%nat -> (2 * k <= length gb)%nat ->
  sortedQ xs = true -> value_sorted gb k c xs = map (eval1 gb k c) xs.
Proof.
  intros gb k c xs _. apply value_sorted_pointwise_gen.
Qed.

Print Assumptions bsplvn_partition_of_unity.
Print Assumptions bsplvn_nonneg.
Print Assumptions intrv1_spec.
Print Assumptions intrv_pointwise.
Print Assumptions value_sorted_pointwise.
