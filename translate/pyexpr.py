"""Fail-closed translation of small Python integer expressions to Gallina (Z).

Accepted: names (mapped through `env`), integer literals, BinOp over
<< >> | & ** - + * // %, and the wrappers the sources use around operands
(`x.astype(np.uint64)`, `np.bitwise_and(a, b)`, `int(x)`).  Anything else
raises Unrecognised -- the caller records recognised: false.
"""
import ast


class Unrecognised(Exception):
    pass


BIN = {
    ast.LShift: 'Z.shiftl', ast.RShift: 'Z.shiftr', ast.BitOr: 'Z.lor', ast.BitAnd: 'Z.land',
    ast.Add: 'Z.add', ast.Sub: 'Z.sub', ast.Mult: 'Z.mul', ast.FloorDiv: 'Z.div', ast.Mod: 'Z.modulo',
    ast.Pow: 'Z.pow',
}


def zlit(n):
    return '(%d)' % n if n < 0 else '%d' % n


def const_value(node):
    """Evaluate a constant integer expression (2**11, 2**4 - 1, -1)."""
    if isinstance(node, ast.Constant) and isinstance(node.value, int) and not isinstance(node.value, bool):
        return node.value
    if isinstance(node, ast.UnaryOp) and isinstance(node.op, ast.USub):
        return -const_value(node.operand)
    if isinstance(node, ast.BinOp):
        a, b = const_value(node.left), const_value(node.right)
        if isinstance(node.op, ast.Pow):
            if b < 0 or b > 4096:
                raise Unrecognised('pow exponent')
            return a ** b
        if isinstance(node.op, ast.Add):
            return a + b
        if isinstance(node.op, ast.Sub):
            return a - b
        if isinstance(node.op, ast.Mult):
            return a * b
        if isinstance(node.op, ast.LShift):
            return a << b
    raise Unrecognised('not a constant: %s' % ast.dump(node)[:80])


def to_gallina(node, env, casts=None):
    """env: python name -> gallina variable.  casts: list collecting 'astype' notes."""
    if isinstance(node, ast.Constant):
        if isinstance(node.value, int) and not isinstance(node.value, bool):
            return zlit(node.value)
        raise Unrecognised('constant %r' % (node.value,))
    if isinstance(node, ast.Name):
        if node.id in env:
            return env[node.id]
        raise Unrecognised('free name %s' % node.id)
    if isinstance(node, ast.UnaryOp) and isinstance(node.op, ast.USub):
        return '(Z.opp %s)' % to_gallina(node.operand, env, casts)
    if isinstance(node, ast.BinOp):
        op = BIN.get(type(node.op))
        if op is None:
            raise Unrecognised('operator %s' % type(node.op).__name__)
        return '(%s %s %s)' % (op, to_gallina(node.left, env, casts), to_gallina(node.right, env, casts))
    if isinstance(node, ast.Call):
        f = node.func
        # x.astype(np.uint64) / x.astype(np.int64)
        if isinstance(f, ast.Attribute) and f.attr == 'astype' and len(node.args) == 1:
            a = node.args[0]
            if isinstance(a, ast.Attribute) and a.attr in ('uint64', 'int64'):
                if casts is not None:
                    casts.append(a.attr)
                return to_gallina(f.value, env, casts)
            raise Unrecognised('astype target')
        # np.bitwise_and(a, b)
        if isinstance(f, ast.Attribute) and f.attr == 'bitwise_and' and len(node.args) == 2:
            return '(Z.land %s %s)' % (to_gallina(node.args[0], env, casts), to_gallina(node.args[1], env, casts))
        if isinstance(f, ast.Attribute) and f.attr == 'bitwise_or' and len(node.args) == 2:
            return '(Z.lor %s %s)' % (to_gallina(node.args[0], env, casts), to_gallina(node.args[1], env, casts))
        if isinstance(f, ast.Name) and f.id == 'int' and len(node.args) == 1:
            return to_gallina(node.args[0], env, casts)
        raise Unrecognised('call %s' % ast.dump(f)[:60])
    raise Unrecognised('node %s' % type(node).__name__)


def find_function(tree, name):
    for n in ast.walk(tree):
        if isinstance(n, ast.FunctionDef) and n.name == name:
            return n
    raise Unrecognised('function %s not found' % name)


def range_check(ifnode):
    """Recognise  if ((x < a) | (x >= b)).any(): raise ValueError(...)
    Returns (name, lo, hi) meaning the value is accepted iff lo <= x <= hi."""
    if not (isinstance(ifnode, ast.If) and len(ifnode.body) == 1 and isinstance(ifnode.body[0], ast.Raise)):
        return None
    exc = ifnode.body[0].exc
    excname = None
    if isinstance(exc, ast.Call) and isinstance(exc.func, ast.Name):
        excname = exc.func.id
    t = ifnode.test
    if not (isinstance(t, ast.Call) and isinstance(t.func, ast.Attribute) and t.func.attr == 'any' and not t.args):
        return None
    e = t.func.value
    if not (isinstance(e, ast.BinOp) and isinstance(e.op, ast.BitOr)):
        return None
    lo = hi = None
    name = None
    for side in (e.left, e.right):
        if not (isinstance(side, ast.Compare) and len(side.ops) == 1 and isinstance(side.left, ast.Name)):
            raise Unrecognised('range idiom side')
        nm = side.left.id
        if name is None:
            name = nm
        elif name != nm:
            raise Unrecognised('range idiom mixes %s and %s' % (name, nm))
        c = const_value(side.comparators[0])
        op = side.ops[0]
        if isinstance(op, ast.Lt):
            lo = c if lo is None else max(lo, c)
        elif isinstance(op, ast.LtE):
            lo = c + 1 if lo is None else max(lo, c + 1)
        elif isinstance(op, ast.Gt):
            hi = c if hi is None else min(hi, c)
        elif isinstance(op, ast.GtE):
            hi = c - 1 if hi is None else min(hi, c - 1)
        else:
            raise Unrecognised('range idiom operator')
    if lo is None or hi is None:
        raise Unrecognised('one-sided range check on %s' % name)
    return (name, lo, hi, excname)
