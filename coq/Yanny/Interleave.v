(* Yanny/Interleave.v -- rows of different tables interleaved in any order (each table's rows in their own
   order): the file-level theorems of RoundTrip / LayoutFile / LayoutFile2 for every such ordering. *)
From Coq Require Import NArith ZArith List Bool Lia.
Import ListNotations.
From PV Require Import Yanny.Bytes Yanny.BytesFacts Yanny.Types Yanny.Parse Yanny.Render
  Yanny.TokenFacts Yanny.RowFacts Yanny.TypeFacts Yanny.DocFacts Yanny.LayoutFacts Yanny.ScanFacts Yanny.StructFacts
  Yanny.EnumFacts Yanny.DtypeFacts Yanny.FileFacts Yanny.RoundTrip Yanny.LayoutFile Yanny.LayoutRow Yanny.LayoutFile2.
Open Scope N_scope.

(* everything before the data rows *)
Definition items_head (d : doc) (tws : list (table * list bytes)) : list item :=
  [ILine S_MAGIC] ++ map (fun c => ILine (comment_line c)) (d_comments d)
  ++ map (fun kv => ILine (pair_line kv)) (d_pairs d)
  ++ block_items KW_ENUM (map enum_td (d_enums d))
  ++ block_items KW_STRUCT (map (struct_td (d_enums d)) tws)
  ++ [ILine []].
(* the data rows as a sequence of (table, row) in file order *)
Definition items_gen (d : doc) (tws : list (table * list bytes)) (trs : list (table * list cell)) : list item :=
  items_head d tws ++ map (fun tr => ILine (tr_line tr)) trs.

(* an admissible ordering: only rows of the document, and every table sees exactly its rows in its order *)
Definition trs_ok (d : doc) (trs : list (table * list cell)) : Prop :=
  Forall (fun tr => In (fst tr) (d_tables d) /\ In (snd tr) (t_rows (fst tr))) trs /\
  forall t, In t (d_tables d) -> rows_for (upper (t_name t)) trs = t_rows t.

Lemma items_of_gen d tws : items_of d tws = items_gen d tws (all_trs (d_tables d)).
Proof.
  unfold items_of, items_gen, items_head. rewrite <- !app_assoc. repeat f_equal.
  unfold all_trs. induction (d_tables d) as [|t ts IH]; [reflexivity|]. cbn [flat_map]. rewrite map_app, <- IH. f_equal.
  unfold row_lines. rewrite !map_map. reflexivity.
Qed.

Lemma all_trs_ok d : distinct (tnames d) = true -> trs_ok d (all_trs (d_tables d)).
Proof.
  intros Hd. split.
  - apply Forall_forall. intros [t r] Hin. unfold all_trs in Hin. apply in_flat_map in Hin as [t' [Ht' Hin]].
    apply in_map_iff in Hin as [r' [E Hr']]. inversion E; subst. auto.
  - intros t Hin. now apply rows_for_distinct.
Qed.

Lemma items_gen_good d tws trs : doc_ok d = true -> map fst tws = d_tables d -> tws_ok (d_enums d) tws -> trs_ok d trs ->
  Forall item_good (items_gen d tws trs).
Proof.
  intros Hd Et Hok [Htr _]. destruct (doc_ok_parts d Hd) as [_ [_ [_ [_ [Hes [_ [Ht _]]]]]]].
  pose proof (items_all_good d tws Hd Et Hok) as G. rewrite items_of_gen in G. unfold items_gen in *.
  apply Forall_app in G as [Gh _]. apply Forall_app. split; [exact Gh|].
  apply Forall_map_in. intros [t r] Hin. rewrite Forall_forall in Htr. destruct (Htr _ Hin) as [H1 H2]. cbn [fst snd] in *.
  unfold tr_line. cbn [fst snd]. eapply row_good; eauto. rewrite forallb_forall in Ht. auto.
Qed.

Lemma items_gen_filter d tws trs kw : filter (item_is_td kw) (items_gen d tws trs) = filter (item_is_td kw) (items_of d tws).
Proof.
  rewrite items_of_gen. unfold items_gen. rewrite !filter_app. f_equal. now rewrite !filter_td_lines.
Qed.

Lemma items_head_lines d tws :
  map item_line (items_head d tws)
  = ([S_MAGIC] ++ map comment_line (d_comments d)) ++ map pair_line (d_pairs d)
    ++ (map item_line (block_items KW_ENUM (map enum_td (d_enums d)))
        ++ map item_line (block_items KW_STRUCT (map (struct_td (d_enums d)) tws)) ++ [[]]).
Proof. unfold items_head. rewrite !map_app. rewrite !map_map. cbn [map item_line]. rewrite <- !app_assoc. reflexivity. Qed.

Theorem gen_line_loop d tws trs : doc_ok d = true -> map fst tws = d_tables d -> tws_ok (d_enums d) tws -> trs_ok d trs ->
  exists st', process_lines (sy_of (d_enums d) tws) (st_init (sy_of (d_enums d) tws)) (map item_line (items_gen d tws trs) ++ [[]]) = Some st'
              /\ loop_result d st'.
Proof.
  intros Hd Et Hok [Htr Hrows]. destruct (doc_ok_parts d Hd) as [Hc [Hcn [Hp [Hdk [Hes [Hde [Ht Hdn]]]]]]].
  set (es := d_enums d) in *.
  assert (Hnames : map (fun tw => upper (t_name (fst tw))) tws = tnames d).
  { unfold tnames. rewrite <- Et. now rewrite map_map. }
  assert (Hdn' : distinct (map (fun tw => upper (t_name (fst tw))) tws) = true) by (now rewrite Hnames).
  set (sy := sy_of es tws) in *.
  assert (Hkeys : map fst sy = tnames d).
  { subst sy. unfold sy_of. rewrite map_map. cbn [fst]. exact Hnames. }
  unfold items_gen. rewrite map_app, items_head_lines. fold es. unfold loop_result, st_init.
  rewrite map_map. cbn [item_line].
  rewrite process_lines_app. rewrite process_lines_app. rewrite process_lines_app.
  rewrite skip_all.
  2:{ cbn [app]. constructor; [right; reflexivity|]. apply Forall_map_in. intros c _. right. reflexivity. }
  rewrite process_lines_app.
  rewrite (pairs_processed sy _ (d_pairs d) []).
  2:{ eapply forallb_impl; [|exact Hp]. intros [k v] H. cbn [fst snd] in *.
      apply andb_true_iff in H as [H H4]. apply andb_true_iff in H as [H H3]. apply andb_true_iff in H as [H1 H2].
      rewrite H1, H3. cbn [andb]. now rewrite Hkeys. }
  2:{ exact Hdk. }
  cbn [app]. rewrite skip_all.
  2:{ apply Forall_app. split; [apply block_lines_blank|]. apply Forall_app. split; [apply block_lines_blank|].
      constructor; [now left|constructor]. }
  change (map (fun x : table * list cell => tr_line x) trs) with (map tr_line trs).
  destruct (rows_processed es sy Hes trs
              (mkst (d_pairs d) (map (fun e : bytes * tcols => (fst e, @nil (list cell))) sy))) as [st' [P1 [P2 P3]]].
  { apply Forall_forall. intros [t r] Hin. rewrite Forall_forall in Htr. destruct (Htr _ Hin) as [Ht' Hr']. cbn [fst snd] in *.
    split; [rewrite forallb_forall in Ht; auto|]. split; [exact Hr'|].
    rewrite <- Et in Ht'. apply in_map_iff in Ht' as [tw [Etw Htw']]. subst t. subst sy. now apply assoc_sy_of. }
  rewrite P1. cbn [process_lines]. rewrite blank_and_comment_lines_skipped by (now left).
  exists st'. split; [reflexivity|]. split; [exact P2|]. intros t Hin. rewrite P3. cbn [st_rows].
  rewrite assoc_init.
  - cbn [option_map app]. f_equal. now apply Hrows.
  - rewrite Hkeys. apply existsb_exists. exists (upper (t_name t)). split; [|apply beq_refl].
    unfold tnames. now apply (in_map (fun t => upper (t_name t))).
Qed.

(* composition principle relative to ANY admissible row ordering *)
Theorem layout_composition_gen d tws trs Ds : doc_ok d = true -> map fst tws = d_tables d -> tws_ok (d_enums d) tws ->
  trs_ok d trs -> Forall item_good Ds -> Ds <> [] ->
  (forall kw, filter (item_is_td kw) Ds = filter (item_is_td kw) (items_gen d tws trs)) ->
  (forall st, process_lines (sy_of (d_enums d) tws) st (map item_line Ds)
              = process_lines (sy_of (d_enums d) tws) st (map item_line (items_gen d tws trs))) ->
  exists p, sem d = Some p /\ parse (items_text Ds) = Some p /\ parse_binary (items_text Ds) = Some p.
Proof.
  intros Hd Et Hok Htr G Hne F E. destruct (doc_ok_parts d Hd) as [_ [_ [_ [_ [Hes _]]]]].
  destruct (gen_line_loop d tws trs Hd Et Hok Htr) as [st' [PL LR]].
  apply (parse_items d tws Ds st'); auto.
  - rewrite F, items_gen_filter. apply items_structs.
  - rewrite F, items_gen_filter. now apply items_enums.
  - rewrite <- PL. rewrite !process_lines_app. now rewrite E.
Qed.

(* rows interleaved in any admissible order, nothing else changed *)
Theorem interleaved_roundtrip d tws trs : doc_ok d = true -> map fst tws = d_tables d -> tws_ok (d_enums d) tws -> trs_ok d trs ->
  exists p, sem d = Some p /\ parse (items_text (items_gen d tws trs)) = Some p /\ parse_binary (items_text (items_gen d tws trs)) = Some p.
Proof.
  intros Hd Et Hok Htr. apply (layout_composition_gen d tws trs); auto.
  - now apply items_gen_good.
  - unfold items_gen, items_head. discriminate.
Qed.

(* EVERYTHING TOGETHER: any admissible row ordering, every line decorated, comment / blank lines anywhere,
   every data row in any admissible token layout *)
Theorem layout_file_general d tws trs Ds : doc_ok d = true -> map fst tws = d_tables d -> tws_ok (d_enums d) tws ->
  trs_ok d trs -> idec (sy_of (d_enums d) tws) Ds (items_gen d tws trs) ->
  exists p, sem d = Some p /\ parse (items_text Ds) = Some p /\ parse_binary (items_text Ds) = Some p.
Proof.
  intros Hd Et Hok Htr HD.
  pose proof (items_gen_good d tws trs Hd Et Hok Htr) as Hg.
  destruct (idec_facts _ _ _ HD) as [F D].
  apply (layout_composition_gen d tws trs Ds); auto.
  - now apply (idec_good _ _ _ HD).
  - intros E. subst Ds. inversion HD.
  - intros st. now apply ldec_same_state.
Qed.
