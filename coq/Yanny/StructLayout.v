(* Yanny/StructLayout.v -- a family of layouts INSIDE a struct typedef block that the reader's scanners read as the
   table's declaration (TypedefLayout.td_reads):
     - any blank run (blanks, tabs, newlines) before the first declaration, between the type word and the declared
       name, and after every ';' -- with at least one newline between two declarations (one declaration per line:
       the reader's type lookup is line based);
     - comment / filler words (letters, digits, '_', '#', ',', '.', '-', ':', '(', ')') after a declaration and on lines of
       their own, anywhere between declarations and before the first one;
     - every array / length suffix spelled with brackets or with angle brackets, independently: x[3][20], x<3>[20], ...;
     - the typedef's trailing name in any letter case.
   The text around the braces is fixed: typedef struct {body} NAME;  (ScanFacts.td_text). *)
From Coq Require Import NArith ZArith List Bool Lia.
Import ListNotations.
From PV Require Import Yanny.Bytes Yanny.BytesFacts Yanny.Types Yanny.Parse Yanny.Render
  Yanny.TokenFacts Yanny.RowFacts Yanny.TypeFacts Yanny.DocFacts Yanny.LayoutFacts Yanny.ScanFacts Yanny.StructFacts
  Yanny.EnumFacts Yanny.DtypeFacts Yanny.FileFacts Yanny.RoundTrip Yanny.TypedefLayout.
Open Scope N_scope.

(* characters of filler words *)
Definition fch (x : N) : bool :=
  is_word x || (x =? HASH) || (x =? COMMA) || (x =? 46) || (x =? 45) || (x =? 58) || (x =? 40) || (x =? 41).
(* characters of blank runs *)
Definition wsch (x : N) : bool := (x =? SP) || (x =? TAB) || (x =? NL).
Definition nonempty (s : bytes) : bool := match s with [] => false | _ => true end.
(* a filler word and the blank run after it *)
Definition fpart_ok (ug : bytes * bytes) : bool :=
  nonempty (fst ug) && forallb fch (fst ug) && nonempty (snd ug) && forallb wsch (snd ug).
Definition ftext (fl : list (bytes * bytes)) : bytes := concat (map (fun ug => fst ug ++ snd ug) fl).

(* the suffix of a declared name as spelled: nothing, or bracket groups in either notation *)
Definition sfxch2 (x : N) : bool := is_digit x || is_open x || is_close x.
Definition sfx_ok (s : bytes) : bool :=
  match s with
  | [] => true
  | o :: r => is_open o && forallb sfxch2 r && match last_byte r with Some c => is_close c | None => false end
  end.

(* layout of one declaration *)
Record clay := mkclay { cl_gap : bytes; cl_sfx : bytes; cl_after : bytes; cl_fill : list (bytes * bytes) }.
Definition clay_ok (es : list enumdecl) (c : column) (y : clay) : bool :=
  nonempty (cl_gap y) && forallb wsch (cl_gap y) &&
  sfx_ok (cl_sfx y) && beq (normalise_array (cl_sfx y)) (decl_suffix es c) &&
  nonempty (cl_after y) && forallb wsch (cl_after y) && forallb fpart_ok (cl_fill y) &&
  mem NL (cl_after y ++ ftext (cl_fill y)).
Definition cpiece (c : column) (w : bytes) (y : clay) : bytes :=
  w ++ cl_gap y ++ (c_name c ++ cl_sfx y ++ [SEMI]) ++ cl_after y ++ ftext (cl_fill y).

(* the body: a blank run, filler, then the declarations *)
Fixpoint pieces (cols : list column) (ws : list bytes) (ys : list clay) : bytes :=
  match cols, ws, ys with
  | c :: cols', w :: ws', y :: ys' => cpiece c w y ++ pieces cols' ws' ys'
  | _, _, _ => []
  end.
Definition lbody (lead : bytes) (fill0 : list (bytes * bytes)) (cols : list column) (ws : list bytes) (ys : list clay) : bytes :=
  lead ++ ftext fill0 ++ pieces cols ws ys.
Fixpoint clays_ok (es : list enumdecl) (cols : list column) (ys : list clay) : bool :=
  match cols, ys with
  | [], [] => true
  | c :: cols', y :: ys' => clay_ok es c y && clays_ok es cols' ys'
  | _, _ => false
  end.

(* ---------------------------------------------------------------- character classes *)
Lemma wsch_ws x : wsch x = true -> is_ws x = true.
Proof. unfold wsch. intros H. apply orb_true_iff in H as [H|H]; [apply orb_true_iff in H as [H|H]|]; apply N.eqb_eq in H; subst; reflexivity. Qed.
Lemma fch_not_ws x : fch x = true -> not_ws x = true.
Proof. unfold fch, not_ws. intros H. apply negb_true_iff. destruct (is_ws x) eqn:E; auto. exfalso. nclass; intuition lia. Qed.
Lemma fch_plain x : fch x = true -> plainch x = true.
Proof.
  unfold fch, plainch. intros H. apply andb_true_iff. split; apply negb_true_iff.
  - apply N.eqb_neq. intros ->. discriminate.
  - destruct (is_open x) eqn:E; auto. exfalso. nclass; intuition lia.
Qed.
Lemma fch_nosemi s : forallb fch s = true -> mem SEMI s = false.
Proof.
  intros H. apply mem_false_forallb. eapply forallb_impl; [|exact H]. intros x Hx. apply negb_true_iff. apply N.eqb_neq. intros ->. discriminate.
Qed.
Lemma wsch_nosemi s : forallb wsch s = true -> mem SEMI s = false.
Proof.
  intros H. apply mem_false_forallb. eapply forallb_impl; [|exact H]. intros x Hx. apply negb_true_iff. apply N.eqb_neq. intros ->. discriminate.
Qed.
Lemma wsch_all_ws s : forallb wsch s = true -> all_ws s = true.
Proof. apply forallb_impl. apply wsch_ws. Qed.

(* ---------------------------------------------------------------- words *)
Lemma words_ws_run g : forall s, all_ws g = true -> words_aux [] (g ++ s) = words_aux [] s.
Proof.
  induction g as [|c g IH]; intros s H; [reflexivity|]. cbn [all_ws forallb] in H. apply andb_true_iff in H as [Hc Hg].
  cbn [app]. rewrite words_aux_ws by auto. now apply IH.
Qed.

(* a word followed by a non-empty blank run *)
Lemma words_word_run u g s : u <> [] -> forallb not_ws u = true -> g <> [] -> all_ws g = true ->
  words_aux [] (u ++ g ++ s) = u :: words_aux [] s.
Proof.
  intros Hu Hn Hg Hw. destruct g as [|c g]; [congruence|]. cbn [all_ws forallb] in Hw. apply andb_true_iff in Hw as [Hc Hw].
  cbn [app]. rewrite (words_aux_word u [] c); [|assumption|assumption|cbn [rev app]; exact Hu].
  cbn [rev app]. f_equal. now apply words_ws_run.
Qed.

Lemma fpart_parts ug : fpart_ok ug = true ->
  fst ug <> [] /\ forallb fch (fst ug) = true /\ snd ug <> [] /\ forallb wsch (snd ug) = true.
Proof.
  unfold fpart_ok. intros H. apply andb_true_iff in H as [H H4]. apply andb_true_iff in H as [H H3]. apply andb_true_iff in H as [H1 H2].
  repeat split; auto; [destruct (fst ug)|destruct (snd ug)]; discriminate || congruence.
Qed.

Lemma words_ftext fl : forall s, forallb fpart_ok fl = true -> words_aux [] (ftext fl ++ s) = map fst fl ++ words_aux [] s.
Proof.
  induction fl as [|ug fl IH]; intros s H; [reflexivity|]. cbn [forallb] in H. apply andb_true_iff in H as [H1 H2].
  destruct (fpart_parts ug H1) as [A [B [C D]]]. unfold ftext in *. cbn [map concat]. rewrite <- !app_assoc.
  rewrite words_word_run; auto.
  - cbn [map app]. f_equal. now apply IH.
  - eapply forallb_impl; [|exact B]. apply fch_not_ws.
  - now apply wsch_all_ws.
Qed.

(* ---------------------------------------------------------------- the declaration scanner *)
Definition defs' (wl : list bytes) : list (bytes * bytes) := match wl with [] => [] | w :: ws => defs w ws end.

Lemma split_def_word_none w : mem SEMI w = false -> split_def_word w = None.
Proof.
  intros H. destruct w as [|c w]; [reflexivity|]. apply mem_cons_false in H as [_ H]. cbn [split_def_word].
  now rewrite rsplit_at_none.
Qed.

Lemma defs_nosemi ws : forall u, Forall (fun w => mem SEMI w = false) ws -> defs u ws = [].
Proof.
  induction ws as [|w ws IH]; intros u H; [reflexivity|]. inversion H; subst. cbn [defs]. rewrite split_def_word_none by auto. now apply IH.
Qed.

Lemma defs_decl pre : forall u W d rest, Forall (fun w => mem SEMI w = false) pre -> mem SEMI W = false -> d <> [] -> mem SEMI d = false ->
  defs u (pre ++ W :: (d ++ [SEMI]) :: rest) = (W, d) :: defs' rest.
Proof.
  induction pre as [|p pre IH]; intros u W d rest Hp HW Hd Hs.
  - cbn [app defs]. rewrite (split_def_word_none W HW). cbn [defs]. rewrite split_def_word_decl by auto. reflexivity.
  - inversion Hp; subst. cbn [app defs]. rewrite split_def_word_none by auto. now apply IH.
Qed.

Lemma defs'_decl pre W d rest : Forall (fun w => mem SEMI w = false) pre -> mem SEMI W = false -> d <> [] -> mem SEMI d = false ->
  defs' (pre ++ W :: (d ++ [SEMI]) :: rest) = (W, d) :: defs' rest.
Proof.
  intros Hp HW Hd Hs. destruct pre as [|p pre].
  - cbn [app defs' defs]. rewrite split_def_word_decl by auto. reflexivity.
  - inversion Hp; subst. cbn [app defs']. now apply defs_decl.
Qed.

Lemma defs'_nosemi ws : Forall (fun w => mem SEMI w = false) ws -> defs' ws = [].
Proof. destruct ws as [|w ws]; [reflexivity|]. intros H. inversion H; subst. cbn [defs']. now apply defs_nosemi. Qed.

Lemma struct_columns_defs' body : struct_columns body = map (fun d => cut_array (remove_all SEMI (snd d))) (defs' (words body)).
Proof. unfold struct_columns, defs'. destruct (words body); reflexivity. Qed.

(* ---------------------------------------------------------------- one declaration *)
Lemma last_byte_split r c : last_byte r = Some c -> exists mid, r = mid ++ [c].
Proof.
  unfold last_byte. destruct (rev r) as [|x t] eqn:E; [discriminate|]. intros H. inversion H; subst x.
  exists (rev t). rewrite <- (rev_involutive r), E. reflexivity.
Qed.

Lemma sfx_ok_parts s : sfx_ok s = true ->
  forallb sfxch2 s = true /\ (s = [] \/ exists o mid c, s = o :: mid ++ [c] /\ is_open o = true /\ is_close c = true).
Proof.
  destruct s as [|o r]; [intros _; split; [reflexivity|now left]|]. cbn [sfx_ok]. intros H.
  apply andb_true_iff in H as [H H3]. apply andb_true_iff in H as [H1 H2].
  destruct (last_byte r) as [c|] eqn:E; [|discriminate]. destruct (last_byte_split r c E) as [mid ->]. split.
  - cbn [forallb]. rewrite H2. unfold sfxch2 at 1. rewrite H1. now rewrite orb_true_r.
  - right. exists o, mid, c. auto.
Qed.

Lemma sfxch2_not_ws x : sfxch2 x = true -> not_ws x = true.
Proof. unfold sfxch2, not_ws. intros H. apply negb_true_iff. destruct (is_ws x) eqn:E; auto. exfalso. nclass; intuition lia. Qed.
Lemma sfxch2_nosemi s : forallb sfxch2 s = true -> mem SEMI s = false.
Proof.
  intros H. apply mem_false_forallb. eapply forallb_impl; [|exact H]. intros x Hx. apply negb_true_iff. apply N.eqb_neq. intros ->. discriminate.
Qed.
Lemma sfxch2_not_nl s : forallb sfxch2 s = true -> forallb (not_c NL) s = true.
Proof. apply forallb_impl. intros x Hx. unfold not_c. apply negb_true_iff. apply N.eqb_neq. intros ->. discriminate. Qed.

Lemma clay_parts es c y : clay_ok es c y = true ->
  cl_gap y <> [] /\ forallb wsch (cl_gap y) = true /\ sfx_ok (cl_sfx y) = true /\ normalise_array (cl_sfx y) = decl_suffix es c /\
  cl_after y <> [] /\ forallb wsch (cl_after y) = true /\ forallb fpart_ok (cl_fill y) = true /\
  mem NL (cl_after y ++ ftext (cl_fill y)) = true.
Proof.
  unfold clay_ok. intros H.
  repeat match type of H with _ && _ = true => let H' := fresh "H" in apply andb_true_iff in H as [H H'] end.
  apply beq_eq in H4. repeat split; auto; [destruct (cl_gap y)|destruct (cl_after y)]; discriminate || congruence.
Qed.

Definition dword (c : column) (y : clay) : bytes := c_name c ++ cl_sfx y.

Lemma dword_not_ws c y : forallb is_word (c_name c) = true -> forallb sfxch2 (cl_sfx y) = true ->
  forallb not_ws (dword c y ++ [SEMI]) = true.
Proof.
  intros Hn Hs. unfold dword. rewrite !forallb_app. rewrite word_all_not_ws by auto.
  rewrite (forallb_impl _ _ _ sfxch2_not_ws Hs). reflexivity.
Qed.
Lemma dword_nosemi c y : forallb is_word (c_name c) = true -> forallb sfxch2 (cl_sfx y) = true -> mem SEMI (dword c y) = false.
Proof. intros Hn Hs. unfold dword. rewrite mem_app, (word_mem SEMI) by auto. now rewrite sfxch2_nosemi. Qed.

Lemma words_cpiece es c w y s : w <> [] -> forallb is_word w = true -> forallb is_word (c_name c) = true -> c_name c <> [] ->
  clay_ok es c y = true ->
  words_aux [] (cpiece c w y ++ s) = w :: (dword c y ++ [SEMI]) :: map fst (cl_fill y) ++ words_aux [] s.
Proof.
  intros Hw1 Hw2 Hn1 Hn2 Hy. destruct (clay_parts es c y Hy) as [G1 [G2 [S1 [_ [A1 [A2 [F1 _]]]]]]].
  destruct (sfx_ok_parts _ S1) as [S2 _].
  unfold cpiece. rewrite <- !app_assoc.
  rewrite words_word_run; auto; [|now apply word_all_not_ws|now apply wsch_all_ws]. f_equal.
  change (c_name c ++ cl_sfx y ++ [SEMI] ++ cl_after y ++ ftext (cl_fill y) ++ s)
    with (c_name c ++ cl_sfx y ++ [SEMI] ++ cl_after y ++ (ftext (cl_fill y) ++ s)).
  replace (c_name c ++ cl_sfx y ++ [SEMI] ++ cl_after y ++ (ftext (cl_fill y) ++ s))
    with ((dword c y ++ [SEMI]) ++ cl_after y ++ (ftext (cl_fill y) ++ s)) by (unfold dword; now rewrite <- !app_assoc).
  rewrite words_word_run; auto.
  - f_equal. now apply words_ftext.
  - destruct (dword c y); discriminate.
  - now apply dword_not_ws.
  - now apply wsch_all_ws.
Qed.

(* ---------------------------------------------------------------- all declarations *)
Fixpoint wl_pieces (cols : list column) (ws : list bytes) (ys : list clay) : list bytes :=
  match cols, ws, ys with
  | c :: cols', w :: ws', y :: ys' => w :: (dword c y ++ [SEMI]) :: map fst (cl_fill y) ++ wl_pieces cols' ws' ys'
  | _, _, _ => []
  end.
Fixpoint decls (cols : list column) (ws : list bytes) (ys : list clay) : list (bytes * bytes) :=
  match cols, ws, ys with
  | c :: cols', w :: ws', y :: ys' => (w, dword c y) :: decls cols' ws' ys'
  | _, _, _ => []
  end.

Lemma words_pieces es cols ws : cols_words es cols ws -> forall ys, clays_ok es cols ys = true ->
  words_aux [] (pieces cols ws ys) = wl_pieces cols ws ys.
Proof.
  induction 1 as [|c w cols ws [_ [Hn [Hw [Hc Hcn]]]] _ IH]; intros ys Hy.
  - destruct ys; reflexivity.
  - destruct ys as [|y ys]; [discriminate|]. cbn [clays_ok] in Hy. apply andb_true_iff in Hy as [Hy1 Hy2].
    cbn [pieces wl_pieces]. rewrite (words_cpiece es); auto. now rewrite IH.
Qed.

Lemma fill_words_nosemi fl : forallb fpart_ok fl = true -> Forall (fun w => mem SEMI w = false) (map fst fl).
Proof.
  intros H. apply Forall_map_in. intros ug Hin. rewrite forallb_forall in H. destruct (fpart_parts ug (H ug Hin)) as [_ [B _]].
  now apply fch_nosemi.
Qed.

Lemma defs'_pieces es cols ws : cols_words es cols ws -> forall ys pre, clays_ok es cols ys = true ->
  Forall (fun w => mem SEMI w = false) pre ->
  defs' (pre ++ wl_pieces cols ws ys) = decls cols ws ys.
Proof.
  induction 1 as [|c w cols ws [_ [Hn [Hw [Hc Hcn]]]] _ IH]; intros ys pre Hy Hp.
  - destruct ys; cbn [wl_pieces decls]; rewrite app_nil_r; now apply defs'_nosemi.
  - destruct ys as [|y ys]; [discriminate|]. cbn [clays_ok] in Hy. apply andb_true_iff in Hy as [Hy1 Hy2].
    destruct (clay_parts es c y Hy1) as [_ [_ [S1 [_ [_ [_ [F1 _]]]]]]]. destruct (sfx_ok_parts _ S1) as [S2 _].
    cbn [wl_pieces decls]. rewrite defs'_decl; auto.
    + f_equal. apply IH; auto. now apply fill_words_nosemi.
    + now apply (word_mem SEMI).
    + unfold dword. destruct (c_name c); [congruence|discriminate].
    + now apply dword_nosemi.
Qed.

Lemma cut_array_dword c y : forallb is_word (c_name c) = true -> c_name c <> [] -> sfx_ok (cl_sfx y) = true ->
  cut_array (dword c y) = c_name c.
Proof.
  intros Hn Hne Hs. unfold dword. destruct (sfx_ok_parts _ Hs) as [_ [->|[o [mid [cc [-> [Ho Hc]]]]]]].
  - rewrite app_nil_r. unfold cut_array, last_byte. destruct (rev (c_name c)) as [|x t] eqn:E; [reflexivity|].
    assert (In x (c_name c)) by (apply in_rev; rewrite E; now left).
    rewrite forallb_forall in Hn. specialize (Hn x H). destruct (is_close x) eqn:F; auto. exfalso. nclass.
  - now apply cut_array_brackets.
Qed.

Theorem struct_columns_lbody es cols ws ys lead fill0 : cols_words es cols ws -> clays_ok es cols ys = true ->
  all_ws lead = true -> forallb fpart_ok fill0 = true ->
  struct_columns (lbody lead fill0 cols ws ys) = map c_name cols.
Proof.
  intros Hcw Hy Hl Hf. rewrite struct_columns_defs'. unfold words, lbody.
  rewrite words_ws_run by auto. rewrite words_ftext by auto. rewrite (words_pieces es) by auto.
  rewrite (defs'_pieces es) by (auto; now apply fill_words_nosemi).
  clear Hl Hf lead fill0. revert ys Hy. induction Hcw as [|c w cols ws [_ [Hn [Hw [Hc Hcn]]]] _ IH]; intros ys Hy.
  - destruct ys; reflexivity.
  - destruct ys as [|y ys]; [discriminate|]. cbn [clays_ok] in Hy. apply andb_true_iff in Hy as [Hy1 Hy2].
    destruct (clay_parts es c y Hy1) as [_ [_ [S1 _]]]. destruct (sfx_ok_parts _ S1) as [S2 _].
    cbn [decls map snd]. rewrite remove_all_none by (now apply dword_nosemi). rewrite cut_array_dword by auto. f_equal. now apply IH.
Qed.

(* ---------------------------------------------------------------- the type lookup *)
Lemma wsplits_ws_run g : forall s, all_ws g = true -> word_splits_aux [] (g ++ s) = word_splits_aux [] s.
Proof.
  induction g as [|c g IH]; intros s H; [reflexivity|]. cbn [all_ws forallb] in H. apply andb_true_iff in H as [Hc Hg].
  cbn [app]. rewrite wsplits_ws by auto. now apply IH.
Qed.

(* one word followed by a non-empty blank run: the lookup tests the text after it, then goes on *)
Lemma fs_word var u g s : u <> [] -> forallb not_ws u = true -> g <> [] -> all_ws g = true ->
  first_some (ftype var) (word_splits_aux [] (u ++ g ++ s))
  = match check_decl var (lstrip s) with
    | Some a => Some (u ++ normalise_array a)
    | None => first_some (ftype var) (word_splits_aux [] s)
    end.
Proof.
  intros Hu Hn Hg Hw. destruct g as [|c g]; [congruence|]. cbn [all_ws forallb] in Hw. apply andb_true_iff in Hw as [Hc Hw].
  cbn [app]. rewrite (wsplits_word u [] c); [|assumption|assumption|cbn [rev app]; exact Hu].
  cbn [rev app first_some]. unfold ftype at 1. cbn [fst snd]. rewrite lstrip_ws_app by auto. rewrite wsplits_ws_run by auto.
  destruct (check_decl var (lstrip s)); reflexivity.
Qed.

Lemma dead_word var u c s : forallb is_word var = true -> u <> [] -> forallb plainch u = true -> forallb not_ws u = true ->
  is_ws c = true -> dead_start var (u ++ c :: s).
Proof.
  intros Hv Hu Hp Hn Hc. unfold dead_start. rewrite lstrip_id.
  - now apply check_decl_word.
  - destruct u as [|x u]; [congruence|]. cbn [app head_not_ws]. cbn [forallb] in Hn. apply andb_true_iff in Hn as [Hx _].
    unfold not_ws in Hx. now apply negb_true_iff in Hx.
Qed.

Lemma fs_ftext var fl : forallb is_word var = true -> forallb fpart_ok fl = true -> forall s, dead_start var s ->
  first_some (ftype var) (word_splits_aux [] (ftext fl ++ s)) = first_some (ftype var) (word_splits_aux [] s) /\
  dead_start var (ftext fl ++ s).
Proof.
  intros Hv. induction fl as [|ug fl IH]; intros H s Hs; [split; [reflexivity|exact Hs]|].
  cbn [forallb] in H. apply andb_true_iff in H as [H1 H2]. destruct (fpart_parts ug H1) as [A [B [C D]]].
  destruct (IH H2 s Hs) as [I1 I2]. unfold ftext in *. destruct ug as [u g]. cbn [fst snd] in *. cbn [map concat fst snd]. rewrite <- !app_assoc.
  assert (Bn : forallb not_ws u = true) by (eapply forallb_impl; [|exact B]; apply fch_not_ws).
  assert (Bp : forallb plainch u = true) by (eapply forallb_impl; [|exact B]; apply fch_plain).
  split.
  - rewrite fs_word; auto; [|now apply wsch_all_ws]. unfold dead_start in I2. rewrite I2. exact I1.
  - destruct g as [|c g]; [congruence|]. cbn [app]. apply dead_word; auto.
    cbn [forallb] in D. apply andb_true_iff in D as [D _]. now apply wsch_ws.
Qed.

Lemma lcs_nosemi t : mem SEMI t = false -> last_close_semi t = None.
Proof.
  induction t as [|x t IH]; intros H; [reflexivity|]. destruct t as [|y l]; [reflexivity|]. apply mem_cons_false in H as [_ H].
  rewrite last_close_semi_cons. rewrite IH by auto. apply mem_cons_false in H as [Hy _]. rewrite Hy. now rewrite andb_false_r.
Qed.

Lemma lcs_gen a c t : is_close c = true -> mem SEMI t = false -> last_close_semi (a ++ [c; SEMI] ++ t) = Some (a ++ [c]).
Proof.
  intros Hc Ht. induction a as [|x a IH].
  - cbn [app]. rewrite last_close_semi_cons.
    assert (E : last_close_semi (SEMI :: t) = None).
    { destruct t as [|y l]; [reflexivity|]. rewrite last_close_semi_cons. rewrite lcs_nosemi by auto.
      change (is_close SEMI) with false. reflexivity. }
    rewrite E, Hc. reflexivity.
  - change ((x :: a) ++ [c; SEMI] ++ t) with (x :: (a ++ [c; SEMI] ++ t)).
    destruct (a ++ [c; SEMI] ++ t) as [|d r] eqn:E; [destruct a; discriminate|].
    rewrite last_close_semi_cons. now rewrite IH.
Qed.

Lemma mem_split_first c X : mem c X = true -> exists pre post, X = pre ++ c :: post /\ mem c pre = false.
Proof.
  induction X as [|x X IH]; [discriminate|]. unfold mem. cbn [existsb]. destruct (c =? x) eqn:E.
  - apply N.eqb_eq in E. subst x. intros _. exists [], X. split; reflexivity.
  - cbn [orb]. intros H. destruct (IH H) as [pre [post [-> Hp]]]. exists (x :: pre), post. split; [reflexivity|].
    unfold mem in *. cbn [existsb]. now rewrite E.
Qed.

(* the declaration of var itself: the type lookup returns the suffix exactly as spelled *)
Lemma check_decl_own2 n sfx X more : sfx_ok sfx = true -> mem SEMI X = false -> mem NL X = true ->
  check_decl n (n ++ sfx ++ SEMI :: X ++ more) = Some sfx.
Proof.
  intros Hs HX HN. unfold check_decl. rewrite prefix_app. destruct (sfx_ok_parts _ Hs) as [S2 [->|[o [mid [c [-> [Ho Hc]]]]]]].
  - cbn [app]. now rewrite N.eqb_refl.
  - destruct (mem_split_first NL X HN) as [pre [post [-> Hpre]]].
    cbn [app]. assert (o =? SEMI = false) as -> by (apply N.eqb_neq; intros ->; discriminate). rewrite Ho.
    replace (o :: (mid ++ [c]) ++ SEMI :: (pre ++ NL :: post) ++ more)
      with ((o :: mid ++ [c; SEMI] ++ pre) ++ NL :: (post ++ more)).
    2:{ cbn [app]. rewrite <- !app_assoc. cbn [app]. reflexivity. }
    rewrite span_app_stop.
    + cbn [fst]. change (o :: mid ++ [c; SEMI] ++ pre) with ((o :: mid) ++ [c; SEMI] ++ pre). rewrite lcs_gen; auto.
      rewrite mem_app in HX. apply orb_false_iff in HX as [HX _]. exact HX.
    + assert (NC : forall x, sfxch2 x = true -> not_c NL x = true).
      { intros x Hx. unfold not_c. apply negb_true_iff. apply N.eqb_neq. intros ->. discriminate. }
      cbn [forallb] in S2. apply andb_true_iff in S2 as [S2a S2b]. rewrite forallb_app in S2b. apply andb_true_iff in S2b as [S2b S2c].
      cbn [forallb] in S2c. apply andb_true_iff in S2c as [S2c _].
      cbn [forallb]. rewrite (NC o S2a). cbn [andb]. rewrite forallb_app. rewrite (forallb_impl _ _ _ NC S2b). cbn [andb app forallb].
      rewrite (NC c S2c). cbn [andb]. change (not_c NL SEMI) with true. cbn [andb]. apply mem_false_forallb in Hpre. exact Hpre.
    + unfold not_c. now rewrite N.eqb_refl.
Qed.

Lemma ftext_nosemi fl : forallb fpart_ok fl = true -> mem SEMI (ftext fl) = false.
Proof.
  induction fl as [|[u g] fl IH]; intros H; [reflexivity|]. cbn [forallb] in H. apply andb_true_iff in H as [H1 H2].
  destruct (fpart_parts (u, g) H1) as [_ [B [_ D]]]. cbn [fst snd] in *.
  unfold ftext in *. cbn [map concat fst snd]. rewrite !mem_app. rewrite (fch_nosemi _ B), (wsch_nosemi _ D). cbn [orb]. now apply IH.
Qed.

(* one declaration in the lookup of var *)
Lemma fs_cpiece es var c w y s : forallb is_word var = true -> ctype_word es c = Some w -> w <> [] -> forallb is_word w = true ->
  forallb is_word (c_name c) = true -> c_name c <> [] -> clay_ok es c y = true -> dead_start var s ->
  first_some (ftype var) (word_splits_aux [] (cpiece c w y ++ s))
  = (if beq (c_name c) var then Some (typ_of es c) else first_some (ftype var) (word_splits_aux [] s)) /\
  dead_start var (cpiece c w y ++ s).
Proof.
  intros Hv Hcw Hw1 Hw2 Hn1 Hn2 Hy Hs. destruct (clay_parts es c y Hy) as [G1 [G2 [S1 [S3 [A1 [A2 [F1 N1]]]]]]].
  destruct (sfx_ok_parts _ S1) as [S2 Sshape].
  destruct (fs_ftext var (cl_fill y) Hv F1 s Hs) as [I1 I2].
  unfold cpiece. rewrite <- !app_assoc. split.
  - rewrite fs_word; auto; [|now apply word_all_not_ws|now apply wsch_all_ws].
    assert (L : lstrip (c_name c ++ cl_sfx y ++ [SEMI] ++ cl_after y ++ ftext (cl_fill y) ++ s)
                = c_name c ++ cl_sfx y ++ [SEMI] ++ cl_after y ++ ftext (cl_fill y) ++ s).
    { apply lstrip_id. destruct (c_name c) as [|x nm]; [congruence|]. cbn [app head_not_ws].
      cbn [forallb] in Hn1. apply andb_true_iff in Hn1 as [Hx _]. now apply word_not_ws. }
    rewrite L. destruct (beq (c_name c) var) eqn:E.
    + apply beq_eq in E. subst var.
      replace (c_name c ++ cl_sfx y ++ [SEMI] ++ cl_after y ++ ftext (cl_fill y) ++ s)
        with (c_name c ++ cl_sfx y ++ SEMI :: (cl_after y ++ ftext (cl_fill y)) ++ s) by (cbn [app]; now rewrite <- !app_assoc).
      rewrite check_decl_own2; auto.
      * rewrite S3. now rewrite (typ_of_word es c w Hcw).
      * rewrite mem_app. rewrite (wsch_nosemi _ A2). cbn [orb]. now apply ftext_nosemi.
    + apply beq_neq in E.
      assert (N : check_decl var (c_name c ++ cl_sfx y ++ [SEMI] ++ cl_after y ++ ftext (cl_fill y) ++ s) = None).
      { destruct Sshape as [->|[o [mid [cc [-> [Ho Hc]]]]]]; cbn [app]; apply check_decl_other; auto.
        destruct (is_word o) eqn:F; auto. exfalso. nclass. }
      rewrite N.
      replace (c_name c ++ cl_sfx y ++ [SEMI] ++ cl_after y ++ ftext (cl_fill y) ++ s)
        with ((dword c y ++ [SEMI]) ++ cl_after y ++ (ftext (cl_fill y) ++ s)) by (unfold dword; now rewrite <- !app_assoc).
      rewrite fs_word; auto.
      * unfold dead_start in I2. rewrite I2. exact I1.
      * destruct (dword c y); discriminate.
      * now apply dword_not_ws.
      * now apply wsch_all_ws.
  - destruct (cl_gap y) as [|g0 g] eqn:EG; [congruence|]. cbn [app]. apply dead_word; auto.
    + eapply forallb_impl; [|exact Hw2]. intros x Hx. apply fch_plain. unfold fch. now rewrite Hx.
    + now apply word_all_not_ws.
    + cbn [forallb] in G2. apply andb_true_iff in G2 as [G2 _]. now apply wsch_ws.
Qed.

Theorem fs_pieces es var : forallb is_word var = true -> forall cols ws, cols_words es cols ws -> forall ys tl,
  clays_ok es cols ys = true -> dead_start var tl ->
  first_some (ftype var) (word_splits_aux [] (pieces cols ws ys ++ tl))
  = match find (fun c => beq (c_name c) var) cols with
    | Some c => Some (typ_of es c)
    | None => first_some (ftype var) (word_splits_aux [] tl)
    end /\ dead_start var (pieces cols ws ys ++ tl).
Proof.
  intros Hv cols ws H. induction H as [|c w cols ws [Hcw [Hn [Hw [Hc Hcn]]]] _ IH]; intros ys tl Hy Htl.
  - destruct ys; cbn [pieces app find]; split; auto.
  - destruct ys as [|y ys]; [discriminate|]. cbn [clays_ok] in Hy. apply andb_true_iff in Hy as [Hy1 Hy2].
    destruct (IH ys tl Hy2 Htl) as [I1 I2]. cbn [pieces find]. rewrite <- app_assoc.
    destruct (fs_cpiece es var c w y (pieces cols ws ys ++ tl) Hv Hcw Hn Hw Hc Hcn Hy1 I2) as [P1 P2].
    split; [|exact P2]. rewrite P1. destruct (beq (c_name c) var); [reflexivity|exact I1].
Qed.

(* the whole typedef text *)
Theorem find_type_lbody es cols ws ys lead fill0 name c : cols_words es cols ws -> clays_ok es cols ys = true ->
  lead <> [] -> forallb wsch lead = true -> forallb fpart_ok fill0 = true ->
  find (fun c' => beq (c_name c') (c_name c)) cols = Some c -> forallb is_word (c_name c) = true ->
  find_type (c_name c) (td_text KW_STRUCT (lbody lead fill0 cols ws ys) name) = Some (typ_of es c).
Proof.
  intros H Hy Hl1 Hl2 Hf0 Hf Hv. rewrite find_type_unfold. set (var := c_name c) in *.
  assert (D : dead_start var (struct_tail name)) by (now apply dead_start_tail).
  destruct (fs_pieces es var Hv cols ws H ys (struct_tail name) Hy D) as [P1 P2].
  destruct (fs_ftext var fill0 Hv Hf0 _ P2) as [Q1 Q2].
  unfold td_text, lbody.
  replace (KW_TYPEDEF ++ [SP] ++ KW_STRUCT ++ [SP; LBRACE] ++ (lead ++ ftext fill0 ++ pieces cols ws ys) ++ [RBRACE; SP] ++ name ++ [SEMI])
    with (KW_TYPEDEF ++ [SP] ++ (KW_STRUCT ++ [SP] ++ ([LBRACE] ++ lead ++ (ftext fill0 ++ pieces cols ws ys ++ struct_tail name)))).
  2:{ unfold struct_tail. rewrite <- !app_assoc. reflexivity. }
  rewrite fs_word; [|discriminate|reflexivity|discriminate|reflexivity].
  assert (N1 : check_decl var (lstrip (KW_STRUCT ++ [SP] ++ ([LBRACE] ++ lead ++ (ftext fill0 ++ pieces cols ws ys ++ struct_tail name)))) = None).
  { apply (dead_word var KW_STRUCT SP); auto; try reflexivity. discriminate. }
  rewrite N1.
  rewrite fs_word; [|discriminate|reflexivity|discriminate|reflexivity].
  destruct lead as [|l0 lead']; [congruence|].
  assert (N2 : check_decl var (lstrip ([LBRACE] ++ (l0 :: lead') ++ (ftext fill0 ++ pieces cols ws ys ++ struct_tail name))) = None).
  { cbn [app]. apply (dead_word var [LBRACE] l0); auto; try reflexivity; [discriminate|].
    cbn [forallb] in Hl2. apply andb_true_iff in Hl2 as [Hl2 _]. now apply wsch_ws. }
  rewrite N2.
  rewrite fs_word; [|discriminate|reflexivity|discriminate|now apply wsch_all_ws].
  unfold dead_start in Q2. rewrite Q2. rewrite Q1, P1. now rewrite Hf.
Qed.

(* ---------------------------------------------------------------- the laid-out typedef is a well-formed item *)
Definition bch (x : N) : bool := wsch x || fch x || sfxch2 x || (x =? SEMI).

Lemma bch_ftext fl : forallb fpart_ok fl = true -> forallb bch (ftext fl) = true.
Proof.
  induction fl as [|[u g] fl IH]; intros H; [reflexivity|]. cbn [forallb] in H. apply andb_true_iff in H as [H1 H2].
  destruct (fpart_parts (u, g) H1) as [_ [B [_ D]]]. cbn [fst snd] in *. unfold ftext in *. cbn [map concat fst snd].
  rewrite !forallb_app, (IH H2).
  rewrite (forallb_impl fch bch u) by (auto; intros x Hx; unfold bch; rewrite Hx; now rewrite orb_true_r).
  rewrite (forallb_impl wsch bch g) by (auto; intros x Hx; unfold bch; now rewrite Hx). reflexivity.
Qed.

Lemma word_bch s : forallb is_word s = true -> forallb bch s = true.
Proof. apply forallb_impl. intros x Hx. unfold bch, fch. rewrite Hx. cbn [orb]. now rewrite orb_true_r. Qed.

Lemma bch_pieces es cols ws : cols_words es cols ws -> forall ys, clays_ok es cols ys = true -> forallb bch (pieces cols ws ys) = true.
Proof.
  induction 1 as [|c w cols ws [_ [Hn [Hw [Hc Hcn]]]] _ IH]; intros ys Hy; [destruct ys; reflexivity|].
  destruct ys as [|y ys]; [discriminate|]. cbn [clays_ok] in Hy. apply andb_true_iff in Hy as [Hy1 Hy2].
  destruct (clay_parts es c y Hy1) as [_ [G2 [S1 [_ [_ [A2 [F1 _]]]]]]]. destruct (sfx_ok_parts _ S1) as [S2 _].
  cbn [pieces]. unfold cpiece. rewrite !forallb_app. rewrite (IH ys Hy2), (word_bch w Hw), (word_bch _ Hc), (bch_ftext _ F1).
  rewrite (forallb_impl wsch bch (cl_gap y)) by (auto; intros x Hx; unfold bch; now rewrite Hx).
  rewrite (forallb_impl wsch bch (cl_after y)) by (auto; intros x Hx; unfold bch; now rewrite Hx).
  rewrite (forallb_impl sfxch2 bch (cl_sfx y)) by (auto; intros x Hx; unfold bch; rewrite Hx; now rewrite !orb_true_r).
  reflexivity.
Qed.

Lemma bch_facts x : bch x = true -> textch x = true /\ (x =? RBRACE) = false /\ (x =? BSL) = false.
Proof.
  unfold bch, wsch, fch, sfxch2, textch. intros H. repeat split.
  - nclass; intuition lia.
  - apply N.eqb_neq. intros ->. discriminate.
  - apply N.eqb_neq. intros ->. discriminate.
Qed.

Theorem lbody_td_reads es t ws ys lead fill0 name :
  forallb enum_ok es = true -> table_ok es t = true -> cols_words es (t_cols t) ws -> clays_ok es (t_cols t) ys = true ->
  lead <> [] -> forallb wsch lead = true -> forallb fpart_ok fill0 = true ->
  name <> [] -> forallb is_word name = true -> upper name = upper (t_name t) ->
  no_td name = true -> no_td (lbody lead fill0 (t_cols t) ws ys) = true ->
  td_reads es t (lbody lead fill0 (t_cols t) ws ys) name.
Proof.
  intros Hes Ht Hcw Hy Hl1 Hl2 Hf0 Hn1 Hn2 Hup Tn Tb. destruct (table_ok_parts es t Ht) as [_ [_ [Hc [Hdc _]]]].
  set (body := lbody lead fill0 (t_cols t) ws ys) in *.
  assert (B : forallb bch body = true).
  { subst body. unfold lbody. rewrite !forallb_app. rewrite (bch_ftext _ Hf0), (bch_pieces es _ _ Hcw ys Hy).
    rewrite (forallb_impl wsch bch lead) by (auto; intros x Hx; unfold bch; now rewrite Hx). reflexivity. }
  assert (Bt : forallb textch body = true) by (eapply forallb_impl; [|exact B]; intros x Hx; now destruct (bch_facts x Hx)).
  assert (Br : mem RBRACE body = false).
  { apply mem_false_forallb. eapply forallb_impl; [|exact B]. intros x Hx. destruct (bch_facts x Hx) as [_ [E _]]. now rewrite E. }
  assert (Bb : mem BSL body = false).
  { apply mem_false_forallb. eapply forallb_impl; [|exact B]. intros x Hx. destruct (bch_facts x Hx) as [_ [_ E]]. now rewrite E. }
  assert (Bne : body <> []) by (subst body; unfold lbody; destruct lead; [congruence|discriminate]).
  assert (Nt : forallb textch name = true) by (eapply forallb_impl; [|exact Hn2]; intros x Hx; unfold textch; nclass).
  assert (Nb : mem BSL name = false) by (now apply (word_mem BSL)).
  split; [split; [|split]|split; [|split]].
  - cbn [item_ok seg_ok]. repeat split; auto.
  - cbn [item_text]. unfold td_text. rewrite !forallb_app. rewrite Bt, Nt. reflexivity.
  - cbn [item_text]. apply cont_okb_nobsl. unfold td_text. rewrite !mem_app. rewrite Bb, Nb. reflexivity.
  - exact Hup.
  - subst body. apply (struct_columns_lbody es); auto. now apply wsch_all_ws.
  - intros c Hin. subst body. apply (find_type_lbody es); auto.
    + now apply find_distinct.
    + rewrite forallb_forall in Hc. destruct (col_ok_parts c (Hc c Hin)) as [Hi _]. now destruct (ident_word _ Hi).
Qed.

(* the writer's own typedef text is one of the layouts td_reads accepts: the skeleton theorem subsumes the earlier ones *)
Theorem canonical_td_reads es tw : forallb enum_ok es = true -> table_ok es (fst tw) = true ->
  cols_words es (t_cols (fst tw)) (snd tw) ->
  td_reads es (fst tw) (fst (struct_td es tw)) (snd (struct_td es tw)).
Proof.
  intros Hes Ht Hw. destruct (table_ok_parts es _ Ht) as [_ [_ [Hc [Hdc _]]]].
  split; [now apply struct_good|]. cbn [struct_td fst snd]. split; [apply upper_idem|]. split.
  - apply (struct_columns_rendered es _ _ Hw).
  - intros c Hin.
    change (td_text KW_STRUCT (NL :: unlines (lines_of es (t_cols (fst tw)) (snd tw))) (upper (t_name (fst tw))))
      with (struct_text es (t_cols (fst tw)) (snd tw) (upper (t_name (fst tw)))).
    apply find_type_rendered; auto.
    + now apply find_distinct.
    + rewrite forallb_forall in Hc. destruct (col_ok_parts c (Hc c Hin)) as [Hi _]. now destruct (ident_word _ Hi).
Qed.
