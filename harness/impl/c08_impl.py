"""Runs bspline construction / evaluation of the repository under test (stdin JSON -> stdout JSON).

call = {'xs': [...], 'nord': k, 'opt': {'kind': 'bkpt'|'placed'|'bkspace'|'nbkpts'|'everyn', 'value': ...},
        'bkspread': float, 'coeff': [long list], 'xe': [...], 'keys': [...]}
Evaluation points = xe (from the harness) + every knot + knots -/+ a small offset, ordered by `keys`
(sorted when keys is None).  All floats are returned as Python floats (exact doubles).
"""
import json
import sys
import warnings

import numpy as np

import pydl
from pydl.pydlutils.bspline import bspline


def err(e):
    return {'err': type(e).__name__, 'msg': str(e)[:160]}


def fl(a):
    return [float(v) for v in np.asarray(a).ravel()]


def call(c):
    k = int(c['nord'])
    xs = np.array(c['xs'], dtype='d')            # handed to the constructor; compared afterwards
    opt = c['opt']
    kw = {'nord': k, 'bkspread': float(c.get('bkspread', 1.0))}
    kind = opt['kind']
    if kind in ('bkpt', 'placed'):
        kw[kind] = np.array(opt['value'], dtype='d')
    elif kind == 'bkspace':
        kw['bkspace'] = float(opt['value'])
    else:
        kw[kind] = int(opt['value'])
    out = {}
    try:
        with warnings.catch_warnings():
            warnings.simplefilter('ignore')
            b = bspline(xs, **kw)
    except Exception as e:  # noqa: BLE001
        r = err(e)
        r['stage'] = 'init'
        return r
    try:
        bk = np.asarray(b.breakpoints)
        out['bk'] = fl(bk)
        out['bk_dtype'] = str(bk.dtype)
        nc = bk.size - k
        out['nc'] = int(nc)
        out['mask_all_true'] = bool(np.all(b.mask)) and b.mask.size == bk.size
        out['coeff_shape_ok'] = tuple(b.coeff.shape) == (nc,)
        if nc < k:
            return dict(out, err='TooFewKnots', stage='init')
        b.coeff = np.array(c['coeff'][:nc], dtype='d')
        bk64 = bk.astype('d')
        span = float(bk64[nc] - bk64[k - 1])
        eps = span / 1024.0 if span > 0 else 1.0 / 1024
        extra = list(bk64[k - 1:nc + 1]) + [bk64[k - 1] - eps, bk64[nc] + eps] + \
            [float(t) + eps / 8 for t in bk64[k - 1:nc + 1]] + [float(t) - eps / 8 for t in bk64[k - 1:nc + 1]]
        if c.get('sparse'):
            # sparse evaluation set: only the harness's points (placed relative to the real knots when asked)
            pts = list(c['xe'])
            if c['sparse'] == 'one-per-interval':
                pts = [float(0.5 * (bk64[j] + bk64[j + 1])) for j in range(k - 1, nc)][::max(1, int(c.get('stride', 1)))]
            elif c['sparse'] == 'isolated-min':
                j0 = k - 1 + int(c.get('first', 0)) % max(1, nc - k + 1)
                pts = [float(0.25 * bk64[j0] + 0.75 * bk64[j0 + 1])] + \
                    [float(bk64[j] + f * (bk64[j + 1] - bk64[j])) for j in range(j0 + 1, nc) for f in (0.25, 0.5)][:6]
            extra = []
            xe = np.array(pts, dtype='d')
        else:
            xe = np.array(list(c['xe']) + [float(v) for v in extra], dtype='d')
        keys = c.get('keys')
        if keys is None:
            xe = np.sort(xe)
        else:
            kk = np.array((list(keys) * (xe.size // max(len(keys), 1) + 1))[:xe.size])
            xe = xe[np.argsort(kk, kind='stable')]
        out['xe'] = fl(xe)
        perm = xe.argsort()
        out['perm'] = [int(i) for i in perm]
        xarg = xe.copy()                      # the caller's array: must come back bit-identical
        with warnings.catch_warnings():
            warnings.simplefilter('ignore')
            yy, mask = b.value(xarg)
            xsrt = xe[perm]
            indx = b.intrv(xsrt)
            bs = b.bsplvn(xsrt, indx)
            act, lower, upper = b.action(xsrt)
        out['args_mutated'] = [nm for nm, a0, a1 in (('value.x', xe, xarg), ('bspline.x', np.array(c['xs'], dtype='d'), xs))
                               if not np.array_equal(a0, a1)]
        out['result_aliases_arg'] = bool(np.shares_memory(yy, xarg) or np.shares_memory(mask, xarg))
        # ---- history on the same object: change knots and coefficients (in place or by assignment), evaluate again
        h = c.get('history')
        if h:
            try:
                shift = span * float(h.get('shift', 0.125))
                newbk = (bk64 + shift).astype(bk.dtype)
                newco = np.array(c['coeff'][nc:2 * nc], dtype='d')
                if h.get('mode') == 'inplace':
                    b.breakpoints[:] = newbk
                    b.coeff[:] = newco
                else:
                    b.breakpoints = newbk.copy()
                    b.coeff = newco.copy()
                xe2 = xe + shift if h.get('follow', True) else xe.copy()
                perm2 = xe2.argsort()
                with warnings.catch_warnings():
                    warnings.simplefilter('ignore')
                    yy2, mask2 = b.value(xe2.copy())
                    indx2 = b.intrv(xe2[perm2])
                    bs2 = b.bsplvn(xe2[perm2], indx2)
                    _a, lower2, upper2 = b.action(xe2[perm2])
                out['hist'] = {'bk': fl(np.asarray(b.breakpoints)), 'coeff': fl(newco), 'xe': fl(xe2), 'perm': [int(i) for i in perm2],
                               'yy': fl(yy2), 'mask': [bool(v) for v in mask2], 'indx': [int(v) for v in indx2],
                               'bs': [fl(row) for row in np.asarray(bs2)], 'lower': [int(v) for v in lower2],
                               'upper': [int(v) for v in upper2],
                               'finite': bool(np.all(np.isfinite(yy2)) and np.all(np.isfinite(bs2)))}
            except Exception as e:  # noqa: BLE001
                out['hist'] = err(e)
        out['yy'] = fl(yy)
        out['mask'] = [bool(v) for v in mask]
        out['indx'] = [int(v) for v in indx]
        out['bs'] = [fl(row) for row in np.asarray(bs)]
        out['lower'] = [int(v) for v in lower]
        out['upper'] = [int(v) for v in upper]
        out['finite'] = bool(np.all(np.isfinite(yy)) and np.all(np.isfinite(bs)))
        return out
    except Exception as e:  # noqa: BLE001
        r = err(e)
        r['stage'] = 'value'
        r.update({k_: v for k_, v in out.items() if k_ in ('bk', 'nc')})
        return r


def call_long(c):
    """A spline with very many intervals (> 100000), evaluated at clusters of points in consecutive intervals.
    call = {'long': True, 'nord': k, 'nbk': N, 'spacing': 'dyadic'|'linspace'|'jitter', 'seed': int,
            'clusters': [[first interval (0-based, counted from the first real breakpoint), number of consecutive intervals], ...],
            'fracs': [positions inside an interval, in (0, 1]], 'sorted': bool}
    Per point the answer carries the WINDOW the value depends on (2k knots, k coefficients around the interval found here with
    numpy.searchsorted on the object's own knots) -- BSpline/WindowProofs.eval1_window: the spline value is that of the window."""
    k = int(c['nord'])
    N = int(c['nbk'])
    rs = np.random.RandomState(int(c['seed']) % (2 ** 31))
    if c['spacing'] == 'dyadic':
        bkpt = float(rs.randint(-64, 64)) / 4.0 + np.arange(N, dtype='d') * 2.0 ** -int(c.get('log2step', 10))
    elif c['spacing'] == 'linspace':
        bkpt = np.linspace(0.0, 1.0, N)
    else:
        bkpt = np.cumsum(rs.randint(1, 4, N).astype('d')) * 2.0 ** -12
    try:
        with warnings.catch_warnings():
            warnings.simplefilter('ignore')
            b = bspline(np.array([bkpt[0], bkpt[-1]]), nord=k, bkpt=bkpt.copy())
    except Exception as e:  # noqa: BLE001
        return dict(err(e), stage='init')
    out = {'long': True}
    try:
        gb = np.asarray(b.breakpoints)
        nc = gb.size - k
        out['nknots'] = int(gb.size)
        out['knots_sorted'] = bool(np.all(np.diff(gb) >= 0))
        out['knots_expected'] = int(N + 2 * (k - 1))
        out['mask_all_true'] = bool(np.all(b.mask)) and b.mask.size == gb.size
        out['coeff_shape_ok'] = tuple(b.coeff.shape) == (nc,)
        coeff = rs.randint(-512, 512, nc).astype('d') / 64.0
        b.coeff = coeff.copy()
        gb64 = gb.astype('d')
        pts = []
        for j0, cnt in c['clusters']:
            for j in range(int(j0), int(j0) + int(cnt)):
                l = min(max(j + k - 1, k - 1), nc - 1)
                for fr in c['fracs']:
                    pts.append(gb64[l] + float(fr) * (gb64[l + 1] - gb64[l]))
        span = gb64[nc] - gb64[k - 1]
        outside = [gb64[k - 1] - span / 1024.0, gb64[nc] + span / 1024.0]
        xe = np.array(pts + outside, dtype='d')
        if not c.get('sorted'):
            xe = xe[rs.permutation(xe.size)]
        xarg = xe.copy()
        with warnings.catch_warnings():
            warnings.simplefilter('ignore')
            yy, mask = b.value(xarg)
            perm = xe.argsort(kind='stable')
            xs = xe[perm]
            indx = b.intrv(xs)
            bs = np.asarray(b.bsplvn(xs, indx))
            _act, lower, upper = b.action(xs)
        out['args_mutated'] = [] if np.array_equal(xarg, xe) else ['value.x']
        out['finite'] = bool(np.all(np.isfinite(yy)) and np.all(np.isfinite(bs)))
        ys, ms = yy[perm], mask[perm]
        lh = np.clip(np.searchsorted(gb64, xs, side='left') - 1, k - 1, nc - 1)      # largest l with gb[l] < x, clamped
        inr = (xs >= gb64[k - 1]) & (xs <= gb64[nc])
        out['points'] = [{'x': float(xs[i]), 'l': int(lh[i]), 'knots': fl(gb64[lh[i] - k + 1:lh[i] + k + 1]),
                          'coeff': fl(coeff[lh[i] - k + 1:lh[i] + 1]), 'y': float(ys[i]), 'mask': bool(ms[i]),
                          'indx': int(indx[i]), 'row': fl(bs[i])} for i in range(xs.size) if inr[i]]
        out['outside_masks'] = [bool(ms[i]) for i in range(xs.size) if not inr[i]]
        used = sorted(set(int(v) for v in indx))
        out['ranges'] = [[v - k + 1, int(lower[v - k + 1]), int(upper[v - k + 1])] for v in used]
        out['indx_all'] = [int(v) for v in indx]
        out['nonempty'] = int((upper >= lower).sum())
        out['nseg'] = int(lower.size)
        return out
    except Exception as e:  # noqa: BLE001
        r = err(e)
        r['stage'] = 'value'
        return r


def main():
    calls = json.load(sys.stdin)
    json.dump({'pydl_file': pydl.__file__, 'results': [call_long(c) if c.get('long') else call(c) for c in calls]}, sys.stdout)


if __name__ == '__main__':
    main()
