(* Yanny/LayoutRow.v -- a data row in ANY admissible token layout: arbitrary blank runs between tokens and
   inside array braces, every string bare or double-quoted (where its content allows), any letter case of the
   table name -- is processed exactly like the canonical row the writer emits. *)
From Coq Require Import NArith ZArith List Bool Lia.
Import ListNotations.
From PV Require Import Yanny.Bytes Yanny.BytesFacts Yanny.Types Yanny.Parse Yanny.Render
  Yanny.TokenFacts Yanny.RowFacts Yanny.TypeFacts Yanny.DocFacts Yanny.LayoutFacts.
Open Scope N_scope.

(* a token written bare (q = false) or double-quoted (q = true) *)
Definition pform (q : bool) (s : bytes) : bytes := if q then QUOTE :: s ++ [QUOTE] else s.
(* bare is admissible only when protect would not quote *)
Definition adm (q : bool) (s : bytes) : bool := q || negb (needs_quote s).

Lemma pform_protect s : pform (needs_quote s) s = protect s.
Proof. reflexivity. Qed.

Lemma pform_cases q s : adm q s = true ->
  (q = true /\ pform q s = QUOTE :: s ++ [QUOTE]) \/ (needs_quote s = false /\ pform q s = protect s).
Proof.
  unfold adm, pform. destruct q; [now left|]. cbn [orb]. intros H. apply negb_true_iff in H. right. split; auto.
  now rewrite protect_bare.
Qed.

Lemma pform_token_sep q s w rest : tok_ok s = true -> adm q s = true -> w <> [] -> all_ws w = true -> head_not_ws rest ->
  get_token (pform q s ++ w ++ rest) = Some (s, rest).
Proof.
  intros Hok Ha Hw Haw Hr. destruct (pform_cases q s Ha) as [[_ ->]|[_ ->]].
  - destruct (tok_ok_head s Hok) as [Hq _].
    change ((QUOTE :: s ++ [QUOTE]) ++ w ++ rest) with (QUOTE :: (s ++ [QUOTE]) ++ w ++ rest).
    rewrite <- app_assoc. cbn [app]. rewrite get_token_quoted by auto. now rewrite lstrip_ws_app_id.
  - now apply protect_token_sep.
Qed.

Lemma pform_token_end q s w : tok_ok s = true -> adm q s = true -> all_ws w = true ->
  get_token (pform q s ++ w) = Some (s, []).
Proof.
  intros Hok Ha Haw. destruct w as [|c w].
  - rewrite app_nil_r. destruct (pform_cases q s Ha) as [[_ ->]|[_ ->]].
    + destruct (tok_ok_head s Hok) as [Hq _]. apply (get_token_quoted s [] Hq).
    + now apply protect_token_eol.
  - rewrite <- (app_nil_r (c :: w)). apply pform_token_sep; auto; [discriminate|exact I].
Qed.

Lemma pform_head q s : adm q s = true -> head_not_ws (pform q s) /\ pform q s <> [].
Proof.
  intros Ha. destruct (pform_cases q s Ha) as [[_ ->]|[_ ->]]; [split; [reflexivity|discriminate]|].
  split; [apply protect_head_not_ws|apply protect_nonempty].
Qed.

Lemma pform_last q s : adm q s = true -> last_not_ws (pform q s).
Proof.
  intros Ha. destruct (pform_cases q s Ha) as [[_ ->]|[_ ->]]; [|apply protect_last_not_ws].
  change (QUOTE :: s ++ [QUOTE]) with ((QUOTE :: s) ++ [QUOTE]). now apply last_not_ws_app.
Qed.

Lemma qscan_pform q s : mem QUOTE s = false -> adm q s = true -> qscan (pform q s) = (true, true).
Proof.
  intros Hq Ha. destruct (pform_cases q s Ha) as [[_ ->]|[_ ->]]; [now apply qscan_quoted|now apply qscan_protect].
Qed.

Lemma dbl_pform q s r : tok_ok s = true -> adm q s = true -> ws_or_end r ->
  dbl_aux 0 0 (pform q s ++ r) = pform q s ++ dbl_aux 0 0 r.
Proof.
  intros Hok Ha Hr. destruct (pform_cases q s Ha) as [[_ ->]|[_ ->]]; [|now apply dbl_protect_scalar].
  destruct (tok_ok_head s Hok) as [Hq _].
  change ((QUOTE :: s ++ [QUOTE]) ++ r) with (QUOTE :: (s ++ [QUOTE]) ++ r). rewrite <- app_assoc. cbn [app].
  rewrite dbl_quoted by auto. change (QUOTE :: s ++ QUOTE :: dbl_aux 0 0 r) with (QUOTE :: s ++ [QUOTE] ++ dbl_aux 0 0 r).
  now rewrite app_assoc.
Qed.

Lemma dbl_pform_close q s r : tok_ok s = true -> adm q s = true -> ws_or_end r ->
  dbl_aux 0 0 (pform q s ++ RBRACE :: r) = pform q s ++ RBRACE :: dbl_aux 0 0 r.
Proof.
  intros Hok Ha Hr. destruct (pform_cases q s Ha) as [[_ ->]|[_ ->]]; [|now apply dbl_protect_close].
  destruct (tok_ok_head s Hok) as [Hq _].
  change ((QUOTE :: s ++ [QUOTE]) ++ RBRACE :: r) with (QUOTE :: (s ++ [QUOTE]) ++ RBRACE :: r).
  rewrite <- app_assoc. cbn [app]. rewrite dbl_quoted by auto.
  change (RBRACE :: r) with ([RBRACE] ++ r). rewrite (dbl_word [RBRACE] r); [|discriminate|reflexivity|split; reflexivity|exact Hr].
  change (QUOTE :: s ++ QUOTE :: [RBRACE] ++ dbl_aux 0 0 r) with (QUOTE :: s ++ [QUOTE] ++ RBRACE :: dbl_aux 0 0 r).
  now rewrite app_assoc.
Qed.

Lemma dbl_blanks w r : all_ws w = true -> dbl_aux 0 0 (w ++ r) = w ++ dbl_aux 0 0 r.
Proof.
  induction w as [|c w IH]; intros H; [reflexivity|]. cbn [all_ws forallb] in H. apply andb_true_iff in H as [Hc Hw].
  cbn [app]. rewrite dbl_ws by auto. now rewrite IH.
Qed.

Lemma qscan_blanks w : all_ws w = true -> qscan w = (true, true).
Proof.
  intros H. apply qscan_plain; apply mem_false_forallb; (eapply forallb_impl; [|exact H]); intros x Hx;
    apply negb_true_iff; apply N.eqb_neq; intros ->; discriminate.
Qed.

(* an opening brace followed, after blanks, by something that is not another opening brace *)
Lemma dbl_open_blank r : match lstrip r with c :: _ => (c =? LBRACE) = false | [] => True end ->
  dbl_aux 0 0 (LBRACE :: r) = LBRACE :: dbl_aux 0 0 r.
Proof.
  intros Hr. cbn [dbl_aux]. change (LBRACE =? QUOTE) with false. change (is_ws LBRACE) with false.
  change (LBRACE =? LBRACE) with true. cbn [andb negb]. cbv iota.
  unfold match_dbl. change (LBRACE =? LBRACE) with true. cbv iota.
  destruct (lstrip r) as [|c t]; [reflexivity|]. now rewrite Hr.
Qed.

(* ---------------------------------------------------------------- the forms of a scalar value *)
Inductive sform := FBare | FQuoted | FBraced (lead : bytes) | FDouble (w1 w2 w3 : bytes).
(* as written in the file *)
Definition stext (f : sform) (s : bytes) : bytes :=
  match f with
  | FBare => s
  | FQuoted => QUOTE :: s ++ [QUOTE]
  | FBraced lead => LBRACE :: lead ++ s ++ [RBRACE]
  | FDouble w1 w2 w3 => LBRACE :: w1 ++ LBRACE :: w2 ++ RBRACE :: w3 ++ [RBRACE]
  end.
(* as the tokeniser sees it, after the empty-double-brace rewrite *)
Definition stext' (f : sform) (s : bytes) : bytes :=
  match f with FDouble _ _ _ => [QUOTE; QUOTE] | _ => stext f s end.
Definition sform_ok (f : sform) (s : bytes) : bool :=
  match f with
  | FBare => negb (needs_quote s)
  | FQuoted => true
  | FBraced lead => all_ws lead && negb (mem LBRACE s) && negb (mem RBRACE s) && negb (mem QUOTE s) && negb (mem HASH s)
                    && match s with c :: _ => negb (is_ws c) | [] => true end
  | FDouble w1 w2 w3 => all_ws w1 && all_ws w2 && all_ws w3 && beq s []
  end.

Lemma braced_parts lead s : sform_ok (FBraced lead) s = true ->
  all_ws lead = true /\ mem LBRACE s = false /\ mem RBRACE s = false /\ mem QUOTE s = false /\ mem HASH s = false /\
  brace_adm s = true.
Proof.
  cbn [sform_ok]. intros H. apply andb_true_iff in H as [H H6]. apply andb_true_iff in H as [H H5].
  apply andb_true_iff in H as [H H4]. apply andb_true_iff in H as [H H3]. apply andb_true_iff in H as [H1 H2].
  apply negb_true_iff in H2, H3, H4, H5. repeat split; auto. unfold brace_adm. now rewrite H3, H6.
Qed.

Lemma double_parts w1 w2 w3 s : sform_ok (FDouble w1 w2 w3) s = true ->
  all_ws w1 = true /\ all_ws w2 = true /\ all_ws w3 = true /\ s = [].
Proof.
  cbn [sform_ok]. intros H. apply andb_true_iff in H as [H H4]. apply andb_true_iff in H as [H H3].
  apply andb_true_iff in H as [H1 H2]. apply beq_eq in H4. auto.
Qed.

Lemma stext'_token f s w rest : tok_ok s = true -> sform_ok f s = true -> all_ws w = true -> head_not_ws rest -> (w = [] -> rest = []) ->
  get_token (stext' f s ++ w ++ rest) = Some (s, rest).
Proof.
  intros Hok Hf Hw Hr Hwr. destruct f as [| |lead|w1 w2 w3]; cbn [stext' stext].
  - cbn [sform_ok] in Hf. destruct w as [|x w].
    + rewrite (Hwr eq_refl). rewrite app_nil_r. pose proof (pform_token_end false s [] Hok) as G. cbn [pform] in G. rewrite app_nil_r in G.
      apply G; [unfold adm; now rewrite Hf|reflexivity].
    + apply (pform_token_sep false s (x :: w) rest Hok); [unfold adm; now rewrite Hf|discriminate|exact Hw|exact Hr].
  - destruct w as [|x w].
    + rewrite (Hwr eq_refl). rewrite app_nil_r. pose proof (pform_token_end true s [] Hok) as G. cbn [pform] in G. rewrite app_nil_r in G.
      apply G; reflexivity.
    + apply (pform_token_sep true s (x :: w) rest Hok); [reflexivity|discriminate|exact Hw|exact Hr].
  - destruct (braced_parts lead s Hf) as [Hl [_ [_ [_ [_ Hb]]]]].
    change ((LBRACE :: lead ++ s ++ [RBRACE]) ++ w ++ rest) with (LBRACE :: (lead ++ s ++ [RBRACE]) ++ w ++ rest).
    rewrite <- !app_assoc. cbn [app]. now apply get_token_braced.
  - destruct (double_parts _ _ _ _ Hf) as [_ [_ [_ ->]]]. cbn [app].
    pose proof (get_token_quoted [] (w ++ rest) eq_refl) as G. cbn [app] in G. rewrite G. now rewrite lstrip_ws_app_id.
Qed.

Lemma stext_head f s : sform_ok f s = true -> head_not_ws (stext f s) /\ stext f s <> [].
Proof.
  destruct f; cbn [stext sform_ok]; intros H; try (split; [reflexivity|discriminate]).
  apply (pform_head false s). unfold adm. now rewrite H.
Qed.

Lemma stext_last f s : sform_ok f s = true -> last_not_ws (stext f s).
Proof.
  destruct f as [| |lead|w1 w2 w3]; cbn [stext sform_ok]; intros H.
  - apply (pform_last false s). unfold adm. now rewrite H.
  - apply (pform_last true s). reflexivity.
  - rewrite app_comm_cons, app_assoc. now apply last_not_ws_app.
  - change (LBRACE :: w1 ++ LBRACE :: w2 ++ RBRACE :: w3 ++ [RBRACE]) with ((LBRACE :: w1) ++ (LBRACE :: w2) ++ (RBRACE :: w3) ++ [RBRACE]).
    rewrite !app_assoc. now apply last_not_ws_app.
Qed.

Lemma qscan_stext f s : mem QUOTE s = false -> sform_ok f s = true -> qscan (stext f s) = (true, true).
Proof.
  intros Hq Hf. destruct f as [| |lead|w1 w2 w3]; cbn [stext].
  - apply (qscan_pform false); auto; unfold adm; cbn [sform_ok] in Hf; now rewrite Hf.
  - now apply (qscan_pform true).
  - destruct (braced_parts lead s Hf) as [Hl [_ [_ [_ [Hh _]]]]].
    apply (qscan_tt_app [LBRACE]); [reflexivity|]. apply qscan_tt_app; [now apply qscan_blanks|].
    apply qscan_tt_app; [now apply qscan_plain|reflexivity].
  - destruct (double_parts _ _ _ _ Hf) as [H1 [H2 [H3 _]]].
    apply (qscan_tt_app [LBRACE]); [reflexivity|]. apply qscan_tt_app; [now apply qscan_blanks|].
    apply (qscan_tt_app [LBRACE]); [reflexivity|]. apply qscan_tt_app; [now apply qscan_blanks|].
    apply (qscan_tt_app [RBRACE]); [reflexivity|]. apply qscan_tt_app; [now apply qscan_blanks|reflexivity].
Qed.

(* text without double quote and opening brace is copied by the rewrite, in whatever copy state it is entered *)
Lemma dbl_plain t : forall r k, mem QUOTE t = false -> mem LBRACE t = false -> ws_or_end r ->
  (k <= length (fst (span not_ws (t ++ r))))%nat -> dbl_aux k 0 (t ++ r) = t ++ dbl_aux 0 0 r.
Proof.
  induction t as [|c t IH]; intros r k Hq Hb Hr Hk.
  - cbn [app] in *. assert (k = 0%nat).
    { destruct r as [|x r]; cbn [span fst length] in Hk; [lia|]. cbn [ws_or_end] in Hr. unfold not_ws in Hk. rewrite Hr in Hk.
      cbn [negb fst length] in Hk. lia. }
    now subst.
  - apply mem_cons_false in Hq as [Hcq Hq]. apply mem_cons_false in Hb as [Hcb Hb]. cbn [app] in *.
    cbn [span] in Hk. destruct (not_ws c) eqn:Nc.
    + destruct (span not_ws (t ++ r)) as [a b] eqn:E. cbn [fst length] in Hk. cbn [dbl_aux]. destruct k as [|k'].
      * rewrite Hcq. cbn [andb]. unfold not_ws in Nc. rewrite Nc, Hcb. cbn [negb andb]. f_equal.
        rewrite E. cbn [fst]. apply IH; auto. rewrite E. cbn [fst]. lia.
      * f_equal. apply IH; auto. rewrite E. cbn [fst]. lia.
    + cbn [fst length] in Hk. assert (k = 0%nat) by lia. subst k. cbn [dbl_aux]. rewrite Hcq. cbn [andb].
      unfold not_ws in Nc. apply negb_false_iff in Nc. rewrite Nc. cbn [negb andb].
      unfold match_dbl. rewrite Hcb. f_equal. apply IH; auto. lia.
Qed.

Lemma dbl_stext f s r : tok_ok s = true -> sform_ok f s = true -> ws_or_end r ->
  dbl_aux 0 0 (stext f s ++ r) = stext' f s ++ dbl_aux 0 0 r.
Proof.
  intros Hok Hf Hr. destruct f as [| |lead|w1 w2 w3]; cbn [stext stext'].
  - apply (dbl_pform false); auto; unfold adm; cbn [sform_ok] in Hf; now rewrite Hf.
  - now apply (dbl_pform true).
  - destruct (braced_parts lead s Hf) as [Hl [Hlb [Hrb [Hq [_ Hb]]]]].
    cbn [app]. rewrite <- !app_assoc. cbn [app]. rewrite dbl_open_blank.
    + rewrite dbl_blanks by auto. replace (s ++ RBRACE :: r) with ((s ++ [RBRACE]) ++ r) by (now rewrite <- app_assoc).
      rewrite dbl_plain; auto.
      * now rewrite <- app_assoc.
      * rewrite mem_app, Hq. reflexivity.
      * rewrite mem_app, Hlb. reflexivity.
      * lia.
    + rewrite lstrip_ws_app_id; auto.
      * destruct s as [|c s]; [reflexivity|]. cbn [app]. now apply mem_cons_false in Hlb as [Hc _].
      * unfold brace_adm in Hb. apply andb_true_iff in Hb as [_ Hh]. destruct s as [|c s]; [reflexivity|]. cbn [app head_not_ws].
        now apply negb_true_iff.
  - destruct (double_parts _ _ _ _ Hf) as [H1 [H2 [H3 _]]].
    cbn [app]. rewrite <- !app_assoc. cbn [app]. rewrite <- !app_assoc. cbn [app]. rewrite <- !app_assoc. cbn [app].
    now apply double_brace_is_empty_string.
Qed.

(* ---------------------------------------------------------------- array elements with their gaps *)
Definition elem := (bytes * bool * bytes)%type.          (* text, quoted?, blanks after it *)
Definition e_text (e : elem) : bytes := fst (fst e).
Definition body (es : list elem) : bytes := concat (map (fun e : elem => pform (snd (fst e)) (e_text e) ++ snd e) es).
Fixpoint elems_ok (es : list elem) : bool :=
  match es with
  | [] => true
  | e :: es' => etok_ok (e_text e) && adm (snd (fst e)) (e_text e) && all_ws (snd e)
                && (match es' with [] => true | _ => negb (beq (snd e) []) end) && elems_ok es'
  end.

Lemma elems_ok_cons e es : elems_ok (e :: es) = true ->
  tok_ok (e_text e) = true /\ mem RBRACE (e_text e) = false /\ adm (snd (fst e)) (e_text e) = true /\ all_ws (snd e) = true /\
  (es <> [] -> snd e <> []) /\ elems_ok es = true.
Proof.
  cbn [elems_ok]. intros H. apply andb_true_iff in H as [H H5]. apply andb_true_iff in H as [H H4].
  apply andb_true_iff in H as [H H3]. apply andb_true_iff in H as [H1 H2]. unfold etok_ok in H1.
  apply andb_true_iff in H1 as [H0 H1]. apply negb_true_iff in H1. repeat split; auto.
  intros Hne. destruct es; [congruence|]. apply negb_true_iff in H4. now apply beq_neq.
Qed.

Lemma body_head es : elems_ok es = true -> head_not_ws (body es).
Proof.
  destruct es as [|e es]; [reflexivity|]. intros H. destruct (elems_ok_cons e es H) as [_ [_ [Ha _]]].
  unfold body. cbn [map concat]. destruct (pform_head _ _ Ha) as [Hh Hn].
  destruct (pform (snd (fst e)) (e_text e)); [congruence|exact Hh].
Qed.

Lemma split_array_body es : forall fuel, elems_ok es = true -> (length (body es) < fuel)%nat ->
  split_array fuel (body es) = Some (map e_text es).
Proof.
  induction es as [|e es IH]; intros fuel H Hf; [destruct fuel; reflexivity|].
  destruct (elems_ok_cons e es H) as [Hok [_ [Ha [Hw [Hne Hes]]]]]. destruct fuel as [|k]; [lia|].
  unfold body in *. cbn [map concat] in *. destruct (pform_head _ _ Ha) as [_ Hn].
  assert (Hlen : (length (concat (map (fun e0 : elem => pform (snd (fst e0)) (e_text e0) ++ snd e0) es)) < k)%nat).
  { rewrite !app_length in Hf. destruct (pform (snd (fst e)) (e_text e)); [congruence|]. cbn [length] in Hf. lia. }
  cbn [split_array].
  destruct ((pform (snd (fst e)) (e_text e) ++ snd e) ++ concat (map (fun e0 : elem => pform (snd (fst e0)) (e_text e0) ++ snd e0) es)) eqn:E.
  { destruct (pform (snd (fst e)) (e_text e)); [congruence|discriminate]. }
  rewrite <- E. clear E. rewrite <- app_assoc.
  destruct es as [|e' es'].
  - cbn [map concat]. rewrite app_nil_r. rewrite pform_token_end by auto. cbn [option_map]. destruct k; reflexivity.
  - rewrite pform_token_sep; auto.
    + cbn [option_map]. rewrite IH; auto.
    + apply Hne. discriminate.
    + apply (body_head (e' :: es') Hes).
Qed.

Lemma body_no_rbrace es : elems_ok es = true -> mem RBRACE (body es) = false.
Proof.
  induction es as [|e es IH]; intros H; [reflexivity|]. destruct (elems_ok_cons e es H) as [Hok [Hb [Ha [Hw [_ Hes]]]]].
  unfold body in *. cbn [map concat]. rewrite !mem_app, IH by auto. rewrite orb_false_r.
  assert (mem RBRACE (snd e) = false) as ->.
  { apply mem_false_forallb. eapply forallb_impl; [|exact Hw]. intros x Hx. apply negb_true_iff. apply N.eqb_neq. intros ->. discriminate. }
  rewrite orb_false_r. unfold pform. destruct (snd (fst e)); [|exact Hb].
  unfold mem in *. cbn [existsb]. rewrite existsb_app, Hb. reflexivity.
Qed.

Lemma qscan_body es : elems_ok es = true -> qscan (body es) = (true, true).
Proof.
  induction es as [|e es IH]; intros H; [reflexivity|]. destruct (elems_ok_cons e es H) as [Hok [_ [Ha [Hw [_ Hes]]]]].
  unfold body in *. cbn [map concat]. destruct (tok_ok_head _ Hok) as [Hq _].
  apply qscan_tt_app; [|now apply IH]. apply qscan_tt_app; [now apply qscan_pform|now apply qscan_blanks].
Qed.

Lemma dbl_body es : forall r, es <> [] -> elems_ok es = true -> ws_or_end r ->
  dbl_aux 0 0 (body es ++ RBRACE :: r) = body es ++ RBRACE :: dbl_aux 0 0 r.
Proof.
  induction es as [|e es IH]; intros r Hn H Hr; [congruence|]. destruct (elems_ok_cons e es H) as [Hok [_ [Ha [Hw [Hne Hes]]]]].
  unfold body in *. cbn [map concat]. rewrite <- !app_assoc. destruct es as [|e' es'].
  - cbn [map concat app]. destruct (snd e) as [|c g] eqn:G.
    + cbn [app]. now apply dbl_pform_close.
    + rewrite dbl_pform; auto.
      2:{ cbn [app ws_or_end]. cbn [all_ws forallb] in Hw. now apply andb_true_iff in Hw as [Hc _]. }
      rewrite dbl_blanks by auto. change (RBRACE :: r) with ([RBRACE] ++ r).
      rewrite (dbl_word [RBRACE] r); [reflexivity|discriminate|reflexivity|split; reflexivity|exact Hr].
  - assert (G : snd e <> []) by (apply Hne; discriminate).
    rewrite dbl_pform; auto.
    2:{ destruct (snd e) as [|c g]; [congruence|]. cbn [app ws_or_end]. cbn [all_ws forallb] in Hw. now apply andb_true_iff in Hw as [Hc _]. }
    rewrite dbl_blanks by auto. rewrite IH; auto. discriminate.
Qed.

(* ---------------------------------------------------------------- laid-out cells and rows *)
Inductive lcell := LSc (v : sval) (f : sform) | LAr (lead : bytes) (es : list (sval * bool * bytes)).
Definition elem_of (x : sval * bool * bytes) : elem := (show_sval (fst (fst x)), snd (fst x), snd x).
Definition cell_of (c : lcell) : cell := match c with LSc v _ => Sc v | LAr _ es => Ar (map (fun x => fst (fst x)) es) end.
Definition rcell (c : lcell) : bytes :=
  match c with
  | LSc v f => stext f (show_sval v)
  | LAr lead es => LBRACE :: lead ++ body (map elem_of es) ++ [RBRACE]
  end.
(* after the empty-double-brace rewrite *)
Definition rcell' (c : lcell) : bytes :=
  match c with
  | LSc v f => stext' f (show_sval v)
  | LAr lead es => LBRACE :: lead ++ body (map elem_of es) ++ [RBRACE]
  end.
Definition lcell_ok (c : lcell) : bool :=
  match c with
  | LSc v f => sval_tok_ok false v && sform_ok f (show_sval v)
  | LAr lead es => all_ws lead && elems_ok (map elem_of es) && forallb (fun x => sval_tok_ok true (fst (fst x))) es
  end.

Lemma map_e_text es : map e_text (map elem_of es) = map show_sval (map (fun x : sval * bool * bytes => fst (fst x)) es).
Proof. rewrite !map_map. reflexivity. Qed.

(* get_token + convert on one laid-out cell (as the tokeniser sees it) followed by blanks or the end *)
Lemma lcell_token typ c w rest :
  lcell_ok c = true -> cell_fits (classify typ) (isarray typ) (cell_of c) = true ->
  all_ws w = true -> head_not_ws rest -> (w = [] -> rest = []) ->
  exists data, get_token (rcell' c ++ w ++ rest) = Some (data, rest) /\
    (if isarray typ
     then obind (split_array (S (length data)) data) (fun ts => option_map Ar (omap (conv1 (classify typ)) ts))
     else option_map Sc (conv1 (classify typ) data)) = Some (cell_of c).
Proof.
  intros Hok Hf Hw Hr Hwr. destruct c as [v f|lead es]; cbn [lcell_ok cell_of rcell' cell_fits] in *.
  - apply andb_true_iff in Hok as [Ht Ha]. apply andb_true_iff in Hf as [Hf _]. apply andb_true_iff in Hf as [Hi Hk].
    apply negb_true_iff in Hi. exists (show_sval v). rewrite Hi. rewrite conv1_show by auto. split; auto.
    apply stext'_token; auto. now apply show_sval_tok_ok.
  - apply andb_true_iff in Hok as [Hok Hts]. apply andb_true_iff in Hok as [Hl He].
    apply andb_true_iff in Hf as [Hf _]. apply andb_true_iff in Hf as [Hi Hk].
    exists (body (map elem_of es)). rewrite Hi. split.
    + change ((LBRACE :: lead ++ body (map elem_of es) ++ [RBRACE]) ++ w ++ rest)
        with (LBRACE :: (lead ++ body (map elem_of es) ++ [RBRACE]) ++ w ++ rest).
      rewrite <- !app_assoc. cbn [app get_token]. change (LBRACE =? QUOTE) with false. change (LBRACE =? LBRACE) with true. cbv iota.
      rewrite lstrip_ws_app_id; auto.
      * rewrite span_app_stop.
        { now rewrite lstrip_ws_app_id. }
        { apply mem_false_forallb. now apply body_no_rbrace. }
        { unfold not_c. now rewrite N.eqb_refl. }
      * pose proof (body_head _ He) as Hh. destruct (body (map elem_of es)); [reflexivity|exact Hh].
    + rewrite split_array_body by (auto; lia). cbn [obind]. rewrite map_e_text. now rewrite omap_conv1_show.
Qed.

Lemma rcell_head c : lcell_ok c = true -> head_not_ws (rcell c) /\ rcell c <> [].
Proof.
  destruct c as [v f|lead es]; cbn [lcell_ok rcell]; intros H; [|split; [reflexivity|discriminate]].
  apply andb_true_iff in H as [_ Ha]. now apply stext_head.
Qed.

Lemma rcell'_head c : lcell_ok c = true -> head_not_ws (rcell' c) /\ rcell' c <> [].
Proof.
  destruct c as [v f|lead es]; cbn [lcell_ok rcell']; intros H; [|split; [reflexivity|discriminate]].
  apply andb_true_iff in H as [_ Ha]. destruct f; cbn [stext']; try (now apply (stext_head _ _ Ha)). split; [reflexivity|discriminate].
Qed.

Lemma rcell_last c : lcell_ok c = true -> last_not_ws (rcell c).
Proof.
  destruct c as [v f|lead es]; cbn [lcell_ok rcell]; intros H.
  - apply andb_true_iff in H as [_ Ha]. now apply stext_last.
  - change (LBRACE :: lead ++ body (map elem_of es) ++ [RBRACE]) with ((LBRACE :: lead) ++ body (map elem_of es) ++ [RBRACE]).
    apply last_not_ws_app_r; [destruct (body (map elem_of es)); discriminate|]. now apply last_not_ws_app.
Qed.

Lemma qscan_rcell c : lcell_ok c = true -> qscan (rcell c) = (true, true).
Proof.
  destruct c as [v f|lead es]; cbn [lcell_ok rcell]; intros H.
  - apply andb_true_iff in H as [Ht Ha]. apply qscan_stext; auto.
    destruct (tok_ok_head _ (show_sval_tok_ok v Ht)) as [Hq _]. exact Hq.
  - apply andb_true_iff in H as [H _]. apply andb_true_iff in H as [Hl He].
    apply (qscan_tt_app [LBRACE]); [reflexivity|]. apply qscan_tt_app; [now apply qscan_blanks|].
    apply qscan_tt_app; [now apply qscan_body|reflexivity].
Qed.

Lemma dbl_rcell c r : lcell_ok c = true -> ws_or_end r -> dbl_aux 0 0 (rcell c ++ r) = rcell' c ++ dbl_aux 0 0 r.
Proof.
  destruct c as [v f|lead es]; cbn [lcell_ok rcell rcell']; intros H Hr.
  - apply andb_true_iff in H as [Ht Ha]. apply dbl_stext; auto. now apply show_sval_tok_ok.
  - apply andb_true_iff in H as [H _]. apply andb_true_iff in H as [Hl He].
    cbn [app]. rewrite <- !app_assoc. cbn [app]. rewrite dbl_open_blank.
    + rewrite dbl_blanks by auto. destruct es as [|x es].
      * cbn [map body concat app]. change (RBRACE :: r) with ([RBRACE] ++ r).
        rewrite (dbl_word [RBRACE] r); [reflexivity|discriminate|reflexivity|split; reflexivity|exact Hr].
      * rewrite dbl_body; auto. discriminate.
    + rewrite lstrip_ws_app_id; auto.
      * destruct es as [|x es]; [reflexivity|]. cbn [map] in *. destruct (elems_ok_cons _ _ He) as [Hok [_ [Ha _]]].
        unfold body. cbn [map concat]. destruct (pform_cases _ _ Ha) as [[_ ->]|[_ ->]]; [reflexivity|].
        pose proof (protect_head_cases _ Hok) as Hh. destruct (protect (e_text (elem_of x))); [contradiction|]. cbn [app]. now destruct Hh.
      * pose proof (body_head _ He) as Hh. destruct (body (map elem_of es)); [reflexivity|exact Hh].
Qed.

(* cells, each preceded by its gap: as written, and as the tokeniser sees them *)
Definition rtext (cells : list (bytes * lcell)) : bytes := concat (map (fun gc => fst gc ++ rcell (snd gc)) cells).
Definition rtext' (cells : list (bytes * lcell)) : bytes := concat (map (fun gc => fst gc ++ rcell' (snd gc)) cells).
Definition cells_ok (cells : list (bytes * lcell)) : bool :=
  forallb (fun gc => all_ws (fst gc) && negb (beq (fst gc) []) && lcell_ok (snd gc)) cells.

Lemma cells_ok_cons g c cells : cells_ok ((g, c) :: cells) = true ->
  all_ws g = true /\ g <> [] /\ lcell_ok c = true /\ cells_ok cells = true.
Proof.
  unfold cells_ok. cbn [forallb fst snd]. intros H. apply andb_true_iff in H as [H H3]. apply andb_true_iff in H as [H H2].
  apply andb_true_iff in H as [H0 H1]. apply negb_true_iff in H1. apply beq_neq in H1. auto.
Qed.

Fixpoint lrow_fits (cols : tcols) (cells : list (bytes * lcell)) : bool :=
  match cols, cells with
  | [], [] => true
  | (_, Some typ) :: cols', gc :: cells' => cell_fits (classify typ) (isarray typ) (cell_of (snd gc)) && lrow_fits cols' cells'
  | _, _ => false
  end.

Lemma lrow_fits_gap cols g g' c cells : lrow_fits cols ((g, c) :: cells) = lrow_fits cols ((g', c) :: cells).
Proof. destruct cols as [|[n [t|]] cols]; reflexivity. Qed.

Lemma rtext_ws_or_end cells : cells_ok cells = true -> ws_or_end (rtext cells) /\ ws_or_end (rtext' cells).
Proof.
  destruct cells as [|[g c] cells]; [intros _; split; exact I|]. intros H. destruct (cells_ok_cons _ _ _ H) as [Hw [Hn _]].
  unfold rtext, rtext'. cbn [map concat fst]. destruct g as [|x g]; [congruence|]. cbn [app ws_or_end].
  cbn [all_ws forallb] in Hw. apply andb_true_iff in Hw as [Hx _]. auto.
Qed.

Theorem parse_cells_layout cols : forall c cells, lcell_ok c = true -> cells_ok cells = true ->
  lrow_fits cols ((@nil N, c) :: cells) = true ->
  parse_cells cols (rcell' c ++ rtext' cells) = Some (cell_of c :: map (fun gc => cell_of (snd gc)) cells).
Proof.
  induction cols as [|[name otyp] cols IH]; intros c cells Hc Hcs Hf; [discriminate|].
  destruct otyp as [typ|]; [|discriminate]. cbn [lrow_fits snd] in Hf. apply andb_true_iff in Hf as [Hfc Hfr].
  cbn [parse_cells]. destruct (rcell'_head c Hc) as [Hh Hn].
  rewrite head_not_ws_not_all_ws.
  2:{ destruct (rcell' c); [congruence|discriminate]. }
  2:{ destruct (rcell' c); [congruence|exact Hh]. }
  destruct cells as [|[g c'] cells'].
  - unfold rtext'. cbn [map concat]. rewrite app_nil_r.
    destruct (lcell_token typ c [] [] Hc Hfc eq_refl I (fun _ => eq_refl)) as [data [Hg Hcv]]. cbn [app] in Hg.
    rewrite app_nil_r in Hg. rewrite Hg, Hcv. destruct cols as [|[n o] cols']; [reflexivity|destruct o; discriminate].
  - destruct (cells_ok_cons _ _ _ Hcs) as [Hw [Hgn [Hc' Hcs']]].
    unfold rtext'. cbn [map concat fst snd]. fold (rtext' cells'). rewrite <- app_assoc.
    destruct (rcell'_head c' Hc') as [Hh' Hn'].
    destruct (lcell_token typ c g (rcell' c' ++ rtext' cells') Hc Hfc Hw) as [data [Hg Hcv]].
    + destruct (rcell' c'); [congruence|exact Hh'].
    + intros E. congruence.
    + rewrite Hg, Hcv. rewrite (IH c' cells'); auto. now rewrite (lrow_fits_gap cols [] g).
Qed.

(* the core of a laid-out row: name, then cells with their gaps *)
Definition lrow_core (name : bytes) (cells : list (bytes * lcell)) : bytes := name ++ rtext cells.

Lemma qscan_rtext cells : cells_ok cells = true -> qscan (rtext cells) = (true, true).
Proof.
  induction cells as [|[g c] cells IH]; intros H; [reflexivity|]. destruct (cells_ok_cons _ _ _ H) as [Hw [_ [Hc Hcs]]].
  unfold rtext in *. cbn [map concat fst snd]. apply qscan_tt_app; [|now apply IH].
  apply qscan_tt_app; [now apply qscan_blanks|now apply qscan_rcell].
Qed.

Lemma dbl_rtext cells : cells_ok cells = true -> dbl_aux 0 0 (rtext cells) = rtext' cells.
Proof.
  induction cells as [|[g c] cells IH]; intros H; [reflexivity|]. destruct (cells_ok_cons _ _ _ H) as [Hw [_ [Hc Hcs]]].
  unfold rtext, rtext' in *. cbn [map concat fst snd]. rewrite <- app_assoc. rewrite dbl_blanks by auto.
  rewrite dbl_rcell; auto; [now rewrite IH, <- app_assoc|]. now destruct (rtext_ws_or_end cells Hcs).
Qed.

Lemma rtext_last cells : cells_ok cells = true -> cells <> [] -> last_not_ws (rtext cells) /\ rtext cells <> [].
Proof.
  induction cells as [|[g c] cells IH]; intros H Hn; [congruence|]. destruct (cells_ok_cons _ _ _ H) as [Hw [Hg [Hc Hcs]]].
  unfold rtext in *. cbn [map concat fst snd]. destruct (rcell_head c Hc) as [_ Hrn]. split.
  - destruct cells as [|gc cells'].
    + cbn [map concat]. rewrite app_nil_r. apply last_not_ws_app_r; auto. now apply rcell_last.
    + destruct (IH Hcs) as [L N]; [discriminate|]. apply last_not_ws_app_r; auto.
  - destruct g; [congruence|discriminate].
Qed.

Theorem lrow_is_core_line name cells : name <> [] -> forallb is_word name = true -> cells_ok cells = true ->
  core_line (lrow_core name cells).
Proof.
  intros Hn Hw Hc. unfold core_line, lrow_core.
  assert (Hh : exists c n', name = c :: n' /\ is_word c = true).
  { destruct name as [|c n']; [congruence|]. cbn [forallb] in Hw. apply andb_true_iff in Hw as [Hc0 _]. eauto. }
  destruct Hh as [c [n' [En Hc0]]].
  split; [rewrite En; discriminate|]. split; [rewrite En; cbn [app head_not_ws]; now apply word_not_ws|].
  split; [rewrite En; cbn [app]; now apply word_not|]. split.
  - destruct cells as [|gc cells'].
    + unfold rtext. cbn [map concat]. rewrite app_nil_r. unfold last_not_ws. destruct (rev name) as [|x t] eqn:E; auto.
      assert (In x name) by (apply in_rev; rewrite E; now left). rewrite forallb_forall in Hw. apply word_not_ws. auto.
    + destruct (rtext_last (gc :: cells') Hc) as [L N]; [discriminate|]. now apply last_not_ws_app_r.
  - apply trailing_comment_safe. unfold hash_safe. rewrite qscan_tt_app; auto.
    + apply qscan_plain; now apply word_mem.
    + now apply qscan_rtext.
Qed.

(* THE ROW THEOREM: any admissible token layout of a data row is processed as the row of its cells *)
Theorem lrow_roundtrip (sy : symtab) st name (cols : tcols) cells :
  name <> [] -> forallb is_word name = true -> assoc (upper name) sy = Some cols ->
  cells_ok cells = true ->
  match cells with [] => cols = [] \/ True | gc :: cells' => lrow_fits cols ((@nil N, snd gc) :: cells') = true end ->
  process_line sy st (lrow_core name cells)
  = Some (mkst (st_pairs st) (assoc_app (upper name) (map (fun gc => cell_of (snd gc)) cells) (st_rows st))).
Proof.
  intros Hn Hw Hsy Hc Hf. destruct (lrow_is_core_line name cells Hn Hw Hc) as [Hne [Hh [Hhash [Hl Ht]]]].
  unfold process_line.
  assert (Sk : skip_line (lrow_core name cells) = false).
  { destruct (lrow_core name cells) as [|x t]; [congruence|]. unfold skip_line. cbn [lstrip all_ws forallb]. cbn [head_not_ws] in Hh.
    rewrite Hh. unfold starts_with. cbn [prefix]. rewrite N.eqb_sym, Hhash. reflexivity. }
  rewrite Sk. unfold clean_line. rewrite strip_id by auto. rewrite Ht. unfold double_braces, lrow_core.
  assert (Hq : match name with c :: _ => (c =? QUOTE) = false /\ (c =? LBRACE) = false | [] => True end).
  { destruct name as [|c n']; auto. cbn [forallb] in Hw. apply andb_true_iff in Hw as [Hc0 _]. split; now apply word_not. }
  destruct (rtext_ws_or_end cells Hc) as [WE WE'].
  rewrite dbl_word; [|exact Hn|now apply word_all_not_ws|exact Hq|exact WE].
  rewrite dbl_rtext by auto.
  destruct cells as [|[g c] cells'].
  - unfold rtext'. cbn [map concat]. rewrite app_nil_r.
    rewrite get_token_bare_eol; auto; [|now apply word_tok_ok|now apply word_all_not_ws].
    rewrite Hsy. destruct cols as [|[n o] cols']; cbn [parse_cells all_ws forallb]; reflexivity.
  - destruct (cells_ok_cons _ _ _ Hc) as [Hgw [Hgn [Hcc Hcs]]]. cbn [snd] in Hf.
    unfold rtext'. cbn [map concat fst snd]. fold (rtext' cells'). rewrite <- app_assoc.
    destruct g as [|x g]; [congruence|]. cbn [app].
    rewrite get_token_bare; [|exact Hn|now apply word_tok_ok|now apply word_all_not_ws|cbn [all_ws forallb] in Hgw; now apply andb_true_iff in Hgw as [Hx _]].
    change (x :: g ++ rcell' c ++ rtext' cells') with ((x :: g) ++ rcell' c ++ rtext' cells').
    rewrite lstrip_ws_app_id; auto.
    + rewrite Hsy. rewrite parse_cells_layout; auto.
    + destruct (rcell'_head c Hcc) as [Hh' Hn']. destruct (rcell' c); [congruence|exact Hh'].
Qed.
