(* C13 -- Trace sets: bases are the textbook polynomials and fit/evaluate are consistent.
   Property theorems only; each is closed by `exact` and followed by Print Assumptions.
   Model: C13/Model.v (M = transliteration of trace.py / goddard/math.py over Q; S = closed forms + checkers).
   The expressions g_... (recurrences, xnorm arithmetic, jump arguments, default grid, func_fit's tests, masks and
   weightings) are GENERATED from /repo on every run (Generated/Trace.v): the theorems about func_fit, basis, xnorm,
   ts_fit, ts_xy are statements about what the source says now. *)
From Coq Require Import Reals QArith Qreals Qround ZArith List Bool.
Import ListNotations.
From PV Require Import Lib.WLS C13.LinAlg Generated.Trace C13.Model C13.Proofs.
Open Scope Q_scope.

(* ---------------------------------------------------------------- bases *)
(* the Chebyshev recurrence (fchebyshev, fchebyshev_split) IS the textbook definition T_n(cos th) = cos(n th) *)
Theorem C13_chebyshev_is_cos : forall n q th, Q2R q = cos th -> Q2R (chebyshev_rec n q) = cos (INR n * th).
Proof. exact chebyshev_is_cos. Qed.
Print Assumptions C13_chebyshev_is_cos.

(* ... and equals the closed-form coefficient table for every order the property quantifies over (all x) *)
Theorem C13_chebyshev_closed_form : forall n x, (n <= 12)%nat -> chebyshev_rec n x == chebyshev_explicit n x.
Proof. exact chebyshev_closed_form. Qed.
Print Assumptions C13_chebyshev_closed_form.

(* Bonnet's recurrence, value at 1, parity: the defining properties of the Legendre polynomials *)
Theorem C13_legendre_bonnet : forall n x,
  Qn (n + 2) * legendre_rec (S (S n)) x == Qn (2 * n + 3) * x * legendre_rec (S n) x - Qn (n + 1) * legendre_rec n x.
Proof. exact legendre_bonnet. Qed.
Print Assumptions C13_legendre_bonnet.

Theorem C13_legendre_at_one : forall n, legendre_rec n 1 == 1.
Proof. exact legendre_at_one. Qed.
Print Assumptions C13_legendre_at_one.

Theorem C13_legendre_parity : forall n x, legendre_rec n (- x) == psign n * legendre_rec n x.
Proof. exact legendre_parity. Qed.
Print Assumptions C13_legendre_parity.

(* P_n(x) = 2^-n sum_k (-1)^k C(n,k) C(2n-2k,n) x^(n-2k) as a polynomial identity, n <= 12 *)
Theorem C13_legendre_closed_form : forall n x, (n <= 12)%nat -> legendre_rec n x == legendre_explicit n x.
Proof. exact legendre_closed_form. Qed.
Print Assumptions C13_legendre_closed_form.

Theorem C13_monomial_is_pow : forall n x, monomial n x == x ^ Z.of_nat n.
Proof. exact monomial_is_pow. Qed.
Print Assumptions C13_monomial_is_pow.

(* fchebyshev_split: row 0 is the step (x >= 0), row k+1 is T_k *)
Theorem C13_chebyshev_split_step : forall x, chebyshev_split 0 x = step01 x.
Proof. exact chebyshev_split_0. Qed.
Print Assumptions C13_chebyshev_split_step.
Theorem C13_chebyshev_split_shifted : forall n x, chebyshev_split (S n) x == chebyshev_rec n x.
Proof. exact chebyshev_split_S. Qed.
Print Assumptions C13_chebyshev_split_shifted.

(* flegendre / fchebyshev as the source writes them (ones, row 1 = x, np.polyval of the scipy family named in the
   source at the degree expression of the source) are the Legendre / Chebyshev polynomials *)
Theorem C13_flegendre_is_legendre : forall k x, flegendre_row k x == legendre_rec k x.
Proof. exact flegendre_row_is_legendre. Qed.
Print Assumptions C13_flegendre_is_legendre.
Theorem C13_fchebyshev_is_chebyshev : forall k x, fchebyshev_row k x == chebyshev_rec k x.
Proof. exact fchebyshev_row_is_chebyshev. Qed.
Print Assumptions C13_fchebyshev_is_chebyshev.

(* the algorithmic model's bases equal the specification's closed forms (what the checkers use), all x, order <= 12 *)
Theorem C13_basis_is_spec : forall f k x, (k <= 12)%nat -> basis f k x == basis_spec f k x.
Proof. exact basis_is_spec. Qed.
Print Assumptions C13_basis_is_spec.

(* ---------------------------------------------------------------- least squares *)
(* the checked solver only answers with a solution of the system *)
Theorem C13_solve_checked_sound : forall A b x, solve_checked A b = Some x -> veq (mat_vec A x) b /\ length x = length A.
Proof. exact solve_checked_sound. Qed.
Print Assumptions C13_solve_checked_sound.

(* normal equations through the checked solver give the global minimum of the weighted chi-square *)
Theorem C13_wls_solve_optimal : forall m D x, wf m D -> wls_solve m D = Some x ->
  length x = m /\ forall z, length z = m -> chi2 D x <= chi2 D z.
Proof. exact wls_solve_optimal. Qed.
Print Assumptions C13_wls_solve_optimal.

(* the checker clause used on the implementation's output (fit_ok, and chi2_ok / astep_ok / gstep_ok / pca_ok of C15):
   a vector it accepts with tolerance 0 solves the normal equations and is the global minimiser; with the run-time
   tolerance it is that statement up to 1e-9 relative on each normal equation *)
Theorem C13_grad_small_exact_optimal : forall m D sol, wf m D -> grad_small 0 m D sol = true ->
  length sol = m /\ (forall d, gdot D sol d == 0) /\ forall z, length z = m -> chi2 D sol <= chi2 D z.
Proof. exact grad_small_exact_optimal. Qed.
Print Assumptions C13_grad_small_exact_optimal.

(* func_fit assembled from the expressions of the source (good-point test, ncfit, branch constants, inputans*(1-ia),
   ysub, free/fixed masks, extra2 and beta weightings, inputfunc scaling) is the reference form: a dropped weight, a
   lost (1 - ia), swapped masks ... change Generated/Trace.v and this proof stops checking *)
Theorem C13_func_fit_generated_is_reference : forall f x y w ncoeff ia ans ifunc,
  func_fit f x y w ncoeff ia ans ifunc = func_fit_ref f x y w ncoeff ia ans ifunc.
Proof. exact func_fit_eq_ref. Qed.
Print Assumptions C13_func_fit_generated_is_reference.
Theorem C13_generated_masks_complementary : forall b, g_fixed b = negb (g_nonfix b).
Proof. exact g_masks_complementary. Qed.
Print Assumptions C13_generated_masks_complementary.
(* the nparams = 1 shortcut of the source is the same normal equation *)
Theorem C13_single_parameter_formula : forall ysub w f, g_beta1 ysub w f == g_beta_w ysub w * f.
Proof. exact g_single_parameter. Qed.
Print Assumptions C13_single_parameter_formula.

(* func_fit (>= 2 good points, weights >= 0): the free coefficients minimise the weighted chi-square of
   (data - fixed part) over all vectors; res = scatter(free solution, inputans) padded with zeros; yfit = basis . res *)
Theorem C13_func_fit_optimal : forall f x y w ncoeff ia ans ifunc res yfit,
  func_fit f x y w ncoeff ia ans ifunc = Some (res, yfit) -> (2 <= ngood_of y w)%nat ->
  (ncoeff <= length ia)%nat -> Forall (fun v => 0 <= v) w ->
  let ncfit := Nat.min (ngood_of y w) ncoeff in
  let rows := scale_rows ifunc (map (basis_row f ncfit) x) in
  let iaf := firstn ncfit ia in
  let D := free_problem rows w y iaf (fixed_part ans ia) in
  exists sol, res = scatter 0 iaf sol ans ++ zeros (ncoeff - ncfit) /\
              yfit = map (fun r => dot r (scatter 0 iaf sol ans)) rows /\
              length sol = count_true iaf /\
              forall z, length z = count_true iaf -> chi2 D sol <= chi2 D z.
Proof. exact gen_func_fit_optimal. Qed.
Print Assumptions C13_func_fit_optimal.

(* the same in terms of the full coefficient vector: among ALL coefficient vectors carrying the prescribed values at
   the fixed positions, the returned one minimises the weighted chi-square of the data *)
Theorem C13_func_fit_optimal_full : forall f x y w ncoeff ia ans ifunc res yfit,
  func_fit f x y w ncoeff ia ans ifunc = Some (res, yfit) -> (2 <= ngood_of y w)%nat ->
  (ncoeff <= length ia)%nat -> Forall (fun v => 0 <= v) w ->
  let ncfit := Nat.min (ngood_of y w) ncoeff in
  let rows := scale_rows ifunc (map (basis_row f ncfit) x) in
  let iaf := firstn ncfit ia in
  let D := combine (combine rows w) y in
  exists resf, res = resf ++ zeros (ncoeff - ncfit) /\ length resf = ncfit /\ fixed_agree iaf resf ans /\
    yfit = map (fun r => dot r resf) rows /\
    forall c, length c = ncfit -> fixed_agree iaf c ans -> chi2 D resf <= chi2 D c.
Proof. exact gen_func_fit_optimal_full. Qed.
Print Assumptions C13_func_fit_optimal_full.

(* coefficients declared fixed (ia_j = False) keep their prescribed values *)
Theorem C13_func_fit_fixed_kept : forall f x y w ncoeff ia ans ifunc res yfit j v,
  func_fit f x y w ncoeff ia ans ifunc = Some (res, yfit) -> (2 <= ngood_of y w)%nat ->
  (j < Nat.min (ngood_of y w) ncoeff)%nat ->
  nth_error ia j = Some false -> nth_error ans j = Some v ->
  nth_error res j = Some v.
Proof. exact gen_func_fit_fixed_kept. Qed.
Print Assumptions C13_func_fit_fixed_kept.

(* zero-weight points have no influence: changing y where w == 0 changes nothing in the answer *)
Theorem C13_func_fit_zero_weight_indep : forall f x y w ncoeff ia ans ifunc res yfit y',
  agree3 w y y' -> (2 <= ngood_of y w)%nat ->
  func_fit f x y w ncoeff ia ans ifunc = Some (res, yfit) ->
  func_fit f x y' w ncoeff ia ans ifunc = Some (res, yfit).
Proof. exact gen_func_fit_zero_weight_indep. Qed.
Print Assumptions C13_func_fit_zero_weight_indep.

(* data that are an exact combination c of the basis: chi2 = 0, every good point reproduced, and c itself is
   returned when the basis has full column rank on the good points *)
Theorem C13_func_fit_exact_recovery : forall f x y w ncoeff ia ans ifunc res yfit c,
  func_fit f x y w ncoeff ia ans ifunc = Some (res, yfit) -> (2 <= ngood_of y w)%nat ->
  (ncoeff <= length ia)%nat -> Forall (fun v => 0 <= v) w ->
  let ncfit := Nat.min (ngood_of y w) ncoeff in
  let rows := scale_rows ifunc (map (basis_row f ncfit) x) in
  let iaf := firstn ncfit ia in
  let D := free_problem rows w y iaf (fixed_part ans ia) in
  length c = count_true iaf ->
  Forall (fun o => resid c o == 0) D ->
  exists sol, res = scatter 0 iaf sol ans ++ zeros (ncoeff - ncfit) /\
              chi2 D sol == 0 /\
              Forall (fun o => 0 < snd (fst o) -> resid sol o == 0) D /\
              ((forall z, length z = count_true iaf ->
                  Forall (fun o => 0 < snd (fst o) -> dot (fst (fst o)) z == 0) D -> forall r, dot r z == 0)
               -> veq sol c).
Proof. exact gen_func_fit_exact_recovery. Qed.
Print Assumptions C13_func_fit_exact_recovery.

(* ---------------------------------------------------------------- trace sets *)
(* xnorm / nx assembled from the source's expressions are the reference forms the checkers use; __init__ and xy hand
   the same jump to xnorm *)
Theorem C13_xnorm_is_spec : forall xmin xmax j x, xnorm xmin xmax j x = xnorm_spec xmin xmax j x.
Proof. exact xnorm_is_spec. Qed.
Print Assumptions C13_xnorm_is_spec.
Theorem C13_nx_is_spec : forall t, ts_nx t = ts_nx_spec t.
Proof. exact ts_nx_is_spec. Qed.
Print Assumptions C13_nx_is_spec.
Theorem C13_jump_args_consistent : forall j, xy_jump j false = fit_jump j.
Proof. exact jump_args_consistent. Qed.
Print Assumptions C13_jump_args_consistent.

(* xy (fit xpos ypos) xpos = (xpos, yfit) for every trace, whatever the jump parameters *)
Theorem C13_traceset_fit_eval_consistent : forall f ncoeff oxmin oxmax j xpos ypos ivar inmask t yfit,
  ts_fit f ncoeff oxmin oxmax j xpos ypos ivar inmask = Some (t, yfit) ->
  f <> ChebSplit -> (1 <= ncoeff)%nat ->
  length ypos = length xpos -> length ivar = length xpos -> length inmask = length xpos ->
  exists ys, ts_xy t (Some xpos) false = Some (xpos, ys) /\ meq ys yfit.
Proof. exact traceset_fit_eval_consistent. Qed.
Print Assumptions C13_traceset_fit_eval_consistent.

(* the default grid has one row per trace, floor(xmax-xmin+1) columns, entries xmin, xmin+1, ... *)
Theorem C13_default_grid : forall t ig, xy_supported (ts_func t) = true ->
  exists ys, ts_xy t None ig = Some (default_grid t, ys) /\
    length (default_grid t) = length (ts_coeff t) /\
    forall i row, nth_error (default_grid t) i = Some row ->
      length row = Z.to_nat (Qfloor (ts_xmax t - ts_xmin t + 1)) /\
      forall k v, nth_error row k = Some v -> v = inject_Z (Z.of_nat k) + ts_xmin t.
Proof. exact default_grid_spec. Qed.
Print Assumptions C13_default_grid.

(* the BOSS jump fraction is a fraction *)
Theorem C13_jump_fraction_clamped : forall x lo hi, 0 <= g_jfrac x lo hi <= 1.
Proof. exact jfrac_range. Qed.
Print Assumptions C13_jump_fraction_clamped.

(* ---------------------------------------------------------------- non-vacuity witnesses *)
Example C13_example_fit_fixed :
  func_fit Poly [0; 1; 2; 3] [1; 3; 7; 13] [1; 1; 0; 1] 3 [false; true; true] [1; 0; 0] None
  = Some ([1; 1; 1], [1; 3; 7; 13]).
Proof. vm_compute. reflexivity. Qed.
Example C13_example_trace_jump :
  match ts_fit Legendre 2 None None (Some (1, 2, 1 # 2)) [[0; 1; 2; 3]] [[1; 2; 4; 5]] [[1; 1; 1; 1]] [[true; true; true; true]] with
  | Some (t, yfit) => match ts_xy t (Some [[0; 1; 2; 3]]) false with
                      | Some (_, ys) => meq_bool (mred ys) (mred yfit) && negb (meq_bool (mred yfit) [[1; 2; 4; 5]])
                      | None => false end
  | None => false
  end = true.
Proof. vm_compute. reflexivity. Qed.
