#!/usr/bin/env python3
"""Confirm and store seeded breaking changes produced by a sub-agent in /tmp/mut-<cxx>/out/<k>/.

For every k: in a FRESH scratch worktree of /repo HEAD: demo on the unmodified tree must exit 0; apply
patch.diff; the repository's test suite must still pass (133); demo must exit non-zero.  Confirmed changes are
copied to /verif/seeded/<Cxx>-<k>/ (patch.diff, demo.py, meta.json with the confirmation record).  The
sub-agent's worktree and the scratch worktree are removed.
Usage: tools/ingest_mutants.py C14 [C13 ...]
"""
import json
import os
import shutil
import subprocess
import sys

HERE = os.path.dirname(os.path.dirname(os.path.abspath(__file__)))


def sh(cmd, **kw):
    return subprocess.run(cmd, shell=True, stdout=subprocess.PIPE, stderr=subprocess.STDOUT, text=True, **kw)


def main():
    wave = os.environ.get('MUT_WAVE', '')      # e.g. MUT_WAVE=2: read /tmp/mut2-cxx, number the changes from 4
    offset = 3 * (int(wave) - 1) if wave else 0
    for pid in sys.argv[1:]:
        src = '/tmp/mut%s-%s' % (wave, pid.lower())
        out = os.path.join(src, 'out')
        if not os.path.isdir(out):
            print(pid, 'no out dir')
            continue
        # keep a copy of what the sub-agent produced before anything is removed
        keep = '/tmp/mut-incoming/%s' % pid
        if os.path.isdir(keep):
            shutil.rmtree(keep)
        shutil.copytree(out, keep)
        out = keep
        wt = '/tmp/ingest-%s-%d' % (pid.lower(), os.getpid())
        sh('git -C /repo worktree remove --force %s' % wt)
        r = sh('git -C /repo worktree add --detach %s HEAD' % wt)
        head = sh('git -C /repo rev-parse --short HEAD').stdout.strip()
        try:
            for k in sorted(os.listdir(out)):
                d = os.path.join(out, k)
                if not os.path.exists(os.path.join(d, 'patch.diff')):
                    continue
                sh('git -C %s checkout -- . && git -C %s clean -fdq' % (wt, wt))
                env = dict(os.environ, PYTHONPATH=wt)
                r0 = sh('timeout 900 /venv/bin/python %s %s' % (os.path.join(d, 'demo.py'), wt), env=env, cwd=wt)
                ap = sh('git -C %s apply %s' % (wt, os.path.join(d, 'patch.diff')))
                if ap.returncode != 0:
                    print(pid, k, 'PATCH DOES NOT APPLY to', head, ap.stdout[-300:])
                    continue
                t = sh('timeout 900 /venv/bin/python -m pytest -q -p no:cacheprovider pydl 2>&1 | tail -1', env=env, cwd=wt)
                r1 = sh('timeout 900 /venv/bin/python %s %s' % (os.path.join(d, 'demo.py'), wt), env=env, cwd=wt)
                import re
                passed = '133 passed' in t.stdout and not re.search(r'\d+ (failed|error)', t.stdout)
                ok = r0.returncode == 0 and r1.returncode != 0 and passed
                print(pid, k, 'confirmed' if ok else 'NOT confirmed', 'demo %d -> %d' % (r0.returncode, r1.returncode),
                      t.stdout.strip()[-60:], flush=True)
                if not ok:
                    continue
                dst = os.path.join(HERE, 'seeded', '%s-%d' % (pid, int(k) + offset))
                os.makedirs(dst, exist_ok=True)
                shutil.copy(os.path.join(d, 'patch.diff'), dst)
                shutil.copy(os.path.join(d, 'demo.py'), dst)
                meta = json.load(open(os.path.join(d, 'meta.json')))
                meta['property'] = pid
                meta['confirmed_by_main_session'] = {
                    'repo_head': head,
                    'tests': 'repository test suite with the patch applied in a fresh worktree: ' + t.stdout.strip()[-80:],
                    'demo': 'exit %d on the unmodified tree, exit %d with the patch' % (r0.returncode, r1.returncode),
                    'demo_output_tail': r1.stdout[-400:],
                    'cmd': 'git apply patch.diff; PYTHONPATH=<wt> /venv/bin/python -m pytest -q -p no:cacheprovider pydl; /venv/bin/python demo.py <wt>',
                }
                json.dump(meta, open(os.path.join(dst, 'meta.json'), 'w'), indent=1)
        finally:
            sh('git -C /repo worktree remove --force %s' % wt)
            sh('git -C /repo worktree remove --force %s' % src)
            sh('git -C /repo worktree prune')


if __name__ == '__main__':
    main()
