(* C04 -- the spherical geometry behind the margins of chunks.getbounds (repaired version):
   a point q within angular distance m of p differs from it in declination by at most m, and -- when the cap
   of radius m around q does not reach a pole, sin m < cos dec_q -- in right ascension by at most
   asin (sin m / cos dec_q)  (the tangent-meridian bound; this is raMargin of getbounds).
   Over Coq's classical reals. *)
From Coq Require Import Reals Lra Lia.
Open Scope R_scope.

(* p . q for unit vectors given by (declination, right ascension) *)
Definition dotp (dp ap dq aq : R) : R := sin dp * sin dq + cos dp * cos dq * cos (ap - aq).
(* the quantity under the square root in gcirc:  sin^2(sep/2) *)
Definition hav (dp ap dq aq : R) : R :=
  (sin ((dq - dp) / 2))² + cos dp * cos dq * (sin ((aq - ap) / 2))².

Lemma cos_half : forall x, cos x = 1 - 2 * (sin (x / 2))².
Proof.
  intro x. replace x with (2 * (x / 2)) at 1 by field. rewrite cos_2a_sin. unfold Rsqr. ring.
Qed.

Lemma hav_dotp : forall dp ap dq aq, hav dp ap dq aq = (1 - dotp dp ap dq aq) / 2.
Proof.
  intros. unfold hav, dotp.
  assert (H1 : (sin ((dq - dp) / 2))² = (1 - cos (dq - dp)) / 2) by (rewrite (cos_half (dq - dp)); field).
  assert (H2 : (sin ((aq - ap) / 2))² = (1 - cos (aq - ap)) / 2) by (rewrite (cos_half (aq - ap)); field).
  rewrite H1, H2. replace (ap - aq) with (- (aq - ap)) by ring. rewrite cos_neg, cos_minus. field.
Qed.

(* "separation <= m" in the form gcirc decides it:  sin^2(sep/2) <= sin^2(m/2)  <->  cos m <= p.q *)
Lemma hav_le_iff : forall dp ap dq aq m,
  hav dp ap dq aq <= (sin (m / 2))² <-> cos m <= dotp dp ap dq aq.
Proof. intros. rewrite hav_dotp, (cos_half m). split; intro H; lra. Qed.

Lemma cos_Rabs : forall x, cos (Rabs x) = cos x.
Proof. intro x. unfold Rabs. destruct (Rcase_abs x); [apply cos_neg|reflexivity]. Qed.

(* (a) the declination walk: a point within m of p lies within m in declination *)
Theorem dec_margin_covers : forall dp ap dq aq m,
  - (PI / 2) <= dp <= PI / 2 -> - (PI / 2) <= dq <= PI / 2 -> 0 <= m <= PI ->
  cos m <= dotp dp ap dq aq ->
  Rabs (dp - dq) <= m.
Proof.
  intros dp ap dq aq m Hp Hq Hm H. unfold dotp in H.
  assert (Hcp : 0 <= cos dp) by (apply cos_ge_0; lra).
  assert (Hcq : 0 <= cos dq) by (apply cos_ge_0; lra).
  destruct (COS_bound (ap - aq)) as [_ Hc1].
  assert (Hle : cos m <= cos (dp - dq)).
  { rewrite cos_minus. assert (cos dp * cos dq * cos (ap - aq) <= cos dp * cos dq).
    { rewrite <- (Rmult_1_r (cos dp * cos dq)) at 2. apply Rmult_le_compat_l; [apply Rmult_le_pos; assumption|exact Hc1]. }
    lra. }
  rewrite <- (cos_Rabs (dp - dq)) in Hle.
  pose proof PI_RGT_0.
  apply cos_decr_0; [lra|lra|apply Rabs_pos|unfold Rabs; destruct (Rcase_abs (dp - dq)); lra|exact Hle].
Qed.

Lemma asin_nonneg : forall y, 0 <= y <= 1 -> 0 <= asin y.
Proof.
  intros y Hy. destruct (Rle_or_lt 0 (asin y)) as [H|H]; [exact H|]. exfalso.
  pose proof (asin_bound y) as [Hb _]. pose proof PI_RGT_0.
  assert (sin (asin y) < 0) by (apply sin_lt_0_var; lra).
  rewrite sin_asin in H1; lra.
Qed.

(* (b) the right-ascension walk: the tangent-meridian bound *)
Theorem ra_margin_covers : forall dp ap dq aq m,
  - (PI / 2) <= dp <= PI / 2 -> - (PI / 2) < dq < PI / 2 -> 0 <= m <= PI / 2 ->
  sin m < cos dq ->
  cos m <= dotp dp ap dq aq ->
  - PI <= ap - aq <= PI ->
  Rabs (ap - aq) <= asin (sin m / cos dq).
Proof.
  intros dp ap dq aq m Hp Hq Hm Hcap H Hda. unfold dotp in H.
  pose proof PI_RGT_0 as Hpi.
  set (a := sin dp) in *. set (b := cos dp) in *. set (c := sin dq) in *. set (d := cos dq) in *.
  set (x := cos (ap - aq)) in *. set (mu := cos m) in *. set (sg := sin m) in *.
  assert (Hab : a * a + b * b = 1) by (unfold a, b; pose proof (sin2_cos2 dp) as E; unfold Rsqr in E; lra).
  assert (Hcd : c * c + d * d = 1) by (unfold c, d; pose proof (sin2_cos2 dq) as E; unfold Rsqr in E; lra).
  assert (Hms : sg * sg + mu * mu = 1) by (unfold sg, mu; pose proof (sin2_cos2 m) as E; unfold Rsqr in E; lra).
  assert (Hb : 0 <= b) by (apply cos_ge_0; lra).
  assert (Hd : 0 < d) by (apply cos_gt_0; lra).
  assert (Hmu : 0 <= mu) by (apply cos_ge_0; lra).
  assert (Hsg : 0 <= sg) by (apply sin_ge_0; lra).
  destruct (COS_bound (ap - aq)) as [Hx1 Hx2]. fold x in Hx1, Hx2.
  (* Cauchy-Schwarz *)
  assert (HCS : (a * c + b * (d * x)) * (a * c + b * (d * x)) <= c * c + (d * x) * (d * x)).
  { pose proof (Rle_0_sqr (a * (d * x) - b * c)) as Hs. unfold Rsqr in Hs. nra. }
  assert (Hsq : mu * mu <= (a * c + b * (d * x)) * (a * c + b * (d * x))).
  { apply Rmult_le_compat; lra. }
  assert (Hx2d : d * d - sg * sg <= (d * x) * (d * x)) by nra.
  assert (Hxpos : 0 < x).
  { destruct (Rlt_or_le 0 x) as [Hx|Hx]; [exact Hx|]. exfalso.
    assert (Hdx : d * x <= 0) by (rewrite <- (Rmult_0_r d); apply Rmult_le_compat_l; lra).
    assert (Hbdx : b * (d * x) <= 0) by (rewrite <- (Rmult_0_r b); apply Rmult_le_compat_l; lra).
    assert (Hmac : mu <= a * c) by lra.
    assert (Hsd : sg * sg < d * d) by (apply Rmult_le_0_lt_compat; lra).
    assert (Hc2 : c * c < mu * mu) by lra.
    assert (Hb2 : 0 <= b * b) by (apply Rmult_le_pos; lra).
    assert (Ha2 : a * a <= 1) by lra.
    assert (Hcc : 0 <= c * c) by (pose proof (Rle_0_sqr c) as E; unfold Rsqr in E; exact E).
    assert ((a * c) * (a * c) <= c * c).
    { replace (a * c * (a * c)) with ((a * a) * (c * c)) by ring.
      rewrite <- (Rmult_1_l (c * c)) at 2. apply Rmult_le_compat_r; lra. }
    assert (mu * mu <= (a * c) * (a * c)) by (apply Rmult_le_compat; lra).
    lra. }
  set (y := sg / d).
  assert (Hy : 0 <= y < 1).
  { unfold y. split; [apply Rmult_le_pos; [exact Hsg|left; apply Rinv_0_lt_compat; exact Hd]|].
    apply (Rmult_lt_reg_r d); [exact Hd|]. unfold Rdiv. rewrite Rmult_assoc, Rinv_l by lra. lra. }
  assert (Hyx : 1 - y² <= x²).
  { unfold y, Rsqr. apply (Rmult_le_reg_r (d * d)); [nra|].
    replace ((1 - sg / d * (sg / d)) * (d * d)) with (d * d - sg * sg) by (field; lra). nra. }
  assert (Hcos : cos (asin y) <= x).
  { rewrite cos_asin by lra. rewrite <- (sqrt_Rsqr x) by lra. apply sqrt_le_1; [|apply Rle_0_sqr|exact Hyx].
    unfold Rsqr. nra. }
  fold y. unfold x in Hcos. rewrite <- (cos_Rabs (ap - aq)) in Hcos.
  pose proof (asin_bound y) as [_ Hub]. pose proof (asin_nonneg y ltac:(lra)) as Hlb.
  apply cos_decr_0; [lra|lra|apply Rabs_pos|unfold Rabs; destruct (Rcase_abs (ap - aq)); lra|exact Hcos].
Qed.

(* the same two statements with "separation <= m" written as gcirc computes it *)
Corollary dec_margin_covers_hav : forall dp ap dq aq m,
  - (PI / 2) <= dp <= PI / 2 -> - (PI / 2) <= dq <= PI / 2 -> 0 <= m <= PI ->
  hav dp ap dq aq <= (sin (m / 2))² -> Rabs (dp - dq) <= m.
Proof. intros dp ap dq aq m Hp Hq Hm H. apply (dec_margin_covers dp ap dq aq m Hp Hq Hm). apply hav_le_iff. exact H. Qed.

Corollary ra_margin_covers_hav : forall dp ap dq aq m,
  - (PI / 2) <= dp <= PI / 2 -> - (PI / 2) < dq < PI / 2 -> 0 <= m <= PI / 2 ->
  sin m < cos dq -> hav dp ap dq aq <= (sin (m / 2))² -> - PI <= ap - aq <= PI ->
  Rabs (ap - aq) <= asin (sin m / cos dq).
Proof. intros dp ap dq aq m Hp Hq Hm Hc H Hd. apply (ra_margin_covers dp ap dq aq m Hp Hq Hm Hc); [|exact Hd]. apply hav_le_iff. exact H. Qed.

(* the flat-sky margin the unrepaired code used is strictly smaller (for 0 < m, 0 < cos dec < 1): asin y > y *)
Lemma flat_margin_too_small : forall y, 0 < y <= 1 -> y < asin y.
Proof.
  intros y Hy. pose proof (asin_bound y) as [_ Hub]. pose proof PI_RGT_0.
  assert (Hpos : 0 <= asin y) by (apply asin_nonneg; lra).
  destruct (Rlt_or_le y (asin y)) as [H1|H1]; [exact H1|]. exfalso.
  assert (Hs : sin (asin y) = y) by (apply sin_asin; lra).
  destruct (Req_dec (asin y) 0) as [E|E]; [rewrite E, sin_0 in Hs; lra|].
  assert (sin (asin y) < asin y) by (apply sin_lt_x; lra). lra.
Qed.
