(* C03 -- yanny: object and file never diverge over write/append histories.
   Algorithmic model M of yanny.write() / yanny.append() / a fresh yanny(filename) over an abstract file system,
   on top of the reader / writer models of coq/Yanny (Parse.parse, Render.render_...), the specification S of a
   history (what the document must be after the operations), and the case type of the correspondence run.
   DEFINITIONS ONLY. *)
From Coq Require Import String.
From Coq Require Import NArith ZArith List Bool.
Import ListNotations.
From PV Require Import Yanny.Bytes Yanny.Types Yanny.Parse Yanny.Render.
From PV Require C03.SkelLang Generated.YannyOps.
Open Scope N_scope.

(* ---------------------------------------------------------------- file system: absent = no file *)
Definition path := bytes.
Definition fsys := list (path * bytes).
Fixpoint fs_get (fs : fsys) (p : path) : option bytes :=
  match fs with [] => None | (q, b) :: fs' => if beq p q then Some b else fs_get fs' p end.
Fixpoint fs_set (fs : fsys) (p : path) (b : bytes) : fsys :=
  match fs with
  | [] => [(p, b)]
  | (q, c) :: fs' => if beq p q then (q, b) :: fs' else (q, c) :: fs_set fs' p b
  end.

(* ---------------------------------------------------------------- the object *)
Record obj := mkobj { o_file : path; o_contents : bytes; o_raw : bool; o_state : pdoc }.
Definition empty_pdoc : pdoc := mkpdoc [] [] [] [].

Inductive outcome := Ok | Refused (* PydlutilsException *) | Warned (* PydlutilsUserWarning, nothing done *)
                   | ValueErr (* no filename *) | Crashed (* the re-parse raised *) | Unmodelled.

(* write(): the text rendered from the OBJECT (pairs, typedef texts as held in _symbols, rows per table) *)
Definition render_obj (cmts : list bytes) (p : pdoc) : bytes :=
  render_header cmts ++ concat (map render_pair (pd_pairs p))
  ++ render_block (pd_enums p) ++ render_block (pd_structs p) ++ [NL]
  ++ concat (map (fun t => concat (map (render_row (pt_name t)) (pt_rows t))) (pd_tables p)).

(* write(newfile, comments): filename handling, existence check FIRST, render, store, rebind, re-parse *)
Definition do_write (fs : fsys) (o : obj) (newfile : option path) (cmts : list bytes) : fsys * obj * outcome :=
  let target := match newfile with Some q => q | None => o_file o end in
  match target with
  | [] => (fs, o, ValueErr)
  | _ =>
    match fs_get fs target with
    | Some _ => (fs, o, Refused)
    | None =>
        let c := render_obj cmts (o_state o) in
        let fs' := fs_set fs target c in
        match parse c with
        | Some p' => (fs', mkobj target c (o_raw o) p', Ok)
        | None => (fs', mkobj target c (o_raw o) (o_state o), Crashed)
        end
    end
  end.

(* append(datatable): the dictionary as an ordered list of entries *)
Inductive avalue := AText (v : bytes) | ARows (rows : list (list cell)).
Definition adata := list (bytes * avalue).

Definition S_APPENDED : bytes := Eval compute in bs "# Appended by yanny.py at "%string.
Definition S_SYMBOLS : bytes := Eval compute in bs "symbols"%string.
Definition table_names (p : pdoc) : list bytes := map pt_name (pd_tables p).
Definition is_table_key (p : pdoc) (k : bytes) : bool := existsb (beq (upper k)) (table_names p).
Fixpoint adata_get (d : adata) (k : bytes) : option avalue :=
  match d with [] => None | (k', v) :: d' => if beq k k' then Some v else adata_get d' k end.

(* first loop: key/value pairs, skipping table keys (any letter case) and 'symbols' *)
Fixpoint append_pairs (p : pdoc) (d : adata) : option bytes :=
  match d with
  | [] => Some []
  | (k, v) :: d' =>
      match append_pairs p d' with
      | None => None
      | Some rest =>
          if is_table_key p k || beq k S_SYMBOLS then Some rest
          else match v with
               | AText t => Some (render_pair (k, t) ++ rest)
               | ARows _ => None        (* str() of a dictionary: not modelled *)
               end
      end
  end.
(* second loop: for every table, rows given under its lower-case name, else under its upper-case name *)
Fixpoint append_rows (names : list bytes) (d : adata) : option bytes :=
  match names with
  | [] => Some []
  | sym :: names' =>
      match append_rows names' d with
      | None => None
      | Some rest =>
          let datasym := match adata_get d (lower sym) with Some _ => lower sym | None => sym end in
          match adata_get d datasym with
          | None => Some rest
          | Some (ARows rows) => Some (concat (map (render_row sym) rows) ++ rest)
          | Some (AText _) => None      (* indexing a string by a column name raises *)
          end
      end
  end.

(* Does the append() of the CURRENT source terminate an unterminated last line before its marker line?  Read off the
   skeleton that translate/c03.py regenerates from yanny.py on every run (Generated/YannyOps.v).  Without that statement
   the marker is glued to the last line of a file that lacks a final newline. *)
Definition append_fix : bool := SkelLang.skel_has_terminator YannyOps.append_skel.
Definition ends_with (suffix s : bytes) : bool := beq suffix (skipn (length s - length suffix) s).
Definition append_sep (c : bytes) : bytes :=
  if append_fix then match c with [] => [] | _ => if ends_with [NL] c then [] else [NL] end else [].

Definition do_append (fs : fsys) (o : obj) (d : adata) (clock : bytes) : fsys * obj * outcome :=
  match o_file o with
  | [] => (fs, o, ValueErr)
  | _ =>
    match append_pairs (o_state o) d, append_rows (table_names (o_state o)) d with
    | Some ps, Some rs =>
        match ps ++ rs with
        | [] => (fs, o, Warned)
        | body =>
            let new := append_sep (o_contents o) ++ S_APPENDED ++ clock ++ [46; NL] ++ body in
            match fs_get fs (o_file o) with
            | None => (fs, o, Refused)
            | Some old =>
                let fs' := fs_set fs (o_file o) (old ++ new) in
                let c := o_contents o ++ new in
                match parse c with
                | Some p' => (fs', mkobj (o_file o) c (o_raw o) p', Ok)
                | None => (fs', mkobj (o_file o) c (o_raw o) (o_state o), Crashed)
                end
            end
        end
    | _, _ => (fs, o, Unmodelled)
    end
  end.

(* a fresh yanny(filename) *)
Definition do_reread (fs : fsys) (o : obj) : fsys * obj * outcome :=
  match fs_get fs (o_file o) with
  | Some b => match parse b with
              | Some p' => (fs, mkobj (o_file o) b (o_raw o) p', Ok)
              | None => (fs, o, Crashed)
              end
  | None => (fs, mkobj [] [] (o_raw o) empty_pdoc, Ok)
  end.

(* ---------------------------------------------------------------- operations of a history *)
Inductive op :=
  | WriteNew (p : path) (cmts : list bytes)            (* write to a path that does not exist *)
  | WriteCopy (p : path) (cmts : list bytes)           (* write a copy under another name; the object follows *)
  | WriteOverExisting (cmts : list bytes)              (* write() to the object's own file *)
  | AppendRows (lowerkey : bool) (tname : bytes) (rows : list (list cell)) (clock : bytes)
  | AppendPairs (kvs : list (bytes * bytes)) (clock : bytes)
  | AppendMixed (d : adata) (clock : bytes)            (* pairs and rows of several tables in one call *)
  | AppendEmpty (clock : bytes)
  | AppendToMissing (p : path) (d : adata) (clock : bytes)   (* append while the object is bound to a missing file *)
  | ReRead.

Definition rows_key (lowerkey : bool) (tname : bytes) : bytes := if lowerkey then lower (upper tname) else upper tname.

Definition step (s : fsys * obj) (x : op) : fsys * obj * outcome :=
  let '(fs, o) := s in
  match x with
  | WriteNew p c | WriteCopy p c => do_write fs o (Some p) c
  | WriteOverExisting c => do_write fs o None c
  | AppendRows lk t rows clock => do_append fs o [(rows_key lk t, ARows rows)] clock
  | AppendPairs kvs clock => do_append fs o (map (fun kv => (fst kv, AText (snd kv))) kvs) clock
  | AppendMixed d clock => do_append fs o d clock
  | AppendEmpty clock => do_append fs o [] clock
  | AppendToMissing p d clock =>
      let '(fs', o', out) := do_append fs (mkobj p (o_contents o) (o_raw o) (o_state o)) d clock in
      (fs', mkobj (o_file o) (o_contents o') (o_raw o') (o_state o'), out)
  | ReRead => do_reread fs o
  end.

Fixpoint run (s : fsys * obj) (ops : list op) : fsys * obj :=
  match ops with [] => s | x :: ops' => let '(fs, o, _) := step s x in run (fs, o) ops' end.

(* the object write_ndarray_to_yanny returns for a document written to p0 *)
Definition init_state (d : doc) (p0 : path) (raw : bool) : option (fsys * obj) :=
  match render_checked d with
  | Some b => match parse b with Some p => Some ([(p0, b)], mkobj p0 b raw p) | None => None end
  | None => None
  end.

(* ---------------------------------------------------------------- specification S: the document after a history *)
Fixpoint add_rows (name : bytes) (rows : list (list cell)) (ts : list table) : list table :=
  match ts with
  | [] => []
  | t :: ts' => if beq (upper (t_name t)) name then mktable (t_name t) (t_cols t) (t_rows t ++ rows) :: ts'
                else t :: add_rows name rows ts'
  end.
Definition doc_tnames (d : doc) : list bytes := map (fun t => upper (t_name t)) (d_tables d).
Definition doc_is_table_key (d : doc) (k : bytes) : bool := existsb (beq (upper k)) (doc_tnames d).
(* pairs of a dictionary, in order, table keys and 'symbols' skipped *)
Definition spec_pairs (d : doc) (a : adata) : list (bytes * bytes) :=
  flat_map (fun kv => match snd kv with
                      | AText v => if doc_is_table_key d (fst kv) || beq (fst kv) S_SYMBOLS then [] else [(fst kv, v)]
                      | ARows _ => []
                      end) a.
(* rows of a dictionary for one table: lower-case key first, else upper-case key *)
Definition spec_rows (a : adata) (name : bytes) : list (list cell) :=
  match adata_get a (lower name) with
  | Some (ARows r) => r
  | Some (AText _) => []
  | None => match adata_get a name with Some (ARows r) => r | _ => [] end
  end.
(* keyword pairs are a dictionary: a new key goes to the end, a key that exists keeps its place and takes the new value
   (what the reader's `self[key] = value` does when a later line re-states a keyword) *)
Definition upd_pairs (base new : list (bytes * bytes)) : list (bytes * bytes) :=
  fold_left (fun acc kv => assoc_set (fst kv) (snd kv) acc) new base.
Definition spec_append (d : doc) (a : adata) : doc :=
  mkdoc (d_comments d) (upd_pairs (d_pairs d) (spec_pairs d a)) (d_enums d)
        (map (fun t => mktable (t_name t) (t_cols t) (t_rows t ++ spec_rows a (upper (t_name t)))) (d_tables d)).
Definition op_data (x : op) : option adata :=
  match x with
  | AppendRows lk t rows _ => Some [(rows_key lk t, ARows rows)]
  | AppendPairs kvs _ => Some (map (fun kv => (fst kv, AText (snd kv))) kvs)
  | AppendMixed a _ => Some a
  | AppendEmpty _ => Some []
  | _ => None
  end.
(* every successful append adds its pairs and rows; writes, refusals, warnings and re-reads add nothing *)
Definition spec_op (d : doc) (x : op) : doc := match op_data x with Some a => spec_append d a | None => d end.
Definition spec_doc (d : doc) (ops : list op) : doc := fold_left spec_op ops d.
(* comments do not belong to the content: compare what a read returns *)
Definition spec_state (d : doc) (ops : list op) : option pdoc := sem (spec_doc d ops).

(* ---------------------------------------------------------------- correspondence cases *)
Definition out_code (x : outcome) : Z :=
  match x with Ok => 0 | Refused => 1 | Warned => 2 | ValueErr => 3 | Crashed => 4 | Unmodelled => 5 end%Z.
Inductive ostate := OP (p : pdoc) | OR (r : rdoc) | ONone.
(* what was observed on the real object after one operation *)
Record obs := mkobs { ob_out : Z; ob_file : path; ob_bytes : option bytes; ob_state : ostate }.
Definition state_agrees (p : pdoc) (s : ostate) : bool :=
  match s with OP q => pdoc_eqb p q | OR r => rdoc_eqb (raw_of p) r | ONone => false end.

(* verdict of a history: 0, or 16 * (index of the first bad step, from 1) + flags:
     +1 model differs from implementation (outcome, file name, file bytes or object state),
     +2 the implementation's object is not the specified history content (failing input) *)
Fixpoint check_steps (k : Z) (s : fsys * obj) (d0 : doc) (done : list op) (todo : list (op * obs)) : Z :=
  match todo with
  | [] => 0%Z
  | (x, ob) :: todo' =>
      let '(fs, o, out) := step s x in
      let done' := done ++ [x] in
      let m := Z.eqb (out_code out) (ob_out ob) && beq (o_file o) (ob_file ob)
               && opt_eqb beq (fs_get fs (o_file o)) (ob_bytes ob) && state_agrees (o_state o) (ob_state ob) in
      let sp := match spec_state d0 done' with Some p => state_agrees p (ob_state ob) | None => false end in
      if m && sp then check_steps (k + 1) (fs, o) d0 done' todo'
      else (16 * k + (if m then 0 else 1) + (if sp then 0 else 2))%Z
  end.

(* histories that start from a hand-written TEXT file (e.g. char columns of undeclared length, which the writer never
   emits and Render.sem does not describe): only the model is compared in Coq; the history content is checked by the
   harness (Python twin of the specification) *)
Definition init_text (text : bytes) (p0 : path) (raw : bool) : option (fsys * obj) :=
  match parse text with Some p => Some ([(p0, text)], mkobj p0 text raw p) | None => None end.
Fixpoint check_steps_m (k : Z) (s : fsys * obj) (todo : list (op * obs)) : Z :=
  match todo with
  | [] => 0%Z
  | (x, ob) :: todo' =>
      let '(fs, o, out) := step s x in
      let m := Z.eqb (out_code out) (ob_out ob) && beq (o_file o) (ob_file ob)
               && opt_eqb beq (fs_get fs (o_file o)) (ob_bytes ob) && state_agrees (o_state o) (ob_state ob) in
      if m then check_steps_m (k + 1) (fs, o) todo' else (16 * k + 1)%Z
  end.

(* CHistX: the directory already holds other files when the history starts (`extra`: zero bytes, a lone newline, blanks,
   another yanny file, garbage, a directory or a read-only file -- all that matters to write() is that the name exists) *)
Inductive case := CHist (d0 : doc) (p0 : path) (raw : bool) (steps : list (op * obs))
                | CText (text : bytes) (p0 : path) (raw : bool) (init : ostate) (steps : list (op * obs))
                | CHistX (d0 : doc) (p0 : path) (raw : bool) (extra : fsys) (steps : list (op * obs)).
Definition run_case (c : case) : Z :=
  match c with
  | CHist d0 p0 raw steps =>
      match init_state d0 p0 raw with
      | Some s => check_steps 1 s d0 [] steps
      | None => 8%Z
      end
  | CText text p0 raw init steps =>
      match init_text text p0 raw with
      | Some s => if state_agrees (o_state (snd s)) init then check_steps_m 1 s steps else 9%Z
      | None => 8%Z
      end
  | CHistX d0 p0 raw extra steps =>
      match init_state d0 p0 raw with
      | Some s => check_steps 1 (fst s ++ extra, snd s) d0 [] steps
      | None => 8%Z
      end
  end.
Definition run_cases (l : list case) : list Z := map run_case l.
