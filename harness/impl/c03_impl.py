"""Runs write/append histories on the REAL pydl.pydlutils.yanny.yanny class (C03).

stdin : JSON {'workdir': path, 'jobs': [{'id': str, 'doc': DOC, 'raw': bool, 'ops': [OP, ...]}]}
stdout: JSON {'pydl_file': ..., 'results': [{'id', 'init': {...}, 'steps': [STEP, ...]}]}

DOC as in c01_impl.  The history starts from write_ndarray_to_yanny(<dir>/f0.par, ...) (raw: the file is then
opened with yanny(path, raw=True)); a job with a 'text' field starts from that text written to f0.par and read with
yanny(path, raw=raw) (hand-written files: char columns of undeclared length).  The clock used by yanny.append() is patched: every op carries its own
'clock' text, so the '# Appended by yanny.py at <clock>.' line is deterministic.

OP  {'op': 'write', 'path': name|None, 'comments': [str]}
    {'op': 'append', 'entries': [ENTRY], 'clock': str}
    {'op': 'append_missing', 'path': name, 'entries': [ENTRY], 'clock': str}   (filename temporarily set to a missing file)
    {'op': 'reread'}
ENTRY {'k': key, 'text': value} | {'k': key, 'table': index of the table in DOC, 'rows': [[cell]], 'form': 'lists'|'recarray'}
STEP  outcome class, file name of the object, bytes of every file in the directory, dump of the object, dump of a
      fresh yanny(filename) re-read.
"""
import hashlib
import json
import os
import sys
import warnings
from collections import OrderedDict

import numpy as np

sys.path.insert(0, os.path.dirname(os.path.abspath(__file__)))
from c01_impl import build_array, bits_to_float, dump_yanny, guarded  # noqa: E402

import pydl
import pydl.pydlutils.yanny as ymod
from pydl.pydlutils.yanny import yanny, write_ndarray_to_yanny
from pydl.pydlutils import PydlutilsException, PydlutilsUserWarning


class _FakeNow(object):
    def __init__(self, text):
        self.text = text

    def strftime(self, fmt):
        return self.text


class _FakeDatetimeClass(object):
    current = 'CLOCK-NOT-SET'

    @classmethod
    def utcnow(cls):
        return _FakeNow(cls.current)

    @classmethod
    def now(cls, tz=None):
        return _FakeNow(cls.current)


class _FakeDatetimeModule(object):
    datetime = _FakeDatetimeClass
    UTC = None
    timezone = None


def list_value(code, v):
    if isinstance(v, dict):
        return bits_to_float(code, v['f'])     # numpy scalar of the column's width
    return v                                    # python int / str


def entry_value(doc, e):
    t = doc['tables'][e['table']]
    if e['form'] == 'recarray':
        return build_array({'cols': t['cols'], 'rows': e['rows']})
    cols = OrderedDict()
    for j, c in enumerate(t['cols']):
        col = []
        for r in e['rows']:
            v = r[j]
            col.append([list_value(c['code'], x) for x in v] if isinstance(v, list) else list_value(c['code'], v))
        cols[c['name']] = col
    return cols


def build_dict(doc, entries):
    d = OrderedDict()
    for e in entries:
        d[e['k']] = e['text'] if 'text' in e else entry_value(doc, e)
    return d


def snapshot(dirname):
    out = {}
    for f in sorted(os.listdir(dirname)):
        with open(os.path.join(dirname, f), 'rb') as fh:
            out[f] = hashlib.sha1(fh.read()).hexdigest()
    return out


def classify(exc):
    if exc is None:
        return 'ok'
    if isinstance(exc, PydlutilsException):
        return 'PydlutilsException'
    return type(exc).__name__


def observe(par, dirname, raw):
    ob = {'filename': os.path.basename(par.filename) if par.filename else '', 'files': snapshot(dirname), 'bytes_hex': None}
    if par.filename and os.path.exists(par.filename):
        with open(par.filename, 'rb') as fh:
            ob['bytes_hex'] = fh.read().hex()
    ob['object'] = guarded(lambda: dump_yanny(par, raw=raw))
    if par.filename and os.path.exists(par.filename):
        ob['reread'] = guarded(lambda: dump_yanny(yanny(par.filename, raw=raw), raw=raw))
    else:
        ob['reread'] = None
    return ob


def run_history(job, workdir):
    doc = job['doc']
    raw = bool(job.get('raw'))
    dirname = os.path.join(workdir, job['id'])
    if os.path.isdir(dirname):
        for f in os.listdir(dirname):
            os.remove(os.path.join(dirname, f))
    os.makedirs(dirname, exist_ok=True)
    res = {'id': job['id'], 'steps': []}
    arrays = [build_array(t) for t in doc['tables']] if job.get('text') is None else []
    names = [t['name'] for t in doc['tables']]
    hdr = OrderedDict((k, v) for k, v in doc['hdr']) if doc.get('hdr') is not None else None
    enums = OrderedDict((e[0], (e[1], list(e[2]))) for e in doc['enums']) if doc.get('enums') is not None else None
    p0 = os.path.join(dirname, 'f0.par')
    try:
        if job.get('text') is not None:
            # a hand-written file (e.g. char columns of undeclared length): the history starts from a READ
            with open(p0, 'wb') as fh:
                fh.write(job['text'].encode('latin-1'))
            par = yanny(p0, raw=raw)
        else:
            par = write_ndarray_to_yanny(p0, tuple(arrays), structnames=tuple(names), enums=enums, hdr=hdr,
                                         comments=list(doc['comments']))
            if raw:
                par = yanny(p0, raw=True)
    except Exception as e:  # noqa: BLE001
        res['init'] = {'exc': type(e).__name__, 'msg': str(e)[:200]}
        return res
    res['init'] = observe(par, dirname, raw)
    for op in job['ops']:
        exc = None
        warned = False
        _FakeDatetimeClass.current = op.get('clock', 'CLOCK-NOT-SET')
        with warnings.catch_warnings(record=True) as wl:
            warnings.simplefilter('always')
            try:
                if op['op'] == 'write':
                    target = os.path.join(dirname, op['path']) if op['path'] is not None else None
                    par.write(target, comments=list(op['comments']))
                elif op['op'] == 'append':
                    par.append(build_dict(doc, op['entries']))
                elif op['op'] == 'append_missing':
                    saved = par.filename
                    par.filename = os.path.join(dirname, op['path'])
                    try:
                        par.append(build_dict(doc, op['entries']))
                    finally:
                        par.filename = saved
                elif op['op'] == 'reread':
                    par = yanny(par.filename, raw=raw)
                else:
                    raise RuntimeError('bad op')
            except Exception as e:  # noqa: BLE001 - the class of the exception is the observation
                exc = e
            warned = any(issubclass(w.category, PydlutilsUserWarning) for w in wl)
        st = observe(par, dirname, raw)
        st['outcome'] = classify(exc) if exc is not None else ('warning' if warned else 'ok')
        st['msg'] = str(exc)[:160] if exc is not None else ''
        res['steps'].append(st)
        if st['outcome'] not in ('ok', 'warning', 'PydlutilsException'):
            break
    return res


def main():
    req = json.load(sys.stdin)
    workdir = req['workdir']
    os.makedirs(workdir, exist_ok=True)
    ymod.datetime = _FakeDatetimeModule
    results = [run_history(job, workdir) for job in req['jobs']]
    json.dump({'pydl_file': pydl.__file__, 'results': results}, sys.stdout)


if __name__ == '__main__':
    warnings.simplefilter('ignore')
    main()
