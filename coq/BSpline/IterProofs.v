(* Proofs about the iterfit model of BSpline/Iter.v: the rejection pass only removes points, the loop
   is monotone, non-positively weighted points end up masked, maxiter = 0 is one plain fit, the result
   is equivariant under permutations of the input, the loop is the documented procedure, it ends by
   convergence when maxiter is at least the number of good points, and (for the certified dense
   solver) the curve does not depend on the ordinates of masked points. *)
From Coq Require Import QArith Qround Qabs List Bool Arith Lia Permutation Setoid Morphisms.
Import ListNotations.
From PV Require Import Lib.WLS BSpline.Eval BSpline.Fit BSpline.Iter BSpline.EvalProofs BSpline.FitProofs
  BSpline.PermProofs.
Open Scope Q_scope.

Local Notation Veq := (Forall2 Qeq).

(* ------------------------------------------------------------------ lengths *)
Lemma length_intrv_walk gb n xs : forall i, length (intrv_walk gb n xs i) = length xs.
Proof. induction xs as [|x xs IH]; intro i; cbn [intrv_walk length]; [reflexivity | now rewrite IH]. Qed.

Lemma length_intrv gb k xs : length (intrv gb k xs) = length xs.
Proof. apply length_intrv_walk. Qed.

Lemma length_yfit_of gb k c xs : length (yfit_of gb k c xs) = length xs.
Proof.
  unfold yfit_of, value_sorted. rewrite map_length, combine_length, length_intrv. apply Nat.min_id.
Qed.

(* ------------------------------------------------------------------ I1. one rejection pass *)
Lemma reject_length lower upper ds : forall yf mask,
  length ds = length mask -> length yf = length mask ->
  length (reject lower upper ds yf mask) = length mask.
Proof.
  induction ds as [|d ds IH]; intros [|f yf] [|m mask] H1 H2; cbn [length reject] in *;
    try discriminate; try reflexivity.
  f_equal. apply IH; congruence.
Qed.

Lemma reject_le lower upper ds : forall yf mask,
  length ds = length mask -> length yf = length mask ->
  forall i, nth i (reject lower upper ds yf mask) false = true -> nth i mask false = true.
Proof.
  induction ds as [|d ds IH]; intros [|f yf] [|m mask] H1 H2 i; cbn [length reject] in *;
    try discriminate; try (destruct i; discriminate).
  destruct i as [|i]; cbn [nth].
  - unfold reject1. intro H. now apply andb_true_iff in H.
  - apply IH; congruence.
Qed.

(* ------------------------------------------------------------------ I2. the loop only removes points *)
Theorem iter_loop_monotone sv fuel gb k lower upper ds : forall mask c m',
  iter_loop sv fuel gb k lower upper ds mask = Some (c, m') -> length mask = length ds ->
  (forall i, nth i m' false = true -> nth i mask false = true) /\ length m' = length mask.
Proof.
  induction fuel as [|f IH]; intros mask c m' H L; cbn [iter_loop] in H; [discriminate |].
  destruct (fit_masked sv gb k ds mask) as [c0|]; [| discriminate].
  cbv zeta in H.
  set (mask' := reject lower upper ds (yfit_of gb k c0 (map dx ds)) mask) in *.
  assert (Ly : length (yfit_of gb k c0 (map dx ds)) = length mask)
    by (now rewrite length_yfit_of, map_length).
  assert (L' : length mask' = length mask) by (apply reject_length; congruence).
  assert (M' : forall i, nth i mask' false = true -> nth i mask false = true)
    by (apply reject_le; congruence).
  destruct (mask_eqb mask' mask || (f =? 0)%nat).
  - injection H as <- <-. split; assumption.
  - destruct (IH mask' c m' H) as [M L'']; [congruence |]. split; [| congruence].
    intros i Hi. apply M', M, Hi.
Qed.

(* ------------------------------------------------------------------ I3. non-positive weight => masked *)
Lemma nth_initial_mask i ds : nth i (initial_mask ds) false = Qltb 0 (dw (nth i ds d0)).
Proof. unfold initial_mask. exact (map_nth (fun d => Qltb 0 (dw d)) ds d0 i). Qed.

Lemma length_initial_mask ds : length (initial_mask ds) = length ds.
Proof. apply map_length. Qed.

Theorem nonpositive_weight_masked sv maxiter lower upper gb k ds perm c out :
  iterfit_model_with sv maxiter lower upper gb k ds perm = Some (c, out) ->
  is_perm perm (length ds) = true ->
  forall j, (j < length ds)%nat -> dw (nth j ds d0) <= 0 -> nth j out true = false.
Proof.
  unfold iterfit_model_with. intros H Hp j Hj Hw.
  destruct (is_perm_spec _ _ Hp) as [Lp [NDp Ip]].
  set (sorted := apply_perm d0 perm ds) in *.
  destruct (iter_loop sv (S maxiter) gb k lower upper sorted (initial_mask sorted)) as [[c' mw]|] eqn:E;
    [| discriminate].
  injection H as <- <-.
  rewrite (nth_unsort false true) by lia.
  destruct (nth (index_of j perm) mw false) eqn:V; [exfalso | reflexivity].
  destruct (iter_loop_monotone _ _ _ _ _ _ _ _ _ _ E (length_initial_mask _)) as [M _].
  apply M in V. rewrite nth_initial_mask in V. apply Qltb_lt in V.
  assert (Hin : In j perm) by (apply Ip; exact Hj).
  destruct (nth_index_of j perm Hin) as [Ek Hk].
  unfold sorted in V. rewrite nth_apply_perm in V by exact Hk. rewrite Ek in V.
  apply (Qlt_irrefl 0). eapply Qlt_le_trans; eauto.
Qed.

(* ------------------------------------------------------------------ I4. maxiter = 0 *)
Lemma masked_initial_map ds :
  masked_weights (map dw ds) (initial_mask ds) = map (fun d => if Qltb 0 (dw d) then dw d else 0) ds.
Proof.
  unfold masked_weights, initial_mask.
  induction ds as [|d ds IH]; [reflexivity |]. cbn [map combine fst snd]. now rewrite IH.
Qed.

(* holds for every i (beyond the end both sides are 0) *)
Lemma masked_initial i ds :
  nth i (masked_weights (map dw ds) (initial_mask ds)) 0 =
  if Qltb 0 (dw (nth i ds d0)) then dw (nth i ds d0) else 0.
Proof.
  rewrite masked_initial_map.
  exact (map_nth (fun d => if Qltb 0 (dw d) then dw d else 0) ds d0 i).
Qed.

Theorem maxiter0_plain_fit sv lower upper gb k ds perm :
  iterfit_model_with sv 0 lower upper gb k ds perm =
  let sorted := apply_perm d0 perm ds in
  match fit_masked sv gb k sorted (initial_mask sorted) with
  | None => None
  | Some c => Some (c, unsort false perm
                         (reject lower upper sorted (yfit_of gb k c (map dx sorted)) (initial_mask sorted)))
  end.
Proof.
  unfold iterfit_model_with. cbv zeta. cbn [iter_loop].
  destruct (fit_masked sv gb k (apply_perm d0 perm ds) (initial_mask (apply_perm d0 perm ds))); [| reflexivity].
  cbn [Nat.eqb]. now rewrite orb_true_r.
Qed.

(* ------------------------------------------------------------------ I5. permutation equivariance *)
Theorem iterfit_perm_equivariant sv maxiter lower upper gb k ds q p p' :
  is_perm q (length ds) = true ->
  let ds' := apply_perm d0 q ds in
  is_perm p (length ds) = true -> is_perm p' (length ds') = true ->
  strictly_sorted (map dx (apply_perm d0 p ds)) = true ->
  strictly_sorted (map dx (apply_perm d0 p' ds')) = true ->
  iterfit_model_with sv maxiter lower upper gb k ds' p' =
  match iterfit_model_with sv maxiter lower upper gb k ds p with
  | Some (c, m) => Some (c, apply_perm false q m)
  | None => None
  end.
Proof.
  intros Hq ds' Hp Hp' Hs Hs'.
  assert (Es : apply_perm d0 p ds = apply_perm d0 p' ds').
  { apply strictly_sorted_unique; [| exact Hs | exact Hs'].
    eapply Permutation_trans; [apply apply_perm_Permutation; exact Hp |].
    eapply Permutation_trans; [apply Permutation_sym, (apply_perm_Permutation d0 q ds Hq) |].
    apply Permutation_sym. apply apply_perm_Permutation. exact Hp'. }
  unfold iterfit_model_with. cbv zeta. rewrite <- Es.
  destruct (iter_loop sv (S maxiter) gb k lower upper (apply_perm d0 p ds)
              (initial_mask (apply_perm d0 p ds))) as [[c mw]|]; [| reflexivity].
  f_equal. f_equal.
  apply (unsort_equivariant d0 false q p p' ds ds'); try assumption; try reflexivity.
  now apply strictly_sorted_NoDup.
Qed.

(* ------------------------------------------------------------------ I6. the documented procedure *)
(* "fit; reject; stop when nothing changed or no round is left; otherwise repeat with the new mask".
   rounds_left = the number of further fits still allowed. *)
Inductive procedure (sv : solver) (gb : list Q) (k : nat) (lower upper : Q) (ds : list datum)
  : nat -> list bool -> list Q * list bool -> Prop :=
| proc_stop : forall rounds_left mask c,
    fit_masked sv gb k ds mask = Some c ->
    (reject lower upper ds (yfit_of gb k c (map dx ds)) mask = mask \/ rounds_left = 0%nat) ->
    procedure sv gb k lower upper ds rounds_left mask
              (c, reject lower upper ds (yfit_of gb k c (map dx ds)) mask)
| proc_again : forall rounds_left mask c r,
    fit_masked sv gb k ds mask = Some c ->
    reject lower upper ds (yfit_of gb k c (map dx ds)) mask <> mask ->
    procedure sv gb k lower upper ds rounds_left
              (reject lower upper ds (yfit_of gb k c (map dx ds)) mask) r ->
    procedure sv gb k lower upper ds (S rounds_left) mask r.

(* all2 returns false on lists of different lengths, so no length hypothesis is needed *)
Lemma mask_eqb_eq a : forall b, mask_eqb a b = true <-> a = b.
Proof.
  unfold mask_eqb. induction a as [|x a IH]; intros [|y b]; cbn [all2]; split; intro H;
    try discriminate; try reflexivity.
  - apply andb_true_iff in H. destruct H as [H1 H2]. apply eqb_prop in H1. apply IH in H2. congruence.
  - injection H as -> ->. apply andb_true_iff. split; [apply eqb_reflx | now apply IH].
Qed.

Lemma iter_loop_S sv f gb k lower upper ds mask :
  iter_loop sv (S f) gb k lower upper ds mask =
  match fit_masked sv gb k ds mask with
  | None => None
  | Some c =>
      if mask_eqb (reject lower upper ds (yfit_of gb k c (map dx ds)) mask) mask || (f =? 0)%nat
      then Some (c, reject lower upper ds (yfit_of gb k c (map dx ds)) mask)
      else iter_loop sv f gb k lower upper ds (reject lower upper ds (yfit_of gb k c (map dx ds)) mask)
  end.
Proof. reflexivity. Qed.

Theorem rejection_loop_spec sv gb k lower upper ds maxiter : forall mask r,
  iter_loop sv (S maxiter) gb k lower upper ds mask = Some r <->
  procedure sv gb k lower upper ds maxiter mask r.
Proof.
  induction maxiter as [|n IH]; intros mask r; rewrite iter_loop_S.
  - split.
    + destruct (fit_masked sv gb k ds mask) as [c|] eqn:F; [| discriminate].
      cbn [Nat.eqb]. rewrite orb_true_r. intro H. injection H as <-.
      apply proc_stop; [exact F | now right].
    + intro H. inversion H as [rl m c F Hstop | ]; subst.
      rewrite F. cbn [Nat.eqb]. now rewrite orb_true_r.
  - cbn [Nat.eqb]. split.
    + destruct (fit_masked sv gb k ds mask) as [c|] eqn:F; [| discriminate].
      destruct (mask_eqb (reject lower upper ds (yfit_of gb k c (map dx ds)) mask) mask) eqn:E.
      * cbn [orb]. intro H. injection H as <-. apply proc_stop; [exact F |]. left. now apply mask_eqb_eq.
      * cbn [orb]. intro H. apply IH in H.
        eapply proc_again; [exact F | | exact H].
        intro Heq. apply mask_eqb_eq in Heq. congruence.
    + intro H. inversion H as [rl m c F Hstop | rl m c r0 F Hne Hrec]; subst.
      * rewrite F. destruct Hstop as [Hs | Hs]; [| discriminate].
        apply mask_eqb_eq in Hs. rewrite Hs. reflexivity.
      * rewrite F.
        destruct (mask_eqb (reject lower upper ds (yfit_of gb k c (map dx ds)) mask) mask) eqn:E.
        { apply mask_eqb_eq in E. contradiction. }
        cbn [orb]. now apply IH.
Qed.

(* ------------------------------------------------------------------ I7. termination by convergence *)
Fixpoint count_true (m : list bool) : nat :=
  match m with [] => 0%nat | b :: r => ((if b then 1 else 0) + count_true r)%nat end.

Lemma count_true_le a : forall b, length a = length b ->
  (forall i, nth i a false = true -> nth i b false = true) -> (count_true a <= count_true b)%nat.
Proof.
  induction a as [|x a IH]; intros [|y b] L H; cbn [length] in L; try discriminate; [cbn; lia |].
  cbn [count_true].
  assert (IH' : (count_true a <= count_true b)%nat).
  { apply IH; [congruence | intro i; apply (H (S i))]. }
  pose proof (H O) as H0. cbn [nth] in H0.
  destruct x, y; try lia; try discriminate (H0 eq_refl).
Qed.

Lemma count_true_lt a : forall b, length a = length b ->
  (forall i, nth i a false = true -> nth i b false = true) -> a <> b ->
  (count_true a < count_true b)%nat.
Proof.
  induction a as [|x a IH]; intros [|y b] L H Hne; cbn [length] in L; try discriminate; [congruence |].
  cbn [count_true].
  assert (Ht : forall i, nth i a false = true -> nth i b false = true) by (intro i; apply (H (S i))).
  assert (La : length a = length b) by congruence.
  pose proof (H O) as H0. cbn [nth] in H0.
  destruct (list_eq_dec bool_dec a b) as [E | E].
  - subst b. destruct x, y; try congruence; try lia; try discriminate (H0 eq_refl).
  - pose proof (IH b La Ht E). destruct x, y; try lia; try discriminate (H0 eq_refl).
Qed.

(* a round that changes the mask removes at least one good point *)
Lemma reject_decreases lower upper ds yf mask :
  length ds = length mask -> length yf = length mask ->
  reject lower upper ds yf mask <> mask ->
  (count_true (reject lower upper ds yf mask) < count_true mask)%nat.
Proof.
  intros L1 L2 Hne. apply count_true_lt; [now apply reject_length | now apply reject_le | exact Hne].
Qed.

(* with more fuel than good points, a result is always reached because the mask stopped changing:
   so maxiter >= number of good points means "until nothing changes" *)
Theorem iter_loop_ends_by_convergence sv fuel gb k lower upper ds : forall mask c m',
  length mask = length ds -> (count_true mask < fuel)%nat ->
  iter_loop sv fuel gb k lower upper ds mask = Some (c, m') ->
  fit_masked sv gb k ds m' = Some c /\ reject lower upper ds (yfit_of gb k c (map dx ds)) m' = m'.
Proof.
  induction fuel as [|f IH]; intros mask c m' L Hc H; [lia |].
  cbn [iter_loop] in H.
  destruct (fit_masked sv gb k ds mask) as [c0|] eqn:F; [| discriminate].
  cbv zeta in H.
  assert (Ly : length (yfit_of gb k c0 (map dx ds)) = length mask)
    by (now rewrite length_yfit_of, map_length).
  destruct (mask_eqb (reject lower upper ds (yfit_of gb k c0 (map dx ds)) mask) mask) eqn:E.
  - cbn [orb] in H. injection H as <- <-. apply mask_eqb_eq in E. rewrite !E. split; [exact F | reflexivity].
  - assert (Hne : reject lower upper ds (yfit_of gb k c0 (map dx ds)) mask <> mask).
    { intro Heq. apply mask_eqb_eq in Heq. congruence. }
    pose proof (reject_decreases lower upper ds _ mask (eq_sym L) Ly Hne) as Hd.
    destruct f as [|f']; [lia |].
    cbn [orb Nat.eqb] in H.
    apply (IH (reject lower upper ds (yfit_of gb k c0 (map dx ds)) mask) c m'); [| lia | exact H].
    rewrite reject_length; congruence.
Qed.

(* ------------------------------------------------------------------ I8. masked ordinates do not matter *)
Lemma Qltb_comp : Proper (Qeq ==> Qeq ==> eq) Qltb.
Proof. intros a a' Ha b b' Hb. unfold Qltb. now rewrite Ha, Hb. Qed.

Lemma reject1_ext lower upper d1 d2 f1 f2 m :
  dw d1 == dw d2 -> f1 == f2 -> (m = true -> dy d1 == dy d2) ->
  reject1 lower upper d1 f1 m = reject1 lower upper d2 f2 m.
Proof.
  intros Hw Hf Hy. unfold reject1. destruct m; [| reflexivity]. cbn [andb].
  assert (E : dy d1 - f1 == dy d2 - f2) by (rewrite Hf, (Hy eq_refl); reflexivity).
  unfold too_low, too_high.
  rewrite (Qltb_comp _ _ E 0 0 (Qeq_refl 0)).
  rewrite (Qltb_comp 0 0 (Qeq_refl 0) _ _ E).
  assert (E2 : (dy d1 - f1) * (dy d1 - f1) * dw d1 == (dy d2 - f2) * (dy d2 - f2) * dw d2)
    by (rewrite E, Hw; reflexivity).
  rewrite (Qltb_comp _ _ (Qeq_refl (lower * lower)) _ _ E2).
  rewrite (Qltb_comp _ _ (Qeq_refl (upper * upper)) _ _ E2).
  reflexivity.
Qed.

Lemma reject_ext lower upper ds1 : forall ds2 yf1 yf2 mask,
  map dw ds1 = map dw ds2 -> Veq yf1 yf2 ->
  (forall i, nth i mask false = true -> dy (nth i ds1 d0) == dy (nth i ds2 d0)) ->
  reject lower upper ds1 yf1 mask = reject lower upper ds2 yf2 mask.
Proof.
  induction ds1 as [|d1 ds1 IH]; intros [|d2 ds2] yf1 yf2 mask Hw Hf Hy; cbn [map] in Hw;
    try discriminate; [reflexivity |].
  injection Hw as Hw1 Hw2.
  inversion Hf as [|f1 f2 yf1' yf2' Hf1 Hf2]; subst; [reflexivity |].
  destruct mask as [|m mask]; [reflexivity |]. cbn [reject]. f_equal.
  - apply reject1_ext; [now rewrite Hw1 | exact Hf1 | intro Hm; subst m; exact (Hy O eq_refl)].
  - apply IH; [exact Hw2 | exact Hf2 | intro i; exact (Hy (S i))].
Qed.

Lemma Forall2_skipn {A B} (R : A -> B -> Prop) n : forall u v, Forall2 R u v -> Forall2 R (skipn n u) (skipn n v).
Proof.
  induction n as [|n IH]; intros u v H; [exact H |].
  destruct H; cbn [skipn]; [constructor | now apply IH].
Qed.

Lemma yfit_of_Veq gb k c1 c2 xs : Veq c1 c2 -> Veq (yfit_of gb k c1 xs) (yfit_of gb k c2 xs).
Proof.
  intro H. unfold yfit_of, value_sorted. induction (combine xs (intrv gb k xs)) as [|p l IH]; cbn [map];
    constructor; [| exact IH].
  unfold eval_at. rewrite !Qred_correct. apply dot_Veq_r. now apply Forall2_skipn.
Qed.

Lemma nth_masked_weights_false ws : forall mask i, nth i mask false = false ->
  nth i (masked_weights ws mask) 0 = 0.
Proof.
  unfold masked_weights. induction ws as [|w ws IH]; intros [|m mask] i H; cbn [combine map];
    try (destruct i; reflexivity).
  destruct i as [|i]; cbn [nth fst snd] in *; [now rewrite H | now apply IH].
Qed.

Lemma nth_map_dy i ds : nth i (map dy ds) 0 = dy (nth i ds d0).
Proof. exact (map_nth dy ds d0 i). Qed.

Section MaskedY.
  Variables (gb : list Q) (k : nat) (lower upper : Q) (ds1 ds2 : list datum).
  Hypothesis Hx : map dx ds1 = map dx ds2.
  Hypothesis Hw : map dw ds1 = map dw ds2.
  Hypothesis Hy : forall i, 0 < dw (nth i ds1 d0) -> dy (nth i ds1 d0) == dy (nth i ds2 d0).
  (* every design row has one entry per coefficient (true for 1 <= k, 2k <= length gb) *)
  Hypothesis Hrows : Forall (fun r : list Q => length r = (length gb - k)%nat) (design gb k (map dx ds1)).

  Lemma masked_y_loop fuel : forall mask c1 m1 c2 m2,
    length mask = length ds1 ->
    (forall i, nth i mask false = true -> 0 < dw (nth i ds1 d0)) ->
    iter_loop fit_dense fuel gb k lower upper ds1 mask = Some (c1, m1) ->
    iter_loop fit_dense fuel gb k lower upper ds2 mask = Some (c2, m2) ->
    m1 = m2 /\ Veq c1 c2.
  Proof.
    induction fuel as [|f IH]; intros mask c1 m1 c2 m2 L Inv H1 H2; [discriminate |].
    cbn [iter_loop] in H1, H2.
    destruct (fit_masked fit_dense gb k ds1 mask) as [a1|] eqn:F1; [| discriminate].
    destruct (fit_masked fit_dense gb k ds2 mask) as [a2|] eqn:F2; [| discriminate].
    cbv zeta in H1, H2.
    assert (L12 : length ds1 = length ds2).
    { rewrite <- (map_length dx ds1), Hx. apply map_length. }
    assert (Ea : Veq a1 a2).
    { unfold fit_masked, fit_coeff_with, fit_obs in F1, F2. rewrite <- Hx, <- Hw in F2.
      refine (fit_ignores_zero_weight_y _ _ _ _ _ _ _ Hrows _ _ F1 F2).
      - now rewrite !map_length.
      - intro i. destruct (nth i mask false) eqn:Em.
        + right. rewrite !nth_map_dy. apply Hy, Inv, Em.
        + left. now rewrite nth_masked_weights_false. }
    assert (Er : reject lower upper ds1 (yfit_of gb k a1 (map dx ds1)) mask =
                 reject lower upper ds2 (yfit_of gb k a2 (map dx ds2)) mask).
    { rewrite <- Hx. apply reject_ext; [exact Hw | now apply yfit_of_Veq |].
      intros i Hi. apply Hy, Inv, Hi. }
    rewrite <- Er in H2.
    set (mask' := reject lower upper ds1 (yfit_of gb k a1 (map dx ds1)) mask) in *.
    destruct (mask_eqb mask' mask || (f =? 0)%nat).
    - injection H1 as <- <-. injection H2 as <- <-. split; [reflexivity | exact Ea].
    - assert (Ly : length (yfit_of gb k a1 (map dx ds1)) = length mask)
        by (now rewrite length_yfit_of, map_length).
      apply (IH mask' c1 m1 c2 m2); [| | exact H1 | exact H2].
      + unfold mask'. rewrite reject_length; congruence.
      + intros i Hi. apply Inv. revert i Hi. apply reject_le; congruence.
  Qed.

  Theorem curve_independent_of_masked_y fuel c1 m1 c2 m2 :
    iter_loop fit_dense fuel gb k lower upper ds1 (initial_mask ds1) = Some (c1, m1) ->
    iter_loop fit_dense fuel gb k lower upper ds2 (initial_mask ds2) = Some (c2, m2) ->
    m1 = m2 /\ Forall2 Qeq c1 c2.
  Proof.
    intros H1 H2.
    assert (Em : initial_mask ds2 = initial_mask ds1).
    { unfold initial_mask. rewrite <- (map_map dw (fun w => Qltb 0 w) ds2), <- Hw. now rewrite map_map. }
    rewrite Em in H2.
    apply (masked_y_loop fuel (initial_mask ds1) c1 m1 c2 m2); [apply length_initial_mask | | exact H1 | exact H2].
    intros i Hi. rewrite nth_initial_mask in Hi. now apply Qltb_lt in Hi.
  Qed.
End MaskedY.

(* the row-length hypothesis holds whenever 1 <= k and there are at least 2k knots *)
Lemma length_bsplvn_loop gb x l steps : forall j v dp dmr,
  length v = S j -> length dp = j -> length dmr = j ->
  length (bsplvn_loop steps j gb x l v dp dmr) = S (j + steps).
Proof.
  induction steps as [|s IH]; intros j v dp dmr Lv Lp Lm; cbn [bsplvn_loop]; [lia |].
  rewrite (IH (S j)).
  - lia.
  - rewrite pass_length'; [lia | rewrite app_length; cbn [length]; lia | cbn [length]; lia].
  - rewrite app_length. cbn [length]. lia.
  - cbn [length]. lia.
Qed.

Lemma length_bsplvn gb k x l : (1 <= k)%nat -> length (bsplvn gb k x l) = k.
Proof. intro H. unfold bsplvn. rewrite length_bsplvn_loop by reflexivity. lia. Qed.

Lemma advance_bounds gb n x fuel : forall i, (i < n)%nat ->
  (i <= advance fuel gb n x i < n)%nat.
Proof.
  induction fuel as [|f IH]; intros i Hi; cbn [advance]; [lia |].
  destruct (Qltb (nthQ gb (S i)) x && (S i <? n)%nat) eqn:E; [| lia].
  apply andb_true_iff in E. destruct E as [_ E]. apply Nat.ltb_lt in E.
  specialize (IH (S i) E). lia.
Qed.

Lemma intrv_walk_bounds gb n xs : forall i, (i < n)%nat ->
  Forall (fun l => i <= l < n)%nat (intrv_walk gb n xs i).
Proof.
  induction xs as [|x xs IH]; intros i Hi; cbn [intrv_walk]; constructor.
  - now apply advance_bounds.
  - pose proof (advance_bounds gb n x (length gb) i Hi) as B.
    eapply Forall_impl; [| apply IH; lia]. cbv beta. intros l Hl. lia.
Qed.

Lemma design_rows_length gb k xs : (1 <= k)%nat -> (2 * k <= length gb)%nat ->
  Forall (fun r : list Q => length r = (length gb - k)%nat) (design gb k xs).
Proof.
  intros Hk Hg. unfold design. apply Forall_forall. intros r Hr.
  apply in_map_iff in Hr. destruct Hr as [[x l] [E Hin]]. subst r. cbn [fst snd].
  apply in_combine_r in Hin. unfold intrv in Hin.
  pose proof (intrv_walk_bounds gb (length gb - k) xs (k - 1)) as B.
  rewrite Forall_forall in B. specialize (B ltac:(lia) l Hin).
  unfold design_row. rewrite !app_length, !length_zeros, length_bsplvn by exact Hk. lia.
Qed.

Corollary curve_independent_of_masked_y_knots gb k lower upper ds1 ds2 fuel c1 m1 c2 m2 :
  (1 <= k)%nat -> (2 * k <= length gb)%nat ->
  map dx ds1 = map dx ds2 -> map dw ds1 = map dw ds2 ->
  (forall i, 0 < dw (nth i ds1 d0) -> dy (nth i ds1 d0) == dy (nth i ds2 d0)) ->
  iter_loop fit_dense fuel gb k lower upper ds1 (initial_mask ds1) = Some (c1, m1) ->
  iter_loop fit_dense fuel gb k lower upper ds2 (initial_mask ds2) = Some (c2, m2) ->
  m1 = m2 /\ Forall2 Qeq c1 c2.
Proof.
  intros Hk Hg Hx Hw Hy. apply curve_independent_of_masked_y; try assumption.
  now apply design_rows_length.
Qed.

Print Assumptions nonpositive_weight_masked.
Print Assumptions maxiter0_plain_fit.
Print Assumptions iterfit_perm_equivariant.
Print Assumptions rejection_loop_spec.
Print Assumptions iter_loop_ends_by_convergence.
Print Assumptions curve_independent_of_masked_y.
Print Assumptions curve_independent_of_masked_y_knots.
