(* Yanny/ContFile.v -- backslash continuation at FILE level: a continuation between two tokens reads as a blank,
   whatever else the file contains (every earlier backslash being harmless). *)
From Coq Require Import NArith ZArith List Bool Lia.
Import ListNotations.
From PV Require Import Yanny.Bytes Yanny.BytesFacts Yanny.Types Yanny.Parse Yanny.Render
  Yanny.TokenFacts Yanny.RowFacts Yanny.LayoutFacts Yanny.ScanFacts Yanny.FileFacts.
Open Scope N_scope.

(* the reader sees a text only through its continuation-joined form *)
Lemma parse_text_raw_join s s' : join_cont s = join_cont s' -> parse_text_raw s = parse_text_raw s'.
Proof. intros E. unfold parse_text_raw. now rewrite E. Qed.

Lemma parse_text_join s s' : join_cont s = join_cont s' -> parse_text s = parse_text s'.
Proof. intros E. unfold parse_text. now rewrite (parse_text_raw_join s s' E). Qed.

Lemma join_cont_blanks w r : all_ws w = true -> join_cont_aux 0 (w ++ r) = w ++ join_cont_aux 0 r.
Proof. intros H. apply join_cont_copy. now apply ws_no_bsl. Qed.

Theorem continuation_in_context A w1 w2 B :
  cont_okb A = true -> all_ws w1 = true -> all_ws w2 = true -> mem NL w2 = false -> head_not_ws B ->
  join_cont (A ++ BSL :: w1 ++ NL :: w2 ++ B) = join_cont (A ++ SP :: w2 ++ B).
Proof.
  intros HA H1 H2 Hn HB. unfold join_cont. rewrite !join_cont_ok by auto. f_equal.
  pose proof (continuation_join [] w1 w2 B eq_refl H1 H2 Hn HB) as C. unfold join_cont in C. cbn [app] in C. rewrite C.
  change (SP :: w2 ++ B) with ((SP :: w2) ++ B). rewrite join_cont_blanks; [reflexivity|].
  cbn [all_ws forallb]. exact H2.
Qed.

(* CR-free texts: text-mode read of a file with one more continuation = read of the file with a blank instead *)
Theorem continuation_file A w1 w2 B :
  cont_okb A = true -> all_ws w1 = true -> all_ws w2 = true -> mem NL w2 = false -> head_not_ws B ->
  mem CR (A ++ BSL :: w1 ++ NL :: w2 ++ B) = false ->
  parse (A ++ BSL :: w1 ++ NL :: w2 ++ B) = parse (A ++ SP :: w2 ++ B) /\
  parse_binary (A ++ BSL :: w1 ++ NL :: w2 ++ B) = parse_binary (A ++ SP :: w2 ++ B).
Proof.
  intros HA H1 H2 Hn HB Hcr.
  assert (MC : forall c x l, mem c (x :: l) = (c =? x) || mem c l) by reflexivity.
  assert (Hcr' : mem CR (A ++ SP :: w2 ++ B) = false).
  { rewrite mem_app, MC, mem_app in Hcr. rewrite MC, mem_app in Hcr.
    apply orb_false_iff in Hcr as [HA' Hcr]. apply orb_false_iff in Hcr as [_ Hcr]. apply orb_false_iff in Hcr as [_ Hcr].
    apply orb_false_iff in Hcr as [_ Hcr]. apply orb_false_iff in Hcr as [Hw2 HB'].
    rewrite mem_app, MC, mem_app, HA', Hw2, HB'. reflexivity. }
  unfold parse, parse_binary. rewrite !univ_nl_id by auto.
  split; apply parse_text_join; now apply continuation_in_context.
Qed.
