(* C07, file level (definitions only): from the BYTES of a maskbits file to the dictionary, through the proved model
   of the raw yanny reader (Yanny/Parse.v: parse_raw), and the correspondence case that starts from the file text. *)
From Coq Require Import NArith ZArith List Bool String.
Import ListNotations.
From PV Require Import Yanny.Bytes Yanny.Types Yanny.Parse C07.Model.
Open Scope Z_scope.

Definition b2s (b : bytes) : str := map Z.of_N b.

Definition T_MASKBITS : bytes := Eval compute in bs "MASKBITS"%string.
Definition T_MASKALIAS : bytes := Eval compute in bs "MASKALIAS"%string.
Definition C_FLAG : bytes := Eval compute in bs "flag"%string.
Definition C_BIT : bytes := Eval compute in bs "bit"%string.
Definition C_LABEL : bytes := Eval compute in bs "label"%string.
Definition C_ALIAS : bytes := Eval compute in bs "alias"%string.

Definition find_table (name : bytes) (r : rdoc) : option rtable := find (fun t => beq (rt_name t) name) (rd_tables r).

Fixpoint col_index (name : bytes) (cols : list (bytes * option bytes)) : option nat :=
  match cols with
  | [] => None
  | (c, _) :: t => if beq c name then Some O else option_map S (col_index name t)
  end.

(* maskfile[TABLE][column] in raw mode: one list per column; a short row contributes nothing to the later columns *)
Definition colvals (j : nat) (rows : list (list cell)) : list cell :=
  flat_map (fun r => match nth_error r j with Some c => [c] | None => [] end) rows.
Definition column (t : rtable) (name : bytes) : option (list cell) :=
  option_map (fun j => colvals j (rt_rows t)) (col_index name (rt_cols t)).

Definition cell_str (c : cell) : option str := match c with Sc (STok t) => Some (b2s t) | _ => None end.
Definition cell_int (c : cell) : option Z := match c with Sc (SInt z) => Some z | _ => None end.

(* for k in range(maskfile.size(T)): size = length of the FIRST column's list *)
Definition table_size (t : rtable) : nat := List.length (colvals 0 (rt_rows t)).

Fixpoint opt_all {A} (l : list (option A)) : option (list A) :=
  match l with
  | [] => Some []
  | Some x :: t => option_map (cons x) (opt_all t)
  | None :: _ => None
  end.

(* None = outside the model: a table without the expected columns, a cell of another kind (the struct declared the
   column differently), or an index beyond a column's list (IndexError in set_maskbits) *)
Definition maskbits_rows (t : rtable) : option (list row) :=
  match column t C_FLAG, column t C_BIT, column t C_LABEL with
  | Some fs, Some bs, Some ls =>
      opt_all (map (fun k => match nth_error fs k, nth_error bs k, nth_error ls k with
                             | Some f, Some b, Some l =>
                                 match cell_str f, cell_int b, cell_str l with
                                 | Some f, Some b, Some l => Some (f, b, l)
                                 | _, _, _ => None
                                 end
                             | _, _, _ => None
                             end) (seq 0 (table_size t)))
  | _, _, _ => None
  end.

Definition maskalias_rows (t : rtable) : option (list arow) :=
  match column t C_FLAG, column t C_ALIAS with
  | Some fs, Some als =>
      opt_all (map (fun k => match nth_error fs k, nth_error als k with
                             | Some f, Some a =>
                                 match cell_str f, cell_str a with
                                 | Some f, Some a => Some (f, a)
                                 | _, _ => None
                                 end
                             | _, _ => None
                             end) (seq 0 (table_size t)))
  | _, _ => None
  end.

(* the MASKBITS rows and the MASKALIAS rows (none if the file declares no maskalias struct) *)
Definition file_tables (r : rdoc) : option (list row * list arow) :=
  match find_table T_MASKBITS r with
  | None => None
  | Some tb =>
      match maskbits_rows tb with
      | None => None
      | Some rows =>
          match find_table T_MASKALIAS r with
          | None => Some (rows, [])
          | Some ta => option_map (fun al => (rows, al)) (maskalias_rows ta)
          end
      end
  end.

Definition file_rows (b : bytes) : option (list row * list arow) := obind (parse_raw b) file_tables.

(* set_maskbits(maskbits_file=...) on the bytes of the file *)
Definition from_file (up : bool) (b : bytes) : option table :=
  match file_rows b with
  | Some (rows, aliases) => load up rows aliases
  | None => None
  end.

(* ---------------- correspondence case that starts from the file text ---------------- *)

Definition row_eqb (a b : row) : bool :=
  str_eqb (fst (fst a)) (fst (fst b)) && (snd (fst a) =? snd (fst b)) && str_eqb (snd a) (snd b).
Definition arow_eqb (a b : arow) : bool := str_eqb (fst a) (fst b) && str_eqb (snd a) (snd b).

(* text: the file; rows / aliases: what the REAL raw reader returned for it; the rest as in Model.case *)
Inductive fcase :=
  FCase (c : cfg) (text : string) (rows : list row) (aliases : list arow) (loaded : Z) (calls : list (call * res)).

(* verdicts: [reader] ++ [load] ++ calls.  reader: 0 = the Coq reader model gives the rows the real reader gave,
   1 = it does not (or the file is outside the model).  Everything after is computed from the rows COQ parsed. *)
Definition fcase_verdicts (fc : fcase) : list Z :=
  match fc with
  | FCase c text rows aliases loaded calls =>
      match file_rows (bs text) with
      | Some (rows', aliases') =>
          (if list_eqb row_eqb rows' rows && list_eqb arow_eqb aliases' aliases then 0 else 1)
          :: call_verdicts_c c rows' aliases' loaded calls
      | None => [1]
      end
  end.

Definition run_fcase (fc : fcase) : Z :=
  let vs := fcase_verdicts fc in
  let o := fold_right Z.lor 0 vs in
  if o =? 0 then 0 else o + 4 * first_bad vs 0.

Definition run_fcases (l : list fcase) : list Z := map run_fcase l.

Definition explain_c (c : cfg) (rows : list row) (aliases : list arow) (k : call) :=
  (option_map (fun m => model_call_c c m k) (load_c c rows aliases), spec_call rows aliases k, wf_file rows aliases).
