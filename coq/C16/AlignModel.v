(* C16 -- readspec(..., align=True): the pixel shift computed from the wavelength solutions and its composition with
   spec_append.  Executable definitions ONLY (proofs: C16/Align.v).

   Python (spec1d.py, the branch  if 'align' in kwargs  for every block after the first):
       mincoeff0 = min(allcoeff0)
       ps = np.floor((coeff0[0] - mincoeff0)/coeff1[0] + 0.5)
       if ps > 0: coeff0 = coeff0 - ps*coeff1          else: allcoeff0 = allcoeff0 + ps*allcoeff1
       allcoeff0 = np.concatenate((allcoeff0, coeff0));  every HDU: spec_append(acc, tmp, pixshift=ps)
   COEFF0 / COEFF1 are integers here (units of 2^-20, as in Model.v); COEFF1 = c1 > 0 is common to all files (the SDSS
   grid); the two special cases for a missing wavelength solution (COEFF0 = 0) are outside (hypothesis 0 < c0). *)
From Coq Require Import ZArith List Bool Arith QArith Qround.
From PV Require Import C16.Model.
Import ListNotations.
Open Scope Z_scope.

(* floor((c0 - min0)/c1 + 1/2) for c1 > 0, in integer arithmetic *)
Definition pixshift_of (c0 min0 c1 : Z) : Z := (2 * (c0 - min0) + c1) / (2 * c1).

(* the same, spelled as the source spells it: np.floor(x/y + 0.5) over the rationals *)
Definition floor_half_up (x y : Z) : Z := Qfloor (Qplus (Qdiv (inject_Z x) (inject_Z y)) (1 # 2)).

Definition list_min_Z (d : Z) (l : list Z) : Z := match l with [] => d | x :: t => fold_left Z.min t x end.

(* one later block: state = (accumulated image, allcoeff0 per row), block = (rows of the file, its COEFF0) *)
Definition align_step (c1 : Z) (st : img * list Z) (blk : img * Z) : img * list Z :=
  let '(acc, all0) := st in
  let '(b, c0) := blk in
  let min0 := list_min_Z 0 all0 in
  let ps := pixshift_of c0 min0 c1 in
  let c0' := if 0 <? ps then c0 - ps * c1 else c0 in
  let all0' := if 0 <? ps then all0 else map (fun a => a + ps * c1) all0 in
  (spec_append acc b ps, all0' ++ repeat c0' (length b)).

Definition align_chain (c1 : Z) (blocks : list (img * Z)) : option (img * list Z) :=
  match blocks with
  | [] => None
  | (b0, c00) :: bs => Some (fold_left (align_step c1) bs (b0, repeat c00 (length b0)))
  end.

(* specification side: rows with the column offset at which each one is stored and its own COEFF0 *)
Definition entry := (nat * list Z * Z)%type.
Definition e_off (e : entry) : nat := fst (fst e).
Definition e_row (e : entry) : list Z := snd (fst e).
Definition e_c0 (e : entry) : Z := snd e.
Definition rows_of (entries : list entry) (W : nat) : img := map (fun e => place (e_off e) W (e_row e)) entries.
(* the rows of the blocks in the order they were appended, each with the COEFF0 of its own file *)
Definition rows_with_c0 (blocks : list (img * Z)) : list (list Z * Z) :=
  concat (map (fun bk => map (fun r => (r, snd bk)) (fst bk)) blocks).
