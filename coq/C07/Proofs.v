(* C07 proofs, part 3: the loaded dictionary (load true rows aliases) answers every query as the
   specification S says -- M refines S for every well-formed file. *)
From Coq Require Import ZArith List Bool Lia Sorting.Permutation Sorting.Sorted.
Import ListNotations.
From PV Require Import C07.Model C07.Dict C07.Group.
Open Scope Z_scope.

Lemma gdefs_wf rows G : wf_rows rows = true -> wf_group (gdefs rows G).
Proof.
  intros H. apply wf_rows_keys in H. destruct H as (H1 & H2 & H3). unfold wf_group, gdefs. repeat split.
  - rewrite map_map. cbn [fst]. apply (NoDup_within_group rlabel G rflag rows H1).
  - rewrite map_map. cbn [snd]. apply (NoDup_within_group rbit G rflag rows H2).
  - apply Forall_forall. intros lb Hin. apply in_map_iff in Hin. destruct Hin as (r & E & Hin). subst lb. cbn [snd].
    apply filter_In in Hin. rewrite Forall_forall in H3. apply H3. apply Hin.
Qed.

Lemma gdefs_upper rows G lb : In lb (gdefs rows G) -> upper (fst lb) = fst lb.
Proof.
  intros H. apply in_map_iff in H. destruct H as (r & E & _). subst lb. cbn [fst]. unfold rlabel. apply upper_idem.
Qed.

Lemma map_upper_fixed ls : (forall l, In l ls -> upper l = l) -> map upper ls = ls.
Proof.
  induction ls as [|l ls IH]; cbn [map]; intros H; [reflexivity|].
  rewrite H by (left; reflexivity). rewrite IH; [reflexivity|]. intros; apply H; right; assumption.
Qed.

Lemma in_u64_range v : in_u64 v = true <-> 0 <= v < 2 ^ 64.
Proof. unfold in_u64, two64. rewrite andb_true_iff, Z.leb_le, Z.ltb_lt. reflexivity. Qed.

(* queries see the table only through the entry of the upper-cased group name *)
Lemma flagval_via m m' g g' ls : dget (upper g) m = dget (upper g') m' -> flagval m g ls = flagval m' g' ls.
Proof. intros E. unfold flagval. rewrite E. reflexivity. Qed.
Lemma flagname_via m m' g g' v : dget (upper g) m = dget (upper g') m' -> flagname m g v = flagname m' g' v.
Proof. intros E. unfold flagname. rewrite E. reflexivity. Qed.
Lemma flagexist_via m m' g g' ls fe we : dget (upper g) m = dget (upper g') m' ->
  flagexist m g ls fe we = flagexist m' g' ls fe we.
Proof. intros E. unfold flagexist, has. rewrite E. reflexivity. Qed.

Section Loaded.
Variables (rows : list row) (aliases : list arow) (m : table).
Hypothesis Hwf : wf_file rows aliases = true.
Hypothesis Hload : load true rows aliases = Some m.

Lemma table_get g : dget (upper g) m = if known rows aliases g then Some (defs rows aliases g) else None.
Proof.
  destruct (load_spec rows aliases Hwf) as (m' & Hl & Hg & _). rewrite Hload in Hl. inversion Hl; subst. apply Hg.
Qed.

Lemma table_alias f a : In (f, a) aliases -> dget (upper a) m = dget (upper f) m.
Proof.
  destruct (load_spec rows aliases Hwf) as (m' & Hl & _ & Ha). rewrite Hload in Hl. inversion Hl; subst.
  intros Hin. apply (Ha f a Hin).
Qed.

(* at the level of S: an alias is known and has exactly the definitions of the group it names *)
Lemma spec_alias_same f a : In (f, a) aliases ->
  known rows aliases f = true /\ known rows aliases a = true /\ defs rows aliases a = defs rows aliases f.
Proof.
  intros Hin. destruct (load_spec rows aliases Hwf) as (m' & Hl & Hg & Ha). rewrite Hload in Hl. inversion Hl; subst.
  destruct (Ha f a Hin) as [Heq Hk]. rewrite !Hg, Hk in Heq.
  destruct (known rows aliases a); [|discriminate]. inversion Heq. repeat split; assumption.
Qed.

Lemma defs_wf g : wf_group (defs rows aliases g).
Proof.
  rewrite defs_gdefs. apply gdefs_wf. pose proof Hwf as H. unfold wf_file in H. apply andb_true_iff in H. apply H.
Qed.

Lemma unknown_defs g : known rows aliases g = false -> defs rows aliases g = [].
Proof. intros K. rewrite defs_gdefs. apply gknown_false_gdefs. rewrite <- known_gknown. exact K. Qed.

Lemma distinct_NoDup ls : distinct_labels ls = true -> NoDup (map upper ls).
Proof. intros H. apply (nodupb_NoDup str_eqb); [apply str_eqb_eq|exact H]. Qed.

Theorem flagval_refines g ls : distinct_labels ls = true -> flagval m g ls = spec_flagval rows aliases g ls.
Proof.
  intros Hd. unfold flagval, spec_flagval. rewrite table_get.
  pose proof (distinct_NoDup ls Hd) as Hnd.
  destruct (known rows aliases g) eqn:K.
  - destruct ls as [|l t]; [reflexivity|].
    rewrite (flagval_group _ _ (defs_wf g) Hnd). reflexivity.
  - destruct ls as [|l t]; reflexivity.
Qed.

Theorem flagname_known g v : known rows aliases g = true -> in_u64 v = true ->
  flagname m g v = RNames (spec_names (defs rows aliases g) v).
Proof.
  intros K Hv. unfold flagname. rewrite Hv, table_get, K.
  rewrite (flagname_group _ v (defs_wf g)). reflexivity.
Qed.

Lemma spec_names_zero d : spec_names d 0 = [].
Proof.
  unfold spec_names. replace (filter (fun lb => Z.testbit 0 (snd lb)) d) with (@nil (str * Z)); [reflexivity|].
  induction d as [|x d IH]; cbn [filter]; [reflexivity|]. rewrite Z.bits_0. exact IH.
Qed.

Theorem flagname_refines g v : in_u64 v = true -> flagname m g v = spec_flagname rows aliases g v.
Proof.
  intros Hv. unfold spec_flagname.
  destruct (known rows aliases g) eqn:K.
  - rewrite (flagname_known g v K Hv). destruct (Z.eqb_spec v 0) as [->|Hnz]; [|reflexivity].
    rewrite spec_names_zero. reflexivity.
  - unfold flagname. rewrite Hv, table_get, K.
    destruct (Z.eqb_spec v 0) as [->|Hnz]; [reflexivity|].
    destruct (set_bits v) as [|b t] eqn:E; [|reflexivity].
    exfalso. apply (set_bits_nonempty v); [|exact E]. apply in_u64_range in Hv. lia.
Qed.

Theorem flagexist_refines g ls fe we : flagexist m g ls fe we = spec_flagexist rows aliases g ls fe we.
Proof.
  assert (E1 : has (upper g) m = known rows aliases g).
  { unfold has. rewrite table_get. destruct (known rows aliases g); reflexivity. }
  assert (E2 : match dget (upper g) m with
               | Some gr => map (fun l => has l gr) (map upper ls)
               | None => map (fun _ => false) (map upper ls)
               end = map (fun l => has (upper l) (defs rows aliases g)) ls).
  { rewrite table_get. destruct (known rows aliases g) eqn:K; rewrite map_map; [reflexivity|].
    rewrite (unknown_defs g K). reflexivity. }
  unfold flagexist, spec_flagexist. cbv zeta. rewrite E1, E2. reflexivity.
Qed.

Lemma spec_names_upper g v : map upper (spec_names (defs rows aliases g) v) = spec_names (defs rows aliases g) v.
Proof.
  apply map_upper_fixed. intros l Hl. apply spec_names_In in Hl. destruct Hl as (b & Hin & _).
  rewrite defs_gdefs in Hin. apply (gdefs_upper _ _ (l, b) Hin).
Qed.

(* value -> names -> value *)
Theorem vnv_refines g v : in_u64 v = true ->
  match flagname m g v with RNames ns => flagval m g ns | r => r end = spec_vnv rows aliases g v.
Proof.
  intros Hv. unfold spec_vnv. destruct (known rows aliases g) eqn:K.
  - rewrite (flagname_known g v K Hv). unfold flagval. rewrite table_get, K, spec_names_upper.
    rewrite (val_names_val_group _ v (defs_wf g)).
    destruct (Z.eqb_spec v 0) as [->|Hnz]; [rewrite Z.land_0_l|]; reflexivity.
  - rewrite (flagname_refines g v Hv). unfold spec_flagname. rewrite K.
    destruct (v =? 0); reflexivity.
Qed.

Lemma spec_flagval_u64 g ls v : spec_flagval rows aliases g ls = RVal v -> in_u64 v = true.
Proof.
  unfold spec_flagval. destruct ls as [|l t].
  - intros H. inversion H. reflexivity.
  - destruct (known rows aliases g); [|discriminate].
    destruct (bits_of (defs rows aliases g) (map upper (l :: t))) as [bs|] eqn:E; [|discriminate].
    intros H. inversion H; subst. apply in_u64_range. apply or_bits_lt.
    destruct (defs_wf g) as (_ & _ & Hr). apply (bits_of_range _ _ _ Hr E).
Qed.

(* names -> value -> names *)
Theorem nvn_refines g ls : distinct_labels ls = true ->
  match flagval m g ls with RVal v => flagname m g v | r => r end = spec_nvn rows aliases g ls.
Proof.
  intros Hd. rewrite (flagval_refines g ls Hd). unfold spec_nvn.
  destruct (spec_flagval rows aliases g ls) eqn:E; try reflexivity.
  apply flagname_refines. apply (spec_flagval_u64 g ls v E).
Qed.

(* everything the correspondence run compares: on a well-formed file, whenever S fixes the answer, M gives it *)
Theorem model_refines_spec c s : spec_call rows aliases c = Some s -> model_call m c = s.
Proof.
  destruct c as [g ls|g v cc|g ls fe we|g v|g ls]; cbn [spec_call model_call]; intros H.
  - destruct (distinct_labels ls) eqn:D; [|discriminate]. inversion H. apply flagval_refines. exact D.
  - destruct (in_u64 v) eqn:D; [|discriminate]. inversion H. rewrite (flagname_refines g v D). reflexivity.
  - inversion H. apply flagexist_refines.
  - destruct (in_u64 v) eqn:D; [|discriminate]. inversion H. apply vnv_refines. exact D.
  - destruct (distinct_labels ls) eqn:D; [|discriminate]. inversion H. apply nvn_refines. exact D.
Qed.

(* ---------------- the statements of the property, spelled out ---------------- *)

(* distinct labels -> exactly the OR of 2^bit; it fits in 64 bits (no carry, no wrap, bit 63 included) *)
Theorem flagval_is_or g ls bs : known rows aliases g = true -> distinct_labels ls = true ->
  bits_of (defs rows aliases g) (map upper ls) = Some bs ->
  flagval m g ls = RVal (or_bits bs) /\ 0 <= or_bits bs < 2 ^ 64 /\
  (forall n, Z.testbit (or_bits bs) n = true <-> In n bs).
Proof.
  intros K Hd Hb. destruct (defs_wf g) as (_ & _ & Hr).
  pose proof (bits_of_range _ _ _ Hr Hb) as Hrange.
  split; [|split].
  - rewrite (flagval_refines g ls Hd). unfold spec_flagval. rewrite K, Hb.
    destruct ls; [inversion Hb; reflexivity|reflexivity].
  - apply or_bits_lt. exact Hrange.
  - intros n. rewrite or_bits_testbit by (eapply Forall_impl; [|exact Hrange]; cbn; intros; lia).
    rewrite existsb_exists. split.
    + intros (b & Hin & E). apply Z.eqb_eq in E. subst. exact Hin.
    + intros Hin. exists n. split; [exact Hin|apply Z.eqb_refl].
Qed.

(* the names of a value: a list (label, bit), strictly ascending in bit, of exactly the defined set bits *)
Theorem flagname_spec g v : known rows aliases g = true -> in_u64 v = true ->
  exists pairs, flagname m g v = RNames (map fst pairs) /\
    StronglySorted lt_snd pairs /\
    (forall l b, In (l, b) pairs <-> In (l, b) (defs rows aliases g) /\ Z.testbit v b = true).
Proof.
  intros K Hv. exists (selected (defs rows aliases g) v). split; [apply (flagname_known g v K Hv)|].
  split; [apply selected_sorted; apply defs_wf|]. intros l b. apply (selected_In _ v (l, b)).
Qed.

Theorem val_names_val g v : known rows aliases g = true -> in_u64 v = true ->
  match flagname m g v with RNames ns => flagval m g ns | r => r end
  = RVal (Z.land v (defined_mask (defs rows aliases g))).
Proof.
  intros K Hv. rewrite (vnv_refines g v Hv). unfold spec_vnv. rewrite K.
  destruct (Z.eqb_spec v 0) as [->|]; [rewrite Z.land_0_l|]; reflexivity.
Qed.

Theorem names_val_names g ls bs : known rows aliases g = true -> distinct_labels ls = true ->
  bits_of (defs rows aliases g) (map upper ls) = Some bs ->
  exists ns, match flagval m g ls with RVal v => flagname m g v | r => r end = RNames ns /\
             Permutation ns (map upper ls) /\ ns = spec_names (defs rows aliases g) (or_bits bs).
Proof.
  intros K Hd Hb. destruct (flagval_is_or g ls bs K Hd Hb) as (Hv & Hrange & _).
  exists (spec_names (defs rows aliases g) (or_bits bs)). rewrite Hv. split; [|split; [|reflexivity]].
  - apply (flagname_known g _ K). apply in_u64_range. exact Hrange.
  - apply names_val_names_group; [apply defs_wf|apply distinct_NoDup; exact Hd|exact Hb].
Qed.

(* labels given in ascending bit order come back exactly (upper-cased) *)
Theorem names_val_names_exact g ls bs : known rows aliases g = true -> distinct_labels ls = true ->
  bits_of (defs rows aliases g) (map upper ls) = Some bs -> StronglySorted Z.lt bs ->
  match flagval m g ls with RVal v => flagname m g v | r => r end = RNames (map upper ls).
Proof.
  intros K Hd Hb Hs. destruct (names_val_names g ls bs K Hd Hb) as (ns & Hns & _ & E).
  rewrite Hns, E. f_equal. apply names_val_names_sorted; [apply defs_wf|exact Hb|exact Hs].
Qed.

Theorem alias_same f a : In (f, a) aliases ->
  (forall ls, flagval m a ls = flagval m f ls) /\
  (forall v, flagname m a v = flagname m f v) /\
  (forall ls fe we, flagexist m a ls fe we = flagexist m f ls fe we).
Proof.
  intros Hin. pose proof (table_alias f a Hin) as E. repeat split; intros.
  - apply flagval_via. exact E.
  - apply flagname_via. exact E.
  - apply flagexist_via. exact E.
Qed.

Theorem unknown_group_keyerror g : known rows aliases g = false ->
  (forall ls, ls <> [] -> flagval m g ls = RKeyError) /\
  (forall v, in_u64 v = true -> v <> 0 -> flagname m g v = RKeyError).
Proof.
  intros K. split.
  - intros ls Hne. unfold flagval. rewrite table_get, K. destruct ls; [congruence|reflexivity].
  - intros v Hv Hnz. rewrite (flagname_refines g v Hv). unfold spec_flagname. rewrite K.
    destruct (Z.eqb_spec v 0); [contradiction|reflexivity].
Qed.

Theorem unknown_label_keyerror g ls : known rows aliases g = true ->
  (exists l, In l ls /\ has (upper l) (defs rows aliases g) = false) -> flagval m g ls = RKeyError.
Proof.
  intros K (l & Hin & Hhas). unfold flagval. rewrite table_get, K.
  destruct (defs_wf g) as (_ & _ & Hr). apply (flagval_loop_missing _ Hr).
  exists (upper l). split; [apply in_map; exact Hin|]. unfold has in Hhas.
  destruct (dget (upper l) (defs rows aliases g)); [discriminate|reflexivity].
Qed.

End Loaded.

Theorem load_total rows aliases : wf_file rows aliases = true -> exists m, load true rows aliases = Some m.
Proof. intros H. destruct (load_spec rows aliases H) as (m & Hm & _). exists m. exact Hm. Qed.

(* spelling of the arguments does not matter (any table) *)
Theorem case_insensitive_args (m : table) g g' : upper g = upper g' ->
  (forall ls ls', map upper ls = map upper ls' -> flagval m g ls = flagval m g' ls') /\
  (forall v, flagname m g v = flagname m g' v) /\
  (forall ls ls' fe we, map upper ls = map upper ls' -> flagexist m g ls fe we = flagexist m g' ls' fe we).
Proof.
  intros E. repeat split; intros.
  - unfold flagval. rewrite E, H. reflexivity.
  - unfold flagname. rewrite E. reflexivity.
  - unfold flagexist. rewrite E, H. reflexivity.
Qed.

(* a zero value names nothing, in any table and any group, known or not *)
Theorem zero_names_nothing (m : table) g : flagname m g 0 = RNames [].
Proof. reflexivity. Qed.

(* sdss_flagexist never raises: for any table whatsoever the answer is a list of booleans of the announced shape *)
Theorem flagexist_total (m : table) g ls fe we :
  exists l, flagexist m g ls fe we = RBools l /\
            length l = (1 + (if fe then 1 else 0) + (if we then length ls else 0))%nat.
Proof.
  eexists. split; [reflexivity|]. cbn [length]. rewrite app_length.
  destruct fe, we; cbn [length]; destruct (dget (upper g) m); rewrite ?map_length; lia.
Qed.

(* data of the non-vacuity examples in Props.v *)
Definition ex_rows : list row :=
  [([84; 97; 114; 103; 101; 116], 63, [72; 105]); ([84; 65; 82; 71; 69; 84], 0, [108; 111]); ([79; 116; 104; 101; 114], 5, [120])].   (* Target 63 Hi; TARGET 0 lo; Other 5 x *)
Definition ex_aliases : list arow := [([116; 97; 114; 103; 101; 116], [80; 114; 105; 109])].                                  (* target Prim *)
