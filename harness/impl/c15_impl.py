"""Runs computechi2 / pcomp / HMF / pca_solve of the repository under test (stdin JSON -> stdout JSON).

Calls:
  chi2      : computechi2(bvec, sqivar, amatrix) -> all attributes
  pcomp     : pcomp(x, standardize=, covariance=) -> eigenvalues, coefficients, derived, variance
  hmf_step  : HMF object with a, g set by the harness; astep/gstep/astepnn/gstepnn/normbase/badness
  hmf_solve : HMF(...).solve() twice with the same seed; per-step badness recorded through a subclass that
              only wraps astep/gstep (the iteration loop is the repository's)
  pca       : pca_solve(newflux, newivar, nkeep=, niter=, maxiter=)
"""
import json
import sys
import warnings

import numpy as np

import pydl
from pydl import pcomp
from pydl.pydlutils.math import computechi2
from pydl.pydlspec2d.spec1d import HMF, pca_solve


def err(e):
    return {'err': type(e).__name__, 'msg': str(e)[:200]}


def arr(a):
    return np.array(a, dtype='d')


def tolist(a):
    return np.asarray(a, dtype='d').tolist()


def finite(*arrays):
    return all(np.all(np.isfinite(np.asarray(a, dtype='d'))) for a in arrays)


class RecordingHMF(HMF):
    """HMF whose astep/gstep record badness() before and after the update they return."""

    def __init__(self, *a, **k):
        super().__init__(*a, **k)
        self.trace = []

    def astep(self):
        before = float(self.badness())
        new = super().astep()
        old = self.a
        self.a = new
        after = float(self.badness())
        self.a = old
        self.trace.append(['a', before, after])
        return new

    def gstep(self):
        before = float(self.badness())
        new = super().gstep()
        old = self.g
        self.g = new
        after = float(self.badness())
        self.g = old
        self.trace.append(['g', before, after])
        return new

    def astepnn(self):
        new = super().astepnn()
        self.trace.append(['ann', float(np.min(new)), float(np.min(self.a))])
        return new

    def gstepnn(self):
        new = super().gstepnn()
        self.trace.append(['gnn', float(np.min(new)), float(np.min(self.g))])
        return new


def call(c):
    f = c['f']
    try:
        with warnings.catch_warnings():
            warnings.simplefilter('ignore')
            if f == 'chi2':
                b, sq, A = arr(c['b']), arr(c['sq']), arr(c['A'])
                if c.get('one_d'):
                    A = A[:, 0]
                o = computechi2(b, sq, A)
                out = {'acoeff': tolist(o.acoeff), 'chi2': float(o.chi2), 'yfit': tolist(o.yfit), 'dof': int(o.dof),
                       'covar': tolist(o.covar), 'var': tolist(o.var)}
                if not finite(o.acoeff, o.chi2, o.yfit, o.covar, o.var):
                    return {'err': 'nonfinite'}
                return {'ok': out}
            if f == 'pcomp':
                x = arr(c['x'])
                x0 = x.copy()
                o = pcomp(x, standardize=bool(c['standardize']), covariance=bool(c['covariance']))
                out = {'eigenvalues': tolist(o.eigenvalues), 'coefficients': tolist(o.coefficients),
                       'derived': tolist(o.derived), 'variance': tolist(o.variance),
                       'input_unchanged': bool(np.array_equal(x, x0))}
                if not finite(o.eigenvalues, o.coefficients, o.derived, o.variance):
                    return {'err': 'nonfinite', 'eigenvalues': [repr(v) for v in np.asarray(o.eigenvalues).tolist()]}
                return {'ok': out}
            if f == 'hmf_step':
                s, w, a, g = arr(c['s']), arr(c['w']), arr(c['a']), arr(c['g'])
                h = HMF(s.copy(), w.copy(), K=a.shape[1], epsilon=c.get('eps'), nonnegative=False)
                h.a, h.g = a.copy(), g.copy()
                out = {}
                out['badness'] = float(h.badness())
                out['normbase'] = tolist(h.normbase())
                na = h.astep()
                ng = h.gstep()
                out['astep'] = tolist(na)
                out['gstep'] = tolist(ng)
                out['astepnn'] = tolist(h.astepnn())
                out['gstepnn'] = tolist(h.gstepnn())
                out['state_unchanged'] = bool(np.array_equal(h.a, a) and np.array_equal(h.g, g) and
                                              np.array_equal(h.spectra, s) and np.array_equal(h.invvar, w))
                h.a = na
                out['badness_a'] = float(h.badness())
                h.a = a.copy()
                h.g = ng
                out['badness_g'] = float(h.badness())
                if not finite(*[out[k] for k in ('badness', 'normbase', 'astep', 'gstep', 'astepnn', 'gstepnn', 'badness_a', 'badness_g')]):
                    return {'err': 'nonfinite'}
                return {'ok': out}
            if f == 'hmf_solve':
                s, w = arr(c['s']), arr(c['w'])
                runs = []
                for _rep in range(2):
                    # the two runs start from DIFFERENT global RNG states: only the seed argument may make them agree
                    np.random.seed(1234567 + 7919 * _rep)
                    np.random.random(5 + 3 * _rep)
                    s1, w1 = s.copy(), w.copy()
                    h = RecordingHMF(s1, w1, K=c['K'], n_iter=c['n_iter'], seed=c['seed'],
                                     nonnegative=bool(c['nonnegative']), epsilon=c.get('eps'))
                    d = h.solve()
                    runs.append({'a': d['acoeff'], 'g': d['flux'], 'trace': h.trace,
                                 'inputs_unchanged': bool(np.array_equal(s1, s) and np.array_equal(w1, w)),
                                 'rms': tolist(np.sqrt((d['flux'] ** 2).mean(1)))})
                r0, r1 = runs
                out = {'identical': bool(np.array_equal(r0['a'], r1['a']) and np.array_equal(r0['g'], r1['g'])),
                       'shape_a': list(r0['a'].shape), 'shape_g': list(r0['g'].shape),
                       'inputs_unchanged': r0['inputs_unchanged'] and r1['inputs_unchanged'],
                       'min_a': float(np.min(r0['a'])), 'min_g': float(np.min(r0['g'])),
                       'finite': finite(r0['a'], r0['g']), 'rms': r0['rms'], 'trace': r0['trace']}
                return {'ok': out}
            if f == 'pca':
                flux, ivar = arr(c['flux']), arr(c['ivar'])
                f0, i0 = flux.copy(), ivar.copy()
                d = pca_solve(flux, ivar, nkeep=c['nkeep'], niter=c.get('niter', 10), maxiter=c.get('maxiter', 0),
                              nreturn=c.get('nreturn'))
                out = {'flux': tolist(d['flux']), 'acoeff': tolist(d['acoeff']), 'eigenval': tolist(d['eigenval']),
                       'usemask': [int(v) for v in np.asarray(d['usemask']).tolist()],
                       'flux_dtype': str(d['flux'].dtype),
                       'inputs_unchanged': bool(np.array_equal(flux, f0) and np.array_equal(ivar, i0))}
                if not finite(d['flux'], d['acoeff'], d['eigenval']):
                    return {'err': 'nonfinite'}
                return {'ok': out}
            return {'err': 'BadCall'}
    except Exception as e:  # noqa: BLE001 - the error class is the observation
        import traceback
        r = err(e)
        r['where'] = traceback.format_exc()[-600:]
        return r


def main():
    calls = json.load(sys.stdin)
    real_stdout = sys.stdout
    sys.stdout = sys.stderr          # astropy's logger prints INFO records to sys.stdout
    try:
        out = {'pydl_file': pydl.__file__, 'results': [call(c) for c in calls]}
    finally:
        sys.stdout = real_stdout
    json.dump(out, sys.stdout)


if __name__ == '__main__':
    main()
