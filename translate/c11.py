"""Fail-closed extractor for the index / threshold arithmetic of combine1fiber (pydl/pydlspec2d/spec2d.py).

Regenerates coq/Generated/Combine1fiber.v: EPS, the default factors (maxsep, bkptbin, nord), the padded-difference
grouping comparison and slice, the minimum group size, the `inside` bounds, the smask threshold, the bad-region test
and the growth offsets.  Any statement whose shape is not recognised raises Unrecognised: the caller then keeps the
previous generated file and relies on the correspondence run alone.
"""
import ast
import os
from fractions import Fraction


class Unrecognised(Exception):
    pass


def qlit(fr):
    fr = Fraction(fr)
    n = fr.numerator
    return '(%s # %d)' % (('(%d)' % n) if n < 0 else str(n), fr.denominator)


CMP = {ast.Eq: lambda a, b: 'Qeq_bool %s %s' % (a, b),
       ast.Gt: lambda a, b: 'Qltb %s %s' % (b, a), ast.GtE: lambda a, b: 'Qle_bool %s %s' % (b, a),
       ast.Lt: lambda a, b: 'Qltb %s %s' % (a, b), ast.LtE: lambda a, b: 'Qle_bool %s %s' % (a, b)}


def to_q(node, env):
    """scalar float expression -> Gallina Q term"""
    if isinstance(node, ast.Constant) and isinstance(node.value, (int, float)) and not isinstance(node.value, bool):
        return qlit(Fraction(str(node.value)))
    if isinstance(node, ast.Name) and node.id in env:
        return env[node.id]
    if isinstance(node, ast.BinOp):
        a, b = to_q(node.left, env), to_q(node.right, env)
        if isinstance(node.op, ast.Add):
            return '(%s + %s)' % (a, b)
        if isinstance(node.op, ast.Sub):
            return '(%s - %s)' % (a, b)
        if isinstance(node.op, ast.Mult):
            return '(%s * %s)' % (a, b)
    raise Unrecognised('expression %s' % ast.unparse(node))


def cmp_term(node, env_left, env_right=None):
    """Compare node with one operator -> Gallina bool term; operands translated by to_q"""
    if not (isinstance(node, ast.Compare) and len(node.ops) == 1 and type(node.ops[0]) in CMP):
        raise Unrecognised('comparison %s' % ast.unparse(node))
    return CMP[type(node.ops[0])](to_q(node.left, env_left), to_q(node.comparators[0], env_right or env_left))


def find_function(tree, name):
    for n in ast.walk(tree):
        if isinstance(n, ast.FunctionDef) and n.name == name:
            return n
    raise Unrecognised('function %s' % name)


def assigns(fn, target):
    out = []
    for n in ast.walk(fn):
        if isinstance(n, ast.Assign) and len(n.targets) == 1 and ast.unparse(n.targets[0]) == target:
            out.append(n.value)
    return out


def one(lst, what):
    if len(lst) != 1:
        raise Unrecognised('%s: %d candidates' % (what, len(lst)))
    return lst[0]


def factor_of(node, var):
    """<const> * var  or  var * <const>"""
    if isinstance(node, ast.BinOp) and isinstance(node.op, ast.Mult):
        for a, b in ((node.left, node.right), (node.right, node.left)):
            if isinstance(a, ast.Constant) and isinstance(a.value, (int, float)) and ast.unparse(b) == var:
                return Fraction(str(a.value))
    raise Unrecognised('factor of %s in %s' % (var, ast.unparse(node)))


def subst_name(node, mapping):
    """replace sub-expressions (by unparse text) with Names"""
    class T(ast.NodeTransformer):
        def generic_visit(self, n):
            txt = ast.unparse(n) if isinstance(n, ast.expr) else None
            if txt in mapping:
                return ast.Name(id=mapping[txt], ctx=ast.Load())
            return super().generic_visit(n)
    return T().visit(node)


def generate(repo):
    info = {'recognised': False}
    try:
        src = open(os.path.join(repo, 'pydl', 'pydlspec2d', 'spec2d.py')).read()
        fn = find_function(ast.parse(src), 'combine1fiber')
        # EPS
        eps = ast.unparse(one(assigns(fn, 'EPS'), 'EPS'))
        if eps == 'np.finfo(np.float32).eps':
            EPS = Fraction(1, 2 ** 23)
        elif eps == 'np.finfo(np.float64).eps' or eps == 'np.finfo(float).eps':
            EPS = Fraction(1, 2 ** 52)
        else:
            raise Unrecognised('EPS = %s' % eps)
        # defaults
        nord = [v for v in assigns(fn, 'nord') if isinstance(v, ast.Constant)]
        nord = one(nord, 'nord default').value
        maxsep_f = factor_of(one([v for v in assigns(fn, 'maxsep') if 'binsz' in ast.unparse(v)], 'maxsep default'), 'binsz')
        bkpt_f = factor_of(one([v for v in assigns(fn, 'bkptbin') if 'binsz' in ast.unparse(v)], 'bkptbin default'), 'binsz')
        # padding of the sorted wavelengths
        pads = assigns(fn, 'padwave')
        if len(pads) != 2:
            raise Unrecognised('padwave assignments')
        p0, p1 = ast.unparse(pads[0]), ast.unparse(pads[1])
        import re
        m0 = re.fullmatch(r'np\.insert\(wavesort, 0, wavesort\.min\(\) - ([0-9.]+) \* maxsep\)', p0)
        m1 = re.fullmatch(r'np\.append\(padwave, wavesort\.max\(\) \+ ([0-9.]+) \* maxsep\)', p1)
        if not (m0 and m1):
            raise Unrecognised('padwave: %s ; %s' % (p0, p1))
        pad_lo, pad_hi = Fraction(m0.group(1)), Fraction(m1.group(1))
        # ig1 / ig2
        cmps = {}
        for name, lo_sl, hi_sl in (('ig1', ('padwave[1:ngood + 1]', 'padwave[0:ngood]')),
                                   ('ig2', ('padwave[2:ngood + 2]', 'padwave[1:ngood + 1]'))) if False else ():
            pass
        for name, a, b in (('ig1', 'padwave[1:ngood + 1]', 'padwave[0:ngood]'), ('ig2', 'padwave[2:ngood + 2]', 'padwave[1:ngood + 1]')):
            v = one(assigns(fn, name), name)
            txt = ast.unparse(v)
            mm = re.fullmatch(r'\((.+)\)\.nonzero\(\)\[0\]', txt)
            if not mm:
                raise Unrecognised('%s = %s' % (name, txt))
            cmpnode = ast.parse(mm.group(1), mode='eval').body
            if not (isinstance(cmpnode, ast.Compare) and ast.unparse(cmpnode.left) == '%s - %s' % (a, b)
                    and ast.unparse(cmpnode.comparators[0]) == 'maxsep'):
                raise Unrecognised('%s comparison %s' % (name, txt))
            cmpnode.left = ast.Name(id='d', ctx=ast.Load())
            cmps[name] = cmp_term(cmpnode, {'d': 'd', 'maxsep': 'maxsep'})
        if cmps['ig1'] != cmps['ig2']:
            raise Unrecognised('ig1 and ig2 use different comparisons')
        # group slice and minimum size
        ss = ast.unparse(one(assigns(fn, 'ss'), 'ss'))
        mm = re.fullmatch(r'isort\[ig1\[igrp\]:ig2\[igrp\] \+ (\d+)\]', ss)
        if not mm:
            raise Unrecognised('ss = %s' % ss)
        slice_extra = int(mm.group(1))
        sizes = [n for n in ast.walk(fn) if isinstance(n, ast.If) and ast.unparse(n.test).startswith('ss.size')]
        st = one(sizes, 'ss.size test').test
        if not (isinstance(st, ast.Compare) and isinstance(st.ops[0], ast.Gt) and isinstance(st.comparators[0], ast.Constant)):
            raise Unrecognised('ss.size test %s' % ast.unparse(st))
        min_group = int(st.comparators[0].value)
        # inside bounds
        ins = one(assigns(fn, 'inside'), 'inside')
        txt = ast.unparse(ins)
        mm = re.fullmatch(r'\(\((.+)\) & \((.+)\)\)\.nonzero\(\)\[0\]', txt)
        if not mm:
            raise Unrecognised('inside = %s' % txt)
        parts = []
        for piece in mm.groups():
            node = ast.parse(piece, mode='eval').body
            node = subst_name(node, {'inloglam_r[ss].min()': 'lo', 'inloglam_r[ss].max()': 'hi', 'newloglam': 'p'})
            parts.append(cmp_term(node, {'lo': 'lo', 'hi': 'hi', 'p': 'p', 'EPS': 'c1f_EPS'}))
        inside = '%s && %s' % (parts[0], parts[1])
        # smask threshold:  result *= smask >= (1.0 - EPS)
        aug = [n for n in ast.walk(fn) if isinstance(n, ast.AugAssign) and ast.unparse(n.target) == 'result' and isinstance(n.op, ast.Mult)]
        smask = cmp_term(one(aug, 'result *= ...').value, {'smask': 'm', 'EPS': 'c1f_EPS'})
        # growth
        foo = ast.unparse(one(assigns(fn, 'foo'), 'foo'))
        mm = re.fullmatch(r'smooth\(newivar, (\d+)\)', foo)
        if not mm:
            raise Unrecognised('foo = %s' % foo)
        width = int(mm.group(1))
        bad = one(assigns(fn, 'badregion'), 'badregion')
        bad = subst_name(bad, {'np.absolute(foo)': 'af', 'foo': 'fo'})
        badt = cmp_term(bad, {'af': '(Qabs f)', 'fo': 'f', 'EPS': 'c1f_EPS'})
        lo = ast.unparse(one(assigns(fn, 'lowerregion'), 'lowerregion'))
        hi = ast.unparse(one(assigns(fn, 'upperregion'), 'upperregion'))
        ml = re.fullmatch(r'np\.where\(ibad - (\d+) < 0, 0, ibad - (\d+)\)', lo)
        mh = re.fullmatch(r'np\.where\(ibad \+ (\d+) > nfinalpix - 1, nfinalpix - 1, ibad \+ (\d+)\)', hi)
        if not (ml and mh and ml.group(1) == ml.group(2) and mh.group(1) == mh.group(2)):
            raise Unrecognised('growth: %s ; %s' % (lo, hi))
        glo, ghi = int(ml.group(1)), int(mh.group(1))
        zeroing = [n for n in ast.walk(fn) if isinstance(n, ast.Assign) and ast.unparse(n.targets[0]) in ('newivar[lowerregion]', 'newivar[upperregion]')]
        if len(zeroing) != 2 or any(ast.unparse(z.value) not in ('0.0', '0') for z in zeroing):
            raise Unrecognised('growth assignments')

        # ---------------------------------------------------------------- round 5: more of the stage control
        # (a) the no-good-pixel branch
        ng = [n for n in ast.walk(fn) if isinstance(n, ast.If) and ast.unparse(n.test).startswith('ngood')]
        ngt = one(ng, 'ngood test').test
        if not (isinstance(ngt, ast.Compare) and len(ngt.ops) == 1 and isinstance(ngt.comparators[0], ast.Constant)
                and type(ngt.ops[0]) in (ast.Eq, ast.LtE, ast.Lt)):
            raise Unrecognised('ngood test %s' % ast.unparse(ngt))
        nogood = {ast.Eq: '(ngood =? %d)%%nat', ast.LtE: '(ngood <=? %d)%%nat', ast.Lt: '(ngood <? %d)%%nat'}[type(ngt.ops[0])] \
            % int(ngt.comparators[0].value)
        # (b) `sset = None` when all coefficients vanish
        dead = [n for n in ast.walk(fn) if isinstance(n, ast.If) and 'sset.coeff' in ast.unparse(n.test)]
        deadt = ast.unparse(one(dead, 'coefficient test').test)
        if deadt != 'np.sum(np.absolute(sset.coeff)) == 0':
            raise Unrecognised('coefficient test %s' % deadt)
        # (c) the per-exposure range of the variance interpolation
        inb = ast.unparse(one(assigns(fn, 'inbetween'), 'inbetween'))
        mm = re.fullmatch(r'\((.+)\) & \((.+)\)', inb)
        if not mm:
            raise Unrecognised('inbetween = %s' % inb)
        parts = []
        for piece in mm.groups():
            node = ast.parse(piece, mode='eval').body
            node = subst_name(node, {'inloglam_r[these].min()': 'lo', 'inloglam_r[these].max()': 'hi', 'newloglam': 'p'})
            parts.append(cmp_term(node, {'lo': 'lo', 'hi': 'hi', 'p': 'p', 'EPS': 'c1f_EPS'}))
        inbetween = '%s && %s' % (parts[0], parts[1])
        acc = [n for n in ast.walk(fn) if isinstance(n, ast.AugAssign) and ast.unparse(n.target) == 'newivar[jnbetween]']
        acc = one(acc, 'newivar accumulation')
        if not (isinstance(acc.op, ast.Add) and ast.unparse(acc.value) == 'result * newmask[jnbetween]'):
            raise Unrecognised('newivar[jnbetween] %s' % ast.unparse(acc))
        interps = [ast.unparse(v) for v in assigns(fn, 'result') + assigns(fn, 'smask')]
        want = ['np.interp(newloglam[jnbetween], inloglam_r[these], objivar.ravel()[these] * fullcombmask[these])',
                'np.interp(newloglam[jnbetween], inloglam_r[these], fullcombmask[these].astype(inloglam.dtype))']
        if interps != want:
            raise Unrecognised('variance interpolation %s' % interps)
        # (d) running median of the weights for 2-D input
        med = [n for n in ast.walk(fn) if isinstance(n, ast.Call) and ast.unparse(n.func) == 'djs_median']
        med = one(med, 'djs_median call')
        kw = {k.arg: k.value for k in med.keywords}
        if not ('width' in kw and isinstance(kw['width'], ast.Constant) and isinstance(kw['width'].value, int)):
            raise Unrecognised('djs_median width')
        med_width = kw['width'].value
        stk = [n for n in ast.walk(fn) if isinstance(n, ast.If) and ast.unparse(n.test) == 'objivar is not None and objivar.ndim > 1']
        one(stk, 'stacked test (objivar.ndim > 1)')
        # (e) the two iterfit calls
        calls = [n for n in ast.walk(fn) if isinstance(n, ast.Call) and ast.unparse(n.func) == 'iterfit']
        if len(calls) != 2:
            raise Unrecognised('iterfit calls: %d' % len(calls))
        reqs = set()
        for cl in calls:
            kw = {k.arg: ast.unparse(k.value) for k in cl.keywords}
            if [ast.unparse(a) for a in cl.args] != ['inloglam_r[ss]', 'objflux.ravel()[ss]']:
                raise Unrecognised('iterfit arguments')
            iv = kw.pop('invvar', None)
            if iv not in (None, 'objivar.ravel()[ss]'):
                raise Unrecognised('iterfit invvar')
            if set(kw) != {'nord', 'groupbadpix', 'requiren', 'bkspace'} or kw['nord'] != 'nord' or kw['bkspace'] != 'bkptbin':
                raise Unrecognised('iterfit keywords %s' % kw)
            reqs.add(int(kw['requiren']))
        requiren = one(sorted(reqs), 'requiren')
        # (f) iterfit's own defaults (pydl/pydlutils/bspline.py)
        bsrc = open(os.path.join(repo, 'pydl', 'pydlutils', 'bspline.py')).read()
        itf = find_function(ast.parse(bsrc), 'iterfit')
        names = [a.arg for a in itf.args.args]
        defs = dict(zip(names[len(names) - len(itf.args.defaults):], itf.args.defaults))
        it_defaults = {}
        for nm in ('upper', 'lower', 'maxiter'):
            if not (nm in defs and isinstance(defs[nm], ast.Constant) and isinstance(defs[nm].value, int)):
                raise Unrecognised('iterfit default %s' % nm)
            it_defaults[nm] = defs[nm].value
        # (g) aesthetics(): early return, damping length and the two tapers
        afn = find_function(ast.parse(src), 'aesthetics')
        first_if = [n for n in afn.body if isinstance(n, ast.If)]
        if not (first_if and ast.unparse(first_if[0].test) == 'badpts.all()' and len(first_if[0].body) == 1
                and ast.unparse(first_if[0].body[0]) == 'return flux' and ast.unparse(one(assigns(afn, 'badpts'), 'badpts')) == 'invvar == 0'):
            raise Unrecognised('aesthetics early return')
        dl_ = one(assigns(afn, 'l'), 'damping length')
        if not (isinstance(dl_, ast.Constant) and isinstance(dl_.value, int)):
            raise Unrecognised('damping length')
        d1 = ast.unparse(one(assigns(afn, 'damp1'), 'damp1'))
        d2 = ast.unparse(one(assigns(afn, 'damp2'), 'damp2'))
        m1 = re.fullmatch(r'float\(min\((\w+), l\)\)', d1)
        # damp2: `float(min(maxgood, l))` (0.0 when only pixel 0 is good: NaN) or, with
        # fixes/C11-damp-only-first-pixel-good.diff, `float(max(min(maxgood, l), 1))`
        m2 = re.fullmatch(r'float\(min\((\w+), l\)\)', d2) or re.fullmatch(r'float\(max\(min\((\w+), l\), (\d+)\)\)', d2)
        if not (m1 and m2 and m1.group(1) == 'mingood' and m2.group(1) in ('maxgood',)):
            raise Unrecognised('damp1/damp2: %s ; %s' % (d1, d2))
        damp2_floor = int(m2.group(2)) if m2.re.groups == 2 else 0
        tap = [ast.unparse(n.value) for n in ast.walk(afn) if isinstance(n, ast.AugAssign) and ast.unparse(n.target) == 'newflux']
        if tap != ['0.5 * (1.0 + erf((pixels - mingood) / damp1))', '0.5 * (1.0 + erf((maxgood - pixels) / damp2))']:
            raise Unrecognised('tapers %s' % tap)
        tif = [ast.unparse(n.test) for n in ast.walk(afn) if isinstance(n, ast.If) and ('mingood' in ast.unparse(n.test) or 'maxgood' in ast.unparse(n.test))]
        if tif != ['mingood > 0', 'maxgood < nflux - 1']:
            raise Unrecognised('taper conditions %s' % tif)
        # (h) preprocess_spectra: the de-redshifting call
        psrc = open(os.path.join(repo, 'pydl', 'pydlspec2d', 'spec1d.py')).read()
        pfn = find_function(ast.parse(psrc), 'preprocess_spectra')
        pcalls = [n for n in ast.walk(pfn) if isinstance(n, ast.Call) and ast.unparse(n.func) == 'combine1fiber']
        pc = one(pcalls, 'combine1fiber call in preprocess_spectra')
        pargs = [ast.unparse(a) for a in pc.args]
        pkw = {k.arg: ast.unparse(k.value) for k in pc.keywords}
        if not (len(pc.args) == 3 and isinstance(pc.args[0], ast.BinOp) and ast.unparse(pc.args[0].left) == 'rowloglam'
                and ast.unparse(pc.args[0].right) == 'logshift[iobj]' and pargs[1:] == ['flux[iobj, indx]', 'fullloglam']
                and pkw.get('objivar') == 'ivar[iobj, indx]' and pkw.get('binsz') == 'dloglam' and pkw.get('aesthetics') == 'aesthetics'):
            raise Unrecognised('preprocess_spectra call %s %s' % (pargs, pkw))
        pp_shift = to_q(ast.BinOp(left=ast.Name(id='L', ctx=ast.Load()), op=pc.args[0].op, right=ast.Name(id='s', ctx=ast.Load())),
                        {'L': 'L', 's': 's'})
        lsh = [ast.unparse(v) for v in assigns(pfn, 'logshift')]
        if lsh != ['np.zeros((nobj,), dtype=flux.dtype)', 'np.log10(1.0 + zfit)']:
            raise Unrecognised('logshift %s' % lsh)
        dlg = [ast.unparse(v) for v in assigns(pfn, 'dloglam')]
        if dlg != ['loglam[1] - loglam[0]', 'fullloglam[1] - fullloglam[0]']:
            raise Unrecognised('dloglam %s' % dlg)
        keep = [v for v in assigns(pfn, 'indx')]
        if [ast.unparse(v) for v in keep] != ['loglam > 0', 'loglam[iobj, :] > 0']:
            raise Unrecognised('indx %s' % [ast.unparse(v) for v in keep])
    except (Unrecognised, SyntaxError, OSError, KeyError, ValueError) as e:
        info['error'] = '%s: %s' % (type(e).__name__, e)
        return None, info
    text = '''(* GENERATED by translate/c11.py from pydl/pydlspec2d/spec2d.py (combine1fiber) -- do not edit.
   The threshold / index arithmetic of combine1fiber as Gallina definitions over Q and nat. *)
From Coq Require Import QArith Qabs List Bool Arith.
From PV Require Import BSpline.Eval.
Open Scope Q_scope.

Definition c1f_EPS : Q := %(eps)s.                      (* %(eps_src)s *)
Definition c1f_nord : nat := %(nord)d%%nat.
Definition c1f_maxsep_factor : Q := %(maxsep)s.          (* maxsep = factor * binsz *)
Definition c1f_bkptbin_factor : Q := %(bkpt)s.           (* bkptbin = factor * binsz *)
Definition c1f_pad_lo : Q := %(pad_lo)s.                 (* padwave[0] = min - c * maxsep *)
Definition c1f_pad_hi : Q := %(pad_hi)s.
(* a group boundary lies between consecutive sorted good pixels whose difference d satisfies: *)
Definition c1f_gap (maxsep d : Q) : bool := %(gap)s.
Definition c1f_slice_extra : nat := %(slice_extra)d%%nat.   (* ss = isort[ig1:ig2+extra] *)
Definition c1f_min_group : nat := %(min_group)d%%nat.       (* a group is fitted iff ss.size > min_group *)
Definition c1f_inside (lo hi p : Q) : bool := %(inside)s.
Definition c1f_smask_ok (m : Q) : bool := %(smask)s.
Definition c1f_smooth_width : nat := %(width)d%%nat.
Definition c1f_bad (f : Q) : bool := %(bad)s.
Definition c1f_grow_lo (i : nat) : nat := (i - %(glo)d)%%nat.                    (* np.where(ibad-c < 0, 0, ibad-c) *)
Definition c1f_grow_hi (n i : nat) : nat := Nat.min (i + %(ghi)d) (n - 1).       (* np.where(ibad+c > n-1, n-1, ibad+c) *)
(* ---- round 5 *)
Definition c1f_no_good (ngood : nat) : bool := %(nogood)s.               (* if ngood == 0: return zeros *)
(* `if np.sum(np.absolute(sset.coeff)) == 0: sset = None` *)
Definition c1f_coeff_dead (c : list Q) : bool := Qeq_bool (fold_right (fun a acc => Qabs a + acc) 0 c) 0.
Definition c1f_inbetween (lo hi p : Q) : bool := %(inbetween)s.          (* per exposure: no EPS here *)
Definition c1f_median_width : nat := %(med_width)d%%nat.                  (* djs_median(..., width=) when objivar.ndim > 1 *)
Definition c1f_requiren : nat := %(requiren)d%%nat.                       (* iterfit(..., requiren=, bkspace=bkptbin, nord=nord) *)
Definition c1f_iterfit_upper : Q := %(it_upper)s.                         (* defaults of iterfit() in bspline.py *)
Definition c1f_iterfit_lower : Q := %(it_lower)s.
Definition c1f_iterfit_maxiter : nat := %(it_maxiter)d%%nat.
Definition c1f_damp_len : nat := %(damp_len)d%%nat.                       (* aesthetics(): l, damp1 = min(mingood, l), damp2 = min(maxgood, l) *)
Definition c1f_damp2_floor : nat := %(damp2_floor)d%%nat.                 (* damp2 = max(min(maxgood, l), floor); 0 = no max() in the source *)
Definition c1f_taper1_on (mingood : nat) : bool := (0 <? mingood)%%nat.              (* if mingood > 0 *)
Definition c1f_taper2_on (maxgood nflux : nat) : bool := (maxgood <? nflux - 1)%%nat.  (* if maxgood < nflux - 1 *)
(* preprocess_spectra: combine1fiber(rowloglam - logshift[iobj], ..., binsz=fullloglam[1]-fullloglam[0]) *)
Definition pp_shift (L s : Q) : Q := %(pp_shift)s.
''' % {'nogood': nogood, 'inbetween': inbetween, 'med_width': med_width, 'requiren': requiren,
       'it_upper': qlit(it_defaults['upper']), 'it_lower': qlit(it_defaults['lower']), 'it_maxiter': it_defaults['maxiter'],
       'damp_len': dl_.value, 'damp2_floor': damp2_floor, 'pp_shift': pp_shift,'eps': qlit(EPS), 'eps_src': eps, 'nord': nord, 'maxsep': qlit(maxsep_f), 'bkpt': qlit(bkpt_f),
       'pad_lo': qlit(pad_lo), 'pad_hi': qlit(pad_hi), 'gap': cmps['ig1'], 'slice_extra': slice_extra,
       'min_group': min_group, 'inside': inside, 'smask': smask, 'width': width, 'bad': badt, 'glo': glo, 'ghi': ghi}
    info.update({'recognised': True, 'EPS': str(EPS), 'nord': nord, 'maxsep_factor': str(maxsep_f), 'bkptbin_factor': str(bkpt_f),
                 'gap': cmps['ig1'], 'min_group': min_group, 'slice_extra': slice_extra, 'grow': [glo, ghi], 'smooth_width': width,
                 'round5': {'no_good': nogood, 'inbetween': inbetween, 'median_width': med_width, 'requiren': requiren,
                            'iterfit_defaults': it_defaults, 'damp_len': dl_.value, 'damp2_floor': damp2_floor, 'pp_shift': pp_shift}})
    return text, info


if __name__ == '__main__':
    import sys
    t, i = generate(sys.argv[1] if len(sys.argv) > 1 else '/repo')
    print(i)
    print(t)
