(* C13: func_fit_ref in terms of the FULL coefficient vector: among all coefficient vectors that carry the prescribed
   values at the fixed positions, the returned one minimises the weighted chi-square of the data themselves. *)
From Coq Require Import QArith Qabs Lqa List Bool Lia ZArith.
From PV Require Import Lib.WLS C13.LinAlg C13.LinAlgProofs C13.Model C13.FitProofs.
Import ListNotations.
Open Scope Q_scope.

(* c agrees with ans (missing entries = 0) wherever the mask says "fixed" *)
Fixpoint fixed_agree (mask : list bool) (c ans : vec) : Prop :=
  match mask, c with
  | [], _ => True
  | b :: mask', x :: c' => (if b then True else x == hd 0 ans) /\ fixed_agree mask' c' (tl ans)
  | _ :: _, [] => False
  end.

Lemma fixed_part_cons a ans b mask : fixed_part (a :: ans) (b :: mask) = (if b then 0 else a) :: fixed_part ans mask.
Proof. reflexivity. Qed.

Lemma select_cons {A : Type} b mask (x : A) l :
  select (b :: mask) (x :: l) = if b then x :: select mask l else select mask l.
Proof. unfold select. simpl. destruct b; reflexivity. Qed.

(* splitting a dot product into its free and fixed parts *)
Lemma dot_split mask : forall r c ans, length r = length mask -> fixed_agree mask c ans ->
  dot r c == dot (select mask r) (select mask c) + dot r (fixed_part ans mask).
Proof.
  induction mask as [|b mask IH]; intros r c ans Lr Hc.
  - destruct r; [|discriminate]. simpl. ring.
  - destruct r as [|x r]; [discriminate|]. destruct c as [|y c]; [destruct Hc|]. destruct Hc as [Hb Hc].
    rewrite !select_cons. simpl in Lr.
    destruct ans as [|a ans].
    + simpl in Hb, Hc. specialize (IH r c [] ltac:(lia) Hc).
      assert (Z : dot r (fixed_part [] mask) == 0) by (unfold fixed_part; simpl; rewrite dot_nil_r; reflexivity).
      assert (Z2 : dot (x :: r) (fixed_part [] (b :: mask)) == 0) by reflexivity.
      rewrite Z2. rewrite Z in IH. destruct b; simpl; rewrite IH; [ring | rewrite Hb; ring].
    + simpl in Hb, Hc. specialize (IH r c ans ltac:(lia) Hc). rewrite fixed_part_cons.
      destruct b; simpl; rewrite IH; [ring | rewrite Hb; ring].
Qed.

Lemma scatter_shift mask : forall i free a ans, scatter (S i) mask free (a :: ans) = scatter i mask free ans.
Proof.
  induction mask as [|b mask IH]; intros i free a ans; simpl; [reflexivity|].
  destruct b; [destruct free|]; simpl; rewrite IH; reflexivity.
Qed.

Lemma scatter_nil_ans mask : forall i free, scatter i mask free [] = scatter 0 mask free [].
Proof.
  induction mask as [|b mask IH]; intros i free; simpl; [reflexivity|].
  destruct b; [destruct free|]; simpl.
  - rewrite (IH (S i)), (IH 1%nat). reflexivity.
  - rewrite (IH (S i)), (IH 1%nat). reflexivity.
  - rewrite (IH (S i)), (IH 1%nat). destruct i; reflexivity.
Qed.

Lemma scatter_agree mask : forall free ans, fixed_agree mask (scatter 0 mask free ans) ans.
Proof.
  induction mask as [|b mask IH]; intros free ans; simpl; [exact I|].
  destruct b.
  - destruct free as [|s free]; simpl; (split; [exact I|]);
      (destruct ans as [|a ans]; [rewrite scatter_nil_ans | rewrite scatter_shift]; apply IH).
  - simpl. split; [destruct ans; reflexivity|].
    destruct ans as [|a ans]; [rewrite scatter_nil_ans | rewrite scatter_shift]; apply IH.
Qed.

Lemma select_scatter mask : forall free ans, length free = count_true mask -> select mask (scatter 0 mask free ans) = free.
Proof.
  induction mask as [|b mask IH]; intros free ans L.
  - destruct free; [reflexivity | discriminate].
  - destruct b.
    + destruct free as [|s free]; [discriminate|]. simpl scatter. rewrite select_cons. f_equal.
      destruct ans as [|a ans]; [rewrite scatter_nil_ans | rewrite scatter_shift]; apply IH;
        unfold count_true in *; simpl in L; lia.
    + simpl scatter. rewrite select_cons.
      destruct ans as [|a ans]; [rewrite scatter_nil_ans | rewrite scatter_shift]; apply IH;
        unfold count_true in *; simpl in L; lia.
Qed.

(* chi2 of the full problem at c = chi2 of the free sub-problem at the free part of c *)
Lemma chi2_full_sub mask fixv : forall rows w y c,
  Forall (fun r => dot r c == dot (select mask r) (select mask c) + dot r fixv) rows ->
  chi2 (combine (combine rows w) y) c == chi2 (free_problem rows w y mask fixv) (select mask c).
Proof.
  unfold free_problem. induction rows as [|r rows IH]; intros [|v w] [|yi y] c H; simpl; try reflexivity.
  inversion H; subst. rewrite IH by assumption. rewrite H2. ring.
Qed.

Lemma rows_dot_split mask ans ncfit rows c : rows_len ncfit rows -> length mask = ncfit -> fixed_agree mask c ans ->
  Forall (fun r => dot r c == dot (select mask r) (select mask c) + dot r (fixed_part ans mask)) rows.
Proof.
  intros Hr Lm Hc. unfold rows_len in Hr. rewrite Forall_forall in *. intros r Hin.
  apply dot_split; [rewrite (Hr r Hin); auto | exact Hc].
Qed.

Lemma fixed_agree_length mask : forall c ans, fixed_agree mask c ans -> (length mask <= length c)%nat.
Proof.
  induction mask as [|b mask IH]; intros c ans H; simpl; [lia|].
  destruct c as [|x c]; [destruct H|]. destruct H as [_ H]. simpl. specialize (IH c _ H). lia.
Qed.

(* dot with the fixed part only looks at the first (length r) entries of ia *)
Lemma dot_fixed_part_firstn r : forall ans ia, dot r (fixed_part ans ia) == dot r (fixed_part ans (firstn (length r) ia)).
Proof.
  induction r as [|x r IH]; intros ans ia; [reflexivity|].
  destruct ans as [|a ans]; [reflexivity|]. destruct ia as [|b ia]; [reflexivity|].
  simpl firstn. rewrite !fixed_part_cons. simpl. rewrite IH. reflexivity.
Qed.

(* func_fit_optimal, full form *)
Theorem func_fit_optimal_full f x y w ncoeff ia ans ifunc res yfit :
  func_fit_ref f x y w ncoeff ia ans ifunc = Some (res, yfit) -> (2 <= ngood_of y w)%nat ->
  (ncoeff <= length ia)%nat -> Forall (fun v => 0 <= v) w ->
  let ncfit := Nat.min (ngood_of y w) ncoeff in
  let rows := scale_rows ifunc (map (basis_row f ncfit) x) in
  let iaf := firstn ncfit ia in
  let D := combine (combine rows w) y in
  exists resf, res = resf ++ zeros (ncoeff - ncfit) /\ length resf = ncfit /\ fixed_agree iaf resf ans /\
    yfit = map (fun r => dot r resf) rows /\
    forall c, length c = ncfit -> fixed_agree iaf c ans -> chi2 D resf <= chi2 D c.
Proof.
  intros H Hg Hia Hw ncfit rows iaf D.
  destruct (func_fit_optimal _ _ _ _ _ _ _ _ _ _ H Hg Hia Hw) as [sol [E1 [E2 [L O]]]].
  fold ncfit in E1, E2, L, O. fold rows in E2, O. fold iaf in E1, E2, L, O.
  assert (Liaf : length iaf = ncfit) by (apply firstn_length_le; unfold ncfit; lia).
  assert (Hrows : rows_len ncfit rows) by (apply rows_len_scale, rows_len_basis).
  exists (scatter 0 iaf sol ans). split; [exact E1|]. split; [rewrite scatter_length; exact Liaf|].
  split; [apply scatter_agree|]. split; [exact E2|].
  intros c Lc Hc.
  assert (S1 : Forall (fun r => dot r (scatter 0 iaf sol ans) == dot (select iaf r) (select iaf (scatter 0 iaf sol ans)) + dot r (fixed_part ans ia)) rows).
  { pose proof (rows_dot_split iaf ans ncfit rows _ Hrows Liaf (scatter_agree iaf sol ans)) as S0.
    unfold rows_len in Hrows. rewrite Forall_forall in *. intros r Hin. rewrite (S0 r Hin).
    rewrite (dot_fixed_part_firstn r ans ia). rewrite (Hrows r Hin). reflexivity. }
  assert (S2 : Forall (fun r => dot r c == dot (select iaf r) (select iaf c) + dot r (fixed_part ans ia)) rows).
  { pose proof (rows_dot_split iaf ans ncfit rows c Hrows Liaf Hc) as S0.
    unfold rows_len in Hrows. rewrite Forall_forall in *. intros r Hin. rewrite (S0 r Hin).
    rewrite (dot_fixed_part_firstn r ans ia). rewrite (Hrows r Hin). reflexivity. }
  unfold D. rewrite (chi2_full_sub iaf (fixed_part ans ia) rows w y _ S1).
  rewrite (chi2_full_sub iaf (fixed_part ans ia) rows w y c S2).
  rewrite (select_scatter iaf sol ans L). apply O.
  apply select_length. congruence.
Qed.
