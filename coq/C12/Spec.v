(* C12 -- Mangle window functions decide point membership exactly as the caps define.
   SPECIFICATION side (hand-written, independent of Generated/ and of the algorithmic model M):
   caps, points, polygons; the algebraic cap test the property states; spec_in_polygon, first_match /
   spec_window, the greedy description `kept` of set_use_caps with its certified checker, spec_balkans_ok.
   Caps are (x : Q^3, cm : Q), points are Q^3: the harness passes the exact rational value of every
   double the implementation holds, so the dot product here is the exact one. *)
From Coq Require Import ZArith QArith Qabs List Bool.
Import ListNotations.
Open Scope Z_scope.

(* ------------------------------------------------------------------ caps and points *)

Definition vec := (Q * Q * Q)%type.

Definition dot (a b : vec) : Q :=
  let '(a0, a1, a2) := a in let '(b0, b1, b2) := b in (a0 * b0 + a1 * b1 + a2 * b2)%Q.

Record cap := mkcap { cx : vec; ccm : Q }.

(* literals used by the generated case files: the double m * 2^-e, and a vector of three of them *)
Definition qd (m e : Z) : Q := Qmake m (Z.to_pos (2 ^ e)).
Definition v3 (m0 e0 m1 e1 m2 e2 : Z) : vec := (qd m0 e0, qd m1 e1, qd m2 e2).

Definition Qlt_bool (a b : Q) : bool := negb (Qle_bool b a).

(* is_in_cap: cap_distance(x, cm, p) >= 0.
   cm >= 0 : arccos(1-cm) - arccos(d) >= 0   <->  1 - d <= cm
   cm <  0 : -(arccos(1+cm) - arccos(d)) >= 0 <-> 1 - d >= -cm     (boundary counted inside: code's convention) *)
Definition in_cap (c : cap) (p : vec) : bool :=
  let omd := (1 - dot (cx c) p)%Q in
  if Qlt_bool (ccm c) 0 then Qle_bool (- ccm c) omd else Qle_bool omd (ccm c).

(* the strict complement of the cap (x, |cm|), as the property words it for cm < 0 *)
Definition in_cap_strict (c : cap) (p : vec) : bool :=
  let omd := (1 - dot (cx c) p)%Q in
  if Qlt_bool (ccm c) 0 then negb (Qle_bool omd (- ccm c)) else Qle_bool omd (ccm c).

Definition on_boundary (c : cap) (p : vec) : bool :=
  Qeq_bool (1 - dot (cx c) p)%Q (Qabs (ccm c)).

(* ------------------------------------------------------------------ polygons *)

(* pn = the polygon's NCAPS/ncaps field; pcaps may be longer (FITS rows are padded to the table's
   maximum cap count) *)
Record polygon := mkpoly { pn : nat; puse : Z; pcaps : list cap }.

(* how many leading caps are looked at: all NCAPS of them, or min(ncaps, NCAPS) when ncaps > 0 *)
Definition spec_usencaps (P : polygon) (ncaps : Z) : nat :=
  if 0 <? ncaps then Nat.min (Z.to_nat ncaps) (pn P) else pn P.

(* S: every cap among the first n whose use-mask bit is set contains the point *)
Fixpoint all_used_from (i : nat) (use : Z) (cs : list cap) (p : vec) : bool :=
  match cs with
  | [] => true
  | c :: cs' => (if Z.testbit use (Z.of_nat i) then in_cap c p else true) && all_used_from (S i) use cs' p
  end.

Definition spec_in_polygon (P : polygon) (ncaps : Z) (p : vec) : bool :=
  all_used_from 0 (puse P) (firstn (spec_usencaps P ncaps) (pcaps P)) p.

(* ------------------------------------------------------------------ window lookup *)

(* S: index of the first polygon in list order containing the point *)
Fixpoint first_match_from (k : nat) (Ps : list polygon) (ncaps : Z) (p : vec) : option nat :=
  match Ps with
  | [] => None
  | P :: Ps' => if spec_in_polygon P ncaps p then Some k else first_match_from (S k) Ps' ncaps p
  end.

Definition first_match := first_match_from 0.

Definition spec_window (Ps : list polygon) (ncaps : Z) (pts : list vec) : list (bool * Z) :=
  map (fun p => match first_match Ps ncaps p with
                | Some k => (true, Z.of_nat k)
                | None => (false, -1)
                end) pts.

(* ------------------------------------------------------------------ set_use_caps *)

Record suc_opts := mkopts { o_add : bool; o_tol : Q; o_allow_doubles : bool; o_allow_neg_doubles : bool }.

Definition default_opts : suc_opts := mkopts false (1 # 10000000000) false false.

Definition dist2 (a b : vec) : Q :=
  let '(a0, a1, a2) := a in let '(b0, b1, b2) := b in
  ((a0 - b0) * (a0 - b0) + (a1 - b1) * (a1 - b1) + (a2 - b2) * (a2 - b2))%Q.

(* two caps count as doubles: same centre within tol and (same cm within tol, or -- unless
   allow_neg_doubles -- cm of opposite sign and equal size within tol) *)
Definition spec_same_cap (tol : Q) (allow_neg : bool) (a b : cap) : bool :=
  Qlt_bool (dist2 (cx a) (cx b)) (tol * tol)%Q
  && (Qlt_bool (Qabs (ccm a - ccm b)) tol
      || (Qlt_bool (Qabs (ccm a + ccm b)) tol && negb allow_neg)).

Definition spec_dup_at (tol : Q) (allow_neg : bool) (caps : list cap) (i j : nat) : bool :=
  match nth_error caps i, nth_error caps j with
  | Some a, Some b => spec_same_cap tol allow_neg a b
  | _, _ => false
  end.

(* S: which bits the result must have.
   sel b  : bit b is selected (already set with add=True, or b occurs in the index list);
   kept j : j is selected and no kept i < j is a double of j (caps are visited in index order and a
            removed cap no longer removes others) *)
Fixpoint keptf (dup : nat -> nat -> bool) (sel : nat -> bool) (fuel j : nat) : bool :=
  match fuel with
  | O => false
  | S f => sel j && forallb (fun i => negb (keptf dup sel f i && dup i j)) (seq 0 j)
  end.

Definition kept (dup : nat -> nat -> bool) (sel : nat -> bool) (j : nat) : bool := keptf dup sel (S j) j.

Definition selected (u0 : Z) (idx : list Z) (b : nat) : bool :=
  Z.testbit u0 (Z.of_nat b) || existsb (fun i => i =? Z.of_nat b) idx.

Definition spec_bit (P : polygon) (idx : list Z) (o : suc_opts) (b : nat) : bool :=
  let sel := selected (if o_add o then puse P else 0) idx in
  if o_allow_doubles o then sel b
  else if (b <? pn P)%nat then kept (spec_dup_at (o_tol o) (o_allow_neg_doubles o) (pcaps P)) sel b
       else sel b.

(* certified checker: r is the number whose bits below `width` are spec_bit and which has no others *)
Definition spec_set_use_caps_ok (P : polygon) (idx : list Z) (o : suc_opts) (width : nat) (r : Z) : bool :=
  (0 <=? r) && (r <? 2 ^ Z.of_nat width)
  && forallb (fun b => Bool.eqb (Z.testbit r (Z.of_nat b)) (spec_bit P idx o b)) (seq 0 width).

(* ------------------------------------------------------------------ comparison helpers, balkans *)


Definition eqb_listb (a b : list bool) : bool :=
  Nat.eqb (length a) (length b) && forallb (fun p : bool * bool => Bool.eqb (fst p) (snd p)) (combine a b).

Definition eqb_listZ (a b : list Z) : bool :=
  Nat.eqb (length a) (length b) && forallb (fun p : Z * Z => fst p =? snd p) (combine a b).

Definition eqb_vec (a b : vec) : bool :=
  let '(a0, a1, a2) := a in let '(b0, b1, b2) := b in Qeq_bool a0 b0 && Qeq_bool a1 b1 && Qeq_bool a2 b2.

Definition eqb_cap (a b : cap) : bool := eqb_vec (cx a) (cx b) && Qeq_bool (ccm a) (ccm b).

Fixpoint eqb_caps (a b : list cap) : bool :=
  match a, b with
  | [], [] => true
  | x :: a', y :: b' => eqb_cap x y && eqb_caps a' b'
  | _, _ => false
  end.

(* two polygons agree on what is_in_polygon can see: NCAPS, USE_CAPS and the first NCAPS caps *)
Definition eqb_poly (a b : polygon) : bool :=
  Nat.eqb (pn a) (pn b) && (puse a =? puse b)
  && eqb_caps (firstn (pn a) (pcaps a)) (firstn (pn b) (pcaps b)).

Fixpoint eqb_polys (a b : list polygon) : bool :=
  match a, b with
  | [], [] => true
  | x :: a', y :: b' => eqb_poly x y && eqb_polys a' b'
  | _, _ => false
  end.

(* specification for the balkans: polygon k holds caps ICAP_k .. ICAP_k+NCAPS_k-1 in order and uses all *)
Definition spec_balkans_ok (bcaps : list cap) (blist : list (nat * nat)) (got : list polygon) : bool :=
  Nat.eqb (length blist) (length got)
  && forallb (fun rg : (nat * nat) * polygon =>
                let '((icap, n), g) := rg in
                Nat.eqb (pn g) n
                && forallb (fun i => Bool.eqb (Z.testbit (puse g) (Z.of_nat i)) (i <? n)%nat) (seq 0 32)
                && forallb (fun i => match nth_error (pcaps g) i, nth_error bcaps (icap + i) with
                                     | Some a, Some b => eqb_cap a b
                                     | _, _ => false
                                     end) (seq 0 n))
             (combine blist got).
