(* C17: skymask.  smooth(badmask*width, width, edge_truncate) > 0 is dilation by ngrow; the flag test
   on the uint64-cast mask is the test on the stored integer value. *)
From Coq Require Import ZArith QArith List Bool Lia.
Import ListNotations.
From PV Require Import Generated.SkyMask C17.Model C17.ProofsDilate.
Ltac Zify.zify_post_hook ::= Z.to_euclidean_division_equations.
Open Scope Z_scope.

(* ---------------------------------------------------------------- slices *)

Lemma nth_error_skipn_add : forall {A} b (l : list A) j, nth_error (skipn b l) j = nth_error l (b + j)%nat.
Proof.
  induction b as [|b IH]; intros l j; [reflexivity|].
  destruct l as [|a l]; cbn; [destruct j; reflexivity | apply IH].
Qed.

Lemma In_firstn_true : forall a (l : list bool),
  In true (firstn a l) <-> exists j, (j < a)%nat /\ nth_error l j = Some true.
Proof.
  induction a as [|a IH]; intros l; cbn.
  - split; [tauto | intros (j & H & _); lia].
  - destruct l as [|b l]; cbn.
    + split; [tauto | intros (j & _ & H); destruct j; discriminate].
    + rewrite IH. split.
      * intros [H|(j & H1 & H2)]; [exists O; subst; split; [lia | reflexivity] | exists (S j); split; [lia | exact H2]].
      * intros ([|j] & H1 & H2); [left; cbn in H2; congruence | right; exists j; split; [lia | exact H2]].
Qed.

Lemma In_slice_true : forall (l : list bool) a b,
  In true (firstn a (skipn b l)) <-> exists j, (b <= j < b + a)%nat /\ nth_error l j = Some true.
Proof.
  intros. rewrite In_firstn_true. split.
  - intros (j & H1 & H2). rewrite nth_error_skipn_add in H2. exists (b + j)%nat. split; [lia | exact H2].
  - intros (j & H1 & H2). exists (j - b)%nat. rewrite nth_error_skipn_add.
    replace (b + (j - b))%nat with j by lia. split; [lia | exact H2].
Qed.

Lemma In_skipn_sub : forall {A} n (l : list A) x, In x (skipn n l) -> In x l.
Proof. intros A n l x H. rewrite <- (firstn_skipn n l). apply in_or_app. right. exact H. Qed.

Lemma firstn_In : forall {A} n (l : list A) x, In x (firstn n l) -> In x l.
Proof. intros A n l x H. rewrite <- (firstn_skipn n l). apply in_or_app. left. exact H. Qed.

Definition lift (w : Z) (b : bool) : Z := if b then w else 0.

Lemma In_lift : forall w (l : list bool), w <> 0 -> (In w (map (lift w) l) <-> In true l).
Proof.
  intros w l Hw. rewrite in_map_iff. split.
  - intros ([|] & H1 & H2); [exact H2 | cbn in H1; congruence].
  - intros H. exists true. split; [reflexivity | exact H].
Qed.

Lemma lift_01 : forall w (l : list bool) x, In x (map (lift w) l) -> x = 0 \/ x = w.
Proof. intros w l x H. apply in_map_iff in H as ([|] & H & _); cbn in H; auto. Qed.

Lemma zsum_01 : forall w l, 0 < w -> (forall x, In x l -> x = 0 \/ x = w) ->
  (In w l /\ w <= zsum l) \/ (~ In w l /\ zsum l = 0).
Proof.
  intros w l Hw. induction l as [|a l IH]; intros H.
  - right. cbn. tauto.
  - change (zsum (a :: l)) with (a + zsum l).
    destruct (IH (fun x Hx => H x (or_intror Hx))) as [[I S]|[I S]];
      destruct (H a (or_introl eq_refl)) as [E|E]; subst a.
    + left. split; [cbn; tauto | lia].
    + left. split; [cbn; tauto | lia].
    + right. split; [intros [F|F]; [lia | tauto] | lia].
    + left. split; [cbn; tauto | lia].
Qed.

Lemma window_pos : forall w l c x0, 0 < w -> (forall x, In x l -> x = 0 \/ x = w) -> 0 <= c ->
  (x0 = 0 \/ In x0 l) ->
  ((0 <? Z.quot (zsum l + c * x0) w) = true <-> In w l).
Proof.
  intros w l c x0 Hw H01 Hc Hx. rewrite Z.ltb_lt.
  destruct (zsum_01 w l Hw H01) as [[I S]|[I S]].
  - split; [intros _; exact I|]. intros _.
    assert (0 <= c * x0) by (destruct Hx as [->|Hx]; [lia | destruct (H01 _ Hx) as [->| ->]; nia]).
    apply Z.quot_str_pos. lia.
  - assert (x0 = 0) as -> by (destruct Hx as [->|Hx]; [reflexivity | destruct (H01 _ Hx) as [->| ->]; tauto]).
    rewrite S. replace (0 + c * 0) with 0 by lia. rewrite Z.quot_0_l by lia. split; [lia | tauto].
Qed.

Lemma zrange_nth_error : forall lo n i, (i < n)%nat -> nth_error (zrange lo n) i = Some (lo + Z.of_nat i).
Proof.
  intros. unfold zrange. rewrite nth_error_map, nth_error_nth' with (d := O) by (rewrite seq_length; lia).
  rewrite seq_nth by lia. reflexivity.
Qed.

Lemma zrange_length : forall lo n, length (zrange lo n) = n.
Proof. intros. unfold zrange. rewrite map_length, seq_length. reflexivity. Qed.

(* canonical forms (what the generated pieces of skymask must amount to):
   smooth(signal, width, edge_truncate=True) for an odd width >= 3 on an integer array ... *)
Definition smooth_trunc (sig : list Z) (width : Z) : list Z :=
  let n := Z.of_nat (length sig) in
  let istart := (width - 1) / 2 in
  let iend := n - (width + 1) / 2 in
  let w2 := width / 2 in
  map (fun i =>
         if i <? istart then
           Z.quot (zsum (firstn (Z.to_nat (istart + i + 1)) sig) + (istart - i) * nth 0 sig 0) width
         else if iend <? i then
           Z.quot (zsum (skipn (Z.to_nat (i - istart)) sig) + (i - iend) * nth (length sig - 1) sig 0) width
         else
           Z.quot (zsum (firstn (Z.to_nat (2 * w2 + 1)) (skipn (Z.to_nat (i - w2)) sig))) width)
      (zrange 0 (length sig)).
(* ... and (ormask.astype(uint64) & flag) != 0 *)
Definition flag_test_u64 (flag m : Z) : bool := negb (Z.land (m mod 2 ^ 64) flag =? 0).

(* ---------------------------------------------------------------- smooth(edge_truncate) > 0 = dilation *)

Lemma smooth_dilate : forall (bad : list bool) (g i : nat), (1 <= g)%nat -> (i < length bad)%nat ->
  let w := 2 * Z.of_nat g + 1 in
  nth_error (map (fun v => 0 <? v) (smooth_trunc (map (lift w) bad) w)) i = Some (dil_at bad g i).
Proof.
  intros bad g i Hg Hi w.
  assert (Hw : 0 < w) by lia.
  unfold smooth_trunc. rewrite !nth_error_map, map_length.
  rewrite zrange_nth_error by lia. cbn [option_map]. f_equal.
  replace ((w - 1) / 2) with (Z.of_nat g) by lia.
  replace ((w + 1) / 2) with (Z.of_nat g + 1) by lia.
  replace (w / 2) with (Z.of_nat g) by lia.
  replace (0 + Z.of_nat i) with (Z.of_nat i) by lia.
  apply eq_true_iff_eq. rewrite dil_at_spec.
  set (sig := map (lift w) bad).
  assert (H01 : forall l', (forall x, In x l' -> In x sig) -> forall x, In x l' -> x = 0 \/ x = w)
    by (intros l' Hs x Hx; apply (lift_01 w bad), Hs, Hx).
  destruct (Z.of_nat i <? Z.of_nat g) eqn:E1; [|destruct (Z.of_nat (length bad) - (Z.of_nat g + 1) <? Z.of_nat i) eqn:E2].
  - apply Z.ltb_lt in E1.
    rewrite window_pos; [| lia | apply H01; intros x Hx; eapply firstn_In, Hx (* slice of sig *) | lia |].
    + unfold sig. rewrite firstn_map, In_lift by lia.
      rewrite <- (skipn_O bad) at 1. rewrite In_slice_true. split.
      * intros (j & H1 & H2). exists j. split; [lia | exact H2].
      * intros (j & H1 & H2). exists j. split; [lia | exact H2].
    + right. unfold sig. destruct bad as [|b bad]; [cbn in Hi; lia|].
      replace (Z.to_nat (Z.of_nat g + Z.of_nat i + 1)) with (S (g + i)) by lia. cbn. left. reflexivity.
  - apply Z.ltb_ge in E1. apply Z.ltb_lt in E2.
    rewrite window_pos; [| lia | apply H01; intros x Hx; eapply In_skipn_sub, Hx | lia |].
    + unfold sig. rewrite skipn_map, In_lift by lia.
      rewrite <- (firstn_all (skipn _ bad)), skipn_length, In_slice_true. split.
      * intros (j & H1 & H2). exists j. split; [lia | exact H2].
      * intros (j & H1 & H2). exists j. split; [|exact H2].
        assert (j < length bad)%nat by (apply nth_error_Some; congruence). lia.
    + right. unfold sig.
      (* the last element lies in every suffix that starts at or before it *)
      apply nth_error_In with (n := (length bad - 1 - Z.to_nat (Z.of_nat i - Z.of_nat g))%nat).
      rewrite nth_error_skipn_add.
      replace (Z.to_nat (Z.of_nat i - Z.of_nat g) + (length bad - 1 - Z.to_nat (Z.of_nat i - Z.of_nat g)))%nat
        with (length bad - 1)%nat by lia.
      apply nth_error_nth'. rewrite map_length. lia.
  - apply Z.ltb_ge in E1. apply Z.ltb_ge in E2.
    replace (zsum (firstn (Z.to_nat (2 * Z.of_nat g + 1)) (skipn (Z.to_nat (Z.of_nat i - Z.of_nat g)) sig)))
      with (zsum (firstn (Z.to_nat (2 * Z.of_nat g + 1)) (skipn (Z.to_nat (Z.of_nat i - Z.of_nat g)) sig)) + 0 * 0) by lia.
    rewrite window_pos; [| lia | apply H01; intros x Hx; eapply In_skipn_sub, firstn_In, Hx | lia | left; reflexivity].
    unfold sig. rewrite skipn_map, firstn_map, In_lift by lia.
    rewrite In_slice_true. split.
    + intros (j & H1 & H2). exists j. split; [lia | exact H2].
    + intros (j & H1 & H2). exists j. split; [lia | exact H2].
Qed.

(* ---------------------------------------------------------------- flag test *)

Lemma land_mod64 : forall f m, 0 <= f < 2 ^ 64 -> Z.land (m mod 2 ^ 64) f = Z.land m f.
Proof.
  intros f m Hf. rewrite <- Z.land_ones by lia. rewrite <- Z.land_assoc. f_equal.
  rewrite Z.land_comm, Z.land_ones by lia. apply Z.mod_small. exact Hf.
Qed.

Lemma flag_test_u64_ok : forall f m, 0 <= f < 2 ^ 64 -> flag_test_u64 f m = negb (Z.land m f =? 0).
Proof. intros. unfold flag_test_u64. rewrite land_mod64 by assumption. reflexivity. Qed.

(* a flag value 2^b tests bit b of the two's complement value ... *)
Lemma land_pow2_testbit : forall m b, 0 <= b -> (Z.land m (2 ^ b) <> 0 <-> Z.testbit m b = true).
Proof.
  intros m b Hb. split.
  - intros H. destruct (Z.testbit m b) eqn:E; [reflexivity|]. exfalso. apply H.
    apply Z.bits_inj'. intros n Hn. rewrite Z.land_spec, Z.bits_0, Z.pow2_bits_eqb by lia.
    destruct (Z.eqb_spec b n); [subst; rewrite E; reflexivity | apply andb_false_r].
  - intros H E. pose proof (f_equal (fun z => Z.testbit z b) E) as F. cbv beta in F.
    rewrite Z.land_spec, Z.bits_0, Z.pow2_bits_eqb, H, Z.eqb_refl in F by lia. discriminate.
Qed.

(* ... which, for a bit inside the stored width, is bit b of the stored w-bit pattern, signed or not *)
Lemma testbit_stored_pattern : forall m w b, 0 <= b < w -> Z.testbit (m mod 2 ^ w) b = Z.testbit m b.
Proof. intros. apply Z.mod_pow2_bits_low. lia. Qed.

Lemma flagged_spec_iff : forall f1 f2 m, flagged_spec f1 f2 m = true <-> (Z.land m f1 <> 0 \/ Z.land m f2 <> 0).
Proof.
  intros. unfold flagged_spec. rewrite orb_true_iff, !negb_true_iff, !Z.eqb_neq. tauto.
Qed.

(* ---------------------------------------------------------------- skymask rows *)

Lemma list_ext : forall {A} (a b : list A), (forall i, nth_error a i = nth_error b i) -> a = b.
Proof.
  induction a as [|x a IH]; intros [|y b] H; [reflexivity | specialize (H O); discriminate | specialize (H O); discriminate |].
  pose proof (H O) as H0. cbn in H0. f_equal; [congruence|]. apply IH. intros i. apply (H (S i)).
Qed.

Lemma dil_at_zero : forall m i, dil_at m 0 i = nth i m false.
Proof.
  intros. apply eq_true_iff_eq. rewrite dil_at_spec, nth_false_iff. split.
  - intros (j & H1 & H2). replace i with j by lia. exact H2.
  - intros H. exists i. split; [lia | exact H].
Qed.

Lemma smooth_model_trunc : forall sig (g : nat), (1 <= g)%nat ->
  smooth_model sig (2 * Z.of_nat g + 1) true = smooth_trunc sig (2 * Z.of_nat g + 1).
Proof.
  intros sig g Hg. unfold smooth_model, smooth_trunc.
  replace ((2 * Z.of_nat g + 1) mod 2 =? 0) with false by (symmetry; apply Z.eqb_neq; lia).
  replace (2 * Z.of_nat g + 1 <? 3) with false by (symmetry; apply Z.ltb_ge; lia).
  reflexivity.
Qed.

(* the `badmask` of the model (generated guard, width, smooth arguments and test) is the dilation of the flagged pixels *)
Lemma sky_bad_eq : forall (flagged : list bool) (g : nat),
  (if sky_grow_guard (Z.of_nat g)
   then let width := sky_width (Z.of_nat g) in
        map sky_smooth_test
            (smooth_model (map (fun b : bool => (if b then 1 else 0) * sky_smooth_scale width) flagged)
                          (sky_smooth_width width) sky_smooth_edge)
   else flagged) = dilate_spec flagged g.
Proof.
  intros. unfold sky_grow_guard, sky_width, sky_smooth_scale, sky_smooth_width, sky_smooth_edge. cbv zeta.
  apply list_ext. intros i.
  destruct (Nat.lt_ge_cases i (length flagged)) as [Hi|Hi].
  - rewrite dilate_spec_nth by assumption. destruct (0 <? Z.of_nat g) eqn:E.
    + apply Z.ltb_lt in E. rewrite smooth_model_trunc by lia.
      replace (map (fun b : bool => (if b then 1 else 0) * (2 * Z.of_nat g + 1)) flagged)
        with (map (lift (2 * Z.of_nat g + 1)) flagged)
        by (apply map_ext; intros [|]; unfold lift; lia).
      replace (map sky_smooth_test) with (map (fun v => 0 <? v)) by reflexivity.
      apply (smooth_dilate flagged g i); lia.
    + apply Z.ltb_ge in E. replace g with O by lia. rewrite dil_at_zero. apply nth_error_nth'. exact Hi.
  - assert (L : forall l : list bool, length l = length flagged -> nth_error l i = None)
      by (intros l Hl; apply nth_error_None; lia).
    rewrite (L (dilate_spec flagged g)) by (unfold dilate_spec; rewrite map_length, seq_length; reflexivity).
    apply L. destruct (0 <? Z.of_nat g) eqn:E; [|reflexivity].
    apply Z.ltb_lt in E. rewrite smooth_model_trunc by lia.
    unfold smooth_trunc. rewrite !map_length, zrange_length. reflexivity.
Qed.

Definition Flagged (f1 f2 : Z) (ms : list Z) (g i : nat) : Prop :=
  exists k m, (i <= k + g /\ k <= i + g)%nat /\ nth_error ms k = Some m /\ (Z.land m f1 <> 0 \/ Z.land m f2 <> 0).

Lemma dil_flagged_iff : forall f1 f2 ms g i,
  dil_at (map (flagged_spec f1 f2) ms) g i = true <-> Flagged f1 f2 ms g i.
Proof.
  intros. rewrite dil_at_spec. unfold Flagged. split.
  - intros (k & H1 & H2). rewrite nth_error_map in H2. destruct (nth_error ms k) as [m|] eqn:E; [|discriminate].
    cbn in H2. exists k, m. split; [exact H1|]. split; [exact E|]. apply flagged_spec_iff. congruence.
  - intros (k & m & H1 & H2 & H3). exists k. split; [exact H1|].
    rewrite nth_error_map, H2. cbn. f_equal. apply flagged_spec_iff, H3.
Qed.

Lemma nth_error_combine : forall {A B} (a : list A) (b : list B) i x y,
  nth_error a i = Some x -> nth_error b i = Some y -> nth_error (combine a b) i = Some (x, y).
Proof.
  induction a as [|x0 a IH]; intros [|y0 b] [|i] x y H1 H2; cbn in *; try discriminate.
  - congruence.
  - apply IH; assumption.
Qed.

Open Scope Q_scope.

Theorem skymask_row_model_correct : forall f1 f2 g iv ms i v,
  (0 <= f1 < 2 ^ 64)%Z -> (0 <= f2 < 2 ^ 64)%Z -> length ms = length iv -> nth_error iv i = Some v ->
  exists out, nth_error (skymask_row_model f1 f2 g iv (Some ms)) i = Some out /\
              (Flagged f1 f2 ms g i -> out == 0) /\ (~ Flagged f1 f2 ms g i -> out == v).
Proof.
  intros f1 f2 g iv ms i v H1 H2 HL Hv. unfold skymask_row_model.
  replace (map (fun m => sky_flagged m f1 f2) ms) with (map (flagged_spec f1 f2) ms)
    by (apply map_ext; intros m; unfold flagged_spec, sky_flagged; cbv zeta;
        rewrite <- (flag_test_u64_ok f1 m H1), <- (flag_test_u64_ok f2 m H2); reflexivity).
  rewrite sky_bad_eq.
  assert (Hi : (i < length ms)%nat) by (rewrite HL; apply nth_error_Some; congruence).
  rewrite nth_error_map.
  rewrite (nth_error_combine iv _ i v (dil_at (map (flagged_spec f1 f2) ms) g i) Hv)
    by (apply dilate_spec_nth; rewrite map_length; exact Hi).
  cbn [option_map fst snd]. unfold sky_apply. eexists. split; [reflexivity|].
  rewrite <- dil_flagged_iff. destruct (dil_at (map (flagged_spec f1 f2) ms) g i); cbn [b2q]; split; intros H.
  - ring.
  - exfalso. apply H. reflexivity.
  - discriminate.
  - ring.
Qed.

Theorem skymask_row_spec_correct : forall f1 f2 g iv ms i v,
  length ms = length iv -> nth_error iv i = Some v ->
  exists out, nth_error (skymask_row_spec f1 f2 g iv (Some ms)) i = Some out /\
              (Flagged f1 f2 ms g i -> out = 0) /\ (~ Flagged f1 f2 ms g i -> out = v).
Proof.
  intros f1 f2 g iv ms i v HL Hv. unfold skymask_row_spec.
  assert (Hi : (i < length iv)%nat) by (apply nth_error_Some; congruence).
  rewrite nth_error_map.
  rewrite (nth_error_combine (seq 0 (length iv)) iv i i v) by
    (try exact Hv; rewrite nth_error_nth' with (d := O) by (rewrite seq_length; lia); rewrite seq_nth by lia; reflexivity).
  cbn [option_map fst snd]. eexists. split; [reflexivity|].
  rewrite <- dil_flagged_iff. destruct (dil_at (map (flagged_spec f1 f2) ms) g i); split; intros H.
  - reflexivity.
  - exfalso. apply H. reflexivity.
  - discriminate.
  - reflexivity.
Qed.

(* without an or-mask nothing is masked *)
Theorem skymask_row_none : forall f1 f2 g iv i v, nth_error iv i = Some v ->
  exists out, nth_error (skymask_row_model f1 f2 g iv None) i = Some out /\ out == v.
Proof.
  intros f1 f2 g iv i v Hv. unfold skymask_row_model. rewrite sky_bad_eq.
  assert (Hi : (i < length iv)%nat) by (apply nth_error_Some; congruence).
  rewrite nth_error_map.
  rewrite (nth_error_combine iv _ i v (dil_at (map (fun _ : Q => false) iv) g i) Hv)
    by (apply dilate_spec_nth; rewrite map_length; exact Hi).
  cbn [option_map fst snd]. unfold sky_apply. eexists. split; [reflexivity|].
  destruct (dil_at (map (fun _ : Q => false) iv) g i) eqn:E; [|cbn; ring].
  apply dil_at_spec in E as (j & _ & E). rewrite nth_error_map in E.
  destruct (nth_error iv j); discriminate.
Qed.

(* the generated flag test (cast + two `& flag != 0` tests, or-ed) is the test on the stored integer value *)
Lemma sky_flagged_ok : forall f1 f2 m, (0 <= f1 < 2 ^ 64)%Z -> (0 <= f2 < 2 ^ 64)%Z ->
  sky_flagged m f1 f2 = flagged_spec f1 f2 m.
Proof.
  intros f1 f2 m H1 H2. unfold flagged_spec, sky_flagged. cbv zeta.
  rewrite <- (flag_test_u64_ok f1 m H1), <- (flag_test_u64_ok f2 m H2). reflexivity.
Qed.
