"""Runs the trace-set code of the repository under test on a list of calls (stdin JSON -> stdout JSON).

Calls:
  basis : flegendre / fchebyshev / fpoly / fchebyshev_split on an array, Python float / Python int / numpy float64 scalars
  fit   : func_fit(x, y, ncoeff, invvar=, function_name=, ia=, inputans=, inputfunc=)
  trace : xy2traceset(xpos, ypos, ...) then traceset2xy(tset, xpos) and traceset2xy(tset)
  eval  : TraceSet(FITS_rec) built from given coefficients, then traceset2xy(tset, xpos or None, ignore_jump)
Floats travel as JSON numbers (repr round trip is exact); non-finite results are reported as 'nonfinite'.
"""
import json
import math
import sys
import warnings

import numpy as np

import pydl
from pydl.goddard.math import flegendre
from pydl.pydlutils.trace import (fchebyshev, fchebyshev_split, fpoly, func_fit, TraceSet,
                                  traceset2xy, xy2traceset)

BASIS = {'legendre': flegendre, 'chebyshev': fchebyshev, 'poly': fpoly, 'chebyshev_split': fchebyshev_split}


def err(e):
    return {'err': type(e).__name__, 'msg': str(e)[:160]}


def arr(a, dtype='d'):
    return None if a is None else np.array(a, dtype=dtype)


def tolist(a):
    a = np.asarray(a, dtype='d')
    return a.tolist()


def finite(*arrays):
    return all(np.all(np.isfinite(np.asarray(a, dtype='d'))) for a in arrays)


def make_fits_rec(c):
    from astropy.io import fits
    coeff = np.array(c['coeff'], dtype='d')
    nt, nc = coeff.shape
    cols = [fits.Column(name='FUNC', format='16A', array=np.array([c['func']])),
            fits.Column(name='XMIN', format='D', array=np.array([c['xmin']], dtype='d')),
            fits.Column(name='XMAX', format='D', array=np.array([c['xmax']], dtype='d')),
            fits.Column(name='COEFF', format='%dD' % (nt * nc), dim='(%d,%d)' % (nc, nt),
                        array=coeff.reshape(1, nt, nc))]
    if c.get('jump') is not None:
        lo, hi, val = c['jump']
        cols += [fits.Column(name='XJUMPLO', format='D', array=np.array([lo], dtype='d')),
                 fits.Column(name='XJUMPHI', format='D', array=np.array([hi], dtype='d')),
                 fits.Column(name='XJUMPVAL', format='D', array=np.array([val], dtype='d'))]
    hdu = fits.BinTableHDU.from_columns(cols)
    return hdu.data


def call(c):
    f = c['f']
    try:
        with warnings.catch_warnings():
            warnings.simplefilter('ignore')
            if f == 'basis':
                fn = BASIS[c['func']]
                m = c['m']
                if c['mode'] == 'array':
                    r = fn(np.array(c['xs'], dtype='d'), m)
                    out = r
                else:
                    conv = {'scalar': float, 'npscalar': np.float64, 'pyint': int}[c['mode']]
                    colsr = [fn(conv(x), m) for x in c['xs']]
                    if not all(col.shape == (m, 1) for col in colsr):
                        return {'err': 'Shape', 'msg': str([col.shape for col in colsr])}
                    out = np.hstack(colsr)
                if out.shape != (m, len(c['xs'])):
                    return {'err': 'Shape', 'msg': str(out.shape)}
                if not finite(out):
                    return {'err': 'nonfinite'}
                return {'ok': tolist(out), 'dtype': str(out.dtype)}
            if f == 'fit':
                kw = {}
                if c.get('w') is not None:
                    kw['invvar'] = arr(c['w'])
                if c.get('ia') is not None:
                    kw['ia'] = np.array(c['ia'], dtype=bool)
                if c.get('ans') is not None:
                    kw['inputans'] = arr(c['ans'])
                if c.get('ifunc') is not None:
                    kw['inputfunc'] = arr(c['ifunc'])
                x = arr(c['x'])
                y = arr(c['y'])
                x0, y0 = x.copy(), y.copy()
                res, yfit = func_fit(x, y, c['ncoeff'], function_name=c['func'], **kw)
                if not finite(res, yfit):
                    return {'err': 'nonfinite'}
                return {'ok': {'res': tolist(res), 'yfit': tolist(yfit)},
                        'inputs_unchanged': bool(np.array_equal(x, x0) and np.array_equal(y, y0))}
            if f == 'trace':
                kw = {'func': c['func'], 'ncoeff': c['ncoeff']}
                if c.get('ivar') is not None:
                    kw['invvar'] = arr(c['ivar'])
                if c.get('inmask') is not None:
                    kw['inmask'] = np.array(c['inmask'], dtype=bool)
                if c.get('xmin') is not None:
                    kw['xmin'] = c['xmin']
                if c.get('xmax') is not None:
                    kw['xmax'] = c['xmax']
                if c.get('jump') is not None:
                    kw['xjumplo'], kw['xjumphi'], kw['xjumpval'] = c['jump']
                xpos = arr(c['xpos'])
                ypos = arr(c['ypos'])
                tset = xy2traceset(xpos, ypos, **kw)
                x1, y1 = traceset2xy(tset, xpos)
                x2, y2 = traceset2xy(tset)
                out = {'coeff': tolist(tset.coeff), 'yfit': tolist(tset.yfit), 'xy_x': tolist(x1), 'xy_y': tolist(y1),
                       'grid_x': tolist(x2), 'grid_y': tolist(y2), 'xmin': float(tset.xmin), 'xmax': float(tset.xmax),
                       'nx': int(tset.nx), 'outmask_all': bool(np.all(tset.outmask))}
                if not finite(tset.coeff, tset.yfit, y1, y2, x2):
                    return {'err': 'nonfinite'}
                if c.get('jump') is not None:
                    x3, y3 = traceset2xy(tset, xpos, ignore_jump=True)
                    out['nojump_y'] = tolist(y3)
                return {'ok': out}
            if f == 'eval':
                rec = make_fits_rec(c)
                tset = TraceSet(rec)
                xpos = arr(c['xpos'])
                x1, y1 = traceset2xy(tset, xpos, ignore_jump=bool(c.get('ignore_jump')))
                if not finite(x1, y1):
                    return {'err': 'nonfinite'}
                return {'ok': {'x': tolist(x1), 'y': tolist(y1), 'nx': int(tset.nx), 'has_jump': bool(tset.has_jump),
                               'ntrace': int(tset.nTrace), 'ncoeff': int(tset.ncoeff), 'func': str(tset.func)}}
            return {'err': 'BadCall'}
    except Exception as e:  # noqa: BLE001 - the error class is the observation
        return err(e)


def main():
    calls = json.load(sys.stdin)
    out = {'pydl_file': pydl.__file__, 'results': [call(c) for c in calls]}
    json.dump(out, sys.stdout)


if __name__ == '__main__':
    main()
