(* C12 -- the ALGORITHMIC model M of pydl/pydlutils/mangle.py and of the balkans assembly in
   pydl/photoop/window.py, built from the expressions that translate/c12.py extracts from the source on every
   run (Generated/Mangle.v: gen_is_cap_used, gen_usencaps, gen_poly_init/acc, gen_window_*, gen_initial_use,
   gen_set_bit, gen_inner_start, gen_clear_bit, gen_doubles, gen_balkans_use, gen_x/cm_src/dst_lo/hi).
   The loop skeletons are hand-written transliterations; the decisions inside them are the generated ones.
   Executable definitions only (no proofs); the specification S lives in C12/Spec.v and does not depend on
   this file or on Generated/.  Also: the correspondence `case` type and run_case. *)
From Coq Require Import ZArith QArith Qabs List Bool.
Import ListNotations.
From PV Require Import C12.Spec Generated.Mangle.
Open Scope Z_scope.

(* ------------------------------------------------------------------ polygons *)

(* is_cap_used(use_caps, i) *)
Definition is_cap_used (use : Z) (i : nat) : bool := gen_is_cap_used use (Z.of_nat i).

(* usencaps = p['ncaps']; if ncaps > 0: usencaps = min(ncaps, p['ncaps']) *)
Definition usencaps (P : polygon) (ncaps : Z) : nat := Z.to_nat (gen_usencaps ncaps (Z.of_nat (pn P))).

(* in_polygon = np.ones(...); for icap in range(usencaps): if is_cap_used(use_caps, icap):
       in_polygon <op>= is_in_cap(x[icap], cm[icap], p)
   (a cap index beyond the stored arrays is an IndexError in Python: modelled as `false`) *)
Definition in_polygon (P : polygon) (ncaps : Z) (p : vec) : bool :=
  fold_left (fun acc i =>
               if is_cap_used (puse P) i
               then match nth_error (pcaps P) i with Some c => gen_poly_acc acc (in_cap c p) | None => false end
               else acc)
            (seq 0 (usencaps P ncaps)) gen_poly_init.

(* ------------------------------------------------------------------ window lookup *)

(* in_polygon = <default> for all points; curr_polygon = <start>; while curr_polygon < npoly: the points still
   unassigned that lie in polygons[curr_polygon] get <assign curr_polygon>; curr_polygon = <next>.
   Result (flag in_polygon, in_polygon). *)
Definition window_step (ncaps : Z) (pts : list vec) (st : list Z * Z) (P : polygon) : list Z * Z :=
  let '(assigned, k) := st in
  (map (fun ap : Z * vec => let '(a, p) := ap in
                            if gen_window_unassigned a then (if in_polygon P ncaps p then gen_window_assign k else a) else a)
       (combine assigned pts), gen_window_next k).

Definition in_window_idx (Ps : list polygon) (ncaps : Z) (pts : list vec) : list Z :=
  fst (fold_left (window_step ncaps pts) Ps (map (fun _ => gen_window_default) pts, gen_window_start)).

Definition in_window (Ps : list polygon) (ncaps : Z) (pts : list vec) : list (bool * Z) :=
  map (fun a => (gen_window_flag a, a)) (in_window_idx Ps ncaps pts).

(* ------------------------------------------------------------------ set_use_caps *)

(* the nested tests in front of `use_caps -= 1 << j` *)
Definition same_cap (tol : Q) (allow_neg : bool) (a b : cap) : bool :=
  gen_doubles tol allow_neg (dist2 (cx a) (cx b)) (ccm a) (ccm b).

Definition dup_at (tol : Q) (allow_neg : bool) (caps : list cap) (i j : nat) : bool :=
  match nth_error caps i, nth_error caps j with
  | Some a, Some b => same_cap tol allow_neg a b
  | _, _ => false
  end.

(* for i in index_list: use_caps |= 1 << i *)
Definition set_bits (u : Z) (idx : list Z) : Z := fold_left gen_set_bit idx u.

(* for j in range(<inner start i>, ncaps): if is_cap_used(use_caps, j): if doubles(i, j): use_caps -= 1 << j *)
Definition inner_range (n i : nat) : list nat :=
  let s := Z.to_nat (gen_inner_start (Z.of_nat i)) in seq s (n - s).

Definition dedup_inner (dup : nat -> nat -> bool) (n i : nat) (u : Z) : Z :=
  fold_left (fun u j => if is_cap_used u j then (if dup i j then gen_clear_bit u (Z.of_nat i) (Z.of_nat j) else u) else u)
            (inner_range n i) u.

(* for i in range(ncaps): if is_cap_used(use_caps, i): <inner loop> *)
Definition dedup (dup : nat -> nat -> bool) (n : nat) (u : Z) : Z :=
  fold_left (fun u i => if is_cap_used u i then dedup_inner dup n i u else u) (seq 0 n) u.

Definition set_use_caps (P : polygon) (idx : list Z) (o : suc_opts) : Z :=
  let u0 := gen_initial_use (o_add o) (puse P) in
  let u1 := set_bits u0 idx in
  if o_allow_doubles o then u1
  else dedup (dup_at (o_tol o) (o_allow_neg_doubles o) (pcaps P)) (pn P) u1.

(* the same double loop with "clear bit j" instead of the subtraction (to state: it never borrows) *)
Definition dedup_inner_clear (dup : nat -> nat -> bool) (n i : nat) (u : Z) : Z :=
  fold_left (fun u j => if Z.testbit u (Z.of_nat j) && dup i j then Z.clearbit u (Z.of_nat j) else u)
            (seq (S i) (n - S i)) u.

Definition dedup_clear (dup : nat -> nat -> bool) (n : nat) (u : Z) : Z :=
  fold_left (fun u i => if Z.testbit u (Z.of_nat i) then dedup_inner_clear dup n i u else u) (seq 0 n) u.

(* ------------------------------------------------------------------ window_read(balkans=True) *)

Definition slice {A : Type} (lo n : nat) (l : list A) : list A := firstn n (skipn lo l).

(* Python a[lo:hi] for 0 <= lo *)
Definition pyslice {A : Type} (lo hi : Z) (l : list A) : list A :=
  firstn (Z.to_nat (hi - lo)) (skipn (Z.to_nat lo) l).

Fixpoint zip_caps (xs : list vec) (cms : list Q) : list cap :=
  match xs, cms with
  | x :: xs', c :: cms' => mkcap x c :: zip_caps xs' cms'
  | _, _ => []
  end.

(* blist rows are (ICAP, NCAPS):  XCAPS[dst_lo:dst_hi] = bcaps.X[src_lo:src_hi], likewise CMCAPS / CM, with the
   generated bounds; USE_CAPS = gen_balkans_use NCAPS.  Destinations other than [0:NCAPS] are not modelled
   (the polygon then gets no caps and the correspondence run raises the alarm). *)
Definition balkans_poly (bcaps : list cap) (icap n : nat) : polygon :=
  let zi := Z.of_nat icap in let zn := Z.of_nat n in
  let xs := pyslice (gen_x_src_lo zi zn) (gen_x_src_hi zi zn) (map cx bcaps) in
  let cms := pyslice (gen_cm_src_lo zi zn) (gen_cm_src_hi zi zn) (map ccm bcaps) in
  let dst_ok := (gen_x_dst_lo zi zn =? 0) && (gen_x_dst_hi zi zn =? zn)
                && (gen_cm_dst_lo zi zn =? 0) && (gen_cm_dst_hi zi zn =? zn) in
  mkpoly n (gen_balkans_use zn) (if dst_ok then zip_caps xs cms else []).

Definition balkans_slice (bcaps : list cap) (blist : list (nat * nat)) : list polygon :=
  map (fun r : nat * nat => let '(icap, n) := r in balkans_poly bcaps icap n) blist.

(* ------------------------------------------------------------------ correspondence cases *)

(* index (from 1) of the first position where two lists differ; 0 = equal *)
Fixpoint first_diff {A : Type} (eqb : A -> A -> bool) (k : Z) (a b : list A) : Z :=
  match a, b with
  | [], [] => 0
  | x :: a', y :: b' => if eqb x y then first_diff eqb (k + 1) a' b' else k
  | _, _ => k
  end.

Inductive case :=
  (* is_in_cap(x, cm, points): one cap, several points *)
| CCap (c : cap) (pts : list vec) (expect : list bool)
  (* is_in_polygon(P, points, ncaps): one expected answer list per storage route *)
| CPoly (P : polygon) (ncaps : Z) (pts : list vec) (expects : list (list bool))
  (* is_in_window(polygons, points, ncaps)[1]: one expected index list per storage route *)
| CWindow (Ps : list polygon) (ncaps : Z) (pts : list vec) (expects : list (list Z))
  (* set_use_caps(P, index_list, add, tol, allow_doubles, allow_neg_doubles); width bounds the bits *)
| CSetUse (P : polygon) (idx : list Z) (o : suc_opts) (width : nat) (expect : option Z)
  (* window_read(balkans=True): the polygons found in r['balkans'] *)
| CBalkans (bcaps : list cap) (blist : list (nat * nat)) (expect : list polygon).

(* verdict: v mod 4: bit 1 (+1) = M differs from the implementation, bit 2 (+2) = the implementation's
   answer contradicts S;  v / 4 = 1-based position of the first answer contradicting S (else of the first
   differing from M), 0 when all agree.  For CPoly and CWindow positions count through the routes:
   position = route * (npoints + 1) + point + 1. *)
Definition verdict (m_bad s_bad : bool) (pos_m pos_s : Z) : Z :=
  (if m_bad then 1 else 0) + (if s_bad then 2 else 0) + 4 * (if s_bad then pos_s else if m_bad then pos_m else 0).

Definition diff_lists {A : Type} (eqb : A -> A -> bool) (model spec expect : list A) : Z :=
  let pm := first_diff eqb 1 model expect in
  let ps := first_diff eqb 1 spec expect in
  verdict (negb (pm =? 0)) (negb (ps =? 0)) pm ps.

Fixpoint diff_routes {A : Type} (eqb : A -> A -> bool) (stride : Z) (base : Z) (model spec : list A)
         (expects : list (list A)) : Z * Z :=
  match expects with
  | [] => (0, 0)
  | e :: es =>
      let pm := first_diff eqb 1 model e in
      let ps := first_diff eqb 1 spec e in
      let '(rm, rs) := diff_routes eqb stride (base + stride) model spec es in
      ((if pm =? 0 then rm else base + pm), (if ps =? 0 then rs else base + ps))
  end.

Definition run_case (c : case) : Z :=
  match c with
  | CCap c pts expect =>
      let m := map (in_cap c) pts in
      diff_lists Bool.eqb m m expect
  | CPoly P ncaps pts expects =>
      let m := map (in_polygon P ncaps) pts in
      let s := map (spec_in_polygon P ncaps) pts in
      let '(pm, ps) := diff_routes Bool.eqb (Z.of_nat (length pts) + 1) 0 m s expects in
      verdict (negb (pm =? 0)) (negb (ps =? 0)) pm ps
  | CWindow Ps ncaps pts expects =>
      let m := in_window_idx Ps ncaps pts in
      let s := map snd (spec_window Ps ncaps pts) in
      let '(pm, ps) := diff_routes Z.eqb (Z.of_nat (length pts) + 1) 0 m s expects in
      verdict (negb (pm =? 0)) (negb (ps =? 0)) pm ps
  | CSetUse P idx o width expect =>
      match expect with
      | Some r =>
          verdict (negb (set_use_caps P idx o =? r)) (negb (spec_set_use_caps_ok P idx o width r)) 1 1
      | None => 3 + 4   (* the call raised: the model never does, and the property demands an answer *)
      end
  | CBalkans bcaps blist expect =>
      verdict (negb (eqb_polys (balkans_slice bcaps blist) expect)) (negb (spec_balkans_ok bcaps blist expect)) 1 1
  end.

Definition run_cases (cs : list case) : list Z := map run_case cs.
