(* C04 -- the index arithmetic GENERATED from chunks.assign / getbounds / get (Generated/Chunks.v, rewritten on every run
   by translate/c04.py) is the arithmetic of the hand-written model (C04/Model.v): range ends of the reset and fill loops,
   the RA wrap, the validity test, the floor-binning expressions, the walk tests and their guards. *)
From Coq Require Import ZArith QArith Qround Bool List Lia.
From PV Require Import C04.Model Generated.Chunks.
Close Scope Q_scope. Open Scope Z_scope.

Lemma gen_ranges : forall lo hi,
  gen_reset_from lo hi = lo - 1 /\ gen_reset_to lo hi = hi + 1 + 1 /\
  gen_fill_from lo hi = lo - 0 /\ gen_fill_to lo hi = hi + 0 + 1.
Proof. intros. unfold gen_reset_from, gen_reset_to, gen_fill_from, gen_fill_to. lia. Qed.

Lemma gen_wrap_is_wrap : forall nra r, gen_reset_wrap nra r = wrap nra r /\ gen_fill_wrap nra r = wrap nra r.
Proof.
  intros. unfold gen_reset_wrap, gen_fill_wrap, wrap. rewrite Z.gtb_ltb. split; reflexivity.
Qed.

Lemma gen_valid_is_in_range : forall nra c, gen_reset_valid nra c = in_range nra c /\ gen_fill_valid nra c = in_range nra c.
Proof.
  intros. unfold gen_reset_valid, gen_fill_valid, in_range. rewrite Z.geb_leb. split; reflexivity.
Qed.

(* the cells visited by the generated loops are the model's row_cells *)
Lemma gen_rows : forall nRa d lo hi,
  row_cells nRa 1 d lo hi =
    flat_map (fun r => let c := gen_reset_wrap (nRa d) r in if gen_reset_valid (nRa d) c then (d, c) :: nil else nil)
             (zrange (gen_reset_from lo hi) (Z.to_nat (gen_reset_to lo hi - gen_reset_from lo hi))) /\
  row_cells nRa 0 d lo hi =
    flat_map (fun r => let c := gen_fill_wrap (nRa d) r in if gen_fill_valid (nRa d) c then (d, c) :: nil else nil)
             (zrange (gen_fill_from lo hi) (Z.to_nat (gen_fill_to lo hi - gen_fill_from lo hi))).
Proof.
  intros. destruct (gen_ranges lo hi) as [R1 [R2 [R3 R4]]]. rewrite R1, R2, R3, R4. unfold row_cells. split.
  - apply List.flat_map_ext. intro r. cbv zeta.
    rewrite (proj1 (gen_wrap_is_wrap (nRa d) r)), (proj1 (gen_valid_is_in_range (nRa d) (wrap (nRa d) r))). reflexivity.
  - apply List.flat_map_ext. intro r. cbv zeta.
    rewrite (proj2 (gen_wrap_is_wrap (nRa d) r)), (proj2 (gen_valid_is_in_range (nRa d) (wrap (nRa d) r))). reflexivity.
Qed.

Lemma gen_index_is_cell_index : forall x lo hi n,
  gen_gb_dec_index x lo hi (inject_Z (Z.of_nat n)) = cell_index x lo hi n /\
  gen_gb_ra_index x lo hi (inject_Z (Z.of_nat n)) = cell_index x lo hi n /\
  gen_get_dec_index x lo hi (inject_Z (Z.of_nat n)) = cell_index x lo hi n /\
  gen_get_ra_index x lo hi (inject_Z (Z.of_nat n)) = cell_index x lo hi n.
Proof. intros. repeat split; reflexivity. Qed.

(* the walks of the model, unfolded one step, are the generated tests under the generated guards *)
Lemma gen_walk_steps : forall B x m,
  (forall c, dec_down B x m (S c) = if gen_dec_down_test x (qbnd B (S c)) m && gen_dec_down_guard (Z.of_nat (S c)) 0
                                     then dec_down B x m c else S c) /\
  (forall nDec f c, dec_up B x m nDec (S f) c =
                    if gen_dec_up_test x (qbnd B (S c)) m && gen_dec_up_guard (Z.of_nat c) (Z.of_nat nDec)
                    then dec_up B x m nDec f (S c) else c) /\
  (forall c, ra_down B x m (S c) = if gen_ra_down_test x (qbnd B (S c)) m then ra_down B x m c else Z.of_nat (S c)) /\
  (forall n f c, ra_up B x m n (S f) c = if (c <? n)%nat && gen_ra_up_test x (qbnd B (S c)) m then ra_up B x m n f (S c) else Z.of_nat c).
Proof.
  intros B x m. split; [|split; [|split]]; intros.
  - cbn [dec_down]. unfold gen_dec_down_test, gen_dec_down_guard.
    assert (E : (Z.of_nat (S c) >? 0) = true) by (apply Z.gtb_lt; lia). rewrite E, andb_true_r. reflexivity.
  - cbn [dec_up]. unfold gen_dec_up_test, gen_dec_up_guard.
    assert (E : (S c <? nDec)%nat = (Z.of_nat c <? Z.of_nat nDec - 1)).
    { destruct (S c <? nDec)%nat eqn:E1; symmetry.
      - apply Nat.ltb_lt in E1. apply Z.ltb_lt. lia.
      - apply Nat.ltb_ge in E1. apply Z.ltb_ge. lia. }
    rewrite E. reflexivity.
  - reflexivity.
  - reflexivity.
Qed.

Theorem generated_index_arithmetic :
  chunks_recognised = true /\
  (forall nRa d lo hi,
     row_cells nRa 1 d lo hi =
       flat_map (fun r => let c := gen_reset_wrap (nRa d) r in if gen_reset_valid (nRa d) c then (d, c) :: nil else nil)
                (zrange (gen_reset_from lo hi) (Z.to_nat (gen_reset_to lo hi - gen_reset_from lo hi))) /\
     row_cells nRa 0 d lo hi =
       flat_map (fun r => let c := gen_fill_wrap (nRa d) r in if gen_fill_valid (nRa d) c then (d, c) :: nil else nil)
                (zrange (gen_fill_from lo hi) (Z.to_nat (gen_fill_to lo hi - gen_fill_from lo hi)))) /\
  (forall x lo hi n,
     gen_gb_dec_index x lo hi (inject_Z (Z.of_nat n)) = cell_index x lo hi n /\
     gen_gb_ra_index x lo hi (inject_Z (Z.of_nat n)) = cell_index x lo hi n /\
     gen_get_dec_index x lo hi (inject_Z (Z.of_nat n)) = cell_index x lo hi n /\
     gen_get_ra_index x lo hi (inject_Z (Z.of_nat n)) = cell_index x lo hi n) /\
  (forall B x m,
     (forall c, dec_down B x m (S c) = if gen_dec_down_test x (qbnd B (S c)) m && gen_dec_down_guard (Z.of_nat (S c)) 0
                                        then dec_down B x m c else S c) /\
     (forall nDec f c, dec_up B x m nDec (S f) c =
                       if gen_dec_up_test x (qbnd B (S c)) m && gen_dec_up_guard (Z.of_nat c) (Z.of_nat nDec)
                       then dec_up B x m nDec f (S c) else c) /\
     (forall c, ra_down B x m (S c) = if gen_ra_down_test x (qbnd B (S c)) m then ra_down B x m c else Z.of_nat (S c)) /\
     (forall n f c, ra_up B x m n (S f) c = if (c <? n)%nat && gen_ra_up_test x (qbnd B (S c)) m then ra_up B x m n f (S c) else Z.of_nat c)).
Proof.
  split; [reflexivity|]. split; [exact gen_rows|]. split; [exact gen_index_is_cell_index|exact gen_walk_steps].
Qed.

(* ------------------------------------------------------------------ the two maxmatch passes *)
From Coq Require Import String.
From PV Require Import C05.Imp C04.GreedyRef.
Open Scope string_scope. Open Scope Z_scope.

Theorem generated_greedy_is_reference :
  gen_greedy_enabled = ref_greedy_enabled /\
  gen_greedy_count_from = ref_greedy_count_from /\
  gen_greedy_count_to = ref_greedy_count_to /\
  gen_greedy_count_step = ref_greedy_count_step /\
  gen_greedy_count_var = ref_greedy_count_var /\
  gen_greedy_count_body = ref_greedy_count_body /\
  gen_greedy_fill_from = ref_greedy_fill_from /\
  gen_greedy_fill_to = ref_greedy_fill_to /\
  gen_greedy_fill_step = ref_greedy_fill_step /\
  gen_greedy_fill_var = ref_greedy_fill_var /\
  gen_greedy_fill_body = ref_greedy_fill_body.
Proof. repeat split; reflexivity. Qed.

Definition zupd (a : Z -> Z) (i v : Z) : Z -> Z := fun x => if x =? i then v else a x.

(* one iteration of either pass, candidate p = s[i] with indices a = omatch1[p], b = omatch2[p] (cf. greedy_count /
   greedy_fill): TEST both counters against maxmatch FIRST, then increment both, record the triple at position nmatch,
   and count it; otherwise nothing changes *)
Theorem greedy_pass_specs : forall s,
  let p := rd s "s" (sv s "i") in
  let a := rd s "omatch1" p in
  let b := rd s "omatch2" p in
  let take := (rd s "gotten1" a <? sv s "maxmatch") && (rd s "gotten2" b <? sv s "maxmatch") in
  (let s' := ref_greedy_count_body s in
   (forall x, rd s' "gotten1" x = if take then zupd (rd s "gotten1") a (rd s "gotten1" a + 1) x else rd s "gotten1" x) /\
   (forall x, rd s' "gotten2" x = if take then zupd (rd s "gotten2") b (rd s "gotten2" b + 1) x else rd s "gotten2" x) /\
   sv s' "nmatch" = if take then sv s "nmatch" + 1 else sv s "nmatch") /\
  (let s' := ref_greedy_fill_body s in
   (forall x, rd s' "gotten1" x = if take then zupd (rd s "gotten1") a (rd s "gotten1" a + 1) x else rd s "gotten1" x) /\
   (forall x, rd s' "gotten2" x = if take then zupd (rd s "gotten2") b (rd s "gotten2" b + 1) x else rd s "gotten2" x) /\
   (forall x, rd s' "match1" x = if take then zupd (rd s "match1") (sv s "nmatch") a x else rd s "match1" x) /\
   (forall x, rd s' "match2" x = if take then zupd (rd s "match2") (sv s "nmatch") b x else rd s "match2" x) /\
   (forall x, rd s' "distance12" x = if take then zupd (rd s "distance12") (sv s "nmatch") (rd s "odistance12" p) x else rd s "distance12" x) /\
   sv s' "nmatch" = if take then sv s "nmatch" + 1 else sv s "nmatch") /\
  (ref_greedy_count_from s = 0 /\ ref_greedy_count_to s = sv s "omatch1_size" /\ ref_greedy_count_step s = 1 /\
   ref_greedy_fill_from s = 0 /\ ref_greedy_fill_to s = sv s "omatch1_size" /\ ref_greedy_fill_step s = 1 /\
   ref_greedy_count_var = "i" /\ ref_greedy_fill_var = "i" /\ ref_greedy_enabled s = (sv s "maxmatch" >? 0)).
Proof.
  intros s p a b take. subst take a b p. unfold ref_greedy_count_body, ref_greedy_fill_body, ifte, zupd.
  destruct ((rd s "gotten1" (rd s "omatch1" (rd s "s" (sv s "i"))) <? sv s "maxmatch") &&
            (rd s "gotten2" (rd s "omatch2" (rd s "s" (sv s "i"))) <? sv s "maxmatch")).
  - repeat split; intros; imp; reflexivity.
  - repeat split; intros; reflexivity.
Qed.
