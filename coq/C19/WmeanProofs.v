(* C19 -- laws of the filter_thru band sum (over Q, every list length) and soundness of the run-time checker. *)
From Coq Require Import QArith List Bool ZArith Qabs Lqa Lia.
Import ListNotations.
From PV Require Import C19.Spec Generated.AstroConsts C19.Model.
Open Scope Q_scope.

(* triples (weight, f, g) -> paired data *)
Definition pf (l : list (Q * Q * Q)) : list (Q * Q) := map (fun t => (fst (fst t), snd (fst t))) l.
Definition pg (l : list (Q * Q * Q)) : list (Q * Q) := map (fun t => (fst (fst t), snd t)) l.
Definition plin (a b : Q) (l : list (Q * Q * Q)) : list (Q * Q) :=
  map (fun t => (fst (fst t), a * snd (fst t) + b * snd t)) l.
Definition pconst (c : Q) (ws : list Q) : list (Q * Q) := map (fun w => (w, c)) ws.

Lemma sumw_plin : forall a b l, sumw (plin a b l) = sumw (pf l) /\ sumw (pg l) = sumw (pf l).
Proof.
  intros a b l. unfold plin, pf, pg. induction l as [|[[w f] g] t [IH1 IH2]]; cbn [map sumw fst snd]; [split; reflexivity|].
  rewrite IH1, IH2. split; reflexivity.
Qed.

Lemma sumwf_plin : forall a b l, sumwf (plin a b l) == a * sumwf (pf l) + b * sumwf (pg l).
Proof.
  intros a b l. unfold plin, pf, pg. induction l as [|[[w f] g] t IH]; cbn [map sumwf fst snd]. ring.
  rewrite IH. ring.
Qed.

Lemma filter_norm_linear : forall a b x y s,
  filter_norm (a * x + b * y) s == a * filter_norm x s + b * filter_norm y s.
Proof. intros. unfold filter_norm, Qdiv. ring. Qed.

Lemma filter_norm_compat : forall x y s, x == y -> filter_norm x s == filter_norm y s.
Proof. intros x y s H. unfold filter_norm. rewrite H. reflexivity. Qed.

(* linear in the flux *)
Lemma filter_band_linear : forall a b l,
  filter_band (plin a b l) == a * filter_band (pf l) + b * filter_band (pg l).
Proof.
  intros. unfold filter_band. destruct (sumw_plin a b l) as [E1 E2]. rewrite E1, E2.
  rewrite (filter_norm_compat _ _ _ (sumwf_plin a b l)). apply filter_norm_linear.
Qed.

Lemma sumwf_const : forall c ws, sumwf (pconst c ws) == c * sumw (pconst c ws).
Proof. intros c ws. unfold pconst. induction ws as [|w t IH]; cbn [map sumw sumwf]. ring. rewrite IH. ring. Qed.

Lemma filter_norm_pos : forall x s, 0 < s -> filter_norm x s == x / s.
Proof.
  intros x s H. unfold filter_norm.
  destruct (Qle_bool s (0 # 1)) eqn:E.
  - apply Qle_bool_iff in E. exfalso. apply (Qlt_not_le _ _ H). exact E.
  - assert (E0 : s + 0 == s) by ring. rewrite E0. reflexivity.
Qed.

(* a constant spectrum c gives c in every band the wavelengths overlap (sum of weights > 0) *)
Lemma filter_band_const : forall c ws, 0 < sumw (pconst c ws) -> filter_band (pconst c ws) == c.
Proof.
  intros c ws H. unfold filter_band. rewrite filter_norm_pos by exact H.
  rewrite sumwf_const. field. intro E. rewrite E in H. apply (Qlt_irrefl _ H).
Qed.

Lemma sumwf_bounds : forall lo hi l, nonneg_weights l -> flux_within lo hi l ->
  lo * sumw l <= sumwf l /\ sumwf l <= hi * sumw l.
Proof.
  intros lo hi l. induction l as [|[w f] t IH]; intros Hw Hf; cbn.
  - split; lra.
  - assert (W : 0 <= w) by (apply (Hw w f); left; reflexivity).
    destruct (Hf w f (or_introl eq_refl)) as [F1 F2].
    destruct IH as [I1 I2].
    { intros w' f' H. apply (Hw w' f'). right. exact H. }
    { intros w' f' H. apply (Hf w' f'). right. exact H. }
    split; nra.
Qed.

(* within the minimum and maximum of the flux *)
Lemma filter_band_bounds : forall lo hi l, nonneg_weights l -> flux_within lo hi l -> 0 < sumw l ->
  lo <= filter_band l <= hi.
Proof.
  intros lo hi l Hw Hf Hs. unfold filter_band. rewrite filter_norm_pos by exact Hs.
  destruct (sumwf_bounds lo hi l Hw Hf) as [B1 B2]. split.
  - apply Qle_shift_div_l; assumption.
  - apply Qle_shift_div_r; assumption.
Qed.

(* no overlap: all weights zero -> 0 *)
Lemma sumwf_zero : forall l, nonneg_weights l -> sumw l <= 0 -> sumwf l == 0 /\ sumw l == 0.
Proof.
  induction l as [|[w f] t IH]; intros Hw Hs; cbn in *. split; reflexivity.
  assert (W : 0 <= w) by (apply (Hw w f); left; reflexivity).
  assert (Hw' : nonneg_weights t) by (intros w' f' H; apply (Hw w' f'); right; exact H).
  assert (T : 0 <= sumw t).
  { clear - Hw'. induction t as [|[w' f'] t' IH']; cbn. lra.
    assert (0 <= w') by (apply (Hw' w' f'); left; reflexivity).
    assert (0 <= sumw t') by (apply IH'; intros a b H'; apply (Hw' a b); right; exact H'). lra. }
  destruct (IH Hw') as [I1 I2]. lra.
  assert (W0 : w == 0) by lra. rewrite I1, W0. split. ring. rewrite I2. ring.
Qed.

Lemma filter_band_no_overlap : forall l, nonneg_weights l -> sumw l <= 0 -> filter_band l == 0.
Proof.
  intros l Hw Hs. destruct (sumwf_zero l Hw Hs) as [E1 E2].
  unfold filter_band, filter_norm, Qdiv. rewrite E1. ring.
Qed.

(* ---- masked pixels do not enter ---- *)
Section Mask.
  Variable interp : list (Z * Q) -> Z -> Q.

  (* same pixel positions and masks; values agree wherever the pixel is not masked *)
  Definition agree (t t' : Z * Q * bool) : Prop :=
    fst (fst t) = fst (fst t') /\ snd t = snd t' /\ (snd t = false -> snd (fst t) = snd (fst t')).

  Lemma good_pairs_agree : forall fl fl', Forall2 agree fl fl' -> good_pairs fl = good_pairs fl'.
  Proof.
    intros fl fl' H. induction H as [|[[i v] m] [[i' v'] m'] t t' [A [B C]] _ IH]; [reflexivity|].
    cbn in A, B, C. subst i' m'. unfold good_pairs in *. cbn. destruct m; cbn.
    - exact IH.
    - rewrite (C eq_refl), IH. reflexivity.
  Qed.

  Lemma mask_interp_agree : forall fl fl', Forall2 agree fl fl' -> mask_interp interp fl = mask_interp interp fl'.
  Proof.
    intros fl fl' H. unfold mask_interp. rewrite <- (good_pairs_agree _ _ H).
    generalize (good_pairs fl). intro gp.
    induction H as [|[[i v] m] [[i' v'] m'] t t' [A [B C]] _ IH]; [reflexivity|].
    cbn in A, B, C. subst i' m'. cbn. rewrite IH. destruct m. reflexivity. rewrite (C eq_refl). reflexivity.
  Qed.

  Lemma filter_mask_indep : forall ws fl fl', Forall2 agree fl fl' ->
    filter_band (combine ws (mask_interp interp fl)) = filter_band (combine ws (mask_interp interp fl')).
  Proof. intros ws fl fl' H. rewrite (mask_interp_agree _ _ H). reflexivity. Qed.
End Mask.

(* ---- the run-time checker accepts only results that satisfy the property ---- *)
Lemma all_nonneg_sound : forall l, all_nonneg l = true -> nonneg_weights l.
Proof.
  intros l H w f I. unfold all_nonneg in H. rewrite forallb_forall in H.
  specialize (H (w, f) I). cbn in H. apply Qle_bool_iff in H. exact H.
Qed.

Lemma wmean_ok_sound : forall l r tol, wmean_ok l r tol = true -> l <> [] ->
  nonneg_weights l /\
  (0 < sumw l -> Qabs (r - wmean l) <= tol) /\
  (sumw l <= 0 -> r == 0).
Proof.
  intros l r tol H Hl. destruct l as [|[w0 f0] t]; [contradiction|].
  unfold wmean_ok in H. apply andb_true_iff in H. destruct H as [H1 H2].
  split. apply all_nonneg_sound. exact H1.
  destruct (Qle_bool (sumw ((w0, f0) :: t)) 0) eqn:E.
  - apply Qle_bool_iff in E. split.
    + intro P. exfalso. apply (Qlt_not_le _ _ P). exact E.
    + intros _. apply Qeq_bool_iff. exact H2.
  - assert (P : 0 < sumw ((w0, f0) :: t)).
    { apply Qnot_le_lt. intro C. apply Qle_bool_iff in C. rewrite C in E. discriminate. }
    split; [| intro C; exfalso; apply (Qlt_not_le _ _ P); exact C].
    intros _. apply andb_true_iff in H2. destruct H2 as [_ H3]. apply Qle_bool_iff in H3.
    set (s := sumw ((w0, f0) :: t)) in *. set (x := sumwf ((w0, f0) :: t)) in *.
    unfold wmean. fold s x.
    assert (E1 : r - x / s == (r * s - x) / s) by (field; intro Z; rewrite Z in P; apply (Qlt_irrefl _ P)).
    rewrite E1. unfold Qdiv. rewrite Qabs_Qmult.
    assert (E2 : Qabs (/ s) == / s) by (apply Qabs_pos; apply Qlt_le_weak; apply Qinv_lt_0_compat; exact P).
    rewrite E2. apply Qle_shift_div_r. exact P. exact H3.
Qed.

Lemma filter_is_wmean : forall l, 0 < sumw l -> filter_band l == wmean l.
Proof. intros l H. unfold filter_band, wmean. apply filter_norm_pos. exact H. Qed.

(* ---- the regenerated weight expression ---- *)

(* every weight the source forms is >= 0 when the response curve is (removing np.absolute from the source breaks this) *)
Lemma weights_nonneg : forall fitted resp, 0 <= resp -> 0 <= filter_weight (filter_logdiff fitted) resp.
Proof.
  intros fitted resp H. unfold filter_weight, filter_logdiff.
  apply Qmult_le_0_compat; [apply Qabs_nonneg | exact H].
Qed.

(* ... and it is the documented weight |d(log lambda)| * response *)
Lemma weight_is_spec : forall fitted resp, filter_weight (filter_logdiff fitted) resp == weight_S fitted resp.
Proof. intros. unfold filter_weight, filter_logdiff, weight_S. reflexivity. Qed.

Definition resp_nonneg (l : list (Q * Q * Q)) : Prop := forall t, In t l -> 0 <= snd (fst t).
Definition flux_within3 (lo hi : Q) (l : list (Q * Q * Q)) : Prop := forall t, In t l -> lo <= snd t <= hi.

Lemma band_pairs_nonneg : forall l, resp_nonneg l -> nonneg_weights (band_pairs l).
Proof.
  intros l H w f I. unfold band_pairs in I. apply in_map_iff in I. destruct I as [t [E I]].
  inversion E; subst. apply weights_nonneg. apply H. exact I.
Qed.

Lemma band_pairs_within : forall lo hi l, flux_within3 lo hi l -> flux_within lo hi (band_pairs l).
Proof.
  intros lo hi l H w f I. unfold band_pairs in I. apply in_map_iff in I. destruct I as [t [E I]].
  inversion E; subst. apply H. exact I.
Qed.

(* the band value computed from the raw ingredients lies within the flux range whenever the band overlaps the spectrum *)
Lemma filter_thru_band_bounds : forall lo hi l, resp_nonneg l -> flux_within3 lo hi l -> 0 < sumw (band_pairs l) ->
  lo <= filter_thru_band l <= hi.
Proof.
  intros lo hi l Hr Hf Hs. unfold filter_thru_band. apply filter_band_bounds.
  apply band_pairs_nonneg; exact Hr. apply band_pairs_within; exact Hf. exact Hs.
Qed.

Lemma filter_thru_band_no_overlap : forall l, resp_nonneg l -> sumw (band_pairs l) <= 0 -> filter_thru_band l == 0.
Proof. intros l Hr Hs. unfold filter_thru_band. apply filter_band_no_overlap. apply band_pairs_nonneg; exact Hr. exact Hs. Qed.
