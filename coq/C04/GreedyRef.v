(* C04 -- REFERENCE transliteration (hand-maintained) of the two maxmatch passes of spherematch() in the combinators
   of C05/Imp.v; Generated/Chunks.v must be syntactically equal to it (GenProofs.v), and greedy_pass_specs below relates
   one iteration of each pass to the L1 model (greedy_count / greedy_fill of C04/Model.v). *)
From Coq Require Import ZArith String List Bool.
From PV Require Import C05.Imp.
Open Scope string_scope. Open Scope Z_scope.

Definition ref_greedy_enabled (s : store) : bool :=
  (Z.gtb (sv s "maxmatch") 0).

(* spherematch(), count pass *)
Definition ref_greedy_count_from (s : store) : Z :=
  0.

Definition ref_greedy_count_to (s : store) : Z :=
  (sv s "omatch1_size").

Definition ref_greedy_count_step (s : store) : Z :=
  1.

Definition ref_greedy_count_var : string :=
  "i".

Definition ref_greedy_count_body : stmt :=
  (ifte (fun s => ((Z.ltb (rd s "gotten1" (rd s "omatch1" (rd s "s" (sv s "i")))) (sv s "maxmatch")) && (Z.ltb (rd s "gotten2" (rd s "omatch2" (rd s "s" (sv s "i")))) (sv s "maxmatch")))) (sq (aassign "gotten1" (fun s => (rd s "omatch1" (rd s "s" (sv s "i")))) (fun s => ((rd s "gotten1" (rd s "omatch1" (rd s "s" (sv s "i")))) + 1))) (sq (aassign "gotten2" (fun s => (rd s "omatch2" (rd s "s" (sv s "i")))) (fun s => ((rd s "gotten2" (rd s "omatch2" (rd s "s" (sv s "i")))) + 1))) (assign "nmatch" (fun s => ((sv s "nmatch") + 1))))) skip).

(* spherematch(), fill pass *)
Definition ref_greedy_fill_from (s : store) : Z :=
  0.

Definition ref_greedy_fill_to (s : store) : Z :=
  (sv s "omatch1_size").

Definition ref_greedy_fill_step (s : store) : Z :=
  1.

Definition ref_greedy_fill_var : string :=
  "i".

Definition ref_greedy_fill_body : stmt :=
  (ifte (fun s => ((Z.ltb (rd s "gotten1" (rd s "omatch1" (rd s "s" (sv s "i")))) (sv s "maxmatch")) && (Z.ltb (rd s "gotten2" (rd s "omatch2" (rd s "s" (sv s "i")))) (sv s "maxmatch")))) (sq (aassign "gotten1" (fun s => (rd s "omatch1" (rd s "s" (sv s "i")))) (fun s => ((rd s "gotten1" (rd s "omatch1" (rd s "s" (sv s "i")))) + 1))) (sq (aassign "gotten2" (fun s => (rd s "omatch2" (rd s "s" (sv s "i")))) (fun s => ((rd s "gotten2" (rd s "omatch2" (rd s "s" (sv s "i")))) + 1))) (sq (aassign "match1" (fun s => (sv s "nmatch")) (fun s => (rd s "omatch1" (rd s "s" (sv s "i"))))) (sq (aassign "match2" (fun s => (sv s "nmatch")) (fun s => (rd s "omatch2" (rd s "s" (sv s "i"))))) (sq (aassign "distance12" (fun s => (sv s "nmatch")) (fun s => (rd s "odistance12" (rd s "s" (sv s "i"))))) (assign "nmatch" (fun s => ((sv s "nmatch") + 1)))))))) skip).

