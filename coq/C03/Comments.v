(* C03 round 6 -- proofs about the `comments` option of yanny.write() (definitions: C03/CommentsModel.v). *)
From Coq Require Import String.
From Coq Require Import NArith ZArith List Bool Lia.
Import ListNotations.
From PV Require Import Yanny.Bytes Yanny.Types Yanny.Parse Yanny.Render.
From PV Require Import C03.SkelLang C03.Model C03.SkelSem C03.Proofs C03.Invariant C03.Skel C03.CommentsModel.
From PV Require Import Generated.YannyOps.
Open Scope N_scope.
Open Scope list_scope.

Arguments starts_withb : simpl never.

(* the list form IS Model.do_write *)
Lemma render_obj_h_list l p : render_obj_h (comment_text (CmtList l)) p = render_obj l p.
Proof. unfold render_obj_h, render_obj, render_header, comment_text. rewrite <- !app_assoc. reflexivity. Qed.

Theorem write_c_list fs o nf l : do_write_c fs o nf (CmtList l) = do_write fs o nf l.
Proof. unfold do_write_c, do_write. rewrite render_obj_h_list. reflexivity. Qed.

Theorem run_write_c_list skel fs o nf l : run_write_c skel fs o nf (CmtList l) = run_write skel fs o nf l.
Proof. reflexivity. Qed.

(* write() depends on the comments value through its text only *)
Theorem write_c_same_text fs o nf c c' : comment_text c = comment_text c' -> do_write_c fs o nf c = do_write_c fs o nf c'.
Proof. unfold do_write_c. intros ->. reflexivity. Qed.

(* a one-line string without its own '#' is the one-element list, however long it is *)
Theorem str_one_line_is_list s : starts_withb [HASH] s = false -> ends_with [NL] (HASH :: SP :: s) = false ->
  comment_text (CmtStr s) = comment_text (CmtList [s]).
Proof. intros H1 H2. unfold comment_text, norm_str. rewrite H1, H2. reflexivity. Qed.

Theorem write_str_one_line fs o nf s : starts_withb [HASH] s = false -> ends_with [NL] (HASH :: SP :: s) = false ->
  do_write_c fs o nf (CmtStr s) = do_write fs o nf [s].
Proof. intros H1 H2. rewrite (write_c_same_text fs o nf _ _ (str_one_line_is_list s H1 H2)). apply write_c_list. Qed.

(* ... hence every content theorem about write(comments=[c]) holds for write(comments="c") *)
Theorem write_str_preserves fs o d p s : SInv fs o d -> p <> [] -> fs_get fs p = None -> comment_ok s = true ->
  starts_withb [HASH] s = false -> ends_with [NL] (HASH :: SP :: s) = false ->
  exists fs' o', do_write_c fs o (Some p) (CmtStr s) = (fs', o', Ok) /\ SInv fs' o' d /\ o_state o' = o_state o /\ o_file o' = p /\
                 fs_get fs' (o_file o) = fs_get fs (o_file o).
Proof.
  intros HI Hp Hf Hc H1 H2. rewrite write_str_one_line by assumption.
  apply write_preserves; auto. unfold cmts_ok. cbn [forallb]. now rewrite Hc.
Qed.

(* ---------------------------------------------------------------- the SOURCE's skeleton, run with ONE string *)
Lemma write_text_is_render_h h st :
  (((((([35; 37; 121; 97; 110; 110; 121; 10] ++ h) ++
       concat (map render_pair (pd_pairs st))) ++ render_block (pd_enums st)) ++ render_block (pd_structs st)) ++ [10]) ++
   concat (map (fun t : ptable => concat (map (render_row (pt_name t)) (pt_rows t))) (pd_tables st)))
  = render_obj_h h st.
Proof.
  unfold render_obj_h. change [35; 37; 121; 97; 110; 110; 121; 10] with (S_MAGIC ++ [NL]). change [10] with [NL].
  rewrite <- !app_assoc. reflexivity.
Qed.

Theorem run_write_ref_str fs o nf s : nf <> Some [] ->
  run_write_c ref_write_skel fs o nf (CmtStr s) = do_write_c fs o nf (CmtStr s).
Proof.
  intros Hnf. unfold run_write_c, ref_write_skel, do_write_c, cmt_val, cmt_clock.
  assert (MAIN : forall p, p <> [] ->
    finish (fs, o) (exec_list [] (tl ref_write_skel) (mkenv fs o [("newfile"%string, VStr p); ("comments"%string, VStr s)] false))
    = match fs_get fs p with
      | Some _ => (fs, o, Refused)
      | None => let c := render_obj_h (comment_text (CmtStr s)) (o_state o) in let fs' := fs_set fs p c in
                match parse c with Some p' => (fs', mkobj p c (o_raw o) p', Ok) | None => (fs', mkobj p c (o_raw o) (o_state o), Crashed) end
      end).
  { intros p Hp. unfold ref_write_skel. cbn [tl]. xs. destruct (fs_get fs p) as [old|] eqn:Eg.
    - xs. reflexivity.
    - unfold comment_text, norm_str. change HASH with 35. change SP with 32. change NL with 10.
      change (35 :: 32 :: s) with ([35; 32] ++ s).
      destruct (starts_withb [35] s) eqn:E1.
      + destruct (ends_with [10] s) eqn:E2.
        * repeat (xs; rewrite ?E1, ?E2; cbn [negb]). rewrite write_pairs_loop. rewrite write_enum_block, write_struct_block. repeat xs. rewrite write_tables_loop. repeat xs.
          rewrite !write_text_is_render_h. destruct (parse (render_obj_h s (o_state o))); repeat xs; reflexivity.
        * repeat (xs; rewrite ?E1, ?E2; cbn [negb]). rewrite write_pairs_loop. rewrite write_enum_block, write_struct_block. repeat xs. rewrite write_tables_loop. repeat xs.
          rewrite !write_text_is_render_h. destruct (parse (render_obj_h (s ++ [10]) (o_state o))); repeat xs; reflexivity.
      + destruct (ends_with [10] ([35; 32] ++ s)) eqn:E2.
        * repeat (xs; rewrite ?E1, ?E2; cbn [negb]). rewrite write_pairs_loop. rewrite write_enum_block, write_struct_block. repeat xs. rewrite write_tables_loop. repeat xs.
          rewrite !write_text_is_render_h. destruct (parse (render_obj_h ([35; 32] ++ s) (o_state o))); repeat xs; reflexivity.
        * repeat (xs; rewrite ?E1, ?E2; cbn [negb]). rewrite write_pairs_loop. rewrite write_enum_block, write_struct_block. repeat xs. rewrite write_tables_loop. repeat xs.
          rewrite !write_text_is_render_h. destruct (parse (render_obj_h (([35; 32] ++ s) ++ [10]) (o_state o))); repeat xs; reflexivity. }
  fold ref_write_skel. destruct nf as [p|].
  - destruct p as [|p0 p1]; [congruence|]. specialize (MAIN (p0 :: p1)). unfold ref_write_skel in *. cbn [tl] in MAIN.
    xs. xs. apply MAIN. discriminate.
  - destruct (o_file o) as [|p0 p1] eqn:Ef.
    + unfold ref_write_skel. xs. xs. rewrite Ef. repeat xs. reflexivity.
    + specialize (MAIN (p0 :: p1)). unfold ref_write_skel in *. cbn [tl] in MAIN.
      xs. xs. rewrite Ef. xs. rewrite ?Ef. xs. rewrite ?Ef. xs. rewrite ?Ef. apply MAIN. discriminate.
Qed.

Theorem source_write_str_is_model fs o nf s : nf <> Some [] ->
  run_write_c write_skel fs o nf (CmtStr s) = do_write_c fs o nf (CmtStr s).
Proof. rewrite write_skel_is_ref. apply run_write_ref_str. Qed.

Theorem source_write_list_is_model_c fs o nf l : nf <> Some [] ->
  run_write_c write_skel fs o nf (CmtList l) = do_write_c fs o nf (CmtList l).
Proof. intros H. rewrite run_write_c_list, write_c_list. now apply source_write_is_model. Qed.

(* a write that is refused changes nothing, whatever the comments are *)
Theorem write_c_existing_refused fs o p c old : p <> [] -> fs_get fs p = Some old -> do_write_c fs o (Some p) c = (fs, o, Refused).
Proof. intros Hp H. unfold do_write_c. destruct p; [congruence|]. now rewrite H. Qed.

(* the default header (comments=None) and the string forms consist of comment lines only *)
Example none_header_is_comments :
  header_text_ok (comment_text (CmtNone (bs "f1.par"%string) (bs "2026-10-01 00:00:07 UTC"%string))) = true.
Proof. vm_compute. reflexivity. Qed.
Example str_forms :
  comment_text (CmtStr (bs "abc"%string)) = bs "# abc
"%string /\ comment_text (CmtStr (bs "#abc"%string)) = bs "#abc
"%string /\ comment_text (CmtStr (bs "a
# b
"%string)) = bs "# a
# b
"%string /\ comment_text (CmtStr []) = bs "# 
"%string /\ comment_text (CmtList [bs "a"%string; bs "b"%string]) = bs "# a
# b
"%string.
Proof. vm_compute. repeat split. Qed.
