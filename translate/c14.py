"""C14 extractor: the index arithmetic of pydl/smooth.py -> coq/Generated/Smooth.v.

Fail-closed.  What is extracted (integer expressions only):
  * the width parity rule           if owidth % 2 == 0: width = owidth + 1 else: width = owidth
  * the identity threshold          if width < 3: return signal
  * istart, iend, w2                int((width-1)/2), n - int((width+1)/2), int(width/2)
  * the loop's branch conditions    i < istart / i > iend
  * for each of the three branches the slice bounds, and for the two edge
    branches the multiplier and the index of the repeated edge sample:
        s[i] = (signal[A:B].sum() + MULT*signal[EDGE])/float(width)
        s[i] = signal[A:B].sum()/float(width)
The arithmetic *shape* of the right-hand sides (sum of a slice, plus multiplier
times one sample, divided by float(width)) is matched structurally; anything
else raises Unrecognised, `recognised` becomes false and the previous
Generated/Smooth.v is kept (the correspondence run then ties model and code).

`int(a/b)` (true division then truncation toward zero) becomes `Z.quot a b`,
which is the same number for |a| < 2^53.
"""
import ast
import os

from . import pyexpr as P

PARAMS = ['i', 'n', 'istart', 'iend', 'w2', 'width']
SIG = '(' + ' '.join(PARAMS) + ' : Z)'

BIN = {ast.Add: 'Z.add', ast.Sub: 'Z.sub', ast.Mult: 'Z.mul', ast.FloorDiv: 'Z.div', ast.Mod: 'Z.modulo'}
CMP = {ast.Lt: 'Z.ltb', ast.LtE: 'Z.leb', ast.Gt: 'Z.gtb', ast.GtE: 'Z.geb', ast.Eq: 'Z.eqb'}


def zexpr(node, env):
    """Integer expression -> Gallina term over Z."""
    if isinstance(node, ast.Constant):
        if isinstance(node.value, int) and not isinstance(node.value, bool):
            return P.zlit(node.value)
        raise P.Unrecognised('constant %r' % (node.value,))
    if isinstance(node, ast.Name):
        if node.id in env:
            return env[node.id]
        raise P.Unrecognised('free name %s' % node.id)
    if isinstance(node, ast.UnaryOp) and isinstance(node.op, ast.USub):
        return '(Z.opp %s)' % zexpr(node.operand, env)
    if isinstance(node, ast.BinOp):
        op = BIN.get(type(node.op))
        if op is None:
            raise P.Unrecognised('operator %s' % type(node.op).__name__)
        return '(%s %s %s)' % (op, zexpr(node.left, env), zexpr(node.right, env))
    if isinstance(node, ast.Call) and isinstance(node.func, ast.Name) and node.func.id == 'int' \
            and len(node.args) == 1 and not node.keywords:
        a = node.args[0]
        if isinstance(a, ast.BinOp) and isinstance(a.op, ast.Div):
            return '(Z.quot %s %s)' % (zexpr(a.left, env), zexpr(a.right, env))
        return zexpr(a, env)
    raise P.Unrecognised('node %s' % type(node).__name__)


def bexpr(node, env):
    if isinstance(node, ast.Compare) and len(node.ops) == 1 and type(node.ops[0]) in CMP:
        return '(%s %s %s)' % (CMP[type(node.ops[0])], zexpr(node.left, env), zexpr(node.comparators[0], env))
    raise P.Unrecognised('condition %s' % ast.dump(node)[:60])


def is_name(n, name):
    return isinstance(n, ast.Name) and n.id == name


def slice_sum(node, env):
    """signal[A:B].sum() -> (A, B)"""
    if not (isinstance(node, ast.Call) and isinstance(node.func, ast.Attribute) and node.func.attr == 'sum'
            and not node.args and not node.keywords):
        raise P.Unrecognised('expected <slice>.sum()')
    sub = node.func.value
    if not (isinstance(sub, ast.Subscript) and is_name(sub.value, 'signal') and isinstance(sub.slice, ast.Slice)
            and sub.slice.step is None and sub.slice.lower is not None and sub.slice.upper is not None):
        raise P.Unrecognised('expected signal[a:b]')
    return zexpr(sub.slice.lower, env), zexpr(sub.slice.upper, env)


def over_width(node):
    """X/float(width) -> X"""
    if not (isinstance(node, ast.BinOp) and isinstance(node.op, ast.Div)):
        raise P.Unrecognised('expected division by float(width)')
    d = node.right
    if not (isinstance(d, ast.Call) and is_name(d.func, 'float') and len(d.args) == 1 and is_name(d.args[0], 'width')):
        raise P.Unrecognised('divisor is not float(width)')
    return node.left


def store_rhs(stmts):
    """[s[i] = RHS] -> RHS"""
    if len(stmts) != 1 or not isinstance(stmts[0], ast.Assign) or len(stmts[0].targets) != 1:
        raise P.Unrecognised('expected a single store s[i] = ...')
    t = stmts[0].targets[0]
    if not (isinstance(t, ast.Subscript) and is_name(t.value, 's') and is_name(t.slice, 'i')):
        raise P.Unrecognised('store target is not s[i]')
    return stmts[0].value


def edge_branch(stmts, env):
    """if edge_truncate: s[i] = (signal[A:B].sum() + MULT*signal[EDGE])/float(width)"""
    if len(stmts) != 1 or not isinstance(stmts[0], ast.If) or not is_name(stmts[0].test, 'edge_truncate') \
            or stmts[0].orelse:
        raise P.Unrecognised('edge branch is not `if edge_truncate:` without else')
    num = over_width(store_rhs(stmts[0].body))
    if not (isinstance(num, ast.BinOp) and isinstance(num.op, ast.Add)):
        raise P.Unrecognised('edge numerator is not a sum')
    a, b = slice_sum(num.left, env)
    m = num.right
    if not (isinstance(m, ast.BinOp) and isinstance(m.op, ast.Mult) and isinstance(m.right, ast.Subscript)
            and is_name(m.right.value, 'signal') and not isinstance(m.right.slice, ast.Slice)):
        raise P.Unrecognised('edge term is not MULT*signal[EDGE]')
    return a, b, zexpr(m.left, env), zexpr(m.right.slice, env)


def assign_of(st, name):
    if isinstance(st, ast.Assign) and len(st.targets) == 1 and is_name(st.targets[0], name):
        return st.value
    return None


def generate(repo):
    info = {'recognised': True, 'detail': []}
    try:
        src = open(os.path.join(repo, 'pydl/smooth.py')).read()
        fn = P.find_function(ast.parse(src), 'smooth')
        body = [s for s in fn.body if not (isinstance(s, ast.Expr) and isinstance(s.value, ast.Constant))]
        env = {p: p for p in PARAMS}
        out = ['(* GENERATED by translate/c14.py from pydl/smooth.py -- do not edit *)',
               'From Coq Require Import ZArith.', 'Open Scope Z_scope.', '']
        # 0: parity rule
        st = body[0]
        if not (isinstance(st, ast.If) and len(st.body) == 1 and len(st.orelse) == 1):
            raise P.Unrecognised('first statement is not the width parity if/else')
        w_then, w_else = assign_of(st.body[0], 'width'), assign_of(st.orelse[0], 'width')
        if w_then is None or w_else is None:
            raise P.Unrecognised('parity branches do not assign width')
        e0 = {'owidth': 'owidth'}
        out.append('(* source line %d *)' % st.lineno)
        out.append('Definition smooth_width (owidth : Z) : Z :=\n  if %s then %s else %s.\n'
                   % (bexpr(st.test, e0), zexpr(w_then, e0), zexpr(w_else, e0)))
        # 1: identity threshold
        st = body[1]
        if not (isinstance(st, ast.If) and len(st.body) == 1 and isinstance(st.body[0], ast.Return)
                and is_name(st.body[0].value, 'signal') and not st.orelse):
            raise P.Unrecognised('second statement is not `if width < 3: return signal`')
        out.append('(* source line %d *)' % st.lineno)
        out.append('Definition smooth_returns_input (width : Z) : bool := %s.\n' % bexpr(st.test, {'width': 'width'}))
        # 2..: n, istart, iend, w2, s = signal.copy(), for
        v = assign_of(body[2], 'n')
        if not (isinstance(v, ast.Attribute) and is_name(v.value, 'signal') and v.attr == 'size'):
            raise P.Unrecognised('n = signal.size expected')
        e = {'width': 'width', 'n': 'n', 'owidth': 'owidth'}     # every name in scope at that point
        for k, name in enumerate(['istart', 'iend', 'w2']):
            v = assign_of(body[3 + k], name)
            if v is None:
                raise P.Unrecognised('%s assignment expected' % name)
            out.append('(* source line %d *)' % body[3 + k].lineno)
            out.append('Definition smooth_%s (n width owidth : Z) : Z := %s.\n' % (name, zexpr(v, e)))
        v = assign_of(body[6], 's')
        if not (isinstance(v, ast.Call) and isinstance(v.func, ast.Attribute) and v.func.attr == 'copy'
                and is_name(v.func.value, 'signal')):
            raise P.Unrecognised('s = signal.copy() expected')
        loop = body[7]
        if not (isinstance(loop, ast.For) and is_name(loop.target, 'i') and isinstance(loop.iter, ast.Call)
                and is_name(loop.iter.func, 'range') and len(loop.iter.args) == 1 and is_name(loop.iter.args[0], 'n')
                and len(loop.body) == 1 and isinstance(loop.body[0], ast.If) and not loop.orelse):
            raise P.Unrecognised('for i in range(n): if ... expected')
        if not (len(body) == 9 and isinstance(body[8], ast.Return) and is_name(body[8].value, 's')):
            raise P.Unrecognised('return s expected after the loop')
        top = loop.body[0]
        if not (len(top.orelse) == 1 and isinstance(top.orelse[0], ast.If)):
            raise P.Unrecognised('if / elif / else expected')
        mid = top.orelse[0]
        out.append('(* source line %d *)' % top.lineno)
        out.append('Definition smooth_in_lo %s : bool := %s.' % (SIG, bexpr(top.test, env)))
        out.append('Definition smooth_in_hi %s : bool := %s.\n' % (SIG, bexpr(mid.test, env)))
        for tag, stmts in (('lo', top.body), ('hi', mid.body)):
            a, b, m, e = edge_branch(stmts, env)
            out.append('(* source line %d *)' % stmts[0].lineno)
            out.append('Definition smooth_%s_a %s : Z := %s.' % (tag, SIG, a))
            out.append('Definition smooth_%s_b %s : Z := %s.' % (tag, SIG, b))
            out.append('Definition smooth_%s_mult %s : Z := %s.' % (tag, SIG, m))
            out.append('Definition smooth_%s_edge %s : Z := %s.\n' % (tag, SIG, e))
        a, b = slice_sum(over_width(store_rhs(mid.orelse)), env)
        out.append('(* source line %d *)' % mid.orelse[0].lineno)
        out.append('Definition smooth_mid_a %s : Z := %s.' % (SIG, a))
        out.append('Definition smooth_mid_b %s : Z := %s.\n' % (SIG, b))
        out.append('Definition smooth_recognised : bool := true.')
    except (P.Unrecognised, SyntaxError, IndexError, OSError) as e:
        info['recognised'] = False
        info['detail'].append('%s: %s' % (type(e).__name__, e))
        return None, info
    return '\n'.join(out) + '\n', info


# ---------------------------------------------------------------------------------- rebin.py

POS = {}      # axis positions used by rebin.py: name -> set of Gallina terms (in k) found in the source


def record_pos(name, node):
    """remember the subscript expression E of  name[E]  (an integer expression of the loop variable k)"""
    POS.setdefault(name, set()).add(zexpr(node, {'k': 'k'}))


def rexpr(node, env):
    """integer expression of rebin.py: like zexpr, plus d[E] / d0[E] (E recorded as the axis position of the
    loop variable k, emitted as rebin_pos_d / rebin_pos_d0) / len(d) / len(d0) and int(floor(e))"""
    if isinstance(node, ast.Subscript) and isinstance(node.value, ast.Name) and node.value.id in ('d', 'd0') \
            and not isinstance(node.slice, ast.Slice):
        record_pos(node.value.id, node.slice)
        return env[node.value.id + 'k']
    if isinstance(node, ast.Call) and is_name(node.func, 'len') and len(node.args) == 1 \
            and isinstance(node.args[0], ast.Name) and node.args[0].id in ('d', 'd0'):
        return env['len_' + node.args[0].id]
    if isinstance(node, ast.Call) and isinstance(node.func, ast.Name) and node.func.id in ('int', 'floor') \
            and len(node.args) == 1 and not node.keywords:
        return rexpr(node.args[0], env)      # operands are integers here, so int()/floor() are the identity
    if isinstance(node, ast.Call) and is_name(node.func, 'abs') and len(node.args) == 1 and not node.keywords:
        return '(Z.abs %s)' % rexpr(node.args[0], env)
    if isinstance(node, ast.Constant) or isinstance(node, ast.Name):
        return zexpr(node, env)
    if isinstance(node, ast.UnaryOp) and isinstance(node.op, ast.USub):
        return '(Z.opp %s)' % rexpr(node.operand, env)
    if isinstance(node, ast.BinOp):
        op = BIN.get(type(node.op))
        if op is None:
            raise P.Unrecognised('operator %s' % type(node.op).__name__)
        return '(%s %s %s)' % (op, rexpr(node.left, env), rexpr(node.right, env))
    raise P.Unrecognised('node %s' % type(node).__name__)


def unit_slice(st, target, env):
    """target[k] = slice(A, A + 1) -> gallina of A"""
    sl = slice_assign(st, target)
    if sl is None:
        raise P.Unrecognised('%s[k] = slice(a, a + 1) expected' % target)
    a0 = rexpr(sl[0], env)
    if rexpr(sl[1], env) not in ('(Z.add %s 1)' % a0, rexpr(ast.BinOp(sl[0], ast.Add(), ast.Constant(1)), env)) \
            and P_fold_add1(sl[0], sl[1]) is False:
        raise P.Unrecognised('%s slice is not one element wide' % target)
    return a0


def P_fold_add1(a, b):
    """is b == a + 1 for the forms  X / X + 1  and  X + c / X + (c+1) ?"""
    try:
        if isinstance(a, ast.BinOp) and isinstance(a.op, ast.Add) and isinstance(b, ast.BinOp) and isinstance(b.op, ast.Add) \
                and ast.dump(a.left) == ast.dump(b.left):
            return P.const_value(b.right) == P.const_value(a.right) + 1
        if isinstance(b, ast.BinOp) and isinstance(b.op, ast.Add) and ast.dump(b.left) == ast.dump(a):
            return P.const_value(b.right) == 1
    except P.Unrecognised:
        pass
    return False


def store_is(st, rhs_text):
    return isinstance(st, ast.Assign) and ast.unparse(st.targets[0]) == 'r[tuple(sliceobj)]' \
        and ast.unparse(st.value).replace(' ', '') == rhs_text.replace(' ', '')


def expand_branch(X, env, out):
    """the `d[k] > d0[k]` branch of the main loop"""
    if len(X) != 1 or not is_range_dk(X[0], 'i'):
        raise P.Unrecognised('expand branch: for i in range(d[k]) expected')
    out.append('Definition rebin_expand_count (d0k dk : Z) : Z := dk.')
    b = X[0].body
    e = dict(env, i='i')
    fpv, pv = assign_of(b[0], 'fp'), assign_of(b[1], 'p')
    if fpv is None or pv is None or not (isinstance(pv, ast.BinOp) and isinstance(pv.op, ast.Div)):
        raise P.Unrecognised('expand: fp = <int expr>; p = <num>/<den> expected')
    out.append('Definition rebin_expand_fp (d0k dk i : Z) : Z := %s.' % rexpr(fpv, e))
    out.append('Definition rebin_expand_p_num (d0k dk i : Z) : Z := %s.' % rexpr(pv.left, e))
    out.append('Definition rebin_expand_p_den (d0k dk i : Z) : Z := %s.' % rexpr(pv.right, e))
    ef = {'fp': 'fp'}
    out.append('Definition rebin_expand_lo (fp : Z) : Z := %s.' % unit_slice(b[2], 'sliceobj0', ef))
    if unit_slice(b[3], 'sliceobj', {'i': 'i'}) != 'i':
        raise P.Unrecognised('expand: sliceobj[k] = slice(i, i + 1) expected')
    sm = b[4]
    if not (len(b) == 5 and isinstance(sm, ast.If) and is_name(sm.test, 'sample') and len(sm.body) == 1
            and store_is(sm.body[0], 'xx[tuple(sliceobj0)]') and len(sm.orelse) == 1 and isinstance(sm.orelse[0], ast.If)):
        raise P.Unrecognised('expand: if sample: copy else: if p < ...')
    it = sm.orelse[0]
    t = it.test
    if not (isinstance(t, ast.Compare) and is_name(t.left, 'p') and isinstance(t.ops[0], ast.Lt)):
        raise P.Unrecognised('expand: `p < bound` expected')
    out.append('Definition rebin_expand_interp_bound (d0k dk : Z) : Z := %s.' % rexpr(t.comparators[0], env))
    if not (len(it.orelse) == 1 and store_is(it.orelse[0], 'xx[tuple(sliceobj0)]')):
        raise P.Unrecognised('expand: last sample copied when p >= bound')
    ib = it.body
    out.append('Definition rebin_expand_hi (fp : Z) : Z := %s.' % unit_slice(ib[0], 'sliceobj1', ef))
    if assign_of(ib[1], 'rshape') is None or len(ib) != 3 or not isinstance(ib[2], ast.If):
        raise P.Unrecognised('expand: rshape; if integer kind ... else ...')
    kt = ast.unparse(ib[2].test)
    if "kind == 'u'" not in kt or "kind == 'i'" not in kt or ' or ' not in kt:
        raise P.Unrecognised('expand: integer-kind test')
    ip, fpath = ib[2].body, ib[2].orelse
    # integer path
    mv = assign_of(ip[0], 'm')
    ok = len(ip) == 7 and mv is not None \
        and ast.unparse(ip[1]) == "lo = xx[tuple(sliceobj0)].astype('i8')" \
        and ast.unparse(ip[2]) == "hi = xx[tuple(sliceobj1)].astype('i8')"
    numv, qv = (assign_of(ip[3], 'num'), assign_of(ip[4], 'q')) if ok else (None, None)
    if numv is None or qv is None:
        raise P.Unrecognised('expand integer path: m, lo, hi, num, q expected')
    out.append('Definition rebin_expand_m (d0k dk : Z) : Z := %s.' % rexpr(mv, env))
    out.append('Definition rebin_expand_int_num (lo hi m i : Z) : Z := %s.'
               % rexpr(numv, {'lo': 'lo', 'hi': 'hi', 'm': 'm', 'i': 'i'}))
    out.append('Definition rebin_expand_int_q (num m : Z) : Z := %s.' % rexpr(qv, {'num': 'num', 'm': 'm'}))
    sg = ip[5]
    if not (isinstance(sg, ast.AugAssign) and isinstance(sg.op, ast.Mult) and P.const_value(sg.value) == -1
            and isinstance(sg.target, ast.Subscript) and is_name(sg.target.value, 'q')):
        raise P.Unrecognised('expand integer path: q[mask] *= -1 expected')
    out.append('Definition rebin_expand_int_negate (num : Z) : bool := %s.' % bexpr(sg.target.slice, {'num': 'num'}))
    if not store_is(ip[6], 'q.reshape(rshape)'):
        raise P.Unrecognised('expand integer path: store of q')
    # float path: lo + (p - fp)*(hi - lo)
    if not (len(fpath) == 1 and store_is(fpath[0], 'xx[tuple(sliceobj0)].reshape(rshape) + '
                                         '(p - fp) * (xx[tuple(sliceobj1)] - xx[tuple(sliceobj0)]).reshape(rshape)')):
        raise P.Unrecognised('expand float path: lo + (p - fp)*(hi - lo) expected')


def keep_branch(Y, out):
    if not (len(Y) == 1 and is_range_dk(Y[0], 'i') and len(Y[0].body) == 3):
        raise P.Unrecognised('keep branch: copy loop expected')
    b = Y[0].body
    out.append('Definition rebin_keep_count (d0k dk : Z) : Z := dk.')
    out.append('Definition rebin_keep_src (i : Z) : Z := %s.' % unit_slice(b[0], 'sliceobj0', {'i': 'i'}))
    if unit_slice(b[1], 'sliceobj', {'i': 'i'}) != 'i' or not store_is(b[2], 'xx[tuple(sliceobj0)]'):
        raise P.Unrecognised('keep branch: r[i] = xx[i]')


RCMP = dict(CMP)


def rbexpr(node, env):
    if isinstance(node, ast.Compare) and len(node.ops) == 1:
        l, r = rexpr(node.left, env), rexpr(node.comparators[0], env)
        if isinstance(node.ops[0], ast.NotEq):
            return '(negb (Z.eqb %s %s))' % (l, r)
        if type(node.ops[0]) in RCMP:
            return '(%s %s %s)' % (RCMP[type(node.ops[0])], l, r)
    raise P.Unrecognised('condition %s' % ast.dump(node)[:60])


def raises_value_error(stmts):
    return len(stmts) == 1 and isinstance(stmts[0], ast.Raise) and isinstance(stmts[0].exc, ast.Call) \
        and is_name(stmts[0].exc.func, 'ValueError')


def guarded_raise(stmts, env):
    """[if TEST: raise ValueError(...)] -> TEST"""
    if len(stmts) == 1 and isinstance(stmts[0], ast.If) and raises_value_error(stmts[0].body) and not stmts[0].orelse:
        return rbexpr(stmts[0].test, env)
    raise P.Unrecognised('expected `if ...: raise ValueError`')


def is_range_dk(st, var):
    """for var in range(d[E])  (E recorded)"""
    ok = isinstance(st, ast.For) and is_name(st.target, var) and isinstance(st.iter, ast.Call) \
        and is_name(st.iter.func, 'range') and len(st.iter.args) == 1 and not st.orelse \
        and isinstance(st.iter.args[0], ast.Subscript) and is_name(st.iter.args[0].value, 'd') \
        and not isinstance(st.iter.args[0].slice, ast.Slice)
    if ok:
        record_pos('d', st.iter.args[0].slice)
    return ok


def is_range_loop(st, var, over):
    return isinstance(st, ast.For) and is_name(st.target, var) and isinstance(st.iter, ast.Call) \
        and is_name(st.iter.func, 'range') and len(st.iter.args) == 1 and ast.dump(st.iter.args[0]) == ast.dump(over) \
        and not st.orelse


def three_way(st):
    """if A: X elif B: Y else: Z  ->  (A, X, B, Y, Z)"""
    if not (isinstance(st, ast.If) and len(st.orelse) == 1 and isinstance(st.orelse[0], ast.If) and st.orelse[0].orelse):
        raise P.Unrecognised('if / elif / else expected')
    e = st.orelse[0]
    return st.test, st.body, e.test, e.body, e.orelse


def slice_assign(st, target):
    """target[k] = slice(A, B) -> (A, B) ast nodes"""
    if isinstance(st, ast.Assign) and len(st.targets) == 1 and isinstance(st.targets[0], ast.Subscript) \
            and is_name(st.targets[0].value, target) and not isinstance(st.targets[0].slice, ast.Slice) \
            and isinstance(st.value, ast.Call) and is_name(st.value.func, 'slice') and len(st.value.args) == 2:
        record_pos(target, st.targets[0].slice)
        return st.value.args
    return None


def axis_plan(body, loop, lenarg, out):
    """The axis loop of rebin(): which list position every per-axis object is indexed with (as a function of the
    loop variable k), how many passes there are, that the three scratch slice lists are re-created inside every
    pass, that each pass starts from the previous pass's result (xx = r) and that the result array of a pass has
    the dtype of its input.  Model.axis_plan_ok compares these with the reference plan (pass k acts on nesting
    level k); C14_rebin_axis_plan proves the comparison true for every rank."""
    lb = loop.body
    scratch = {'%s = [slice(None)] * len(%s)' % (name, ln): name
               for name, ln in (('sliceobj0', 'd0'), ('sliceobj1', 'd0'), ('sliceobj', 'd'))}
    # xx = x.copy(); new_shape = list(d0) before the loop (+ possibly hoisted scratch lists); return r after it
    li = body.index(loop)
    pre = [ast.unparse(s_) for s_ in body[3:li]]
    hoisted = [scratch[t] for t in pre if t in scratch]
    if [t for t in pre if t not in scratch] != ['xx = x.copy()', 'new_shape = list(d0)']:
        raise P.Unrecognised('xx = x.copy(); new_shape = list(d0) expected before the main loop')
    if not (len(body) == li + 2 and isinstance(body[li + 1], ast.Return) and is_name(body[li + 1].value, 'r')):
        raise P.Unrecognised('return r expected after the main loop')
    out.append('(* the axis loop, source line %d *)' % loop.lineno)
    out.append('Definition rebin_loop_count (len_d0 len_d : Z) : Z := %s.'
               % rexpr(loop.iter.args[0], {'len_d0': 'len_d0', 'len_d': 'len_d'}))
    # new_shape[E] = d[E']
    st = lb[0]
    if not (isinstance(st, ast.Assign) and isinstance(st.targets[0], ast.Subscript) and is_name(st.targets[0].value, 'new_shape')
            and isinstance(st.value, ast.Subscript) and is_name(st.value.value, 'd')):
        raise P.Unrecognised('new_shape[k] = d[k] expected')
    out.append('Definition rebin_pos_newshape (k : Z) : Z := %s.' % zexpr(st.targets[0].slice, {'k': 'k'}))
    out.append('Definition rebin_pos_newextent (k : Z) : Z := %s.' % zexpr(st.value.slice, {'k': 'k'}))
    if ast.unparse(lb[1]) != 'r = zeros(new_shape, dtype=xx.dtype)':
        raise P.Unrecognised('r = zeros(new_shape, dtype=xx.dtype) expected')
    out.append('Definition rebin_pass_keeps_dtype : bool := true.')
    fresh = set()
    j = 2
    while j < len(lb) and ast.unparse(lb[j]) in scratch:
        fresh.add(scratch[ast.unparse(lb[j])])
        j += 1
    if fresh | set(hoisted) != set(scratch.values()) or not isinstance(lb[j], ast.If) or len(lb) != j + 2:
        raise P.Unrecognised('axis loop body: new_shape, r, slice lists, if/elif/else, xx = r expected')
    # true iff all three scratch slice lists are re-created inside every pass (none kept from the previous axis)
    out.append('Definition rebin_scratch_fresh : bool := %s.' % ('true' if len(fresh) == 3 else 'false'))
    if ast.unparse(lb[j + 1]) != 'xx = r':
        raise P.Unrecognised('xx = r expected at the end of the axis loop')
    out.append('Definition rebin_pass_feeds_next : bool := true.')
    for name, gname in (('d', 'd'), ('d0', 'd0'), ('sliceobj0', 'src'), ('sliceobj1', 'hi'), ('sliceobj', 'dst'), ('sum', 'sum')):
        terms = POS.get(name, set())
        if len(terms) != 1:
            raise P.Unrecognised('%s is indexed with %d different positions' % (name, len(terms)))
        out.append('Definition rebin_pos_%s (k : Z) : Z := %s.' % (gname, sorted(terms)[0]))


def generate_rebin(repo):
    info = {'recognised': True, 'detail': []}
    POS.clear()
    try:
        src = open(os.path.join(repo, 'pydl/rebin.py')).read()
        fn = P.find_function(ast.parse(src), 'rebin')
        body = [s for s in fn.body if not (isinstance(s, ast.Expr) and isinstance(s.value, ast.Constant))
                and not isinstance(s, (ast.Import, ast.ImportFrom))]
        out = ['(* GENERATED by translate/c14.py from pydl/rebin.py -- do not edit *)',
               'From Coq Require Import ZArith Bool.', 'Open Scope Z_scope.', '']
        # d0 = x.shape
        v = assign_of(body[0], 'd0')
        if not (isinstance(v, ast.Attribute) and is_name(v.value, 'x') and v.attr == 'shape'):
            raise P.Unrecognised('d0 = x.shape expected')
        # rank test
        st = body[1]
        if not (isinstance(st, ast.If) and raises_value_error(st.body) and not st.orelse):
            raise P.Unrecognised('rank test expected')
        out.append('Definition rebin_rank_rejects (len_d0 len_d : Z) : bool := %s.\n'
                   % rbexpr(st.test, {'len_d0': 'len_d0', 'len_d': 'len_d'}))
        # per-axis divisibility test
        env = {'d0k': 'd0k', 'dk': 'dk'}
        lenarg = ast.parse('len(d0)').body[0].value
        st = body[2]
        if not (is_range_loop(st, 'k', lenarg) and len(st.body) == 1):
            raise P.Unrecognised('validation loop expected')
        A, X, B, Y, Z = three_way(st.body[0])
        if not (len(Y) == 1 and isinstance(Y[0], ast.Pass)):
            raise P.Unrecognised('`pass` expected for equal extents')
        out.append('Definition rebin_axis_rejects (d0k dk : Z) : bool :=\n  if %s then %s else if %s then false else %s.\n'
                   % (rbexpr(A, env), guarded_raise(X, env), rbexpr(B, env), guarded_raise(Z, env)))
        # xx = x.copy(); new_shape = list(d0); main loop
        loops = [s_ for s_ in body[3:] if is_range_loop(s_, 'k', lenarg)]
        if len(loops) != 1:
            raise P.Unrecognised('main loop expected')
        loop = loops[0]
        tw = [s for s in loop.body if isinstance(s, ast.If)]
        if len(tw) != 1:
            raise P.Unrecognised('one if/elif/else in the main loop expected')
        A, X, B, Y, Z = three_way(tw[0])
        out.append('Definition rebin_is_expand (d0k dk : Z) : bool := %s.' % rbexpr(A, env))
        out.append('Definition rebin_is_keep (d0k dk : Z) : bool := %s.\n' % rbexpr(B, env))
        expand_branch(X, env, out)
        keep_branch(Y, out)
        out.append('Definition rebin_shrink_count (d0k dk : Z) : Z := dk.')
        # shrinking branch
        fv = assign_of(Z[0], 'f')
        if fv is None or len(Z) != 2 or not is_range_dk(Z[1], 'i'):
            raise P.Unrecognised('shrink branch: f = ...; for i in range(d[k]) expected')
        out.append('Definition rebin_shrink_f (d0k dk : Z) : Z := %s.' % rexpr(fv, env))
        ib = Z[1].body
        if not (len(ib) == 2 and slice_assign(ib[0], 'sliceobj') is not None and isinstance(ib[1], ast.If)
                and is_name(ib[1].test, 'sample')):
            raise P.Unrecognised('shrink loop body')
        env2 = {'f': 'f', 'i': 'i'}
        smp, blk = ib[1].body, ib[1].orelse
        # sample: fp = int(floor(f*i)); sliceobj0[k] = slice(fp, fp + 1); r[...] = xx[...]
        fpv = assign_of(smp[0], 'fp')
        sl = slice_assign(smp[1], 'sliceobj0') if len(smp) == 3 else None
        if fpv is None or sl is None or not is_name(sl[0], 'fp') or rexpr(sl[1], {'fp': 'fp'}) != '(Z.add fp 1)':
            raise P.Unrecognised('shrink sample branch')
        out.append('Definition rebin_shrink_pick (f i : Z) : Z := %s.' % rexpr(fpv, env2))
        # block: sliceobj0[k] = slice(int(f*i), int(f*(i+1))); rshape; rr = xx[...].sum(k)...; if int kind: rr//f else rr/f
        sl = slice_assign(blk[0], 'sliceobj0') if len(blk) == 4 else None
        if sl is None:
            raise P.Unrecognised('shrink block branch')
        out.append('Definition rebin_shrink_lo (f i : Z) : Z := %s.' % rexpr(sl[0], env2))
        out.append('Definition rebin_shrink_hi (f i : Z) : Z := %s.' % rexpr(sl[1], env2))
        # rshape = r[tuple(sliceobj)].shape ; rr = xx[tuple(sliceobj0)].sum(E).reshape(rshape)
        rrv = assign_of(blk[2], 'rr')
        okrr = ast.unparse(blk[1]) == 'rshape = r[tuple(sliceobj)].shape' and isinstance(rrv, ast.Call) \
            and ast.unparse(rrv.func) .endswith('.reshape') and ast.unparse(rrv.args[0]) == 'rshape' \
            and isinstance(rrv.func.value, ast.Call) and ast.unparse(rrv.func.value.func) == 'xx[tuple(sliceobj0)].sum' \
            and len(rrv.func.value.args) == 1 and not rrv.func.value.keywords
        if not okrr:
            raise P.Unrecognised('shrink: rr = xx[tuple(sliceobj0)].sum(axis).reshape(rshape) expected')
        record_pos('sum', rrv.func.value.args[0])
        last = blk[3]
        ok = isinstance(last, ast.If) and len(last.body) == 1 and len(last.orelse) == 1
        if ok:
            vi, vf = last.body[0].value, last.orelse[0].value
            ok = isinstance(vi, ast.BinOp) and isinstance(vi.op, ast.FloorDiv) and is_name(vi.left, 'rr') and is_name(vi.right, 'f') \
                and isinstance(vf, ast.BinOp) and isinstance(vf.op, ast.Div) and is_name(vf.left, 'rr') and is_name(vf.right, 'f') \
                and "kind == 'u'" in ast.unparse(last.test) and "kind == 'i'" in ast.unparse(last.test)
        if not ok:
            raise P.Unrecognised('shrink: integer kinds -> rr//f, else rr/f expected')
        out.append('')
        axis_plan(body, loop, lenarg, out)
        out.append('')
        out.append('Definition rebin_recognised : bool := true.')
    except (P.Unrecognised, SyntaxError, IndexError, OSError, KeyError, AttributeError) as e:
        info['recognised'] = False
        info['detail'].append('%s: %s' % (type(e).__name__, e))
        return None, info
    return '\n'.join(out) + '\n', info


# ---------------------------------------------------------------------------------- uniq.py

def uniq_branch(stmts, var, tag, out):
    """    indicies = (V != roll(V, SHIFT)).nonzero()[0]
           if indicies.size > 0: return PICK      else: return array([V.size - 1, ]...)"""
    if len(stmts) != 2:
        raise P.Unrecognised('uniq %s branch: two statements expected' % tag)
    v = assign_of(stmts[0], 'indicies')
    ok = isinstance(v, ast.Subscript) and isinstance(v.slice, ast.Constant) and v.slice.value == 0 \
        and isinstance(v.value, ast.Call) and isinstance(v.value.func, ast.Attribute) and v.value.func.attr == 'nonzero' \
        and not v.value.args
    if not ok:
        raise P.Unrecognised('uniq %s: indicies = (...).nonzero()[0] expected' % tag)
    cmp_ = v.value.func.value
    if not (isinstance(cmp_, ast.Compare) and len(cmp_.ops) == 1 and is_name(cmp_.left, var)):
        raise P.Unrecognised('uniq %s: comparison of %s with its roll expected' % (tag, var))
    r = cmp_.comparators[0]
    if not (isinstance(r, ast.Call) and is_name(r.func, 'roll') and len(r.args) == 2 and is_name(r.args[0], var)
            and not r.keywords):
        raise P.Unrecognised('uniq %s: roll(%s, k) expected' % (tag, var))
    shift = P.const_value(r.args[1])
    if isinstance(cmp_.ops[0], ast.NotEq):
        body = 'negb (eqb a b)'
    elif isinstance(cmp_.ops[0], ast.Eq):
        body = 'eqb a b'
    else:
        raise P.Unrecognised('uniq %s: comparison operator' % tag)
    out.append('Definition uniq_%s_differs {A : Type} (eqb : A -> A -> bool) (a b : A) : bool := %s.' % (tag, body))
    out.append('Definition uniq_%s_shift : Z := %s.' % (tag, P.zlit(shift)))
    st = stmts[1]
    if not (isinstance(st, ast.If) and len(st.body) == 1 and len(st.orelse) == 1 and isinstance(st.body[0], ast.Return)
            and isinstance(st.orelse[0], ast.Return)):
        raise P.Unrecognised('uniq %s: if/else of returns expected' % tag)

    def size_env(node):   # indicies.size / V.size -> size
        class F(ast.NodeTransformer):
            def visit_Attribute(self, n):
                if n.attr == 'size' and isinstance(n.value, ast.Name) and n.value.id in ('indicies', var):
                    return ast.copy_location(ast.Name('size', ast.Load()), n)
                return n
        return F().visit(node)
    t = st.test
    if not (isinstance(t, ast.Compare) and isinstance(t.left, ast.Attribute) and is_name(t.left.value, 'indicies')):
        raise P.Unrecognised('uniq %s: test on indicies.size expected' % tag)
    out.append('Definition uniq_%s_nonempty (size : Z) : bool := %s.' % (tag, bexpr(size_env(t), {'size': 'size'})))
    pick = st.body[0].value
    if is_name(pick, 'indicies'):
        pb = 'j'
    elif isinstance(pick, ast.Subscript) and is_name(pick.value, 'index') and is_name(pick.slice, 'indicies'):
        pb = 'index_at j'
    else:
        raise P.Unrecognised('uniq %s: returned subscripts' % tag)
    out.append('Definition uniq_%s_pick (index_at : Z -> Z) (j : Z) : Z := %s.' % (tag, pb))
    c = st.orelse[0].value
    if not (isinstance(c, ast.Call) and is_name(c.func, 'array') and len(c.args) == 1 and isinstance(c.args[0], ast.List)
            and len(c.args[0].elts) == 1):
        raise P.Unrecognised('uniq %s: array([...]) expected for the constant case' % tag)
    e = c.args[0].elts[0]
    if not any(isinstance(n, ast.Attribute) and n.attr == 'size' and is_name(n.value, var) for n in ast.walk(e)):
        raise P.Unrecognised('uniq %s: constant case must use %s.size' % (tag, var))
    out.append('Definition uniq_%s_constant (size : Z) : Z := %s.\n' % (tag, zexpr(size_env(e), {'size': 'size'})))


def generate_uniq(repo):
    info = {'recognised': True, 'detail': []}
    try:
        src = open(os.path.join(repo, 'pydl/uniq.py')).read()
        fn = P.find_function(ast.parse(src), 'uniq')
        body = [s for s in fn.body if not (isinstance(s, ast.Expr) and isinstance(s.value, ast.Constant))
                and not isinstance(s, (ast.Import, ast.ImportFrom))]
        out = ['(* GENERATED by translate/c14.py from pydl/uniq.py -- do not edit *)',
               'From Coq Require Import ZArith Bool.', 'Open Scope Z_scope.', '']
        if len(body) != 1 or not isinstance(body[0], ast.If):
            raise P.Unrecognised('single if index is None / else expected')
        t = body[0].test
        if not (isinstance(t, ast.Compare) and is_name(t.left, 'index') and isinstance(t.ops[0], ast.Is)
                and isinstance(t.comparators[0], ast.Constant) and t.comparators[0].value is None):
            raise P.Unrecognised('`index is None` expected')
        uniq_branch(body[0].body, 'x', 'plain', out)
        ib = body[0].orelse
        q = assign_of(ib[0], 'q') if ib else None
        if not (isinstance(q, ast.Subscript) and is_name(q.value, 'x') and is_name(q.slice, 'index')):
            raise P.Unrecognised('q = x[index] expected')
        uniq_branch(ib[1:], 'q', 'indexed', out)
        out.append('Definition uniq_recognised : bool := true.')
    except (P.Unrecognised, SyntaxError, IndexError, OSError, KeyError, AttributeError) as e:
        info['recognised'] = False
        info['detail'].append('%s: %s' % (type(e).__name__, e))
        return None, info
    return '\n'.join(out) + '\n', info


# ---------------------------------------------------------------------------------- median.py

def mnorm(node):
    """array.size / f.size -> size ; array.shape[k] -> nk ; iend[k] -> iendk"""
    class F(ast.NodeTransformer):
        def visit_Attribute(self, n):
            if n.attr == 'size' and isinstance(n.value, ast.Name) and n.value.id in ('array', 'f'):
                return ast.copy_location(ast.Name('size', ast.Load()), n)
            return self.generic_visit(n)

        def visit_Subscript(self, n):
            if isinstance(n.value, ast.Attribute) and n.value.attr == 'shape' and is_name(n.value.value, 'array') \
                    and isinstance(n.slice, ast.Constant) and n.slice.value in (0, 1):
                return ast.copy_location(ast.Name('n%d' % n.slice.value, ast.Load()), n)
            if is_name(n.value, 'iend') and isinstance(n.slice, ast.Constant) and n.slice.value in (0, 1):
                return ast.copy_location(ast.Name('iend%d' % n.slice.value, ast.Load()), n)
            return self.generic_visit(n)
    return F().visit(node)


def mz(node, names):
    node = mnorm(node)
    if isinstance(node, ast.Call) and is_name(node.func, 'min') and len(node.args) == 2:
        return '(Z.min %s %s)' % (mz(node.args[0], names), mz(node.args[1], names))
    return zexpr(node, {n: n for n in names})


def mb(node, names, bools=()):
    """boolean expression: compares joined by `or` / `|`, boolean names"""
    node = mnorm(node)
    if isinstance(node, ast.BoolOp) and isinstance(node.op, ast.Or):
        return '(' + ' || '.join(mb(v, names, bools) for v in node.values) + ')'
    if isinstance(node, ast.BinOp) and isinstance(node.op, ast.BitOr):
        return '(%s || %s)' % (mb(node.left, names, bools), mb(node.right, names, bools))
    if isinstance(node, ast.Name) and node.id in bools:
        return node.id
    return bexpr(node, {n: n for n in names})


def is_ndim_test(t, k):
    return isinstance(t, ast.Compare) and isinstance(t.left, ast.Attribute) and t.left.attr == 'ndim' \
        and is_name(t.left.value, 'array') and isinstance(t.ops[0], ast.Eq) and P.const_value(t.comparators[0]) == k


def generate_median(repo):
    info = {'recognised': True, 'detail': []}
    try:
        src = open(os.path.join(repo, 'pydl/median.py')).read()
        fn = P.find_function(ast.parse(src), 'median')
        body = [s for s in fn.body if not (isinstance(s, ast.Expr) and isinstance(s.value, ast.Constant))
                and not isinstance(s, (ast.Import, ast.ImportFrom))]
        out = ['(* GENERATED by translate/c14.py from pydl/median.py -- do not edit *)',
               'From Coq Require Import ZArith Bool.', 'Open Scope Z_scope.', '']
        # optional prologue (value-preserving): data in non-native byte order are converted to native order before
        # the scipy filters --  if width is not None and not array.dtype.isnative: array = array.astype(array.dtype.newbyteorder('='))
        pro = body[0]
        has_pro = False
        if isinstance(pro, ast.If) and isinstance(pro.test, ast.BoolOp) and isinstance(pro.test.op, ast.And):
            tests = sorted(ast.unparse(v) for v in pro.test.values)
            conv = ast.unparse(pro.body[0]) if len(pro.body) == 1 else ''
            if not (tests == ['not array.dtype.isnative', 'width is not None'] and not pro.orelse
                    and conv == "array = array.astype(array.dtype.newbyteorder('='))"):
                raise P.Unrecognised('byte-order prologue has another shape: ' + ast.unparse(pro)[:120])
            has_pro = True
            body = body[1:]
        out.append('(* byte-order prologue present in the source (same values, native byte order): %s *)' % ('yes' if has_pro else 'no'))
        out.append('Definition median_native_prologue : bool := %s.' % ('true' if has_pro else 'false'))
        top = body[0]
        t = top.test
        if not (len(body) == 1 and isinstance(top, ast.If) and isinstance(t, ast.Compare) and is_name(t.left, 'width')
                and isinstance(t.ops[0], ast.Is) and t.comparators[0].value is None):
            raise P.Unrecognised('`if width is None` expected')
        # ---- no width
        ax = top.body[0]
        if not (len(top.body) == 1 and isinstance(ax, ast.If) and is_name(ax.test.left, 'axis')
                and isinstance(ax.test.ops[0], ast.Is)):
            raise P.Unrecognised('`if axis is None` expected')
        fl = assign_of(ax.body[0], 'f')
        if not (isinstance(fl, ast.Call) and isinstance(fl.func, ast.Attribute) and fl.func.attr == 'flatten'):
            raise P.Unrecognised('f = array.flatten() expected')
        ev = ax.body[1]
        np_med = lambda r: isinstance(r, ast.Return) and isinstance(r.value, ast.Call) \
            and isinstance(r.value.func, ast.Attribute) and r.value.func.attr == 'median'
        if not (isinstance(ev, ast.If) and len(ev.body) == 1 and np_med(ev.body[0]) and len(ev.orelse) == 2):
            raise P.Unrecognised('even/odd rule: if ...: return np.median(array) else: argsort pick')
        out.append('Definition median_uses_npmedian (size : Z) (even : bool) : bool := %s.' % mb(ev.test, ['size'], ('even',)))
        srt = assign_of(ev.orelse[0], 'i')
        if not (isinstance(srt, ast.Call) and isinstance(srt.func, ast.Attribute) and srt.func.attr == 'argsort'
                and is_name(srt.func.value, 'f')):
            raise P.Unrecognised('i = f.argsort() expected')
        r = ev.orelse[1]
        ok = isinstance(r, ast.Return) and isinstance(r.value, ast.Subscript) and is_name(r.value.value, 'f') \
            and isinstance(r.value.slice, ast.Subscript) and is_name(r.value.slice.value, 'i')
        if not ok:
            raise P.Unrecognised('return f[i[...]] expected')
        out.append('Definition median_pick_rank (size : Z) : Z := %s.' % mz(r.value.slice.slice, ['size']))
        axr = ax.orelse
        if not (len(axr) == 1 and np_med(axr[0]) and any(k.arg == 'axis' and is_name(k.value, 'axis') for k in axr[0].value.keywords)):
            raise P.Unrecognised('return np.median(array, axis=axis) expected')
        out.append('')
        # ---- width
        d1 = top.orelse[0]
        if not (len(top.orelse) == 1 and isinstance(d1, ast.If) and is_ndim_test(d1.test, 1) and len(d1.orelse) == 1
                and isinstance(d1.orelse[0], ast.If) and is_ndim_test(d1.orelse[0].test, 2)
                and len(d1.orelse[0].orelse) == 1 and isinstance(d1.orelse[0].orelse[0], ast.Raise)
                and is_name(d1.orelse[0].orelse[0].exc.func, 'ValueError')):
            raise P.Unrecognised('ndim == 1 / ndim == 2 / raise ValueError expected')
        b1, b2 = d1.body, d1.orelse[0].body

        def kernel(st, fname):
            v = assign_of(st, 'medarray')
            if not (isinstance(v, ast.Call) and is_name(v.func, fname) and len(v.args) == 2 and is_name(v.args[0], 'array')):
                raise P.Unrecognised('medarray = %s(array, kernel) expected' % fname)
            return mz(v.args[1], ['width', 'size'])

        def same_sub(st, text):
            return isinstance(st, ast.Assign) and ast.unparse(st.targets[0]) == 'medarray[%s]' % text \
                and ast.unparse(st.value) == 'array[%s]' % text
        # 1-D
        if len(b1) != 7:
            raise P.Unrecognised('1-D branch: 7 statements expected')
        out.append('Definition medfilt1_kernel (width size : Z) : Z := %s.' % kernel(b1[0], 'medfilt'))
        out.append('Definition medfilt1_istart (width size : Z) : Z := %s.' % mz(assign_of(b1[1], 'istart'), ['width', 'size']))
        out.append('Definition medfilt1_iend (width size : Z) : Z := %s.' % mz(assign_of(b1[2], 'iend'), ['width', 'size']))
        if ast.unparse(assign_of(b1[3], 'i')) != 'np.arange(array.size)':
            raise P.Unrecognised('i = np.arange(array.size) expected')
        out.append('Definition medfilt1_edge (i istart iend : Z) : bool := %s.' % mb(assign_of(b1[4], 'w'), ['i', 'istart', 'iend']))
        if not (same_sub(b1[5], 'w') and isinstance(b1[6], ast.Return) and is_name(b1[6].value, 'medarray')):
            raise P.Unrecognised('medarray[w] = array[w]; return medarray expected')
        out.append('')
        # 2-D
        if len(b2) != 9:
            raise P.Unrecognised('2-D branch: 9 statements expected')
        out.append('Definition medfilt2_kernel (width size : Z) : Z := %s.' % kernel(b2[0], 'medfilt2d'))
        out.append('Definition medfilt2_istart (width n0 n1 : Z) : Z := %s.' % mz(assign_of(b2[1], 'istart'), ['width', 'n0', 'n1']))
        ie = assign_of(b2[2], 'iend')
        if not (isinstance(ie, ast.Tuple) and len(ie.elts) == 2):
            raise P.Unrecognised('iend = (.., ..) expected')
        out.append('Definition medfilt2_iend0 (width n0 n1 : Z) : Z := %s.' % mz(ie.elts[0], ['width', 'n0', 'n1']))
        out.append('Definition medfilt2_iend1 (width n0 n1 : Z) : Z := %s.' % mz(ie.elts[1], ['width', 'n0', 'n1']))
        if ast.unparse(assign_of(b2[3], 'i')) != 'np.arange(array.shape[0])' or ast.unparse(assign_of(b2[4], 'j')) != 'np.arange(array.shape[1])':
            raise P.Unrecognised('i, j = np.arange(array.shape[0/1]) expected')
        w = assign_of(b2[5], 'w')
        if not (isinstance(w, ast.Tuple) and len(w.elts) == 2):
            raise P.Unrecognised('w = (rows, cols) expected')
        names = ['i', 'j', 'istart', 'iend0', 'iend1']
        out.append('Definition medfilt2_edge_row (i j istart iend0 iend1 : Z) : bool := %s.' % mb(w.elts[0], names))
        out.append('Definition medfilt2_edge_col (i j istart iend0 iend1 : Z) : bool := %s.' % mb(w.elts[1], names))
        if not (same_sub(b2[6], 'w[0], :') and same_sub(b2[7], ':, w[1]') and isinstance(b2[8], ast.Return)
                and is_name(b2[8].value, 'medarray')):
            raise P.Unrecognised('edge rows / edge columns restore + return medarray expected')
        out.append('')
        out.append('Definition median_recognised : bool := true.')
    except (P.Unrecognised, SyntaxError, IndexError, OSError, KeyError, AttributeError, TypeError) as e:
        info['recognised'] = False
        info['detail'].append('%s: %s' % (type(e).__name__, e))
        return None, info
    return '\n'.join(out) + '\n', info


if __name__ == '__main__':
    import sys
    text, info = generate(sys.argv[1] if len(sys.argv) > 1 else '/repo')
    print(info)
    print(text)
    for g in (generate_rebin, generate_uniq, generate_median):
        text, info = g(sys.argv[1] if len(sys.argv) > 1 else '/repo')
        print(info)
        print(text)
