(* C16 -- spec_path and file names: decimal formatting, injectivity of names and paths, independence of the calling
   convention, and the specification of a file system holding several trees / reductions (history groups). *)
From Coq Require Import ZArith List Bool Arith Lia.
Import ListNotations.
From PV Require Import C16.Model C16.ListLemmas.
Open Scope Z_scope.

(* ---------- decimal formatting *)

Definition dstep (a d : Z) : Z := a * 10 + (d - 48).

Lemma dec_fuel_fold fuel : forall n acc, 0 <= n < 2 ^ Z.of_nat fuel ->
  fold_left dstep (dec_fuel fuel n acc) 0 = fold_left dstep acc n.
Proof.
  induction fuel as [|k IH]; intros n acc H.
  - cbn in *. assert (n = 0) by lia. subst. reflexivity.
  - cbn [dec_fuel]. destruct (n <? 10) eqn:E.
    + cbn [fold_left]. unfold dstep at 2. f_equal. lia.
    + apply Z.ltb_ge in E. rewrite IH.
      * cbn [fold_left]. unfold dstep at 2. f_equal. pose proof (Z.div_mod n 10). lia.
      * rewrite Nat2Z.inj_succ, Z.pow_succ_r in H by lia.
        split; [apply Z.div_pos; lia|]. apply Z.div_lt_upper_bound; lia.
Qed.

Lemma dec_value n : 0 <= n -> dvalue (dec n) = n.
Proof.
  intros H. unfold dvalue, dec. change (fun a d => a * 10 + (d - 48)) with dstep.
  rewrite dec_fuel_fold; [reflexivity|].
  split; [exact H|]. rewrite Nat2Z.inj_succ, Z2Nat.id by apply Z.log2_nonneg.
  destruct (Z.eq_dec n 0) as [->|Hn]; [cbn; lia|]. apply Z.log2_spec. lia.
Qed.

Lemma fmt_value w n : 0 <= n -> dvalue (fmt w n) = n.
Proof.
  intros H. unfold fmt, dvalue. rewrite fold_left_app.
  assert (fold_left (fun a d => a * 10 + (d - 48)) (repeat 48 (w - length (dec n))) 0 = 0) as ->.
  { induction (w - length (dec n))%nat as [|k IH]; cbn; [reflexivity|exact IH]. }
  apply dec_value. exact H.
Qed.

Lemma fmt_injective w n n' : 0 <= n -> 0 <= n' -> fmt w n = fmt w n' -> n = n'.
Proof. intros H H' E. rewrite <- (fmt_value w n H), <- (fmt_value w n' H'), E. reflexivity. Qed.

Lemma dec_fuel_digits fuel : forall n acc, 0 <= n -> forallb is_digit acc = true -> forallb is_digit (dec_fuel fuel n acc) = true.
Proof.
  induction fuel as [|k IH]; intros n acc H Ha; [exact Ha|].
  cbn [dec_fuel]. destruct (n <? 10) eqn:E.
  - apply Z.ltb_lt in E. cbn [forallb]. rewrite Ha, andb_true_r. unfold is_digit. apply andb_true_iff. split; apply Z.leb_le; lia.
  - apply IH; [apply Z.div_pos; lia|]. cbn [forallb]. rewrite Ha, andb_true_r.
    pose proof (Z.mod_pos_bound n 10). unfold is_digit. apply andb_true_iff. split; apply Z.leb_le; lia.
Qed.

Lemma fmt_digits w n : 0 <= n -> forallb is_digit (fmt w n) = true.
Proof.
  intros H. unfold fmt. rewrite forallb_app. apply andb_true_iff. split.
  - induction (w - length (dec n))%nat as [|k IH]; [reflexivity|exact IH].
  - apply dec_fuel_digits; [exact H|reflexivity].
Qed.

Lemma fmt_no_dash w n : 0 <= n -> ~ In dash (fmt w n).
Proof.
  intros H Hin. pose proof (fmt_digits w n H) as Hd. rewrite forallb_forall in Hd. specialize (Hd dash Hin). discriminate.
Qed.

Lemma fmt_min_length w n : (w <= length (fmt w n))%nat.
Proof. unfold fmt. rewrite app_length, repeat_length. lia. Qed.

(* ---------- names *)

Lemma split_at_unique {A} (x : A) l1 : forall l2 r1 r2,
  ~ In x l1 -> ~ In x l2 -> l1 ++ x :: r1 = l2 ++ x :: r2 -> l1 = l2 /\ r1 = r2.
Proof.
  induction l1 as [|a l1 IH]; intros l2 r1 r2 H1 H2 E; destruct l2 as [|b l2]; cbn in E.
  - inversion E. auto.
  - inversion E; subst. exfalso. apply H2. left; reflexivity.
  - inversion E; subst. exfalso. apply H1. left; reflexivity.
  - inversion E; subst. destruct (IH l2 r1 r2) as [-> ->]; auto.
    + intros H. apply H1. right; exact H.
    + intros H. apply H2. right; exact H.
Qed.

Lemma pmjdstr_injective p m p' m' :
  0 <= p -> 0 <= m -> 0 <= p' -> 0 <= m' -> pmjdstr p m = pmjdstr p' m' -> p = p' /\ m = m'.
Proof.
  intros Hp Hm Hp' Hm' E. unfold pmjdstr in E. cbn [app] in E.
  destruct (split_at_unique dash _ _ _ _ (fmt_no_dash _ p Hp) (fmt_no_dash _ p' Hp') E) as [E1 E2].
  split; eapply fmt_injective; eauto.
Qed.

Lemma file_name_injective prefix p m p' m' :
  0 <= p -> 0 <= m -> 0 <= p' -> 0 <= m' -> file_name prefix p m = file_name prefix p' m' -> p = p' /\ m = m'.
Proof.
  intros Hp Hm Hp' Hm' E. unfold file_name in E. apply app_inv_head in E. apply app_inv_tail in E.
  apply pmjdstr_injective; assumption.
Qed.

(* ---------- paths *)

(* within one location and reduction, different (plate, mjd) never name the same file *)
Lemma spplate_file_injective l r p m p' m' :
  0 <= p -> 0 <= m -> 0 <= p' -> 0 <= m' ->
  spplate_file l r p m = spplate_file l r p' m' -> p = p' /\ m = m'.
Proof.
  intros Hp Hm Hp' Hm' E. unfold spplate_file in E. apply app_inj_tail in E. destruct E as [_ E].
  eapply file_name_injective; eauto.
Qed.

Lemma spz_file_injective l r r1 prefix p m p' m' :
  0 <= p -> 0 <= m -> 0 <= p' -> 0 <= m' ->
  spz_file l r r1 prefix p m = spz_file l r r1 prefix p' m' -> p = p' /\ m = m'.
Proof.
  intros Hp Hm Hp' Hm' E. unfold spz_file in E.
  change [r1; file_name prefix p m] with ([r1] ++ [file_name prefix p m]) in E.
  change [r1; file_name prefix p' m'] with ([r1] ++ [file_name prefix p' m']) in E.
  rewrite !app_assoc in E. apply app_inj_tail in E. destruct E as [_ E].
  eapply file_name_injective; eauto.
Qed.

(* plates have their own directories under a top directory *)
Lemma plate_dir_injective t r p p' : 0 <= p -> 0 <= p' -> plate_dir (LTop t) r p = plate_dir (LTop t) r p' -> p = p'.
Proof. intros Hp Hp' E. cbn [plate_dir] in E. inversion E as [E']. apply (fmt_injective plate_width); assumption. Qed.

(* the same request names the same file whether the top directory comes from topdir= or from the environment,
   and the file NAME is the same under every convention (path= only replaces the directory) *)
Lemma convention_independent env r t p m :
  env_top env r = Some t ->
  resolve_loc None None env r = resolve_loc None (Some t) env r /\
  (forall env', resolve_loc None (Some t) env' r = Some (LTop t)) /\
  (forall l, last (spplate_file l r p m) [] = file_name pre_spplate p m) /\
  (forall d topdir env', resolve_loc (Some d) topdir env' r = Some (LPath d)).
Proof.
  intros H. repeat split.
  - unfold resolve_loc. rewrite H. reflexivity.
  - intros l. unfold spplate_file. apply last_last.
Qed.

(* which variable: SPECTRO_REDUX for an integer run2d, BOSS_SPECTRO_REDUX otherwise *)
Lemma env_top_spec env r :
  env_top env r = if is_int_string r then e_sdss env else e_boss env.
Proof. reflexivity. Qed.

(* ---------- several trees / reductions in one file system *)

Lemma eqb_listZ_eq a : forall b, eqb_listZ a b = true <-> a = b.
Proof.
  unfold eqb_listZ. induction a as [|x a IH]; destruct b as [|y b]; cbn; try (split; [discriminate|discriminate]).
  - split; reflexivity.
  - specialize (IH b). destruct (Nat.eqb (length a) (length b)) eqn:El; cbn in *.
    + destruct (x =? y) eqn:E; cbn.
      * apply Z.eqb_eq in E. subst. rewrite IH. split; [intros ->; reflexivity|intros H; inversion H; reflexivity].
      * apply Z.eqb_neq in E. split; [discriminate|intros H; inversion H; congruence].
    + split; [discriminate|]. intros H. inversion H; subst. rewrite Nat.eqb_refl in El. discriminate.
Qed.

Lemma eqb_img_eq a : forall b, eqb_img a b = true <-> a = b.
Proof.
  unfold eqb_img. induction a as [|x a IH]; destruct b as [|y b]; cbn; try (split; [discriminate|discriminate]).
  - split; reflexivity.
  - specialize (IH b). destruct (Nat.eqb (length a) (length b)) eqn:El; cbn in *.
    + destruct (eqb_listZ x y) eqn:E; cbn.
      * apply eqb_listZ_eq in E. subst. rewrite IH. split; [intros ->; reflexivity|intros H; inversion H; reflexivity].
      * split; [discriminate|]. intros H. inversion H; subst.
        assert (eqb_listZ y y = true) by (apply eqb_listZ_eq; reflexivity). congruence.
    + split; [discriminate|]. intros H. inversion H; subst. rewrite Nat.eqb_refl in El. discriminate.
Qed.

(* what distinguishes two trees: the flat directory, or (top directory, run2d) *)
Definition tkey (t : tree) : list bytes := match t_loc t with LPath d => [d] | LTop top => [top; t_run2d t] end.

Lemma paths_separate t1 t2 p m p' m' :
  tkey t1 <> tkey t2 ->
  spplate_file (t_loc t1) (t_run2d t1) p m <> spplate_file (t_loc t2) (t_run2d t2) p' m'.
Proof.
  intros Hk E. apply Hk. unfold tkey, spplate_file, plate_dir in *.
  destruct (t_loc t1); destruct (t_loc t2); cbn in E; inversion E; reflexivity.
Qed.

Definition nonneg_survey (sv : survey) : Prop := forall f, In f sv -> 0 <= f_plate f /\ 0 <= f_mjd f.

Lemma find_in_tree l r sv p m : nonneg_survey sv -> 0 <= p -> 0 <= m ->
  find (fun e => eqb_img (fst e) (spplate_file l r p m))
       (map (fun f => (spplate_file l r (f_plate f) (f_mjd f), f)) sv)
  = match find_file sv p m with Some f => Some (spplate_file l r (f_plate f) (f_mjd f), f) | None => None end.
Proof.
  intros Hsv Hp Hm. unfold find_file. induction sv as [|f sv IH]; [reflexivity|].
  cbn [map find fst].
  assert (eqb_img (spplate_file l r (f_plate f) (f_mjd f)) (spplate_file l r p m) = ((f_plate f =? p) && (f_mjd f =? m))) as ->.
  { destruct (Hsv f (or_introl eq_refl)) as [Hfp Hfm].
    destruct ((f_plate f =? p) && (f_mjd f =? m)) eqn:E.
    - apply andb_true_iff in E. rewrite !Z.eqb_eq in E. destruct E as [-> ->]. apply eqb_img_eq. reflexivity.
    - apply not_true_is_false. intros H. apply eqb_img_eq in H.
      destruct (spplate_file_injective _ _ _ _ _ _ Hfp Hfm Hp Hm H) as [E1 E2].
      rewrite E1, E2, !Z.eqb_refl in E. discriminate. }
  destruct ((f_plate f =? p) && (f_mjd f =? m)); [reflexivity|].
  apply IH. intros g Hg. apply Hsv. right; exact Hg.
Qed.

Lemma find_app_first {A} (g : A -> bool) l1 l2 :
  find g (l1 ++ l2) = match find g l1 with Some x => Some x | None => find g l2 end.
Proof. induction l1 as [|x l1 IH]; cbn; [reflexivity|]. destruct (g x); [reflexivity|exact IH]. Qed.

Lemma find_none_other t trees p m :
  ~ In (tkey t) (map tkey trees) ->
  find (fun e => eqb_img (fst e) (spplate_file (t_loc t) (t_run2d t) p m)) (mount trees) = None.
Proof.
  intros H.
  destruct (find (fun e => eqb_img (fst e) (spplate_file (t_loc t) (t_run2d t) p m)) (mount trees)) as [e|] eqn:E; [|reflexivity].
  exfalso.
  apply find_some in E. destruct E as [Hin Heq]. apply eqb_img_eq in Heq.
  unfold mount in Hin. apply in_flat_map in Hin. destruct Hin as (t' & Ht' & Hin).
  apply in_map_iff in Hin. destruct Hin as (f & <- & Hf). cbn [fst] in Heq.
  apply (paths_separate t' t _ _ _ _) in Heq; [exact Heq|].
  intros Ek. apply H. rewrite <- Ek. apply in_map. exact Ht'.
Qed.

(* THE SPECIFICATION OF THE HISTORY GROUPS: in a file system holding several trees / reductions with pairwise
   different (directory | top directory, run2d), looking a request up through the location and run2d of tree t
   finds exactly the file that t's own survey has for (plate, mjd) -- whatever else is mounted *)
Theorem mount_lookup trees : forall t p m,
  NoDup (map tkey trees) -> (forall t', In t' trees -> nonneg_survey (t_survey t')) ->
  In t trees -> 0 <= p -> 0 <= m ->
  fs_find (mount trees) (spplate_file (t_loc t) (t_run2d t) p m) = find_file (t_survey t) p m.
Proof.
  induction trees as [|t0 ts IH]; intros t p m Hnd Hsv Hin Hp Hm; [destruct Hin|].
  inversion Hnd as [|? ? Hk Hnd']; subst.
  unfold fs_find, mount. cbn [flat_map]. rewrite find_app_first.
  destruct Hin as [->|Hin].
  - rewrite find_in_tree by (try assumption; apply Hsv; left; reflexivity).
    destruct (find_file (t_survey t) p m) as [f|]; [reflexivity|].
    fold (mount ts). rewrite (find_none_other t ts p m Hk). reflexivity.
  - assert (find (fun e => eqb_img (fst e) (spplate_file (t_loc t) (t_run2d t) p m))
                 (map (fun f => (spplate_file (t_loc t0) (t_run2d t0) (f_plate f) (f_mjd f), f)) (t_survey t0)) = None) as ->.
    { pose proof (find_none_other t [t0] p m) as H. unfold mount in H. cbn [flat_map] in H. rewrite app_nil_r in H.
      apply H. cbn. intros [E|[]]. apply Hk. rewrite E. apply in_map. exact Hin. }
    fold (mount ts). apply (IH t p m Hnd'); try assumption. intros t' Ht'. apply Hsv. right; exact Ht'.
Qed.
