"""C15 -- Least-squares and factorisation solvers return the optimum they claim."""
import math
from fractions import Fraction as Fr

import numpy as np

import os

from harness import common as C
from translate import c15 as T

ID = 'C15'
PROPS_V = 'C15/Props.v'
LEVEL = 'proof'
TRUSTED = [
    'translate/c15.py (ast extractor, fail closed): elementwise expressions, broadcasting axes, slice offsets of computechi2 / '
    'pcomp / the HMF steps, the structure of HMF.iterate (seed test and its place, step list per mode, normalisation statements, '
    'defaults) and the decision logic / formulas of pca_solve; list plumbing of C15/Model.v is hand-written',
    'C13/LinAlg.v Gaussian elimination is NOT trusted: solve_checked/inverse_checked re-multiply before answering',
    'LAPACK (numpy.linalg.svd/solve/eigh, scipy.linalg.eigh) is an oracle: its outputs are checked per case by the '
    'certified checkers chi2_ok / eig_ok / pcomp_ok / pca_ok evaluated in Coq, never modelled',
    'square roots in pcomp (standard deviations) enter the checkers as float witnesses s whose squares are verified '
    'against the exact variance at 1e-12 relative inside Coq',
    'scipy.cluster.vq.kmeans/whiten and numpy.random (HMF initialisation): determinism under a seed and '
    'non-modification of inputs are observed on the real code, not proved',
    'Coq stdlib QArith, Lqa (theorems closed under the global context)',
]
ASSUMPTIONS = [
    'computechi2: well-conditioned systems are also run with sqivar scaled by 2^-30 .. 2^30 (and bvec by the same, the '
    'inverse or no factor); all comparisons are relative',
    'computechi2: amatrix is two-dimensional (N, M) as documented, full column rank on the points with non-zero sqivar; '
    'random systems with cond(A^T W A) < 1e5 plus a graded family with cond ~1e2, 1e6, 1e10, 1e12, 1e14 (monomials in the pixel '
    'index, nearly collinear templates, template norms over 2^-12..2^12); rounding tolerances scale with max(1, cond/1e8), the '
    'certified chi2-minimality clause does not; beyond cond 3e14 the unmodified code itself loses accuracy (not generated); float64 inputs',
    'pcomp: one or more variables; no constant column except under covariance=True, standardize=False; full-rank cases have cond < 1e6, and one case in five has '
    'an exactly singular covariance matrix (one variable = sum of two others)',
    'HMF steps: every row/column sub-problem is non-singular (cond < 1e5); M >= 2 pixels; positive a, g and '
    'non-negative data for the multiplicative (non-negative) updates so that no denominator vanishes',
    'HMF.solve: data without all-zero columns, N >= 6 K spectra so that scipy kmeans returns K centroids',
    'pca_solve: every object has more good pixels than kept components and is not constant over its pixels (a constant spectrum '
    'takes the `goodobj` branch, which raises ValueError in the unmodified code: see notes, outside the quantifier); maxiter 0, 1, 2 '
    '(pca_solve calls djs_reject without limits, so nothing is ever rejected: the second pass repeats the first); nreturn >= nkeep; '
    'the returned eigenspectra are float32, so the projection identity is checked at 1e-5 relative',
    'storage types: float32 inputs make computechi2 / pcomp(standardize) work in float32; their rounding tolerances are multiplied '
    'by 1e4 / 1e3 (the certified chi2-minimality clause is not); integer inputs are exact',
    'badness monotonicity in floating point is required up to 1e-9 relative slack',
    'HMF.iterate: one pass of the real loop is replayed exactly in Coq only for runs with N*M*K <= 300 (exact arithmetic on full '
    'doubles); for larger runs the pass is judged by the certified clauses alone (case CHmfIterS: every row / column of the recorded '
    'updates solves its normal equations, unit mean square, non-negativity)',
    'outside the quantifier, recorded in coverage.observations_not_judged and never judged: lists (AttributeError everywhere), NaN / inf '
    'in data or weights, negative weights, rank-deficient or under-determined systems, one observation, a constant column under '
    'correlation / standardisation; the first read of a lazy attribute after the caller changed its arrays in place',
    'an HMF object whose caller changes the arrays in place may answer for the old or for the new data (both accepted, a mixture is a '
    'violation); numpy.random.seed(seed) on the global generator is the documented behaviour of HMF(seed=...); changes of other '
    'process-global numpy state are reported without a failing input',
]

def translate(ctx):
    text, info = T.generate(C.REPO)
    path = os.path.join(C.COQ, 'Generated', 'Chi2.v')
    if text is not None:
        info['changed'] = C.write_if_changed(path, text)
    else:
        # not recognised: fall back to the committed baseline (what the translator produced for the reference tree),
        # so that a file generated earlier from ANOTHER tree cannot leak into this run; no alarm
        base = os.path.join(C.VERIF, 'translate', 'c15_baseline.v')
        if os.path.exists(base):
            info['changed'] = C.write_if_changed(path, open(base).read())
        info['note'] = ('source shape not recognised; Generated/Chi2.v is the committed baseline and the correspondence run '
                        'alone ties model to code')
    return {'Chi2': info}


MAX_TERM = 120000
COQ_TIMEOUT = 900     # generous: a wall-clock limit must not turn a slow machine into an alarm

HEADER = '''From Coq Require Import QArith ZArith List. Import ListNotations.
From PV Require Import Lib.WLS C13.LinAlg C15.Model. Open Scope Q_scope.'''


def qv(v):
    return C.coq_list([C.qlit(x) for x in v])


def qm(m):
    return C.coq_list([qv(r) for r in m])


def oq(x):
    return C.optlit(x, C.qlit)


def dy(rng, lo, hi, bits):
    return C.dyadic(rng, lo, hi, bits)


def dmat(rng, n, m, lo, hi, bits):
    return [[dy(rng, lo, hi, bits) for _ in range(m)] for _ in range(n)]


def cond(a):
    try:
        return float(np.linalg.cond(np.array(a, dtype='d')))
    except np.linalg.LinAlgError:
        return float('inf')


# ------------------------------------------------------------------ generators
CHI2_ATTRS = ['acoeff', 'chi2', 'yfit', 'dof', 'covar', 'var']
PCOMP_ATTRS = ['eigenvalues', 'coefficients', 'derived', 'variance']


def read_orders(rng, names, fixed, nrandom):
    """orders in which the attributes of a FRESH object are read (the first, canonical order is added by the runner)"""
    out = [list(o) for o in fixed]
    for _ in range(nrandom):
        o = list(names)
        rng.shuffle(o)
        out.append(o)
    return out


LAYOUTS_2D = ['C', 'C', 'F', 'strided', 'rev', 'readonly']
LAYOUTS_1D = ['C', 'C', 'strided', 'rev', 'readonly']
OPT_STYLES = ['bool', 'bool', 'int', 'npbool', 'none']


def gen_chi2(ctx):
    calls = gen_chi2_systems(ctx)
    for k, (_, c) in enumerate(calls):
        # class B: the same values as Fortran-ordered / strided views of a larger buffer / negative strides / read-only arrays
        if k % 2 == 1:
            c['layout'] = {'A': ctx.rng.choice(LAYOUTS_2D[2:]), 'b': ctx.rng.choice(LAYOUTS_1D), 'sq': ctx.rng.choice(LAYOUTS_1D)}
        c['orders'] = read_orders(ctx.rng, CHI2_ATTRS, [['covar', 'var', 'acoeff', 'yfit', 'chi2', 'dof'],
                                                       ['var', 'yfit', 'covar', 'chi2', 'dof', 'acoeff'],
                                                       ['dof', 'chi2', 'covar', 'acoeff', 'var', 'yfit']], 3)
    return calls


GRADES = [(1e1, 1e3), (1e5, 1e7), (1e9, 1e11), (1e11, 1e13), (1e13, 3e14)]


def graded_candidate(rng):
    """one full-rank system of a random construction; returns (A, sq, b)"""
    kind = rng.choice(['monomial', 'monomial', 'collinear', 'norms'])
    if kind == 'monomial':
        n = rng.choice([12, 20, 30, 40, 60, 80, 100])
        deg = rng.randint(1, 4)
        A = [[float(v ** k) for k in range(deg + 1)] for v in range(n)]
        coef = [dy(rng, -5, 5, 3) / float(n) ** k for k in range(deg + 1)]
    elif kind == 'collinear':
        n = rng.randint(8, 30)
        m = rng.randint(2, 3)
        base = [[dy(rng, -2, 2, 3) for _ in range(m)] for _ in range(n)]
        eps = 2.0 ** -rng.randint(2, 22)
        # last template = first template + eps * (its own direction): nearly collinear with the first
        A = [[r[k] if k < m - 1 else r[0] + eps * r[m - 1] for k in range(m)] for r in base]
        coef = [dy(rng, -3, 3, 3) for _ in range(m)]
    else:
        n = rng.randint(8, 30)
        m = rng.randint(2, 4)
        scale = [2.0 ** rng.randint(-12, 12) for _ in range(m)]
        A = [[dy(rng, -2, 2, 3) * scale[k] for k in range(m)] for _ in range(n)]
        coef = [dy(rng, -3, 3, 3) / scale[k] for k in range(len(scale))]
    sq = [(0.0 if rng.random() < 0.15 else 2.0 ** rng.randint(-3, 3)) for _ in range(len(A))]
    b = [round((sum(c * a for c, a in zip(coef, row)) + rng.uniform(-0.02, 0.02)) * 1024) / 1024.0 for row in A]
    return kind, A, sq, b


def graded_systems(ctx):
    rng = ctx.rng
    per = ctx.n(1, 8)
    found = {g: [] for g in GRADES}
    for _attempt in range(4000):
        if all(len(v) >= per for v in found.values()):
            break
        kind, A, sq, b = graded_candidate(rng)
        m = len(A[0])
        if sum(1 for v in sq if v > 0) < m + 2:
            continue
        An = np.array(A)
        cnd = cond(An.T @ np.diag(np.array(sq) ** 2) @ An)
        for g in GRADES:
            if g[0] <= cnd < g[1] and len(found[g]) < per:
                found[g].append(('chi2-graded', {'f': 'chi2', 'b': b, 'sq': sq, 'A': A, '_cond': cnd, '_kind': kind,
                                                 '_slack': max(1.0, 10.0 ** math.ceil(math.log10(cnd / 1e8)))}))
                break
    missing = [g for g in GRADES if len(found[g]) < per]
    if missing:
        raise RuntimeError('graded conditioning family: no system found for cond in %s' % missing)
    return [c for g in GRADES for c in found[g]]


PREC32_CHI2 = 10000    # float32 working precision (6e-8) against the float64 tolerances 1e-9 / 1e-8
PREC32_PCOMP = 1000


def shape_and_dtype_systems(ctx):
    """computechi2 on extreme shapes (square systems: dof 0; 1 x 1; one column; long and wide) and in other storage
    types (float32: the code then works in float32 throughout; int32 / int64 / mixed: exact)"""
    rng = ctx.rng
    out = []

    def system(n, m, zero, ints=False, bits=3):
        for _ in range(200):
            if ints:
                A = [[float(rng.randint(-8, 8)) for _ in range(m)] for _ in range(n)]
                b = [float(rng.randint(-16, 16)) for _ in range(n)]
                sq = [(0.0 if rng.random() < zero else float(rng.randint(1, 4))) for _ in range(n)]
            else:
                A = dmat(rng, n, m, -2, 2, bits)
                b = [dy(rng, -4, 4, 4) for _ in range(n)]
                sq = [(0.0 if rng.random() < zero else dy(rng, 0.25, 2, 3)) for _ in range(n)]
            if sum(1 for v in sq if v > 0) < m:
                continue
            An = np.array(A)
            if cond(An.T @ np.diag(np.array(sq) ** 2) @ An) < 1e4:
                return {'f': 'chi2', 'b': b, 'sq': sq, 'A': A}
        raise RuntimeError('no well-conditioned system of shape %d x %d' % (n, m))

    shapes = [(1, 1, 0.0), (2, 2, 0.0), (3, 3, 0.0), (4, 4, 0.0), (2, 1, 0.0), (9, 1, 0.3), (40, 5, 0.2), (25, 6, 0.0), (12, 4, 0.5)]
    for k in range(ctx.n(len(shapes), 60)):
        n, m, z = shapes[k % len(shapes)]
        c = system(n, m, z)
        c['_family'] = 'square' if n == m else 'shape'
        out.append(('chi2-shape', c))
    dts = [{'b': 'f4', 'sq': 'f4', 'A': 'f4'}, {'b': 'i8', 'sq': 'i8', 'A': 'i8'}, {'b': 'i4', 'sq': 'i4', 'A': 'i4'},
           {'b': 'f8', 'sq': 'i8', 'A': 'f4'}, {'b': 'f4', 'sq': 'f4', 'A': 'f4'}, {'b': 'i8', 'sq': 'f8', 'A': 'i4'},
           {'b': 'f4', 'sq': 'f8', 'A': 'f8'}, {'b': 'i4', 'sq': 'i8', 'A': 'f8'}]
    for k in range(ctx.n(len(dts), 48)):
        dt = dts[k % len(dts)]
        ints = any(v[0] == 'i' for v in dt.values())
        c = system(rng.randint(4, 10), rng.randint(1, 3), 0.25, ints=ints)
        c['dtypes'] = dt
        # numpy computes in float32 only when no operand is float64 / integer
        if set(dt.values()) == {'f4'}:
            c['_prec'] = PREC32_CHI2
        elif dt['A'] == 'f4' and dt['sq'] == 'f4':
            c['_prec'] = PREC32_CHI2
        out.append(('chi2-dtype', c))
    return out


def gen_chi2_systems(ctx):
    rng = ctx.rng
    calls = []
    while len(calls) < ctx.n(56, 800):
        n = rng.randint(4, 14)
        m = rng.randint(1, 4)
        A = dmat(rng, n, m, -2, 2, 3)
        b = [dy(rng, -4, 4, 4) for _ in range(n)]
        sq = [(0.0 if rng.random() < 0.3 else dy(rng, 0.25, 2, 3)) for _ in range(n)]
        if sum(1 for s in sq if s > 0) < m + 1:
            continue
        An = np.array(A)
        W = np.diag(np.array(sq) ** 2)
        if cond(An.T @ W @ An) > 1e5:
            continue
        calls.append(('chi2', {'f': 'chi2', 'b': b, 'sq': sq, 'A': A}))
    # a GRADED family of conditioning: full-rank systems whose normal matrix A^T W A has cond ~ 1e2, 1e6, 1e10, 1e12, 1e14
    # (monomials in the pixel index, nearly collinear templates, wildly different template norms and weights), data and
    # weights exactly representable with few bits so that the exact model stays cheap.  The rounding tolerances of the
    # checker scale with the conditioning (`_slack` = max(1, cond / 1e8)); the certified optimality clause does not.
    ill = graded_systems(ctx)
    # well-conditioned systems at extreme ABSOLUTE scales of the weights (sqivar ~ 1e-9 .. 1e9, powers of two so that the
    # floats stay short), bvec scaled along or against: every statement about computechi2 is scale free
    scaled = []
    shifts = [-30, 30, -28, 25, -30, 30, -20, 12]
    while len(scaled) < ctx.n(8, 40):
        k = shifts[len(scaled) % len(shifts)]
        n = rng.randint(5, 9)
        m = rng.randint(1, 3)
        A = dmat(rng, n, m, -2, 2, 3)
        sq0 = [(0.0 if rng.random() < 0.25 else dy(rng, 0.25, 2, 3)) for _ in range(n)]
        if sum(1 for s in sq0 if s > 0) < m + 1:
            continue
        An = np.array(A)
        if cond(An.T @ np.diag(np.array(sq0) ** 2) @ An) > 1e4:
            continue
        bk = [0, -k, k][len(scaled) % 3]
        b = [dy(rng, -4, 4, 4) * 2.0 ** bk for _ in range(n)]
        sq = [s * 2.0 ** k for s in sq0]
        scaled.append(('chi2-scaled', {'f': 'chi2', 'b': b, 'sq': sq, 'A': A, '_shift': [k, bk]}))
    return calls + ill + scaled + shape_and_dtype_systems(ctx)


def frac_cov(x, ddof):
    n = len(x)
    nv = len(x[0])
    cols = [[Fr(x[i][j]) for i in range(n)] for j in range(nv)]
    mu = [sum(c) / n for c in cols]
    cen = [[v - m for v in c] for c, m in zip(cols, mu)]
    return [[sum(a * b for a, b in zip(ci, cj)) / (n - ddof) for cj in cen] for ci in cen]


def gen_pcomp(ctx):
    rng = ctx.rng
    calls = []
    combos = [(False, False), (False, True), (True, False), (True, True)]
    k = 0
    ntot = ctx.n(48, 500)
    while len(calls) < ntot:
        st, cv = combos[k % 4]
        kind = ['plain', 'plain', 'plain', 'plain', 'rankdef', 'big', 'wide', 'i8', 'f4', 'plain', 'constcol', 'onevar'][len(calls) % 12]
        no = rng.randint(6, 9)
        nv = rng.randint(2, 4)
        if kind == 'big':
            no, nv = rng.randint(15, 30), rng.randint(4, 6)
        if kind == 'wide':
            # no more observations than variables: the matrix is singular by construction
            nv = rng.randint(3, 5)
            no = rng.randint(2, nv)
        if kind == 'onevar':
            # class F: a data matrix with a single variable (1 x 1 covariance / correlation matrix)
            nv = 1
        if kind == 'constcol':
            # class F: a constant column is meaningful for the covariance matrix of the raw data only (zero row and column);
            # its correlation / standardisation is undefined (outside: see ASSUMPTIONS)
            st, cv = False, True
        if kind == 'i8':
            x = [[float(rng.randint(-20, 20)) for _ in range(nv)] for _ in range(no)]
        else:
            x = dmat(rng, no, nv, -4, 4, 3)
        rankdef = nv >= 3 and kind == 'rankdef' 
        if rankdef:
            # one variable is an exact linear combination of two others: singular covariance / correlation matrix
            for row in x:
                row[nv - 1] = row[0] + row[1]
        if kind == 'constcol':
            cj = rng.randrange(nv)
            cval = dy(rng, -4, 4, 3)
            for row in x:
                row[cj] = cval
        c1 = frac_cov(x, 1)
        c0 = frac_cov(x, 0)
        if any(c1[j][j] == 0 for j in range(nv)) and kind != 'constcol':
            continue
        sd0 = [math.sqrt(c0[j][j]) for j in range(nv)]
        if kind == 'constcol' and sum(1 for j in range(nv) if c1[j][j] == 0) != 1:
            continue
        if st:
            # cov of the standardised array, through the float witnesses
            cs = [[float(c1[i][j]) / (sd0[i] * sd0[j]) for j in range(nv)] for i in range(nv)]
        else:
            cs = [[float(v) for v in r] for r in c1]
        sdc = [math.sqrt(cs[j][j]) for j in range(nv)]
        if kind == 'constcol':
            sdc = [v if v > 0 else 1.0 for v in sdc]
        Cm = cs if cv else [[cs[i][j] / (sdc[i] * sdc[j]) for j in range(nv)] for i in range(nv)]
        if not (rankdef or kind in ('wide', 'constcol')) and cond(Cm) > 1e6:
            continue
        k += 1
        orders = read_orders(rng, PCOMP_ATTRS, [['derived', 'variance', 'coefficients', 'eigenvalues']], 2)
        c = {'f': 'pcomp', 'x': x, 'standardize': st, 'covariance': cv, '_sd0': sd0 if st else [], '_sdc': [] if cv else sdc,
             'orders': orders, '_kind': kind}
        # classes B / E: memory layout of x; the two options written as int 0/1, numpy bools, None for False, positionally
        if len(calls) % 3 == 1 and kind not in ('i8', 'f4'):
            c['layout'] = rng.choice(LAYOUTS_2D[2:])
        if len(calls) % 4 == 2:
            c['opt_style'] = rng.choice(OPT_STYLES[2:])
        if len(calls) % 5 == 3:
            c['positional'] = True
        if kind in ('i8', 'f4'):
            c['dtype'] = kind
            if kind == 'f4' and st:
                c['_prec'] = PREC32_PCOMP      # the standardised array is then float32
        calls.append(('pcomp-%s-%s%s' % ('std' if st else 'raw', 'cov' if cv else 'corr',
                                          '-onevar' if kind == 'onevar' else '-rankdef' if rankdef or kind in ('wide', 'constcol') else ''), c))
    return calls


def gen_hmf_step(ctx):
    rng = ctx.rng
    calls = []
    epss = [None, None, 0.5, 0.25, 0.0, -0.5, 2.0]
    while len(calls) < ctx.n(32, 400):
        N = rng.randint(3, 8)
        M = rng.choice([2, 3, 4, 5, 6, 8, 10])
        K = rng.choice([1, 2, 2, 2, 3, 4]) if N >= 5 and M >= 5 else (rng.choice([1, 2]) if N >= 3 and M >= 3 else 1)
        ints = len(calls) % 4 == 3
        f4 = len(calls) % 8 == 6
        if f4:
            # float32 storage: weights with exact single-precision square roots (badness takes np.sqrt(invvar) in float32)
            s = dmat(rng, N, M, 0, 4, 3)
            w = [[(0.0 if rng.random() < 0.15 else rng.choice([0.0625, 0.25, 1.0, 2.25, 4.0])) for _ in range(M)] for _ in range(N)]
        elif ints:
            # photon counts and integer weights stored as int64
            s = [[float(rng.randint(0, 12)) for _ in range(M)] for _ in range(N)]
            w = [[(0.0 if rng.random() < 0.15 else float(rng.randint(1, 3))) for _ in range(M)] for _ in range(N)]
        else:
            s = dmat(rng, N, M, 0, 4, 3)
            w = [[(0.0 if rng.random() < 0.15 else dy(rng, 0.25, 2, 2)) for _ in range(M)] for _ in range(N)]
        a = dmat(rng, N, K, 0.25, 2, 2)
        g = dmat(rng, K, M, 0.25, 2, 2)
        eps = epss[len(calls) % len(epss)]
        an, gn, wn = np.array(a), np.array(g), np.array(w)
        ok = True
        for i in range(N):
            if cond((gn * wn[i]) @ gn.T) > 1e4:
                ok = False
        for j in range(M):
            Aj = (an * wn[:, j][:, None]).T @ an
            if cond(Aj) > 1e4:   # also required with eps > 0 so that the test does not depend on the penalty
                ok = False
        den_a = ((an @ gn) * wn) @ gn.T
        den_g = an.T @ ((an @ gn) * wn)
        if (den_a <= 0).any() or (den_g <= 0).any():
            ok = False
        if not ok:
            continue
        c = {'f': 'hmf_step', 's': s, 'w': w, 'a': a, 'g': g, 'eps': eps, 'nonnegative': len(calls) % 3 == 2}
        if ints:
            c['dtype'] = 'i8'
        elif f4:
            c['dtype'] = 'f4'          # float32 spectra and weights (short dyadics: exact), float64 factors
        if len(calls) % 2 == 1:
            c['layout'] = {k_: rng.choice(LAYOUTS_2D[2:5]) for k_ in rng.sample(['s', 'w', 'a', 'g'], rng.randint(1, 4))}
        if len(calls) % 5 == 4:
            c['opt_style'] = rng.choice(OPT_STYLES[2:4])
        calls.append(('hmf_step-' + ('eps' if eps and eps > 0 else 'noeps'), c))
    return calls


def lowrank(rng, n, m, rank, positive=True, noise=0.02):
    rs = np.random.RandomState(rng.randrange(2 ** 31))
    comps = []
    t = np.arange(m) / max(m - 1, 1)
    shapes = [1.0 + 0.0 * t, 0.5 + t, 0.5 + np.cos(3.0 * t) ** 2, 0.25 + np.sin(5.0 * t) ** 2]
    for r in range(rank):
        comps.append(shapes[r % len(shapes)])
    comps = np.array(comps)
    coef = rs.uniform(0.5, 2.0, size=(n, rank))
    data = coef @ comps + noise * rs.uniform(0, 1, size=(n, m))
    if not positive:
        data = data - data.mean()
    # short dyadics
    return (np.round(data * 256) / 256).tolist()


# boundary seeds: 0 (falsy but a valid seed), 1, the largest value numpy.random.seed accepts; slot 3 = random
SEEDS = [0, 0, 2 ** 32 - 1, None, 1]


def gen_hmf_solve(ctx):
    rng = ctx.rng
    calls = []
    plan = [(False, None, 2), (True, None, 2), (False, 0.5, 2), (False, None, 1), (True, 0.5, 2), (False, None, 2),
            (True, None, 1), (False, 0.25, 3), (False, 0, 2), (True, 0.25, 2)] * ctx.n(1, 10)
    for nonneg, eps, K0 in plan:
        K = K0
        N = rng.randint(12, 16)
        M = rng.randint(6, 9)
        noise = 0.02
        if SEEDS[len(calls) % len(SEEDS)] == 0:
            # determinism probes (seed 0): more spectra, more components, more noise, so that the k-means
            # initialisation really depends on the random numbers it draws
            K, N, M, noise = 3, rng.randint(24, 30), rng.randint(16, 20), 0.5
        s = lowrank(rng, N, M, 4 if K == 3 else 3, positive=True, noise=noise)
        w = [[(0.0 if rng.random() < 0.05 else dy(rng, 0.5, 2, 1)) for _ in range(M)] for _ in range(N)]
        for j in range(M):
            w[rng.randrange(N)][j] = 1.0
        if K == 3:
            N = max(N, 20)
        dtype = None
        if len(calls) % 8 == 5:
            # integer-valued spectra and weights stored as int64
            s = [[float(round(v * 16)) for v in r] for r in s]
            w = [[float(round(v * 2)) for v in r] for r in w]
            dtype = 'i8'
        calls.append(('hmf_solve-' + ('nn' if nonneg else 'std') + ('-eps' if eps else ''),
                      {'f': 'hmf_solve', 's': s, 'w': w, 'K': K, 'n_iter': 4 if nonneg else 3, 'dtype': dtype,
                       # passes of the real loop replayed in Coq: exact arithmetic on full doubles grows with N*M*K, so only
                       # the small runs are replayed (first or last pass in the quick tier, both in the thorough tier)
                       'trace_passes': ([0, -1] if ctx.thorough else [[0], [-1]][len(calls) % 2]),
                       '_spec_only': N * M * K > 300,
                       'seed': SEEDS[len(calls) % len(SEEDS)] if len(calls) % len(SEEDS) != 3 else rng.randrange(1, 10 ** 6),
                       'nonnegative': nonneg, 'eps': eps}))
        c = calls[-1][1]
        k = len(calls) - 1
        # classes B / E: Fortran-ordered / strided / reversed-stride data (read-only in the default mode, which must not write),
        # numpy scalars and floats for K / n_iter / seed, 0 / 1 for nonnegative, False for epsilon = 0, n_iter=None (default 20)
        if k % 3 == 1:
            c['layout'] = {'s': rng.choice(LAYOUTS_2D[2:5] + ([] if nonneg else ['readonly'])), 'w': rng.choice(LAYOUTS_2D[2:5])}
        if k % 4 in (2, 3):
            c['opt_style'] = ['int', 'npbool'][k % 2]
        if k % 10 == 3 and not nonneg:
            c['n_iter'] = None
    return calls


def gen_pca(ctx):
    rng = ctx.rng
    calls = []
    while len(calls) < ctx.n(16, 150):
        nobj = rng.randint(4, 8)
        npix = rng.randint(8, 14)
        nkeep = rng.choice([1, 2, 2, 3])
        flux = lowrank(rng, nobj, npix, 2, positive=True, noise=0.05)
        ivar = [[(0.0 if rng.random() < 0.2 else dy(rng, 0.5, 2, 1)) for _ in range(npix)] for _ in range(nobj)]
        tag = 'pca'
        if len(calls) % 3 == 1:
            # input class: a pixel (or two) with zero inverse variance in EVERY spectrum
            for j in rng.sample(range(npix), rng.choice([1, 1, 2])):
                for r in ivar:
                    r[j] = 0.0
            tag = 'pca-deadpixel'
        if any(sum(1 for v in r if v > 0) < nkeep + 2 for r in ivar):
            continue
        niter = rng.randint(1, 3)
        maxiter = [0, 0, 1, 2][len(calls) % 4]
        nreturn = [None, nkeep, nkeep + 1][len(calls) % 3]
        calls.append((tag, {'f': 'pca', 'flux': flux, 'ivar': ivar, 'nkeep': nkeep, 'niter': niter, 'maxiter': maxiter,
                            'nreturn': nreturn, 'trace_passes': [0, -1]}))
        c = calls[-1][1]
        k = len(calls) - 1
        if k % 2 == 1:
            c['layout'] = {'flux': rng.choice(LAYOUTS_2D[2:]), 'ivar': rng.choice(LAYOUTS_2D[2:])}
        if k % 4 in (2, 3):
            c['opt_style'] = ['int', 'npbool'][k % 2]
    return calls


# ------------------------------------------------------------------ case terms
def case_term(c, r):
    if 'ok' not in r:
        return None
    o = r['ok']
    f = c['f']
    if f == 'chi2':
        return '(CChi2 %s %s %s %s %s %s %s %s %s %s %s)' % (C.qlit(Fr(int(c.get('_slack', 1)))), C.qlit(Fr(int(c.get('_prec', 1)))), qv(c['b']), qv(c['sq']), qm(c['A']), qv(o['acoeff']), C.qlit(o['chi2']),
                                                        qv(o['yfit']), C.zlit(o['dof']), qm(o['covar']), qv(o['var']))
    if f == 'pcomp':
        return '(CPcomp %s %s %s %s %s %s %s %s %s %s)' % (C.qlit(Fr(int(c.get('_prec', 1)))), qm(c['x']), C.boollit(c['standardize']), C.boollit(c['covariance']),
                                                         qv(c['_sd0']), qv(c['_sdc']), qv(o['eigenvalues']), qm(o['coefficients']),
                                                         qm(o['derived']), qv(o['variance']))
    if f == 'hmf_step':
        return '(CHmf %s %s %s %s %s %s %s %s %s %s %s %s %s)' % (
            qm(c['s']), qm(c['w']), qm(c['a']), qm(c['g']), oq(c['eps']), qm(o['astep']), qm(o['gstep']), qm(o['astepnn']),
            qm(o['gstepnn']), qv(o['normbase']), C.qlit(o['badness']), C.qlit(o['badness_a']), C.qlit(o['badness_g']))
    if f == 'pca':
        return '(CPca %s %s %d%%nat %s %s %s %s %s)' % (qm(c['flux']), qm(c['ivar']), c['nkeep'], qm(o['flux']), qm(o['acoeff']),
                                                       qv(o['eigenval']), C.coq_list([C.zlit(v) + '%Z' for v in o['usemask']]),
                                                       qm(o['outmask']))
    return None


def state_lit(st):
    return '(%s, %s)' % (qm(st[0]), qm(st[1]))


def extra_terms(c, r):
    """further Coq cases from one call: passes of the real HMF.iterate loop, inner passes of pca_solve and its last pcomp object.
    Returns a list of (kind, term)."""
    out = []
    if 'ok' not in r:
        return out
    o = r['ok']
    if c['f'] == 'hmf_solve' and o.get('loop'):
        L = o['loop']
        for ps in L['passes']:
            st = ps['states']
            if c.get('_spec_only'):
                # too large for the exact re-computation: the certified clauses alone (every row / column solves its normal
                # equations, unit mean square, non-negativity) on the recorded states
                recs = st[1:] if c['nonnegative'] else [st[1], st[2], st[-1]]
                t = '(CHmfIterS %s %s %s %s %s %s)' % (C.boollit(c['nonnegative']), qm(L['spectra']), qm(L['invvar']), oq(c['eps']),
                                                      state_lit(st[0]), C.coq_list([state_lit(x) for x in recs]))
                if len(t) <= MAX_TERM:
                    out.append(('hmf_iter', t))
                continue
            out.append(('hmf_iter', '(CHmfIter %s %s %s %s %s %s %s)' % (
                C.boollit(c['nonnegative']), qm(L['spectra']), qm(L['invvar']), oq(c['eps']), qv(ps['norm']),
                state_lit(st[0]), C.coq_list([state_lit(x) for x in st[1:]]))))
    if c['f'] == 'pca':
        npass = len(o.get('passes', []))
        for ps in o.get('passes', []):
            k = ps['k']
            last = k == o['n_pcomp_calls'] - 1
            restart = (k + 1) % c['niter'] == 0          # the next pass starts again from the input flux
            nxt = None if (last or restart) else ps['x_next']
            if nxt is None and not last:
                continue
            out.append(('pca_step', '(CPcaStep %d%%nat %s %s %s %s %s %s)' % (
                c['nkeep'], qm(c['flux']), qm(c['ivar']), qm(o['outmask']), qm(ps['pres']),
                C.optlit(nxt, qm), C.optlit(o['acoeff'] if last else None, qm))))
            if last:
                x = ps['x']
                xt = [list(col) for col in zip(*x)]          # what pcomp received: npix observations of nobj variables
                c1 = frac_cov(xt, 1)
                if all(c1[j][j] > 0 for j in range(len(c1))):
                    sdc = [math.sqrt(c1[j][j]) for j in range(len(c1))]
                    out.append(('pcomp', '(CPcomp 1 %s false false [] %s %s %s %s %s)' % (
                        qm(xt), qv(sdc), qv(ps['eigenvalues']), qm(ps['coefficients']), qm(ps['pres']), qv(ps['variance']))))
    return out


CLAUSES = {
    'chi2': ['normal-equations', 'yfit', 'chi2', 'dof', 'covar-inverse', 'covar-symmetric', 'var-diagonal', 'chi2-not-minimal'],
    'pcomp': ['witness-sd0', 'witness-sdc', 'shape', 'eigen', 'outer-product', 'variance-fractions', 'variance-sum', 'derived'],
    'hmf_step': ['astep-optimal', 'gstep-optimal', 'badness-astep', 'badness-gstep', 'nonneg'],
    'pca': ['shape', 'acoeff-projection', 'eigenvalues-descending', 'usemask-shape', 'usemask-count', 'outmask'],
    'hmf_iter': ['loop-steps-optimal', 'loop-unit-rms', 'loop-nonneg'],
    'pca_step': [],
}


def failing_clauses(cc, kind, term):
    """names of the checker clauses the case fails (evaluated in Coq by diag_case)"""
    out = cc.show('diag_case %s' % term)
    import re
    m = re.search(r'=\s*\[([^\]]*)\]', out)
    if not m:
        return None
    vals = [x.strip() for x in m.group(1).split(';')]
    names = CLAUSES.get(kind, [])
    return [names[i] if i < len(names) else str(i) for i, x in enumerate(vals) if x == 'false']


def public(c):
    return {k: v for k, v in c.items() if not k.startswith('_')}


def run_calls(calls):
    nb = min(12, max(1, len(calls) // 6))
    batches = [calls[i::nb] for i in range(nb)]
    outs = C.run_impl_parallel('c15_impl.py', [[public(c) for _, c in b] for b in batches])
    results = [None] * len(calls)
    for bi, o in enumerate(outs):
        for k, r in enumerate(o['results']):
            results[bi + k * nb] = r
    return results, outs[0]['pydl_file'], sorted(set(x for o in outs for x in o.get('import_side_effects', [])))


def slim(r):
    """an implementation result without the bulky recorded passes (they are in the Coq case text)"""
    if not isinstance(r, dict) or 'ok' not in r:
        return r
    return {'ok': {k: v for k, v in r['ok'].items() if k not in ('passes', 'loop')}}


def hist(values):
    out = {}
    for v in values:
        out[str(v)] = out.get(str(v), 0) + 1
    return dict(sorted(out.items()))


def input_distribution(calls, results):
    """what the generators actually produced in this run, per function"""
    d = {}
    ch = [c for _, c in calls if c['f'] == 'chi2']
    d['computechi2'] = {
        'n': len(ch), 'rows': hist(len(c['A']) for c in ch), 'columns': hist(len(c['A'][0]) for c in ch),
        'dof': hist(sum(1 for v in c['sq'] if v > 0) - len(c['A'][0]) for c in ch),
        'zero_weight_fraction': round(sum(sum(1 for v in c['sq'] if v == 0) for c in ch) / max(1, sum(len(c['sq']) for c in ch)), 3),
        'storage': hist('/'.join((c.get('dtypes') or {}).get(k, 'f8') for k in ('b', 'sq', 'A')) for c in ch),
        'log2_weight_scale': hist(c['_shift'][0] for c in ch if '_shift' in c),
        'log10_cond_of_graded': hist(int(round(math.log10(c['_cond']))) for c in ch if '_cond' in c),
        'graded_construction': hist(c['_kind'] for c in ch if '_cond' in c),
        'attribute_read_orders_per_object': hist(1 + len(c.get('orders', [])) for c in ch),
        'result_dtypes': hist(r['ok']['result_dtypes']['acoeff'] + '/' + r['ok']['result_dtypes']['covar']
                              for (_, c), r in zip(calls, results) if c['f'] == 'chi2' and 'ok' in r),
    }
    pc = [c for _, c in calls if c['f'] == 'pcomp']
    d['pcomp'] = {'n': len(pc), 'observations': hist(len(c['x']) for c in pc), 'variables': hist(len(c['x'][0]) for c in pc),
                  'options(standardize,covariance)': hist((c['standardize'], c['covariance']) for c in pc),
                  'kind': hist(c.get('_kind') for c in pc), 'storage': hist(c.get('dtype', 'f8') for c in pc)}
    hs = [c for _, c in calls if c['f'] == 'hmf_step']
    d['hmf_step'] = {'n': len(hs), 'N': hist(len(c['s']) for c in hs), 'M': hist(len(c['s'][0]) for c in hs),
                     'K': hist(len(c['g']) for c in hs), 'epsilon': hist(c['eps'] for c in hs),
                     'storage': hist(c.get('dtype', 'f8') for c in hs), 'constructed_nonnegative': hist(c['nonnegative'] for c in hs),
                     'zero_weight_fraction': round(sum(sum(1 for r in c['w'] for v in r if v == 0) for c in hs) /
                                                   max(1, sum(len(c['w']) * len(c['w'][0]) for c in hs)), 3)}
    sv = [c for _, c in calls if c['f'] == 'hmf_solve']
    d['hmf_solve'] = {'n': len(sv), 'N x M': hist('%dx%d' % (len(c['s']), len(c['s'][0])) for c in sv), 'K': hist(c['K'] for c in sv),
                      'mode(nonnegative,epsilon)': hist((c['nonnegative'], c['eps']) for c in sv), 'seed': hist(c['seed'] for c in sv),
                      'n_iter': hist(c['n_iter'] for c in sv), 'storage': hist(c.get('dtype') or 'f8' for c in sv)}
    pa = [c for _, c in calls if c['f'] == 'pca']
    d['pca_solve'] = {'n': len(pa), 'nobj x npix': hist('%dx%d' % (len(c['flux']), len(c['flux'][0])) for c in pa),
                      'nkeep': hist(c['nkeep'] for c in pa), 'nreturn': hist(c['nreturn'] for c in pa), 'niter': hist(c['niter'] for c in pa),
                      'maxiter': hist(c['maxiter'] for c in pa),
                      'dead_pixels': hist(sum(1 for j in range(len(c['ivar'][0])) if all(r[j] == 0 for r in c['ivar'])) for c in pa),
                      'masked_fraction': round(sum(sum(1 for r in c['ivar'] for v in r if v == 0) for c in pa) /
                                               max(1, sum(len(c['ivar']) * len(c['ivar'][0]) for c in pa)), 3)}
    def layout_of(c):
        L = c.get('layout')
        if not L:
            return 'C'
        return L if isinstance(L, str) else '/'.join('%s=%s' % kv for kv in sorted(L.items()))
    for name, fam in (('computechi2', ch), ('pcomp', pc), ('hmf_step', hs), ('hmf_solve', sv), ('pca_solve', pa)):
        d[name]['memory_layout'] = hist(layout_of(c) for c in fam)
        d[name]['option_style'] = hist(c.get('opt_style', 'bool') + ('+positional' if c.get('positional') else '') for c in fam)
    return d


def check_solve(c, o):
    """direct checks on a full HMF.solve() run; returns list of (slug, text)"""
    bad = []
    if not o['finite']:
        bad.append(('nonfinite', 'HMF.solve returned non-finite factors'))
        return bad
    if not o['identical']:
        bad.append(('seed-not-reproducible', 'two runs with seed=%d differ' % c['seed']))
    for h in o.get('history_dependent', []):
        if h.startswith("caller's arrays"):
            bad.append(('caller-mutation-mixture', 'seed=%d: %s' % (c['seed'], h)))
            continue
        bad.append(('history-dependent', 'seed=%d, same data: the result of [%s] differs from create-and-solve-at-once' % (c['seed'], h)))
    if not c['nonnegative'] and not o['inputs_unchanged']:
        bad.append(('inputs-modified', "default mode modified the caller's spectra/invvar arrays"))
    if c['nonnegative'] and (o['min_a'] < 0 or o['min_g'] < 0):
        bad.append(('nonneg-violated', 'non-negative mode returned a negative factor (min a %r, min g %r)' % (o['min_a'], o['min_g'])))
    L = o.get('loop')
    if L:
        want_n = c['n_iter'] if c['n_iter'] is not None else (2048 if c['nonnegative'] else 20)
        if L['n_passes'] != want_n:
            bad.append(('loop-count', 'HMF.iterate ran %d passes for n_iter=%r' % (L['n_passes'], c['n_iter'])))
        if c['nonnegative'] and L['n_init_nn'] != 128:
            bad.append(('nn-init-count', 'non-negative mode ran %d initial coefficient updates, the source read by the translator says 128' % L['n_init_nn']))
        for ps in L['passes']:
            want = ['astepnn', 'gstepnn', 'normbase'] if c['nonnegative'] else ['astep', 'gstep', 'reorder', 'normbase']
            if ps['calls'] != want:
                bad.append(('loop-steps', 'pass %d of the loop called %s, expected %s' % (ps['pass'], ps['calls'], want)))
    if any(abs(v - 1) > 1e-9 for v in o['rms']):
        bad.append(('not-unit-rms', 'components are not normalised to unit rms: %r' % (o['rms'],)))
    prev_after = None
    for kind, before, after in o['trace']:
        if kind in ('a', 'g'):
            slack = 1e-9 * (1 + abs(before))
            if kind == 'a' and after > before + slack:
                bad.append(('badness-increased-astep', 'astep increased badness %r -> %r' % (before, after)))
            if kind == 'g' and not c['eps'] and after > before + slack:
                bad.append(('badness-increased-gstep', 'gstep (no smoothing) increased badness %r -> %r' % (before, after)))
            # reorder + normalisation between iterations must not change the model (chi-square part)
            if kind == 'a' and prev_after is not None and not c['eps'] and abs(before - prev_after) > 1e-7 * (1 + abs(prev_after)):
                bad.append(('normalise-changed-model', 'badness changed across reorder/normalisation %r -> %r' % (prev_after, before)))
            prev_after = after
        elif kind in ('ann', 'gnn'):
            if before < 0:   # here "before" holds min(new)
                bad.append(('nonneg-violated', '%s produced a negative entry %r' % (kind, before)))
    return bad


def generic_checks(tag, c, r, direct):
    """classes A / B / C / H, the same for every function: reuse of the caller's arrays, aliasing of results, process-global
    state.  Returns the number of direct evaluations made."""
    o = r['ok']
    f = c['f']
    rep = {'kind': 'failing-input', 'call': public(c), 'impl_result': slim(r)}
    n = 0
    if 'reuse' in o:
        n += 1
        if o['reuse']:
            direct.append(('C15:%s:reuse-dependent' % f, '%s: %s' % (tag, '; '.join(o['reuse'])), dict(rep, findings=o['reuse'])))
    if o.get('global_changed'):
        direct.append(('C15:%s:global-state:%s' % (f, '+'.join(o['global_changed'])), '%s changed process-global numpy state: %s' % (tag, o['global_changed']),
                       {'kind': 'broken-correspondence', 'item': 'process-global state across a call', 'call': public(c)}, False))
    if o.get('result_aliases_input') or o.get('result_aliases_state'):
        direct.append(('C15:%s:result-aliases-input' % f, "%s returned an array that shares memory with the caller's arrays / the object state (%s)" % (
            tag, o.get('result_aliases_input') or 'step result'), rep))
    if o.get('repeat_identical') is False:
        direct.append(('C15:hmf_step:not-repeatable', 'a step function called twice on the same state returned different bits', rep))
    return n


def correspond(ctx, proof_ok=True):
    ok, log = C.coq_make(['C15/Model.vo'])
    if not ok:
        raise RuntimeError('C15/Model.v does not build:\n' + log[-2000:])
    calls = gen_chi2(ctx) + gen_pcomp(ctx) + gen_hmf_step(ctx) + gen_pca(ctx) + gen_hmf_solve(ctx) + [('observe', {'f': 'observe'})]
    results, pydl_file, import_fx = run_calls(calls)
    ctx.coverage['pydl_file'] = pydl_file
    ctx.coverage['import_side_effects'] = import_fx

    terms = []
    direct = []
    nd = 0
    if import_fx:
        direct.append(('C15:import:global-state:' + '+'.join(import_fx), 'importing pydl (package, pydlutils.math, pydlspec2d.spec1d) in a '
                       'fresh interpreter changed process-global numpy state: %s' % import_fx,
                       {'kind': 'broken-correspondence', 'item': 'process-global state at import (numpy error state / print options / global RNG)'}, False))
    for ci, ((tag, c), r) in enumerate(zip(calls, results)):
        if c['f'] == 'observe':
            ctx.coverage['observations_not_judged'] = r.get('ok', r)
            continue
        if 'ok' in r:
            nd_extra = generic_checks(tag, c, r, direct)
            nd += nd_extra
        if 'ok' not in r:
            direct.append(('C15:%s:impl=%s' % (('pcomp-rankdef' if tag.endswith('-rankdef') else 'pcomp-onevar' if tag.endswith('-onevar') else tag), r.get('err')), '%s raised/produced %s on an input inside the property domain (%s)' % (
                tag, r.get('err'), r.get('msg', '')), {'kind': 'failing-input', 'call': public(c), 'impl_result': r}))
            continue
        if c['f'] == 'hmf_solve':
            nd += 1
            for slug, text in check_solve(c, r['ok']):
                direct.append(('C15:hmf_solve:%s' % slug, text, {'kind': 'failing-input', 'call': public(c), 'impl_result': r}))
            for kind, t in extra_terms(c, r):
                terms.append((ci, kind, t))
            continue
        o_ = r['ok']
        if o_.get('args_changed'):
            direct.append(('C15:%s:argument-modified' % c['f'], '%s modified its argument(s) %s' % (tag, o_['args_changed']),
                           {'kind': 'failing-input', 'call': public(c), 'impl_result': r}))
        if o_.get('order_dependent'):
            nd += 1
            d0 = o_['order_dependent'][0]
            direct.append(('C15:%s:order-dependent' % c['f'],
                           'attribute %s of a fresh %s object depends on the order in which the attributes are read: order %s differs '
                           'from the canonical order by %s' % (d0['attr'], c['f'], d0['order'], d0['maxdiff']),
                           {'kind': 'failing-input', 'call': public(c), 'history': d0['order'], 'attribute': d0['attr'],
                            'all_orders_that_differ': o_['order_dependent'], 'impl_result': r}))
        if c['f'] == 'pca':
            # the structure of pca_solve: niter inner passes per outer pass; one outer pass when maxiter = 0, else two (the
            # first djs_reject call has no model and reports "not done", the second changes nothing and reports "done")
            expect = c['niter'] * (1 if c['maxiter'] == 0 else 2)
            if o_.get('n_pcomp_calls') != expect:
                direct.append(('C15:pca:pass-count', 'pca_solve(niter=%d, maxiter=%d) ran pcomp %s times, expected %d' % (
                    c['niter'], c['maxiter'], o_.get('n_pcomp_calls'), expect), {'kind': 'broken-correspondence', 'item': 'pca_solve loop structure', 'call': public(c)}, False))
            if not o_.get('flux_is_derived', True):
                direct.append(('C15:pca:flux-not-last-derived', "the returned eigenspectra / eigenvalues are not the first nreturn derived variables / "
                               'eigenvalues of the last pcomp object', {'kind': 'failing-input', 'call': public(c), 'impl_result': {'ok': {k: v for k, v in o_.items() if k != 'passes'}}}, True))
            for kind, t in extra_terms(c, r):
                terms.append((ci, kind, t))
        if c['f'] == 'pca' and not o_.get('repeatable', True):
            direct.append(('C15:pca:not-repeatable', 'the same pca_solve call on fresh copies gave another answer after the first '
                           'result was edited in place', {'kind': 'failing-input', 'call': public(c), 'impl_result': r}))
        if c['f'] == 'hmf_step' and not r['ok'].get('state_unchanged', True):
            direct.append(('C15:hmf_step:state-modified', 'a step function modified the HMF state or the input arrays',
                           {'kind': 'failing-input', 'call': public(c), 'impl_result': r}))
        if c['f'] in ('pcomp', 'pca') and not (r['ok'].get('input_unchanged', True) and r['ok'].get('inputs_unchanged', True)):
            direct.append(('C15:%s:inputs-modified' % c['f'], 'the input arrays were modified',
                           {'kind': 'failing-input', 'call': public(c), 'impl_result': r}))
        terms.append((ci, c['f'], case_term(c, r)))

    # hard caps: no case term above MAX_TERM characters reaches Coq, and no coqc process may run longer than
    # COQ_TIMEOUT seconds (a runaway exact computation then fails the run quickly instead of stalling it)
    oversize = [k for k, (_, _k, t) in enumerate(terms) if len(t) > MAX_TERM]
    if oversize:
        raise RuntimeError('%d case terms exceed %d characters (generator bug): refusing to evaluate' % (len(oversize), MAX_TERM))
    cc = C.CoqCases(ctx.work, HEADER, 'run_cases', shard=4, timeout=COQ_TIMEOUT)
    verdicts = cc.run([t for _, _k, t in terms])
    ctx.coverage['coq_eval_s'] = round(cc.coq_seconds, 1)

    dist = {}
    for (tag, c), r in zip(calls, results):
        k = tag + ':' + ('ok' if 'ok' in r else r.get('err', '?'))
        dist[k] = dist.get(k, 0) + 1
    bad = [(ci, kind, t, v) for (ci, kind, t), v in zip(terms, verdicts) if v != 0]
    by_kind = {}
    for _ci, kind, _t in terms:
        by_kind[kind] = by_kind.get(kind, 0) + 1
    ctx.coverage.update({
        'evaluations': len(terms) + nd,
        'distinct_nontrivial': len(set(t for _, _k, t in terms)) + nd,
        'coq_cases_by_kind': by_kind,
        'input_distribution': input_distribution(calls, results),
        'rule': 'one evaluation = one computechi2 / pcomp / pca_solve object or one set of HMF step calls (astep, gstep, astepnn, '
                'gstepnn, normbase, 3 x badness from the same a, g) on the real code, its output compared in Coq with the exact-rational '
                'model (computechi2, HMF steps; 1e-8 relative) and judged by the certified checkers chi2_ok / astep_ok / gstep_ok / '
                'pcomp_ok(eig_ok) / pca_ok; plus one per full HMF.solve() run checked directly (seed reproducibility, inputs unchanged, '
                'non-negativity, unit rms, per-step badness monotone)',
        'cases_by_kind_and_outcome': dist,
        'direct_checks': nd,
        'model_disagreements': sum(1 for b in bad if b[3] & 1),
        'spec_violations': sum(1 for b in bad if b[3] & 2),
        'samples': [{'call': public(calls[ci][1]), 'impl': slim(results[ci]), 'coq_case': t[:400]}
                    for ci, _k, t in (terms[:1] + terms[len(terms) // 2:len(terms) // 2 + 1] + terms[-1:])],
    })
    seen = set()
    for ci, kind, t, v in bad:
        tag, c = calls[ci]
        clauses = None
        if v & 2:
            clauses = failing_clauses(cc, kind, t)
            base = kind + (':standardize=%s' % c['standardize'] if c['f'] == 'pcomp' else '') + (':in-pca_solve' if kind == 'pcomp' and c['f'] == 'pca' else '')
            sig = 'C15:%s:%s:property' % (base, '+'.join(clauses) if clauses else 'spec')
        else:
            sig = 'C15:%s:model' % (tag if kind == c['f'] else kind)
        if sig in seen:
            continue
        seen.add(sig)
        if v & 2:
            ctx.violation(sig, 'output of %s contradicts the specification checker (verdict %d)' % (tag, v),
                          {'kind': 'failing-input', 'call': public(c), 'witnesses': {k: v_ for k, v_ in c.items() if k.startswith('_')},
                           'impl_result': slim(results[ci]), 'coq_case': t, 'coq_case_kind': kind, 'verdict': v, 'failing_clauses': clauses,
                           'meaning': 'bit 2: the implementation output fails the certified checker (chi2_ok / astep_ok+gstep_ok+monotone+'
                                      'nonneg / pcomp_ok / pca_ok); bit 1: it differs from the algorithmic model'}, True)
        else:
            ctx.violation(sig, 'model and implementation disagree on %s (checker accepts the output)' % tag,
                          {'kind': 'broken-correspondence', 'item': 'C15.Model.run_case (%s)' % kind, 'call': public(c),
                           'impl_result': slim(results[ci]), 'coq_case': t, 'coq_case_kind': kind, 'verdict': v}, False)
    for d in direct:
        sig, summary, rep = d[0], d[1], d[2]
        if sig in seen:
            continue
        seen.add(sig)
        ctx.violation(sig, summary, rep, d[3] if len(d) > 3 else True)


def replay(ctx, rep):
    c = rep.get('call')
    if not c:
        print('replay file has no call (kind=%s, item=%s)' % (rep.get('kind'), rep.get('item')))
        return 2
    out = C.run_impl('c15_impl.py', [c])
    r = out['results'][0]
    print('call   :', c)
    print('impl   :', r)
    print('before :', rep.get('impl_result'))
    if rep.get('coq_case') and 'ok' in r:
        cw = dict(c)
        cw.update(rep.get('witnesses') or {})
        t = case_term(cw, r)
        cc = C.CoqCases(ctx.work, HEADER, 'run_cases')
        print('verdict now:', cc.run([t]), '(recorded: %s; bit 2 = output fails the certified checker)' % rep.get('verdict'))
    if c['f'] == 'hmf_solve' and 'ok' in r:
        print('direct checks now:', check_solve(c, r['ok']))
    return 0
