(* C07 -- Bitmask names and values convert consistently for any maskbits file.
   Property theorems only; each is closed by `exact` and followed by Print Assumptions.

   M = C07.Model.{load, flagval, flagname, flagexist}: transliteration of set_maskbits / sdss_flagval /
       sdss_flagname / sdss_flagexist (pydl/pydlutils/sdss.py); rows = what the raw yanny reader returns.
   S = C07.Model.{spec_flagval, spec_flagname, spec_flagexist, spec_vnv, spec_nvn} on the raw rows.
   wf_file = bits 0..63, one bit per label and one label per bit within a group (modulo case), every alias
   names an existing group (or earlier alias) and is a new name.
   `load true` stores the names upper-cased; the last theorem says that this is what the source does
   (Generated/Maskbits.v is rewritten from sdss.py on every run). *)
From Coq Require Import String.
From Coq Require Import ZArith List Bool Sorting.Permutation Sorting.Sorted.
Import ListNotations.
From PV Require Import Yanny.Bytes Yanny.Types Yanny.Parse.
From PV Require Import C07.Model C07.Dict C07.Group C07.Proofs C07.FileModel C07.FileProofs C07.TableProofs C07.Code Generated.Maskbits.
Open Scope Z_scope.

(* a well-formed file always loads (no KeyError from an alias) *)
Theorem C07_load_total : forall rows aliases,
  wf_file rows aliases = true -> exists m, load true rows aliases = Some m.
Proof. exact load_total. Qed.
Print Assumptions C07_load_total.

(* what the dictionary holds: under every spelling of a group or alias name, the (LABEL, bit) rows of the group in file order *)
Theorem C07_load_spec : forall rows aliases, wf_file rows aliases = true ->
  exists m, load true rows aliases = Some m /\
    (forall g, dget (upper g) m = if known rows aliases g then Some (defs rows aliases g) else None) /\
    (forall f a, In (f, a) aliases -> dget (upper a) m = dget (upper f) m /\ known rows aliases f = true).
Proof. exact load_spec. Qed.
Print Assumptions C07_load_spec.

(* S itself treats names as the statement says: a name that is no alias stands for itself (upper-cased),
   an alias is known and has exactly the definitions of the group it names *)
Theorem C07_spec_group_direct : forall aliases g,
  (forall f a, In (f, a) aliases -> upper a <> upper g) -> target aliases g = upper g.
Proof. exact target_not_alias. Qed.
Print Assumptions C07_spec_group_direct.

Theorem C07_spec_alias_same : forall rows aliases m,
  wf_file rows aliases = true -> load true rows aliases = Some m ->
  forall f a, In (f, a) aliases ->
  known rows aliases f = true /\ known rows aliases a = true /\ defs rows aliases a = defs rows aliases f.
Proof. exact spec_alias_same. Qed.
Print Assumptions C07_spec_alias_same.

(* M refines S on every call the correspondence run makes (flagval, flagname +concat, flagexist, both round trips) *)
Theorem C07_model_refines_spec : forall rows aliases m,
  wf_file rows aliases = true -> load true rows aliases = Some m ->
  forall c s, spec_call rows aliases c = Some s -> model_call m c = s.
Proof. exact model_refines_spec. Qed.
Print Assumptions C07_model_refines_spec.

(* the uint64 `+=` of distinct labels of a well-formed group is the OR of 2^bit (or KeyError) *)
Theorem C07_uint64_sum_is_or : forall d ls, wf_group d -> NoDup ls ->
  flagval_loop (Some d) ls 0 = match bits_of d ls with Some bs => RVal (or_bits bs) | None => RKeyError end.
Proof. exact flagval_group. Qed.
Print Assumptions C07_uint64_sum_is_or.

(* names -> value: distinct labels (any order, any case) give exactly the OR of 2^bit; it fits in 64 bits, bit 63 included *)
Theorem C07_flagval_is_or : forall rows aliases m,
  wf_file rows aliases = true -> load true rows aliases = Some m ->
  forall g ls bs, known rows aliases g = true -> distinct_labels ls = true ->
  bits_of (defs rows aliases g) (map upper ls) = Some bs ->
  flagval m g ls = RVal (or_bits bs) /\ 0 <= or_bits bs < 2 ^ 64 /\
  (forall n, Z.testbit (or_bits bs) n = true <-> In n bs).
Proof. exact flagval_is_or. Qed.
Print Assumptions C07_flagval_is_or.

(* value -> names: for every 64-bit value, the labels of exactly the defined set bits, strictly ascending in bit *)
Theorem C07_flagname_spec : forall rows aliases m,
  wf_file rows aliases = true -> load true rows aliases = Some m ->
  forall g v, known rows aliases g = true -> in_u64 v = true ->
  exists pairs, flagname m g v = RNames (map fst pairs) /\
    StronglySorted lt_snd pairs /\
    (forall l b, In (l, b) pairs <-> In (l, b) (defs rows aliases g) /\ Z.testbit v b = true).
Proof. exact flagname_spec. Qed.
Print Assumptions C07_flagname_spec.

(* ... and that description determines the answer (S is sound and complete for it) *)
Theorem C07_names_determined : forall d v pairs, wf_group d ->
  (StronglySorted lt_snd pairs /\ (forall lb, In lb pairs <-> In lb d /\ Z.testbit v (snd lb) = true))
  <-> pairs = selected d v.
Proof. exact selected_char. Qed.
Print Assumptions C07_names_determined.

Theorem C07_defs_wellformed : forall rows aliases,
  wf_file rows aliases = true -> forall g, wf_group (defs rows aliases g).
Proof. exact defs_wf. Qed.
Print Assumptions C07_defs_wellformed.

(* value -> names -> value is the identity on the defined bits *)
Theorem C07_val_names_val : forall rows aliases m,
  wf_file rows aliases = true -> load true rows aliases = Some m ->
  forall g v, known rows aliases g = true -> in_u64 v = true ->
  match flagname m g v with RNames ns => flagval m g ns | r => r end
  = RVal (Z.land v (defined_mask (defs rows aliases g))).
Proof. exact val_names_val. Qed.
Print Assumptions C07_val_names_val.

(* names -> value -> names gives the same labels back (ordered by bit) *)
Theorem C07_names_val_names : forall rows aliases m,
  wf_file rows aliases = true -> load true rows aliases = Some m ->
  forall g ls bs, known rows aliases g = true -> distinct_labels ls = true ->
  bits_of (defs rows aliases g) (map upper ls) = Some bs ->
  exists ns, match flagval m g ls with RVal v => flagname m g v | r => r end = RNames ns /\
             Permutation ns (map upper ls) /\ ns = spec_names (defs rows aliases g) (or_bits bs).
Proof. exact names_val_names. Qed.
Print Assumptions C07_names_val_names.

(* ... exactly the input (upper-cased) when the labels are given in ascending bit order: an identity *)
Theorem C07_names_val_names_exact : forall rows aliases m,
  wf_file rows aliases = true -> load true rows aliases = Some m ->
  forall g ls bs, known rows aliases g = true -> distinct_labels ls = true ->
  bits_of (defs rows aliases g) (map upper ls) = Some bs -> StronglySorted Z.lt bs ->
  match flagval m g ls with RVal v => flagname m g v | r => r end = RNames (map upper ls).
Proof. exact names_val_names_exact. Qed.
Print Assumptions C07_names_val_names_exact.

(* case of the arguments is irrelevant (any table) *)
Theorem C07_case_insensitive_args : forall (m : table) g g', upper g = upper g' ->
  (forall ls ls', map upper ls = map upper ls' -> flagval m g ls = flagval m g' ls') /\
  (forall v, flagname m g v = flagname m g' v) /\
  (forall ls ls' fe we, map upper ls = map upper ls' -> flagexist m g ls fe we = flagexist m g' ls' fe we).
Proof. exact case_insensitive_args. Qed.
Print Assumptions C07_case_insensitive_args.

(* case of the names in the file is irrelevant *)
Theorem C07_case_insensitive_file : forall rows aliases,
  load true (map upper_row rows) (map upper_arow aliases) = load true rows aliases.
Proof. exact load_file_case. Qed.
Print Assumptions C07_case_insensitive_file.

(* an alias answers every query exactly as the group it names *)
Theorem C07_alias_same : forall rows aliases m,
  wf_file rows aliases = true -> load true rows aliases = Some m ->
  forall f a, In (f, a) aliases ->
  (forall ls, flagval m a ls = flagval m f ls) /\
  (forall v, flagname m a v = flagname m f v) /\
  (forall ls fe we, flagexist m a ls fe we = flagexist m f ls fe we).
Proof. exact alias_same. Qed.
Print Assumptions C07_alias_same.

Theorem C07_unknown_group_keyerror : forall rows aliases m,
  wf_file rows aliases = true -> load true rows aliases = Some m ->
  forall g, known rows aliases g = false ->
  (forall ls, ls <> [] -> flagval m g ls = RKeyError) /\
  (forall v, in_u64 v = true -> v <> 0 -> flagname m g v = RKeyError).
Proof. exact unknown_group_keyerror. Qed.
Print Assumptions C07_unknown_group_keyerror.

Theorem C07_unknown_label_keyerror : forall rows aliases m,
  wf_file rows aliases = true -> load true rows aliases = Some m ->
  forall g ls, known rows aliases g = true ->
  (exists l, In l ls /\ has (upper l) (defs rows aliases g) = false) -> flagval m g ls = RKeyError.
Proof. exact unknown_label_keyerror. Qed.
Print Assumptions C07_unknown_label_keyerror.

(* a zero value names nothing: any table, any group, known or not (the lookup is never reached) *)
Theorem C07_zero_names_nothing : forall (m : table) g, flagname m g 0 = RNames [].
Proof. exact zero_names_nothing. Qed.
Print Assumptions C07_zero_names_nothing.

(* the existence query never raises: any table, any group, any labels *)
Theorem C07_flagexist_total : forall (m : table) g ls fe we,
  exists l, flagexist m g ls fe we = RBools l /\
            length l = (1 + (if fe then 1 else 0) + (if we then length ls else 0))%nat.
Proof. exact flagexist_total. Qed.
Print Assumptions C07_flagexist_total.

(* ... and reports the group and, per label, whether it is defined *)
Theorem C07_flagexist_spec : forall rows aliases m,
  wf_file rows aliases = true -> load true rows aliases = Some m ->
  forall g ls fe we, flagexist m g ls fe we = spec_flagexist rows aliases g ls fe we.
Proof. exact flagexist_refines. Qed.
Print Assumptions C07_flagexist_spec.

(* a file whose names are already upper-case is loaded identically with and without normalisation
   (why the shipped upper-case sdssMaskbits.par works either way) *)
Theorem C07_upper_file_loads_alike : forall rows aliases,
  Forall row_is_upper rows -> Forall arow_is_upper aliases -> load false rows aliases = load true rows aliases.
Proof. exact load_upper_file. Qed.
Print Assumptions C07_upper_file_loads_alike.

(* non-vacuity: a mixed-case file with bit 63 and an alias satisfies the hypotheses, and the answers are the expected ones *)
Example C07_example :
  wf_file ex_rows ex_aliases = true /\
  match load true ex_rows ex_aliases with
  | Some m =>
      flagval m [112; 114; 105; 109] [[72; 73]; [76; 111]] = RVal (2 ^ 63 + 1) /\
      flagname m [80; 82; 73; 77] (2 ^ 63 + 2 + 1) = RNames [[76; 79]; [72; 73]] /\
      flagname m [110; 111; 110; 101; 115; 117; 99; 104] 0 = RNames [] /\ flagname m [110; 111; 110; 101; 115; 117; 99; 104] 1 = RKeyError /\
      flagexist m [84; 97; 114; 103; 101; 116] [[104; 105]; [122; 122]] true true = RBools [false; true; true; false]
  | None => False
  end.
Proof. vm_compute. repeat split; reflexivity. Qed.

(* the defect this check found in the unchanged tree, as a statement about the model of the unfixed loader
   (load false = names stored as spelled in the file): on the same well-formed file the lookup that S fixes
   to 2^63 raises KeyError, and value -> names -> value loses bit 63 *)
Example C07_unnormalised_load_violates :
  wf_file ex_rows ex_aliases = true /\
  spec_flagval ex_rows ex_aliases [116; 97; 114; 103; 101; 116] [[104; 105]] = RVal (2 ^ 63) /\
  spec_vnv ex_rows ex_aliases [84; 97; 114; 103; 101; 116] (2 ^ 63) = RVal (2 ^ 63) /\
  match load false ex_rows ex_aliases with
  | Some m => False
  | None => True      (* the alias row names `target`, the dictionary only has `Target` and `TARGET` *)
  end /\
  match load false ex_rows [] with
  | Some m => flagval m [116; 97; 114; 103; 101; 116] [[104; 105]] = RKeyError /\
              model_call m (KVNV [84; 97; 114; 103; 101; 116] (2 ^ 63)) = RVal 0   (* bit 63 is lost *)
  | None => False
  end.
Proof. vm_compute. repeat split; reflexivity. Qed.

(* ---------------------------------------------------------------------------------------------------------------
   "for any maskbits FILE": the same statements from the bytes of the file, through the proved model of the raw
   yanny reader (Yanny/Parse.v parse_raw, the subject of C01/C02).  file_tables reads the MASKBITS / MASKALIAS rows
   out of the reader's result the way set_maskbits does; from_file = set_maskbits(maskbits_file=...).            *)

Theorem C07_file_is_load : forall up b r rows aliases,
  parse_raw b = Some r -> file_tables r = Some (rows, aliases) -> from_file up b = load up rows aliases.
Proof. exact from_file_load. Qed.
Print Assumptions C07_file_is_load.

Theorem C07_file_load_total : forall b r rows aliases,
  parse_raw b = Some r -> file_tables r = Some (rows, aliases) -> wf_file rows aliases = true ->
  exists m, from_file true b = Some m.
Proof. exact file_load_total. Qed.
Print Assumptions C07_file_load_total.

Theorem C07_file_model_refines_spec : forall b r rows aliases m,
  parse_raw b = Some r -> file_tables r = Some (rows, aliases) -> wf_file rows aliases = true ->
  from_file true b = Some m ->
  forall k s, spec_call rows aliases k = Some s -> model_call_c std_cfg m k = s.
Proof. exact file_model_refines_spec. Qed.
Print Assumptions C07_file_model_refines_spec.

Theorem C07_file_flagval_is_or : forall b r rows aliases m,
  parse_raw b = Some r -> file_tables r = Some (rows, aliases) -> wf_file rows aliases = true ->
  from_file true b = Some m ->
  forall g ls bs, known rows aliases g = true -> distinct_labels ls = true ->
  bits_of (defs rows aliases g) (map upper ls) = Some bs ->
  flagval m g ls = RVal (or_bits bs) /\ 0 <= or_bits bs < 2 ^ 64 /\
  (forall n, Z.testbit (or_bits bs) n = true <-> In n bs).
Proof. exact file_flagval_is_or. Qed.
Print Assumptions C07_file_flagval_is_or.

Theorem C07_file_flagname_spec : forall b r rows aliases m,
  parse_raw b = Some r -> file_tables r = Some (rows, aliases) -> wf_file rows aliases = true ->
  from_file true b = Some m ->
  forall g v, known rows aliases g = true -> in_u64 v = true ->
  exists pairs, flagname m g v = RNames (map fst pairs) /\
    StronglySorted lt_snd pairs /\
    (forall l b0, In (l, b0) pairs <-> In (l, b0) (defs rows aliases g) /\ Z.testbit v b0 = true).
Proof. exact file_flagname_spec. Qed.
Print Assumptions C07_file_flagname_spec.

Theorem C07_file_val_names_val : forall b r rows aliases m,
  parse_raw b = Some r -> file_tables r = Some (rows, aliases) -> wf_file rows aliases = true ->
  from_file true b = Some m ->
  forall g v, known rows aliases g = true -> in_u64 v = true ->
  match flagname m g v with RNames ns => flagval m g ns | r0 => r0 end
  = RVal (Z.land v (defined_mask (defs rows aliases g))).
Proof. exact file_val_names_val. Qed.
Print Assumptions C07_file_val_names_val.

Theorem C07_file_names_val_names : forall b r rows aliases m,
  parse_raw b = Some r -> file_tables r = Some (rows, aliases) -> wf_file rows aliases = true ->
  from_file true b = Some m ->
  forall g ls bs, known rows aliases g = true -> distinct_labels ls = true ->
  bits_of (defs rows aliases g) (map upper ls) = Some bs ->
  exists ns, match flagval m g ls with RVal v => flagname m g v | r0 => r0 end = RNames ns /\
             Permutation ns (map upper ls) /\ ns = spec_names (defs rows aliases g) (or_bits bs).
Proof. exact file_names_val_names. Qed.
Print Assumptions C07_file_names_val_names.

Theorem C07_file_alias_same : forall b r rows aliases m,
  parse_raw b = Some r -> file_tables r = Some (rows, aliases) -> wf_file rows aliases = true ->
  from_file true b = Some m ->
  forall f a, In (f, a) aliases ->
  (forall ls, flagval m a ls = flagval m f ls) /\
  (forall v, flagname m a v = flagname m f v) /\
  (forall ls fe we, flagexist m a ls fe we = flagexist m f ls fe we).
Proof. exact file_alias_same. Qed.
Print Assumptions C07_file_alias_same.

Theorem C07_file_unknown_keyerror : forall b r rows aliases m,
  parse_raw b = Some r -> file_tables r = Some (rows, aliases) -> wf_file rows aliases = true ->
  from_file true b = Some m ->
  forall g, known rows aliases g = false ->
  (forall ls, ls <> [] -> flagval m g ls = RKeyError) /\
  (forall v, in_u64 v = true -> v <> 0 -> flagname m g v = RKeyError).
Proof. exact file_unknown_keyerror. Qed.
Print Assumptions C07_file_unknown_keyerror.


(* ---------------------------------------------------------------------------------------------------------------
   round 5: the loaded dictionary itself (what the correspondence run now compares cell by cell with the real one) *)

(* ANY file that loads, ill-formed ones included: the keys of the dictionary are pairwise distinct and upper-case *)
Theorem C07_table_keys : forall rows aliases m, load true rows aliases = Some m ->
  NoDup (map fst m) /\ (forall K, In K (map fst m) -> upper K = K).
Proof. exact load_keys. Qed.
Print Assumptions C07_table_keys.

(* the dictionary of a well-formed file satisfies the specification of the dictionary (spec_table_ok, written on the
   raw rows): every key is a name of the file and holds exactly the (LABEL, bit) cells of its group, every group and
   alias name is a key, no two keys coincide modulo case.  This is the checker applied to the REAL dictionary. *)
Theorem C07_loaded_table_satisfies_spec : forall rows aliases m,
  wf_file rows aliases = true -> load true rows aliases = Some m -> spec_table_ok rows aliases m = true.
Proof. exact loaded_table_ok. Qed.
Print Assumptions C07_loaded_table_satisfies_spec.

Theorem C07_file_loaded_table : forall b r rows aliases m,
  parse_raw b = Some r -> file_tables r = Some (rows, aliases) -> wf_file rows aliases = true ->
  from_file true b = Some m -> spec_table_ok rows aliases m = true.
Proof. exact file_loaded_table_ok. Qed.
Print Assumptions C07_file_loaded_table.

(* non-vacuity: the checker accepts the dictionary of the example file and REJECTS the dictionaries a loader that cuts
   names would build (key TARGET cut to TARGE; label HI cut to H) and one that lacks the alias *)
Example C07_table_checker_discriminates :
  match load true ex_rows ex_aliases with
  | Some m => spec_table_ok ex_rows ex_aliases m = true /\
              spec_table_ok ex_rows ex_aliases (map (fun kv => (firstn 5 (fst kv), snd kv)) m) = false /\
              spec_table_ok ex_rows ex_aliases (map (fun kv => (fst kv, map (fun lb => (firstn 1 (fst lb), snd lb)) (snd kv))) m) = false /\
              spec_table_ok ex_rows ex_aliases (firstn 1 m) = false
  | None => False
  end.
Proof. vm_compute. repeat split; reflexivity. Qed.

(* the raw reader keeps a scalar cell of a non-numeric column whole, whatever width the typedef declares (this is what
   file_tables relies on: a group name longer than `char flag[20]` is stored in full) *)
Theorem C07_raw_cell_kept_whole : forall (name typ value data value' : bytes) (cols : tcols),
  all_ws value = false -> get_token value = Some (data, value') -> classify typ = KOther -> isarray typ = false ->
  parse_cells ((name, Some typ) :: cols) value = option_map (cons (Sc (STok data))) (parse_cells cols value').
Proof. exact raw_cell_kept_whole. Qed.
Print Assumptions C07_raw_cell_kept_whole.

(* non-vacuity: the declared forms the generator draws are all of that kind, and a 26-character name under
   `char flag[20]` / `char flag[3]` / `char flag[]` / `char flag` comes back whole from the bytes of a file *)
Example C07_declared_widths_do_not_cut :
  forallb (fun t => match classify (bs t) with KOther => negb (isarray (bs t)) | _ => false end)
          ["char[20]"; "char[3]"; "char[]"; "char"; "char[200]"]%string = true /\
  forallb (fun decl =>
    match file_rows (bs ("typedef struct {" ++ decl ++ " short bit; char label[2]; } maskbits;
maskbits ABCDEFGHIJKLMNOPQRSTUVWXYZ 63 LABEL_LONGER_THAN_TWO
")%string) with
    | Some (rows, []) => list_eqb row_eqb rows [(b2s (bs "ABCDEFGHIJKLMNOPQRSTUVWXYZ"%string), 63, b2s (bs "LABEL_LONGER_THAN_TWO"%string))]
    | _ => false
    end)
    [" char flag[20];"; " char flag[3];"; " char flag[];"; " char flag;"; " char flag<5>;"]%string = true.
Proof. split; vm_compute; reflexivity. Qed.

(* ---------------------------------------------------------------------------------------------------------------
   round 5: OUTSIDE the domain of the property (the statement speaks of one label per bit, and a label has one bit).
   What the code does there is pinned, for any file: *)

(* a label defined more than once in a group (any rows, well-formed or not): every cell of the dictionary built from
   the MASKBITS rows holds the bit of the LAST row defining it -- the earlier bit is silently dropped *)
Theorem C07_any_file_last_row_wins : forall rows G L,
  match dget G (load_rows true rows) with Some d => dget L d | None => None end
  = option_map rbit (find (fun r => str_eqb (rflag r) G && str_eqb (rlabel r) L) (rev rows)).
Proof. exact load_rows_last_wins. Qed.
Print Assumptions C07_any_file_last_row_wins.

(* two labels on one bit (any dictionary): a single bit names the FIRST label carrying it in dictionary order ... *)
Theorem C07_single_bit_first_label : forall (m : table) g d b, dget (upper g) m = Some d -> 0 <= b < 64 ->
  flagname m g (2 ^ b) = RNames (match first_with_bit b d with Some l => [l] | None => [] end).
Proof. exact single_bit_first_label. Qed.
Print Assumptions C07_single_bit_first_label.

(* ... so names -> value -> names is NOT the identity for the second label: the full round-trip statement is refuted
   outside the domain, as the restriction `one label per bit` in the property anticipates *)
Theorem C07_two_labels_one_bit_refuted : forall (m : table) g d l1 l2 b,
  dget (upper g) m = Some d -> 0 <= b < 64 ->
  first_with_bit b d = Some l1 -> dget (upper l2) d = Some b -> l1 <> upper l2 ->
  model_call m (KNVN g [l2]) = RNames [l1] /\ model_call m (KNVN g [l2]) <> RNames [upper l2].
Proof. exact two_labels_one_bit_not_identity. Qed.
Print Assumptions C07_two_labels_one_bit_refuted.

(* non-vacuity (both): file  G 3 A / G 3 B / G 5 A : label A ends on bit 5 (bit 3 of A is dropped), B is the only
   label of bit 3; with  G 3 A / G 3 B : names(value [B]) = [A] *)
Example C07_outside_domain_examples :
  let G := [71] in let A := [65] in let B := [66] in
  wf_file [(G, 3, A); (G, 3, B)] [] = false /\
  match load true [(G, 3, A); (G, 3, B); (G, 5, A)] [] with
  | Some m => dget G m = Some [(A, 5); (B, 3)] /\ flagname m G 8 = RNames [B] /\ flagval m G [A] = RVal 32
  | None => False
  end /\
  match load true [(G, 3, A); (G, 3, B)] [] with
  | Some m => model_call m (KNVN G [B]) = RNames [A] /\ flagval m G [A; B] = RVal 16
  | None => False
  end.
Proof. vm_compute. repeat split; reflexivity. Qed.

(* ---------------------------------------------------------------------------------------------------------------
   repeated labels (outside the property, which speaks of a SET of distinct labels): the behaviour is pinned --
   `+=` adds 2^bit once per occurrence, mod 2^64 *)
Theorem C07_repeated_labels_behaviour : forall rows aliases m,
  wf_file rows aliases = true -> load true rows aliases = Some m ->
  forall g ls bs, known rows aliases g = true -> bits_of (defs rows aliases g) (map upper ls) = Some bs ->
  flagval m g ls = RVal (pow_sum bs mod two64).
Proof. exact repeated_labels_behaviour. Qed.
Print Assumptions C07_repeated_labels_behaviour.

(* a label given twice (in any spelling) sets the NEXT bit; bit 63 twice gives 0 *)
Theorem C07_label_twice : forall rows aliases m,
  wf_file rows aliases = true -> load true rows aliases = Some m ->
  forall g l l' b0, known rows aliases g = true -> upper l = upper l' ->
  dget (upper l) (defs rows aliases g) = Some b0 ->
  flagval m g [l; l'] = RVal (if b0 =? 63 then 0 else 2 ^ (b0 + 1)).
Proof. exact label_twice. Qed.
Print Assumptions C07_label_twice.

(* ---------------------------------------------------------------------------------------------------------------
   the model with the facts of the source as parameters (what the correspondence run evaluates) is the model of
   the theorems as soon as the parameters have the standard values ... *)
Theorem C07_cfg_std : forall c : cfg, c = std_cfg ->
  (forall rows aliases, load_c c rows aliases = load true rows aliases) /\
  (forall m k, model_call_c c m k = model_call m k).
Proof. exact cfg_std. Qed.
Print Assumptions C07_cfg_std.

(* ... and these are the obligations that the source HAS the standard values (GENERATED from the ast of
   sdss_flagname / sdss_flagval / sdss_flagexist / set_maskbits on every run; each fails with the source) *)
Theorem C07_code_scans_64_bits : scan_bits = 64%nat.
Proof. exact (eq_refl 64%nat). Qed.
Print Assumptions C07_code_scans_64_bits.

Theorem C07_code_accumulates_uint64_sum : accumulate_is_add = true /\ acc_dtype_uint64 = true.
Proof. exact (conj (eq_refl true) (eq_refl true)). Qed.
Print Assumptions C07_code_accumulates_uint64_sum.

Theorem C07_code_takes_first_label : lookup_first = true.
Proof. exact (eq_refl true). Qed.
Print Assumptions C07_code_takes_first_label.

Theorem C07_code_uppercases_arguments : upper_group = true /\ upper_labels = true.
Proof. exact (conj (eq_refl true) (eq_refl true)). Qed.
Print Assumptions C07_code_uppercases_arguments.

Theorem C07_code_exist_requires_all : exist_all = true.
Proof. exact (eq_refl true). Qed.
Print Assumptions C07_code_exist_requires_all.

(* the source normalises the names it stores (GENERATED flag): without this, every theorem above is about a
   dictionary the code only builds for all-upper-case files.  Kept last: it fails when set_maskbits stores
   the file's spelling. *)
Theorem C07_code_normalises : load_upper = true.
Proof. exact (eq_refl true). Qed.
Print Assumptions C07_code_normalises.

(* round 5: the final if / elif chain of return statements of sdss_flagexist (GENERATED as the Gallina function
   exist_ret_code) returns, for each of the four flag combinations, the components the model assumes ... *)
Theorem C07_code_exist_returns : code_ret4 = std_ret4.
Proof. exact (eq_refl std_ret4). Qed.
Print Assumptions C07_code_exist_returns.

(* ... and with them the result is  l, then f if flagexist, then the per-label list if whichexist *)
Theorem C07_exist_return_shape : forall l f which fe we,
  assemble l f which (ret4_get std_ret4 fe we) = l :: (if fe then [f] else []) ++ (if we then which else []).
Proof. exact assemble_std. Qed.
Print Assumptions C07_exist_return_shape.

(* round 5: which cell of the raw yanny object set_maskbits reads for which role (GENERATED string constants: the
   tables whose size() bound the two loops, the table of the alias guard, and (table, column) for the group key, the
   label key, the bit, the alias key and the alias target) -- they are the ones file_tables reads *)
Theorem C07_code_reads_standard_cells : code_names = std_names.
Proof. exact (eq_refl std_names). Qed.
Print Assumptions C07_code_reads_standard_cells.

Theorem C07_code_is_standard : code_cfg = std_cfg.
Proof. exact (eq_refl std_cfg). Qed.
Print Assumptions C07_code_is_standard.
