#!/venv/bin/python
"""./check Cxx --tier quick|thorough [--replay file]

Pipeline per property (see DESIGN.md section 1):
  gate -> translate (regenerate coq/Generated from /repo) -> prove (make + Print
  Assumptions) -> correspond (impl vs model vs certified checker) -> decide /
  search -> evidence.
"""
import argparse
import importlib
import json
import os
import re
import sys
import time
import traceback

sys.path.insert(0, os.path.dirname(os.path.dirname(os.path.abspath(__file__))))
from harness import common as C  # noqa: E402


def count_theorems(path):
    src = C.strip_comments(open(path).read())
    return [(m.group(2), src[:m.start()].count('\n') + 1)
            for m in re.finditer(r'^\s*(Theorem|Lemma|Corollary)\s+([A-Za-z0-9_\']+)', src, re.M)]


def pv_closure(props_v):
    """Logical names (PV.Dir.File) of the property's theorem file and every PV file it transitively requires."""
    deps = {}
    try:
        for line in open(os.path.join(C.COQ, '.Makefile.d')):
            if ':' not in line:
                continue
            lhs, rhs = line.split(':', 1)
            tgt = [t for t in lhs.split() if t.endswith('.vo')]
            if tgt:
                deps[tgt[0]] = [d for d in rhs.split() if d.endswith('.vo')]
    except OSError:
        pass
    seen, todo = [], [props_v[:-2] + '.vo']
    while todo:
        t = todo.pop()
        if t in seen:
            continue
        seen.append(t)
        todo.extend(deps.get(t, []))
    return ['PV.' + t[:-3].replace('/', '.') for t in seen]


def prove(ctx, mod):
    """Build the property's theorem file; return dict describing the result."""
    props_v = os.path.join(C.COQ, mod.PROPS_V)
    thms = count_theorems(props_v)
    res = {'file': mod.PROPS_V, 'obligations': len(thms), 'discharged': 0,
           'theorems': [t for t, _ in thms], 'ok': False, 'assumptions_output': '', 'failed_at': None}
    deps_target = mod.PROPS_V[:-2] + '.vo'
    t0 = time.time()
    ok, log = C.coq_make([deps_target], timeout=getattr(mod, 'PROVE_TIMEOUT', 1500))
    res['make_s'] = round(time.time() - t0, 1)
    if not ok:
        # keep the models evaluable: build whatever does not depend on the failing file
        C.coq_make_keep_going([deps_target], timeout=getattr(mod, 'PROVE_TIMEOUT', 1500))
        # which file / theorem failed?
        m = re.search(r'File "([^"]+)", line (\d+)', log)
        where = None
        if m:
            where = '%s:%s' % (os.path.basename(m.group(1)), m.group(2))
            if os.path.abspath(os.path.join(C.COQ, m.group(1))) == os.path.abspath(props_v) or m.group(1).endswith(mod.PROPS_V):
                line = int(m.group(2))
                res['discharged'] = sum(1 for _, ln in thms if ln < line) - 1 if any(ln <= line for _, ln in thms) else 0
                res['discharged'] = max(res['discharged'], 0)
                failing = [t for t, ln in thms if ln <= line]
                where += ' (theorem %s)' % (failing[-1] if failing else '?')
        res['failed_at'] = where or 'unknown'
        res['log_tail'] = log[-2500:]
        return res
    # re-compile the Props file alone to capture Print Assumptions output on every run
    out_vo = os.path.join(ctx.work, os.path.basename(mod.PROPS_V)[:-2] + '.vo')
    rc, out = C.coqc_file(props_v, timeout=600, extra=['-o', out_vo])
    if rc != 0:
        res['failed_at'] = 'recompile of %s' % mod.PROPS_V
        res['log_tail'] = out[-2500:]
        return res
    res['ok'] = True
    res['discharged'] = len(thms)
    res['assumptions_output'] = out.strip()
    axioms = sorted(set(re.findall(r'^([A-Za-z_][A-Za-z0-9_.\']*)\s*:', out, re.M)))
    res['axioms'] = axioms
    res['closed'] = out.count('Closed under the global context')
    return res


def write_replay(ctx, v):
    os.makedirs(os.path.join(C.VERIF, 'replays'), exist_ok=True)
    body = dict(v.replay)
    body.setdefault('property', ctx.pid)
    body['signature'] = v.signature
    body['summary'] = v.summary
    body['failing_input_found'] = v.failing_input_found
    body['seed'] = ctx.seed
    body['tier'] = ctx.tier
    body['repo'] = C.REPO
    text = json.dumps(body, indent=1, sort_keys=True, default=str)
    path = os.path.join(C.VERIF, 'replays', '%s-%s.json' % (ctx.pid, C.sha(v.signature + text)))
    with open(path, 'w') as f:
        f.write(text)
    return path


def main():
    ap = argparse.ArgumentParser()
    ap.add_argument('pid')
    ap.add_argument('--tier', default=os.environ.get('VERIF_TIER', 'quick'), choices=['quick', 'thorough'])
    ap.add_argument('--replay')
    args = ap.parse_args()
    pid = args.pid.upper()
    seed = int(os.environ.get('VERIF_SEED', '20260930'))
    mod = importlib.import_module('harness.props.%s' % pid.lower())
    ctx = C.Ctx(pid, args.tier, seed)
    os.makedirs(os.path.join(C.VERIF, 'evidence'), exist_ok=True)
    evidence_path = os.path.join(C.VERIF, 'evidence', '%s.json' % pid)
    if os.path.realpath(C.REPO) != '/repo':
        # a run against a scratch worktree (seeded change, proposed fix): keep evidence/ for /repo itself
        os.makedirs(os.path.join(C.VERIF, 'evidence', 'scratch'), exist_ok=True)
        evidence_path = os.path.join(C.VERIF, 'evidence', 'scratch', '%s.json' % pid)

    if args.replay:
        rep = json.load(open(args.replay))
        rc = mod.replay(ctx, rep) if hasattr(mod, 'replay') else 2
        ctx.cleanup()
        sys.exit(rc)

    stages = {}
    internal_error = None
    proof = None
    try:
        # 1. static gate
        bad = C.static_gate()
        stages['gate'] = {'forbidden_constructs': bad}
        if bad:
            ctx.violation('gate', 'forbidden construct in Coq development: %s' % bad[0],
                          {'kind': 'broken-proof', 'item': 'static gate', 'detail': bad}, False)
        # 2. translate
        if hasattr(mod, 'translate'):
            t0 = time.time()
            stages['translate'] = mod.translate(ctx)
            stages['translate_s'] = round(time.time() - t0, 2)
        # 3. prove
        proof = prove(ctx, mod)
        stages['prove'] = {k: v for k, v in proof.items() if k not in ('assumptions_output',)}
        # 3b. thorough tier: independent re-check of the compiled closure with coqchk (lists every axiom it rests on)
        if args.tier == 'thorough' and proof['ok'] and os.environ.get('VERIF_NO_COQCHK') != '1':
            import subprocess
            t0 = time.time()
            logical = 'PV.' + mod.PROPS_V[:-2].replace('/', '.')
            mode = getattr(mod, 'COQCHK', 'full')
            if mode == 'norec':
                # closures resting on Reals/Flocq/Coquelicot/Interval take tens of minutes to re-check in full:
                # re-check every PV module of the closure (and print the axioms) but take the installed libraries as compiled
                mods = pv_closure(mod.PROPS_V)
                cmd = ['timeout', '1500', 'coqchk', '-silent', '-o', '-R', C.COQ, 'PV']
                for m_ in mods:
                    cmd += ['-norec', m_]
            else:
                cmd = ['timeout', '1500', 'coqchk', '-silent', '-o', '-R', C.COQ, 'PV', logical]
            with C.Lock(os.path.join(C.COQ, '.lock-coqchk')):
                p = subprocess.run(cmd, stdout=subprocess.PIPE, stderr=subprocess.STDOUT, text=True)
            tail = p.stdout[-3000:]
            stages['coqchk'] = {'mode': mode, 'rc': p.returncode, 'seconds': round(time.time() - t0, 1), 'output_tail': tail}
            if p.returncode != 0:
                ctx.violation('coqchk-failed', 'coqchk rejected the compiled closure of %s' % mod.PROPS_V,
                              {'kind': 'broken-proof', 'item': 'coqchk ' + logical, 'output_tail': tail}, False)
        # 4. correspond (also serves as the search when a proof broke)
        t0 = time.time()
        mod.correspond(ctx, proof_ok=proof['ok'])
        stages['correspond_s'] = round(time.time() - t0, 2)
        if not proof['ok']:
            if hasattr(mod, 'search'):
                mod.search(ctx, proof)
            if not any(v.failing_input_found for v in ctx.violations):
                ctx.violation('broken-proof:%s' % proof['failed_at'],
                              'proof obligation no longer checks: %s' % proof['failed_at'],
                              {'kind': 'broken-proof', 'item': proof['failed_at'], 'theorems': proof['theorems'],
                               'log_tail': proof.get('log_tail', ''), 'translate': stages.get('translate')}, False)
    except Exception as e:  # an internal failure must not look like success
        internal_error = ''.join(traceback.format_exception(type(e), e, e.__traceback__))
        C.log(internal_error)
        ctx.violation('internal-error:%s' % type(e).__name__,
                      'check could not complete (%s: %s)' % (type(e).__name__, str(e)[:200]),
                      {'kind': 'broken-correspondence', 'item': 'harness', 'traceback': internal_error[-4000:]}, False)

    # 5. known findings
    known = [f for f in C.load_known_findings().get('findings', [])
             if f.get('property') == pid and f.get('status') == 'open']
    reported = []
    known_hit = []
    # a violation with a failing input takes precedence in the report order
    for v in sorted(ctx.violations, key=lambda v: not v.failing_input_found):
        kf = next((f for f in known if f.get('signature') == v.signature), None)
        if kf is not None:
            if kf['signature'] not in [k['signature'] for k in known_hit]:
                known_hit.append(kf)
            continue
        reported.append(v)
    for kf in known_hit:
        print('KNOWN-FINDING: property=%s %s' % (pid, kf.get('what', kf['signature'])))
    seen = set()
    lines = []
    for v in reported:
        if v.signature in seen:
            continue
        seen.add(v.signature)
        path = write_replay(ctx, v)
        line = 'VIOLATION property=%s replay=%s' % (pid, path)
        if not v.failing_input_found:
            line += ' %s no-failing-input-found' % v.summary.replace('\n', ' ')[:160]
        lines.append((line, v))
    # 6. evidence
    cov = dict(ctx.coverage)
    if proof is not None:
        cov['obligations'] = proof['obligations']
        cov['discharged'] = proof['discharged']
        cov['theorems'] = proof['theorems']
        cov['print_assumptions'] = proof.get('assumptions_output', '')[-6000:]
        cov['axioms_reported'] = proof.get('axioms', [])
    else:
        cov.setdefault('obligations', 0)
        cov.setdefault('discharged', 0)
    cov['checker_cmd'] = ('cd /verif/coq && coq_makefile -f _CoqProject -o Makefile && make %s '
                          '&& coqc -R . PV %s   (Coq 8.16.1; Print Assumptions under every theorem)'
                          % (mod.PROPS_V[:-2] + '.vo', mod.PROPS_V))
    cov['trusted_base'] = list(getattr(mod, 'TRUSTED', [])) + [
        'Coq 8.16.1 kernel and its VM (vm_compute); no native_compute',
        'harness/common.py + harness/main.py (case serialisation, verdict parsing)']
    cov['stages'] = stages
    cov.setdefault('evaluations', 0)
    cov.setdefault('distinct_nontrivial', 0)
    cov.setdefault('samples', [])
    cov['repo'] = C.REPO
    cov['known_findings_hit'] = [k['signature'] for k in known_hit]
    ev = {'property_id': pid, 'tier': args.tier, 'seed': seed, 'level': getattr(mod, 'LEVEL', 'proof'),
          'coverage': cov, 'assumptions': list(getattr(mod, 'ASSUMPTIONS', [])) + ctx.assumptions,
          'wall_s': round(time.time() - ctx.t0, 2), 'violations': len(lines)}
    with open(evidence_path, 'w') as f:
        json.dump(ev, f, indent=1, default=str)
    for line, v in lines:
        print(line)
        C.log('  -> ' + v.summary)
    print('%s %s: obligations %s/%s, evaluations %s, violations %d, known %d, %.1fs' % (
        pid, args.tier, cov.get('discharged'), cov.get('obligations'), cov.get('evaluations'),
        len(lines), len(known_hit), time.time() - ctx.t0))
    ctx.cleanup()
    sys.exit(1 if lines else 0)


if __name__ == '__main__':
    main()
