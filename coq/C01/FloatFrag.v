(* C01/FloatFrag.v -- the two float-text oracle hypotheses of C01/Floats.v DISCHARGED on a fragment of the floating-point
   values: NaN, the two infinities and every signed integer-valued number (including +0.0 and -0.0) -- the values whose
   text numpy prints as nan / inf / -inf / <digits>.0 .  show_frag is the model of str(np.float32(x)) / str(np.float64(x))
   on the fragment, parse_frag the model of Python's float(text) on these texts; both are tied to numpy / CPython on every
   run by correspondence (case CFloatText of C01/Model.v: generated values of the fragment within the range where numpy
   prints positional notation: |x| < 1e6 in float32 columns -- np.float32(1e6) prints as 1e+06 --, |x| <= 2^53 in float64 columns).
   With them the file-level round trip holds WITHOUT any hypothesis about floats (file_roundtrip_frag). *)
From Coq Require Import String.
From Coq Require Import NArith ZArith List Bool Lia.
Import ListNotations.
From PV Require Import Yanny.Bytes Yanny.BytesFacts Yanny.TokenFacts Yanny.RowFacts Yanny.Types Yanny.Parse Yanny.Render Yanny.RoundTrip
  C01.Floats.
Open Scope N_scope.

Inductive ffrag := FNan | FInf (neg : bool) | FNum (neg : bool) (n : N).     (* FNum true 0 is -0.0 *)

Definition S_NAN : bytes := Eval compute in bs "nan"%string.
Definition S_INF : bytes := Eval compute in bs "inf"%string.
Definition S_INFINITY : bytes := Eval compute in bs "infinity"%string.
Definition DOT : N := 46.
Definition ZERO : N := 48.
Definition sign_txt (neg : bool) : bytes := if neg then [MINUS] else [].

(* str(np.float32(x)), str(np.float64(x)) on the fragment: nan, inf, -inf, 3.0, -0.0, 999999.0 *)
Definition show_frag (t : btype) (x : ffrag) : bytes :=
  match x with
  | FNan => S_NAN
  | FInf neg => sign_txt neg ++ S_INF
  | FNum neg n => sign_txt neg ++ show_N n ++ [DOT; ZERO]
  end.

(* Python float(text) on the fragment's texts: optional sign, then nan | inf | infinity | digits . zeros.
   None = the text is outside the fragment (not: Python raises) *)
Definition parse_unsigned (neg : bool) (r : bytes) : option ffrag :=
  if beq r S_NAN then Some FNan                    (* float('-nan') is a NaN too *)
  else if beq r S_INF || beq r S_INFINITY then Some (FInf neg)
  else let '(ip, rest) := span is_digit r in
       match rest with
       | c :: fr => if (c =? DOT) && match fr with [] => false | _ => forallb (N.eqb ZERO) fr end
                    then option_map (FNum neg) (parse_digits ip) else None
       | [] => None
       end.
Definition parse_frag (t : btype) (s : bytes) : option ffrag :=
  match s with
  | c :: r => if c =? MINUS then parse_unsigned true r else if c =? PLUS then parse_unsigned false r else parse_unsigned false s
  | [] => None
  end.

Definition ffrag_eqb (a b : ffrag) : bool :=
  match a, b with
  | FNan, FNan => true
  | FInf x, FInf y => Bool.eqb x y
  | FNum x n, FNum y m => Bool.eqb x y && (n =? m)
  | _, _ => false
  end.
Definition frag_show_matches (t : btype) (x : ffrag) (numpy_text : bytes) : bool := beq (show_frag t x) numpy_text.
Definition frag_parse_matches (t : btype) (text : bytes) (x : option ffrag) : bool := opt_eqb ffrag_eqb (parse_frag t text) x.

(* ---------------------------------------------------------------- hypothesis 2: the text reads back as the value *)
Lemma parse_unsigned_num neg n : parse_unsigned neg (show_N n ++ [DOT; ZERO]) = Some (FNum neg n).
Proof.
  unfold parse_unsigned. pose proof (show_N_head_digit n) as Hd. pose proof (show_N_digits n) as Hds.
  destruct (show_N n) as [|c s] eqn:E; [contradiction|].
  assert (B1 : beq ((c :: s) ++ [DOT; ZERO]) S_NAN = false).
  { unfold S_NAN. cbn [app beq]. destruct (c =? 110) eqn:Ec; [|reflexivity]. apply N.eqb_eq in Ec. subst c. discriminate. }
  assert (B2 : beq ((c :: s) ++ [DOT; ZERO]) S_INF = false).
  { unfold S_INF. cbn [app beq]. destruct (c =? 105) eqn:Ec; [|reflexivity]. apply N.eqb_eq in Ec. subst c. discriminate. }
  assert (B3 : beq ((c :: s) ++ [DOT; ZERO]) S_INFINITY = false).
  { unfold S_INFINITY. cbn [app beq]. destruct (c =? 105) eqn:Ec; [|reflexivity]. apply N.eqb_eq in Ec. subst c. discriminate. }
  rewrite B1, B2, B3. cbn [orb]. rewrite <- E in *. rewrite span_app_stop by (auto; reflexivity).
  cbn [forallb andb]. unfold DOT, ZERO. cbn [N.eqb Pos.eqb andb]. now rewrite parse_digits_show_N.
Qed.

Theorem frag_parse_show : forall t x, parse_frag t (show_frag t x) = Some x.
Proof.
  intros t [|neg|neg n]; [reflexivity|destruct neg; reflexivity|].
  cbn [show_frag]. destruct neg; cbn [sign_txt app].
  - unfold parse_frag. rewrite N.eqb_refl. apply parse_unsigned_num.
  - unfold parse_frag. pose proof (show_N_head_digit n) as Hd. pose proof (parse_unsigned_num false n) as P.
    destruct (show_N n) as [|c s] eqn:E; [contradiction|]. cbn [app] in *.
    destruct (c =? MINUS) eqn:E1; [apply N.eqb_eq in E1; subst c; discriminate|].
    destruct (c =? PLUS) eqn:E2; [apply N.eqb_eq in E2; subst c; discriminate|]. exact P.
Qed.

(* ---------------------------------------------------------------- hypothesis 1: the text is a bare token *)
Definition fragch (c : N) : bool := is_digit c || (c =? MINUS) || (c =? DOT) || mem c [110; 97; 105; 102].

Lemma fragch_facts c : fragch c = true ->
  printable c = true /\ (c =? QUOTE) = false /\ (c =? HASH) = false /\ is_ws c = false /\ (c =? LBRACE) = false /\
  (RBRACE =? c) = false /\ (BSL =? c) = false /\ (116 =? c) = false.
Proof.
  unfold fragch, mem, DOT. cbn [existsb]. intros H.
  assert (C : (48 <= c <= 57) \/ c = 45 \/ c = 46 \/ c = 110 \/ c = 97 \/ c = 105 \/ c = 102).
  { revert H. nclass. }
  clear H. repeat split; nclass.
Qed.

Lemma fragch_bare t : t <> [] -> forallb fragch t = true -> bare_ok t = true.
Proof.
  intros Hne H. unfold bare_ok.
  assert (Q : needs_quote t = false).
  { unfold needs_quote. destruct t as [|x t]; [congruence|]. clear Hne. revert H. generalize (x :: t) as l. clear.
    induction l as [|c l IH]; intros H; [reflexivity|]. cbn [forallb] in H. apply andb_true_iff in H as [Hc Hl].
    cbn [existsb]. rewrite (IH Hl). destruct (fragch_facts c Hc) as [_ [_ [F3 [F4 _]]]]. now rewrite F3, F4. }
  assert (M : forall d, (forall c, fragch c = true -> (d =? c) = false) -> mem d t = false).
  { intros d Hd. clear Hne Q. induction t as [|c l IH]; [reflexivity|]. cbn [forallb] in H. apply andb_true_iff in H as [Hc Hl].
    unfold mem in *. cbn [existsb]. now rewrite (Hd c Hc), (IH Hl). }
  assert (S : str_ok t = true).
  { unfold str_ok. apply andb_true_iff. split; [apply andb_true_iff; split|].
    - eapply forallb_impl; [|exact H]. intros c Hc. destruct (fragch_facts c Hc) as [F1 [F2 _]]. now rewrite F1, F2.
    - destruct t as [|c l]; [reflexivity|]. cbn [forallb] in H. apply andb_true_iff in H as [Hc _].
      destruct (fragch_facts c Hc) as [_ [_ [_ [_ [F5 _]]]]]. now rewrite F5.
    - apply negb_true_iff. change KW_TYPEDEF_R with (116 :: [121; 112; 101; 100; 101; 102]). apply contains_no_head.
      apply M. intros c Hc. now destruct (fragch_facts c Hc) as [_ [_ [_ [_ [_ [_ [_ F8]]]]]]]. }
  rewrite Q, S. cbn [negb andb].
  rewrite (M RBRACE) by (intros c Hc; now destruct (fragch_facts c Hc) as [_ [_ [_ [_ [_ [F6 _]]]]]]).
  rewrite (M BSL) by (intros c Hc; now destruct (fragch_facts c Hc) as [_ [_ [_ [_ [_ [_ [F7 _]]]]]]]). reflexivity.
Qed.

Theorem frag_show_bare : forall t x, bare_ok (show_frag t x) = true.
Proof.
  intros t [|neg|neg n]; [reflexivity|destruct neg; reflexivity|].
  cbn [show_frag]. apply fragch_bare.
  - destruct neg; cbn [sign_txt app]; [discriminate|]. pose proof (show_N_nonempty n). destruct (show_N n); [congruence|discriminate].
  - rewrite !forallb_app. rewrite (forallb_impl is_digit fragch (show_N n)).
    + destruct neg; reflexivity.
    + intros c Hc. unfold fragch. now rewrite Hc.
    + apply show_N_digits.
Qed.

(* ---------------------------------------------------------------- the round trip without float hypotheses *)
Theorem frag_cells_in_domain : forall es c inarr x, c_type c = TFloat \/ c_type c = TDouble ->
  sval_ok es c inarr (txt_sval ffrag show_frag (c_type c) (VFlt ffrag x)) = true.
Proof. exact (float_cell_in_domain ffrag show_frag frag_show_bare). Qed.

Theorem file_roundtrip_frag : forall d : vdoc ffrag,
  doc_ok (txt_doc ffrag show_frag d) = true -> forallb (vtable_typed ffrag) (vd_tables ffrag d) = true ->
  exists b p, render_checked (txt_doc ffrag show_frag d) = Some b /\ parse b = Some p /\ parse_binary b = Some p /\
              pd_pairs p = vd_pairs ffrag d /\
              omap (val_table ffrag parse_frag) (pd_tables p) = Some (map (vt_rows ffrag) (vd_tables ffrag d)).
Proof. exact (file_roundtrip_floats ffrag show_frag parse_frag frag_parse_show). Qed.

(* non-vacuity: NaN, -inf, -0.0 and 999999 in a float column, a double array column, an integer column *)
Definition frag_example_doc : vdoc ffrag :=
  mkvdoc ffrag [bs "c"%string] [] []
    [mkvtable ffrag (bs "F"%string)
       [mkcol (bs "x"%string) TFloat None; mkcol (bs "y"%string) TDouble (Some 2); mkcol (bs "n"%string) TInt None]
       [[VSc ffrag (VFlt ffrag FNan); VAr ffrag [VFlt ffrag (FInf true); VFlt ffrag (FNum true 0)]; VSc ffrag (VInt ffrag 7%Z)];
        [VSc ffrag (VFlt ffrag (FNum false 999999)); VAr ffrag [VFlt ffrag (FInf false); VFlt ffrag (FNum false 3)]; VSc ffrag (VInt ffrag (-1)%Z)]]].
Lemma frag_example_ok : doc_ok (txt_doc ffrag show_frag frag_example_doc) = true /\
  forallb (vtable_typed ffrag) (vd_tables ffrag frag_example_doc) = true.
Proof. split; vm_compute; reflexivity. Qed.
