"""Runs iterfit of the repository under test on several permutations of one input (stdin JSON -> stdout JSON).

call = {'x','y','w': lists, 'perms': [[...], ...], 'opts': {'nord': k, 'bkpt'|'nbkpts'|'bkspace': ...},
        'maxiter': int, 'lower': float, 'upper': float, 'grid': [...], 'refit': bool}
"""
import json
import sys
import warnings

import numpy as np

import pydl
from pydl.pydlutils.bspline import iterfit


def err(e, stage):
    return {'err': type(e).__name__, 'msg': str(e)[:200], 'stage': stage}


def fl(a):
    return [float(v) for v in np.asarray(a, dtype='d').ravel()]


def kwargs_of(opts):
    kw = {'nord': int(opts['nord'])}
    if 'bkpt' in opts:
        kw['bkpt'] = np.array(opts['bkpt'], dtype='d')
    if 'nbkpts' in opts:
        kw['nbkpts'] = int(opts['nbkpts'])
    if 'bkspace' in opts:
        kw['bkspace'] = float(opts['bkspace'])
    if 'everyn' in opts:
        kw['everyn'] = int(opts['everyn'])
    if 'placed' in opts:
        kw['placed'] = np.array(opts['placed'], dtype='d')
    return kw


def one(x, y, w, c, grid, maxiter, kw=None, report=None):
    """x, y, w are handed to iterfit AS THEY ARE (caller-owned arrays); afterwards they must be bit-identical to the
    snapshots taken before the call (report['args_mutated'])"""
    snap = (x.copy(), y.copy(), w.copy())
    with warnings.catch_warnings():
        warnings.simplefilter('ignore')
        sset, outmask = iterfit(x, y, invvar=w, upper=c['upper'], lower=c['lower'],
                                maxiter=maxiter, **(kw if kw is not None else kwargs_of(c['opts'])))
        if report is not None:
            report['args_mutated'] = [nm for nm, a, b in (('xdata', x, snap[0]), ('ydata', y, snap[1]), ('invvar', w, snap[2]))
                                      if not (a.dtype == b.dtype and np.array_equal(a, b, equal_nan=True))]
            report['result_aliases_arg'] = bool(isinstance(outmask, np.ndarray) and any(np.shares_memory(outmask, a) for a in (x, y, w)))
        if not isinstance(sset.coeff, np.ndarray):
            # iterfit gave up (<= 1 good point left: `sset.coeff = 0`): nothing to evaluate
            return sset, np.asarray(outmask), None
        curve, gmask = sset.value(grid.copy())
    return sset, np.asarray(outmask), curve


def call(c):
    x0 = np.array(c['x'], dtype='d')
    y0 = np.array(c['y'], dtype='d').astype(c.get('ydtype', 'd'))      # int32 / int64 / float32 data: values exactly representable
    w0 = np.array(c['w'], dtype='d').astype(c.get('wdtype', 'd'))
    grid = np.array(c['grid'], dtype='d')
    runs = []
    # the SAME three ndarray objects are refilled in place for every permutation (a reused input buffer)
    xb, yb, wb = np.empty_like(x0), np.empty_like(y0), np.empty_like(w0)
    for p in c['perms']:
        p = np.array(p, dtype=int)
        x = x0[p]
        np.copyto(xb, x0[p])
        np.copyto(yb, y0[p])
        np.copyto(wb, w0[p])
        try:
            rep = {}
            sset, outmask, curve = one(xb, yb, wb, c, grid, int(c['maxiter']), report=rep)
            if curve is None:
                runs.append({'degenerate': True, 'mask': [bool(v) for v in np.atleast_1d(outmask)]})
                continue
            runs.append({'argsort': [int(i) for i in x.argsort()], 'mask': [bool(v) for v in outmask],
                         'mask_shape_ok': outmask.shape == x.shape, 'bk': fl(sset.breakpoints),
                         'bkmask_all': bool(np.all(sset.mask)), 'curve': fl(curve),
                         'finite': bool(np.all(np.isfinite(curve))), 'args_mutated': rep.get('args_mutated', []),
                         'result_aliases_arg': rep.get('result_aliases_arg', False)})
        except Exception as e:  # noqa: BLE001
            runs.append(err(e, 'iterfit'))
    out = {'runs': runs}
    r0 = runs[0]
    if c.get('refit') and 'err' not in r0 and 'degenerate' not in r0:
        # behaviour of the real code alone: after convergence the curve must be the plain fit to the points
        # the returned mask keeps, and running longer must not change anything
        try:
            k = int(c['opts']['nord'])
            p = np.array(c['perms'][0], dtype=int)
            x, y, w = x0[p], y0[p], w0[p]
            om = np.array(r0['mask'])
            bk = np.array(r0['bk'])
            interior = bk[k - 1:bk.size - k + 1]
            _s2, om2, curve2 = one(x, y, w * om, c, grid, 0, kw={'nord': k, 'bkpt': interior.copy()})
            _s3, om3, curve3 = one(x, y, w, c, grid, int(c['maxiter']) + 5)
            if curve2 is None or curve3 is None:
                raise ValueError('No valid data points.')
            out['refit'] = {'curve_kept_only': fl(curve2), 'mask_kept_only': [bool(v) for v in om2],
                            'mask_longer': [bool(v) for v in om3], 'curve_longer': fl(curve3)}
        except Exception as e:  # noqa: BLE001
            out['refit'] = err(e, 'refit')
    if c.get('scale') and 'err' not in r0 and 'degenerate' not in r0:
        # the same data in other units: y * s, invvar / s^2 (first permutation, fresh arrays)
        try:
            sc = float(c['scale'])
            p = np.array(c['perms'][0], dtype=int)
            _s4, om4, curve4 = one(x0[p], y0[p].astype('d') * sc, w0[p].astype('d') / (sc * sc), c, grid, int(c['maxiter']))
            out['scaled'] = {'mask': [bool(v) for v in np.atleast_1d(om4)], 'curve': None if curve4 is None else fl(curve4)}
        except Exception as e:  # noqa: BLE001
            out['scaled'] = err(e, 'iterfit')
    return out


def main():
    calls = json.load(sys.stdin)
    json.dump({'pydl_file': pydl.__file__, 'results': [call(c) for c in calls]}, sys.stdout)


if __name__ == '__main__':
    main()
