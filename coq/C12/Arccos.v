(* C12 -- the arccos comparison of cap_distance is the algebraic cap test.
   The formula is the one EXTRACTED from the source (Generated/MangleR.v):
       gen_dotprod d        = clip d                          (np.clip(np.dot(xyz, x), -1.0, 1.0))
       gen_cdist cm d       = degrees (acos (1 - |cm|) - acos (gen_dotprod d))
       gen_cap_distance cm d = gen_cdist cm d * (-1) if cm < 0 else gen_cdist cm d
       gen_is_in_cap cm d   = gen_cap_distance cm d >= 0
   For -1 <= d <= 1 and |cm| <= 2 the test is   cm >= 0 : 1 - d <= cm     cm < 0 : 1 - d >= |cm|
   (monotonicity of acos).  The caps (x, c) and (x, -c) are complementary except on the common boundary
   1 - d = c, which the code assigns to both. *)
From Coq Require Import Reals Lra.
From PV Require Import C12.RBase Generated.MangleR.
Open Scope R_scope.

Lemma arccos_test_equiv d c : -1 <= d <= 1 -> 0 <= c <= 2 ->
  (acos (1 - c) - acos d >= 0 <-> 1 - d <= c).
Proof.
  intros Hd Hc.
  assert (-1 <= 1 - c <= 1) as H1 by lra.
  pose proof (acos_le_iff d (1 - c) Hd H1) as E'.
  split; intro H.
  - assert (acos d <= acos (1 - c)) as H' by lra. apply E' in H'. lra.
  - assert (acos d <= acos (1 - c)) by (apply E'; lra). lra.
Qed.

Lemma arccos_test_equiv_neg d c : -1 <= d <= 1 -> 0 <= c <= 2 ->
  (- (acos (1 - c) - acos d) >= 0 <-> c <= 1 - d).
Proof.
  intros Hd Hc.
  assert (-1 <= 1 - c <= 1) as H1 by lra.
  pose proof (acos_le_iff (1 - c) d H1 Hd) as E.
  split; intro H.
  - assert (acos (1 - c) <= acos d) as H' by lra. apply E in H'. lra.
  - assert (acos (1 - c) <= acos d) by (apply E; lra). lra.
Qed.

(* the generated formula, for any dot product d, in terms of the clipped value *)
Lemma gen_is_in_cap_clip cm d : -2 <= cm <= 2 ->
  (gen_is_in_cap cm d <-> if Rlt_dec cm 0 then - cm <= 1 - clip d else 1 - clip d <= cm).
Proof.
  intros Hc. unfold gen_is_in_cap, gen_cap_distance, gen_cdist, gen_dotprod. fold (clip d).
  pose proof (clip_bounds d) as Hd.
  destruct (Rlt_dec cm 0) as [Hneg|Hpos].
  - rewrite (Rabs_left cm Hneg).
    pose proof (arccos_test_equiv_neg (clip d) (- cm) Hd ltac:(lra)) as E.
    pose proof (degrees_nonneg (- (acos (1 - - cm) - acos (clip d)))) as D.
    unfold degrees in *. split; intro H.
    + apply E. apply Rle_ge. apply D. lra.
    + apply E in H. apply Rge_le in H. apply D in H. lra.
  - rewrite (Rabs_right cm) by lra.
    pose proof (arccos_test_equiv (clip d) cm Hd ltac:(lra)) as E.
    pose proof (degrees_nonneg (acos (1 - cm) - acos (clip d))) as D.
    unfold degrees in *. split; intro H.
    + apply E. apply Rle_ge. apply D. lra.
    + apply E in H. apply Rge_le in H. apply D in H. lra.
Qed.

(* for a dot product inside [-1, 1] the test of the code is the algebraic test of the property *)
Theorem cap_distance_sign cm d : -1 <= d <= 1 -> -2 <= cm <= 2 ->
  (gen_is_in_cap cm d <-> if Rlt_dec cm 0 then - cm <= 1 - d else 1 - d <= cm).
Proof.
  intros Hd Hc. rewrite (gen_is_in_cap_clip cm d Hc). rewrite (clip_id d Hd). reflexivity.
Qed.

(* a dot product that rounding pushed above 1 (a point at the cap's own centre) still gives the right
   answer for cm >= 0: this is what the clip is for *)
Theorem cap_distance_clipped_sign cm d : -1 <= d -> 0 <= cm <= 2 ->
  (gen_is_in_cap cm d <-> 1 - d <= cm).
Proof.
  intros Hd Hc. rewrite (gen_is_in_cap_clip cm d ltac:(lra)).
  destruct (Rlt_dec cm 0) as [N|_]; [lra|].
  destruct (Rle_dec d 1) as [Hle|Hgt].
  - rewrite clip_id by lra. reflexivity.
  - rewrite clip_above by lra. split; intro H; lra.
Qed.

Theorem centre_always_inside cm d : 1 <= d -> 0 <= cm <= 2 -> gen_is_in_cap cm d.
Proof. intros Hd Hc. apply cap_distance_clipped_sign; lra. Qed.

(* complement, off the boundary *)
Theorem neg_cap_is_complement c d : -1 <= d <= 1 -> 0 < c <= 2 -> 1 - d <> c ->
  (gen_is_in_cap (- c) d <-> ~ gen_is_in_cap c d).
Proof.
  intros Hd Hc Hb.
  rewrite (cap_distance_sign (- c) d Hd ltac:(lra)).
  rewrite (cap_distance_sign c d Hd ltac:(lra)).
  destruct (Rlt_dec (- c) 0) as [_|N]; [|lra].
  destruct (Rlt_dec c 0) as [N|_]; [lra|].
  split; intro H; lra.
Qed.

(* on the boundary the code reports "inside" for both signs *)
Theorem boundary_in_both c d : -1 <= d <= 1 -> 0 < c <= 2 -> 1 - d = c ->
  gen_is_in_cap (- c) d /\ gen_is_in_cap c d.
Proof.
  intros Hd Hc Hb. split.
  - apply (cap_distance_sign (- c) d Hd ltac:(lra)). destruct (Rlt_dec (- c) 0); lra.
  - apply (cap_distance_sign c d Hd ltac:(lra)). destruct (Rlt_dec c 0); lra.
Qed.
