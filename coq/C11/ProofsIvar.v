(* C11 proofs -- the inverse-variance path of combine1fiber (model: C11/Model.v).
     Part A  np.interp (interp / interp_from): bracketing, clamping, convexity, non-negativity, mask interpolation
     Part B  one exposure (ivar_of_exposure)
     Part C  growth of bad regions (grow)
     Part D  the whole function (combine1fiber_model), single spectrum and stacked exposures
   Conventions: hd / last of tables are taken with the default (0,0), of index lists with the default 0%nat;
   nthQ / nthB are nth with default 0 / false.  Proofs only; Model.v is untouched. *)
From Coq Require Import QArith Qround Qabs Qminmax Lqa List Bool Arith Lia Setoid Morphisms.
Import ListNotations.
From PV Require Import Lib.WLS BSpline.Eval BSpline.EvalProofs BSpline.KnotsProofs C11.Model.
Open Scope Q_scope.

(* ------------------------------------------------------------------ small facts *)
Lemma EPS_pos : 0 < EPS.
Proof. reflexivity. Qed.
Lemma EPS_lt1 : EPS < 1.
Proof. reflexivity. Qed.

Lemma Qle_bool_false a b : Qle_bool a b = false -> b < a.
Proof. intro E. apply Qltb_lt. unfold Qltb. rewrite E. reflexivity. Qed.

Lemma last_cons_irrel {A} (l : list A) : forall a d d', last (a :: l) d = last (a :: l) d'.
Proof.
  induction l as [|b l IH]; intros a d d'; [reflexivity|].
  change (last (b :: l) d = last (b :: l) d'). apply IH.
Qed.

Lemma last_cons_def {A} (l : list A) a d : last (a :: l) d = last l a.
Proof. destruct l as [|b l]; [reflexivity|]. change (last (b :: l) d = last (b :: l) a). apply last_cons_irrel. Qed.

(* ------------------------------------------------------------------ PART A: np.interp *)
(* strictly increasing list of rationals / table with strictly increasing abscissae *)
Fixpoint incrl (l : list Q) : Prop :=
  match l with
  | a :: ((b :: _) as r) => a < b /\ incrl r
  | _ => True
  end.
Definition ssorted (pts : list (Q * Q)) : Prop := incrl (map fst pts).
(* a and b are consecutive elements of l *)
Definition adjacent {A} (l : list A) (a b : A) : Prop := exists l1 l2, l = l1 ++ a :: b :: l2.

Lemma ssorted_map {A} (x v : A -> Q) (l : list A) : ssorted (map (fun i => (x i, v i)) l) <-> incrl (map x l).
Proof. unfold ssorted. rewrite map_map. cbn [fst]. reflexivity. Qed.

Lemma incr_incrl t : incr t -> incrl t.
Proof.
  induction t as [|a [|b r] IH]; intro H; cbn; auto. split.
  - apply (H 0%nat). cbn. lia.
  - apply IH. eapply incr_tail. exact H.
Qed.

Lemma adjacent_cons {A} (l : list A) c a b : adjacent l a b -> adjacent (c :: l) a b.
Proof. intros (l1 & l2 & ->). exists (c :: l1), l2. reflexivity. Qed.

Lemma adjacent_In {A} (l : list A) a b : adjacent l a b -> In a l /\ In b l.
Proof. intros (l1 & l2 & ->). split; apply in_or_app; right; cbn; auto. Qed.

Section Generic.
Context {A : Type} (x : A -> Q).

Lemma incrl_tail a l : incrl (map x (a :: l)) -> incrl (map x l).
Proof. destruct l; cbn; tauto. Qed.

Lemma incrl_head_lt : forall l a y, incrl (map x (a :: l)) -> In y l -> x a < x y.
Proof.
  induction l as [|b l IH]; intros a y Hs Hy; [destruct Hy|].
  destruct Hs as [Hab Hs]. destruct Hy as [->|Hy]; [exact Hab|].
  eapply Qlt_trans; [exact Hab|]. apply IH; assumption.
Qed.

Lemma incrl_hd_le l d y : incrl (map x l) -> In y l -> x (hd d l) <= x y.
Proof.
  destruct l as [|a l]; intros Hs Hy; [destruct Hy|]. cbn [hd].
  destruct Hy as [->|Hy]; [apply Qle_refl|]. apply Qlt_le_weak. eapply incrl_head_lt; eauto.
Qed.

Lemma incrl_le_last : forall l d y, incrl (map x l) -> In y l -> x y <= x (last l d).
Proof.
  induction l as [|a l IH]; intros d y Hs Hy; [destruct Hy|].
  destruct l as [|b l].
  - destruct Hy as [->|[]]. apply Qle_refl.
  - change (last (a :: b :: l) d) with (last (b :: l) d).
    destruct Hy as [->|Hy].
    + apply Qlt_le_weak. eapply Qlt_le_trans; [apply Hs|]. apply IH; [apply Hs|left; reflexivity].
    + apply IH; [apply Hs|exact Hy].
Qed.

Lemma adjacent_sorted : forall l a b, incrl (map x l) -> adjacent l a b -> x a < x b.
Proof.
  intros l a b Hs (l1 & l2 & ->). induction l1 as [|c l1 IH].
  - apply Hs.
  - apply IH. eapply incrl_tail. exact Hs.
Qed.

Variable p : Q.
(* the table with ordinates v on the abscissae x, and the interpolation formula between nodes a and b *)
Definition tbl (v : A -> Q) (l : list A) : list (Q * Q) := map (fun j => (x j, v j)) l.
Definition lin (v : A -> Q) (a b : A) : Q := v a + (v b - v a) * ((p - x a) / (x b - x a)).

Lemma interp_from_bracket : forall rest a,
  incrl (map x (a :: rest)) -> rest <> [] -> x a <= p -> p <= x (last rest a) ->
  exists b c, adjacent (a :: rest) b c /\ x b <= p <= x c /\
              forall v, interp_from (x a) (v a) (tbl v rest) p == lin v b c.
Proof.
  induction rest as [|b rest IH]; intros a Hs Hne Hlo Hhi; [congruence|].
  destruct (Qltb p (x b)) eqn:E.
  - pose proof E as E'. apply Qltb_lt in E'. exists a, b. split; [exists [], rest; reflexivity|]. split; [lra|].
    intros v. cbn [tbl map interp_from]. rewrite E. reflexivity.
  - pose proof E as E'. apply Qltb_ge in E'. destruct rest as [|c rest'].
    + cbn [last] in Hhi. exists a, b. split; [exists [], []; reflexivity|]. split; [lra|].
      intros v. cbn [tbl map interp_from]. rewrite E. unfold lin.
      destruct Hs as [Hab _]. assert (Hp : p == x b) by lra. rewrite Hp. field. lra.
    + destruct (IH b) as (b' & c' & Hadj & Hbr & Hv).
      * eapply incrl_tail. exact Hs.
      * discriminate.
      * exact E'.
      * rewrite (last_cons_irrel rest' c b a). exact Hhi.
      * exists b', c'. split; [apply adjacent_cons; exact Hadj|]. split; [exact Hbr|].
        intros v. specialize (Hv v). cbn [tbl map interp_from] in *. rewrite E. exact Hv.
Qed.

Lemma interp_bracket_gen l d :
  incrl (map x l) -> (2 <= length l)%nat -> x (hd d l) <= p -> p <= x (last l d) ->
  exists a b, adjacent l a b /\ x a <= p <= x b /\ forall v, interp (tbl v l) p == lin v a b.
Proof.
  destruct l as [|a [|b rest]]; cbn [length]; try lia. intros Hs _ Hlo Hhi. cbn [hd] in Hlo.
  destruct (Qle_bool p (x a)) eqn:E.
  - pose proof E as E'. apply Qle_bool_iff in E'. exists a, b. split; [exists [], rest; reflexivity|].
    destruct Hs as [Hab _]. split; [lra|].
    intros v. cbn [tbl map interp]. rewrite E. unfold lin. assert (Hp : p == x a) by lra. rewrite Hp. field. lra.
  - pose proof (Qle_bool_false _ _ E) as E'.
    destruct (interp_from_bracket (b :: rest) a) as (b' & c' & Hadj & Hbr & Hv).
    + exact Hs.
    + discriminate.
    + lra.
    + rewrite (last_cons_irrel rest b a d). exact Hhi.
    + exists b', c'. split; [exact Hadj|]. split; [exact Hbr|].
      intros v. specialize (Hv v). cbn [tbl map interp] in *. rewrite E. exact Hv.
Qed.

End Generic.

Lemma tbl_self (pts : list (Q * Q)) : tbl fst snd pts = pts.
Proof. unfold tbl. rewrite <- (map_id pts) at 2. apply map_ext. intros [a b]; reflexivity. Qed.

(* A1 *)
Theorem interp_bracket pts p :
  ssorted pts -> (2 <= length pts)%nat -> fst (hd (0, 0) pts) <= p -> p <= fst (last pts (0, 0)) ->
  exists a b, adjacent pts a b /\ fst a <= p <= fst b /\
              interp pts p == snd a + (snd b - snd a) * ((p - fst a) / (fst b - fst a)).
Proof.
  intros Hs Hl Hlo Hhi.
  destruct (interp_bracket_gen fst p pts (0, 0) Hs Hl Hlo Hhi) as (a & b & Hadj & Hbr & Hv).
  exists a, b. split; [exact Hadj|]. split; [exact Hbr|].
  specialize (Hv snd). rewrite tbl_self in Hv. exact Hv.
Qed.

Theorem interp_clamp_lo pts p : p <= fst (hd (0, 0) pts) -> interp pts p = snd (hd (0, 0) pts).
Proof.
  destruct pts as [|[x0 y0] rest]; cbn [hd fst snd interp]; intro H; [reflexivity|].
  apply Qle_bool_iff in H. rewrite H. reflexivity.
Qed.

Lemma interp_from_clamp_hi : forall rest x0 y0 p,
  (forall q, In q rest -> fst q <= p) -> interp_from x0 y0 rest p = snd (last rest (x0, y0)).
Proof.
  induction rest as [|[x1 y1] rest IH]; intros x0 y0 p H; [reflexivity|].
  cbn [interp_from]. assert (E : Qltb p x1 = false) by (apply Qltb_ge; apply (H (x1, y1)); left; reflexivity).
  rewrite E. rewrite IH by (intros q Hq; apply H; right; exact Hq).
  f_equal. symmetry. apply last_cons_def.
Qed.

Theorem interp_clamp_hi pts p : ssorted pts -> fst (last pts (0, 0)) <= p -> interp pts p = snd (last pts (0, 0)).
Proof.
  destruct pts as [|[x0 y0] rest]; intros Hs H; [reflexivity|].
  destruct rest as [|[x1 y1] rest].
  - cbn. destruct (Qle_bool p x0); reflexivity.
  - assert (Hall : forall q, In q ((x0, y0) :: (x1, y1) :: rest) -> fst q <= p).
    { intros q Hq. eapply Qle_trans; [|exact H]. apply (incrl_le_last fst); assumption. }
    cbn [interp]. assert (E : Qle_bool p x0 = false).
    { destruct (Qle_bool p x0) eqn:E; [|reflexivity]. apply Qle_bool_iff in E. exfalso.
      destruct Hs as [H01 _]. cbn [fst] in H01. specialize (Hall (x1, y1) (or_intror (or_introl eq_refl))).
      cbn [fst] in Hall. lra. }
    rewrite E. rewrite interp_from_clamp_hi by (intros q Hq; apply Hall; right; exact Hq).
    f_equal. symmetry. apply last_cons_def.
Qed.

(* A2: convexity *)
Lemma convex_bounds y0 y1 t : 0 <= t <= 1 -> Qmin y0 y1 <= y0 + (y1 - y0) * t <= Qmax y0 y1.
Proof.
  intros [H0 H1].
  destruct (Q.max_spec y0 y1) as [[Ha Hb]|[Ha Hb]]; destruct (Q.min_spec y0 y1) as [[Hc Hd]|[Hc Hd]];
    rewrite Hb, Hd; try lra.
  - assert (0 <= (y1 - y0) * t) by (apply Qmult_le_0_compat; lra).
    assert (0 <= (y1 - y0) * (1 - t)) by (apply Qmult_le_0_compat; lra). lra.
  - assert (0 <= (y0 - y1) * t) by (apply Qmult_le_0_compat; lra).
    assert (0 <= (y0 - y1) * (1 - t)) by (apply Qmult_le_0_compat; lra). lra.
Qed.

Lemma ratio_unit xa xb p : xa < xb -> xa <= p <= xb -> 0 <= (p - xa) / (xb - xa) <= 1.
Proof. intros H [H1 H2]. split; [apply Qle_shift_div_l|apply Qle_shift_div_r]; lra. Qed.

(* A1 + A2 under the hypotheses of A1: the bracketing nodes, the formula and the bounds *)
Theorem interp_bracket_bounds pts p :
  ssorted pts -> (2 <= length pts)%nat -> fst (hd (0, 0) pts) <= p -> p <= fst (last pts (0, 0)) ->
  exists a b, adjacent pts a b /\ fst a < fst b /\ fst a <= p <= fst b /\
              interp pts p == snd a + (snd b - snd a) * ((p - fst a) / (fst b - fst a)) /\
              Qmin (snd a) (snd b) <= interp pts p <= Qmax (snd a) (snd b).
Proof.
  intros Hs Hl Hlo Hhi. destruct (interp_bracket pts p Hs Hl Hlo Hhi) as (a & b & Hadj & Hbr & Hv).
  pose proof (adjacent_sorted fst pts a b Hs Hadj) as Hab.
  exists a, b. repeat split; try assumption; try apply Hbr; rewrite Hv; apply convex_bounds; apply ratio_unit; assumption.
Qed.

Corollary interp_le_max pts p :
  ssorted pts -> (2 <= length pts)%nat -> fst (hd (0, 0) pts) <= p -> p <= fst (last pts (0, 0)) ->
  exists a b, adjacent pts a b /\ fst a <= p <= fst b /\ interp pts p <= Qmax (snd a) (snd b).
Proof.
  intros Hs Hl Hlo Hhi. destruct (interp_bracket_bounds pts p Hs Hl Hlo Hhi) as (a & b & H1 & _ & H2 & _ & _ & H3).
  exists a, b. auto.
Qed.

Corollary interp_ge_min pts p :
  ssorted pts -> (2 <= length pts)%nat -> fst (hd (0, 0) pts) <= p -> p <= fst (last pts (0, 0)) ->
  exists a b, adjacent pts a b /\ fst a <= p <= fst b /\ Qmin (snd a) (snd b) <= interp pts p.
Proof.
  intros Hs Hl Hlo Hhi. destruct (interp_bracket_bounds pts p Hs Hl Hlo Hhi) as (a & b & H1 & _ & H2 & _ & H3 & _).
  exists a, b. auto.
Qed.

(* non-negative ordinates give a non-negative interpolant at EVERY p, for ANY table (sorted or not, empty or not):
   interp_from only ever interpolates with x0 <= p < x1 *)
Lemma interp_from_nonneg : forall rest x0 y0 p,
  x0 <= p -> 0 <= y0 -> Forall (fun q => 0 <= snd q) rest -> 0 <= interp_from x0 y0 rest p.
Proof.
  induction rest as [|[x1 y1] rest IH]; intros x0 y0 p Hx Hy HF; cbn [interp_from]; [exact Hy|].
  inversion HF as [|? ? Hy1 HF']; subst. cbn [snd] in Hy1.
  destruct (Qltb p x1) eqn:E.
  - apply Qltb_lt in E.
    pose proof (convex_bounds y0 y1 ((p - x0) / (x1 - x0)) (ratio_unit x0 x1 p ltac:(lra) ltac:(lra))) as [Hm _].
    eapply Qle_trans; [|exact Hm]. apply Q.min_glb; assumption.
  - apply Qltb_ge in E. apply IH; assumption.
Qed.

Theorem interp_nonneg pts p : Forall (fun q => 0 <= snd q) pts -> 0 <= interp pts p.
Proof.
  destruct pts as [|[x0 y0] rest]; intro HF; cbn [interp]; [apply Qle_refl|].
  inversion HF as [|? ? Hy HF']; subst. cbn [snd] in Hy.
  destruct (Qle_bool p x0) eqn:E; [exact Hy|].
  apply interp_from_nonneg; [apply Qlt_le_weak, Qle_bool_false, E|exact Hy|exact HF'].
Qed.

(* A3: mask interpolation *)
Lemma mask_interp_cases ga gb xa xb p : xa < xb -> xa <= p <= xb ->
  1 - EPS <= b2q ga + (b2q gb - b2q ga) * ((p - xa) / (xb - xa)) ->
  (ga = true /\ gb = true) \/ (ga = true /\ p - xa <= EPS * (xb - xa)) \/ (gb = true /\ xb - p <= EPS * (xb - xa)).
Proof.
  intros Hab Hbr H. pose proof EPS_lt1 as He. revert H He. generalize EPS. intros e H He.
  assert (Ht : (p - xa) / (xb - xa) * (xb - xa) == p - xa) by (field; lra).
  revert H Ht. generalize ((p - xa) / (xb - xa)). intros t H Ht.
  destruct ga, gb; cbn [b2q] in H.
  - left. auto.
  - right; left. split; [reflexivity|]. rewrite <- Ht. apply Qmult_le_compat_r; lra.
  - right; right. split; [reflexivity|].
    assert (Hx : xb - p == (1 - t) * (xb - xa)) by lra.
    rewrite Hx. apply Qmult_le_compat_r; lra.
  - exfalso. lra.
Qed.

Lemma allowed_between_intro xa xb ga gb p : xa <= p <= xb ->
  (ga = true /\ gb = true) \/ (ga = true /\ p - xa <= EPS * (xb - xa)) \/ (gb = true /\ xb - p <= EPS * (xb - xa)) ->
  allowed_between xa xb ga gb p = true.
Proof.
  intros [H1 H2] H. unfold allowed_between.
  apply Qle_bool_iff in H1. apply Qle_bool_iff in H2. rewrite H1, H2. cbn [andb].
  destruct H as [[-> ->]|[[-> H]|[-> H]]]; apply Qle_bool_iff in H || idtac; try rewrite H; cbn [andb orb];
    try reflexivity; repeat rewrite orb_true_r; try reflexivity.
Qed.

(* two tables over the same index list with the same abscissae: ONE pair of consecutive indices brackets p
   and serves both the value table and the 0/1 mask table *)
Theorem joint_bracket (x v : nat -> Q) (g : nat -> bool) (idx : list nat) (p : Q) :
  incrl (map x idx) -> (2 <= length idx)%nat -> x (hd 0%nat idx) <= p -> p <= x (last idx 0%nat) ->
  exists i i', adjacent idx i i' /\ x i < x i' /\ x i <= p <= x i' /\
    interp (map (fun j => (x j, v j)) idx) p == v i + (v i' - v i) * ((p - x i) / (x i' - x i)) /\
    interp (map (fun j => (x j, b2q (g j))) idx) p
      == b2q (g i) + (b2q (g i') - b2q (g i)) * ((p - x i) / (x i' - x i)).
Proof.
  intros Hs Hl Hlo Hhi. destruct (interp_bracket_gen x p idx 0%nat Hs Hl Hlo Hhi) as (i & i' & Hadj & Hbr & Hv).
  exists i, i'. split; [exact Hadj|]. split; [eapply adjacent_sorted; eauto|]. split; [exact Hbr|].
  split; [apply (Hv v)|apply (Hv (fun j => b2q (g j)))].
Qed.

Theorem mask_interp_bracket (x v : nat -> Q) (g : nat -> bool) (idx : list nat) (p : Q) :
  incrl (map x idx) -> (2 <= length idx)%nat -> x (hd 0%nat idx) <= p -> p <= x (last idx 0%nat) ->
  1 - EPS <= interp (map (fun j => (x j, b2q (g j))) idx) p ->
  exists i i', adjacent idx i i' /\ x i < x i' /\ x i <= p <= x i' /\
    interp (map (fun j => (x j, v j)) idx) p == v i + (v i' - v i) * ((p - x i) / (x i' - x i)) /\
    ((g i = true /\ g i' = true) \/ (g i = true /\ p - x i <= EPS * (x i' - x i)) \/
     (g i' = true /\ x i' - p <= EPS * (x i' - x i))).
Proof.
  intros Hs Hl Hlo Hhi Hm. destruct (joint_bracket x v g idx p Hs Hl Hlo Hhi) as (i & i' & Hadj & Hlt & Hbr & Hv & Hg).
  exists i, i'. repeat (split; [assumption|]). rewrite Hg in Hm. apply mask_interp_cases; assumption.
Qed.

Lemma exists_bracket_adjacent (x : nat -> Q) (g : nat -> bool) p : forall l1 i i' l2,
  allowed_between (x i) (x i') (g i) (g i') p = true ->
  exists_bracket (map (fun j => (x j, g j)) (l1 ++ i :: i' :: l2)) p = true.
Proof.
  induction l1 as [|a l1 IH]; intros i i' l2 H.
  - cbn [app map exists_bracket]. rewrite H. reflexivity.
  - specialize (IH i i' l2 H). destruct l1 as [|b l1]; cbn [app map exists_bracket] in *; rewrite IH; apply orb_true_r.
Qed.

(* ------------------------------------------------------------------ PART B: one exposure *)
(* the value ivar_of_exposure computes at one output pixel (wavelength p, output mask m) *)
Definition expo_val (inloglam wts : list Q) (comb : list bool) (these : list nat) (p : Q) (m : bool) : Q :=
  let xs := map (nthQ inloglam) these in
  let pv := map (fun i => (nthQ inloglam i, nthQ wts i * b2q (nthB comb i))) these in
  let pm := map (fun i => (nthQ inloglam i, b2q (nthB comb i))) these in
  if Qle_bool (lminQ xs) p && Qle_bool p (lmaxQ xs) then
    (if Qle_bool (1 - EPS) (interp pm p) then interp pv p else 0) * b2q m
  else 0.

Lemma ivar_of_exposure_eq inloglam wts comb these newloglam newmask :
  ivar_of_exposure inloglam wts comb these newloglam newmask
  = map (fun t => expo_val inloglam wts comb these (fst t) (snd t)) (combine newloglam newmask).
Proof. unfold ivar_of_exposure, expo_val. apply map_ext. intros [p m]. reflexivity. Qed.

Lemma nthQ_map_combine (f : Q -> bool -> Q) : forall (nl : list Q) (nm : list bool) q,
  ((q < length nl)%nat /\ (q < length nm)%nat /\
   nthQ (map (fun t => f (fst t) (snd t)) (combine nl nm)) q = f (nthQ nl q) (nth q nm false))
  \/ (((length nl <= q)%nat \/ (length nm <= q)%nat) /\ nthQ (map (fun t => f (fst t) (snd t)) (combine nl nm)) q = 0).
Proof.
  induction nl as [|a nl IH]; intros nm q.
  - right. split; [left; cbn; lia|]. destruct q; reflexivity.
  - destruct nm as [|b nm].
    + right. split; [right; cbn; lia|]. destruct q; reflexivity.
    + destruct q as [|q].
      * left. cbn. repeat split; lia || reflexivity.
      * destruct (IH nm q) as [(H1 & H2 & H3)|[H1 H2]].
        -- left. cbn [length]. repeat split; try lia. exact H3.
        -- right. cbn [length]. split; [lia|exact H2].
Qed.

Lemma ivar_of_exposure_length inloglam wts comb these newloglam newmask :
  length (ivar_of_exposure inloglam wts comb these newloglam newmask) = Nat.min (length newloglam) (length newmask).
Proof. unfold ivar_of_exposure. rewrite map_length, combine_length. reflexivity. Qed.

(* B1 (length) *)
Theorem ivar_of_exposure_length_eq inloglam wts comb these newloglam newmask :
  length newmask = length newloglam ->
  length (ivar_of_exposure inloglam wts comb these newloglam newmask) = length newloglam.
Proof. intro H. rewrite ivar_of_exposure_length, H. apply Nat.min_id. Qed.

Lemma masked_weight_le w c : 0 <= w -> 0 <= w * b2q c <= w.
Proof. destruct c; cbn [b2q]; lra. Qed.

Section Exposure.
Variables (inloglam wts : list Q) (comb : list bool) (these : list nat).

Lemma expo_val_nonneg p m : (forall i, In i these -> 0 <= nthQ wts i) -> 0 <= expo_val inloglam wts comb these p m.
Proof.
  intro Hw. unfold expo_val.
  destruct (Qle_bool _ p && Qle_bool p _); [|apply Qle_refl].
  apply Qmult_le_0_compat; [|destruct m; cbn; lra].
  destruct (Qle_bool (1 - EPS) _); [|apply Qle_refl].
  apply interp_nonneg. apply Forall_forall. intros t Ht. apply in_map_iff in Ht. destruct Ht as (i & <- & Hi).
  cbn [snd]. apply masked_weight_le. apply Hw. exact Hi.
Qed.

(* the structural content of a non-zero value; needs neither the sign of the weights *)
Lemma expo_val_nonzero p m :
  incrl (map (nthQ inloglam) these) -> (2 <= length these)%nat ->
  ~ expo_val inloglam wts comb these p m == 0 ->
  m = true /\
  exists i i', adjacent these i i' /\ nthQ inloglam i < nthQ inloglam i' /\
    nthQ inloglam i <= p <= nthQ inloglam i' /\
    allowed_between (nthQ inloglam i) (nthQ inloglam i') (nthB comb i) (nthB comb i') p = true /\
    expo_val inloglam wts comb these p m
      == interp (map (fun i => (nthQ inloglam i, nthQ wts i * b2q (nthB comb i))) these) p /\
    expo_val inloglam wts comb these p m
      == nthQ wts i * b2q (nthB comb i)
         + (nthQ wts i' * b2q (nthB comb i') - nthQ wts i * b2q (nthB comb i))
           * ((p - nthQ inloglam i) / (nthQ inloglam i' - nthQ inloglam i)).
Proof.
  intros Hs Hl. unfold expo_val.
  destruct (Qle_bool _ p && Qle_bool p _) eqn:E; [|intro H; exfalso; apply H; reflexivity].
  destruct (Qle_bool (1 - EPS) _) eqn:E2; [|intro H; exfalso; apply H; ring].
  destruct m; [|intro H; exfalso; apply H; cbn [b2q]; ring]. intros _. split; [reflexivity|].
  apply andb_prop in E. destruct E as [E1 E3]. apply Qle_bool_iff in E1, E3, E2.
  assert (Hne : map (nthQ inloglam) these <> []) by (destruct these; cbn in *; [lia|discriminate]).
  assert (Hlo : nthQ inloglam (hd 0%nat these) <= p).
  { pose proof (lminQ_In _ Hne) as Hin. apply in_map_iff in Hin. destruct Hin as (i & Hi & Hin).
    eapply Qle_trans; [|exact E1]. rewrite <- Hi. apply incrl_hd_le; assumption. }
  assert (Hhi : p <= nthQ inloglam (last these 0%nat)).
  { pose proof (lmaxQ_In _ Hne) as Hin. apply in_map_iff in Hin. destruct Hin as (i & Hi & Hin).
    eapply Qle_trans; [exact E3|]. rewrite <- Hi. apply incrl_le_last; assumption. }
  destruct (mask_interp_bracket (nthQ inloglam) (fun i => nthQ wts i * b2q (nthB comb i)) (nthB comb) these p
              Hs Hl Hlo Hhi E2) as (i & i' & Hadj & Hlt & Hbr & Hv & Hg).
  exists i, i'. repeat (split; [assumption|]).
  split; [apply allowed_between_intro; assumption|].
  cbn [b2q]. split; [ring|]. rewrite <- Hv. ring.
Qed.

Hypothesis Hsorted : incrl (map (nthQ inloglam) these).
Hypothesis Hlen : (2 <= length these)%nat.
Hypothesis Hw : forall i, In i these -> 0 <= nthQ wts i.

Lemma expo_val_le_max p m i i' :
  adjacent these i i' -> nthQ inloglam i < nthQ inloglam i' -> nthQ inloglam i <= p <= nthQ inloglam i' ->
  expo_val inloglam wts comb these p m
    == nthQ wts i * b2q (nthB comb i)
       + (nthQ wts i' * b2q (nthB comb i') - nthQ wts i * b2q (nthB comb i))
         * ((p - nthQ inloglam i) / (nthQ inloglam i' - nthQ inloglam i)) ->
  expo_val inloglam wts comb these p m <= Qmax (nthQ wts i) (nthQ wts i').
Proof.
  intros Hadj Hlt Hbr Hv. rewrite Hv. destruct (adjacent_In _ _ _ Hadj) as [Hi Hi'].
  eapply Qle_trans; [apply convex_bounds; apply ratio_unit; assumption|].
  apply Q.max_le_compat; apply masked_weight_le; apply Hw; assumption.
Qed.

Variables (newloglam : list Q) (newmask : list bool).

(* B1 *)
Theorem ivar_of_exposure_nonneg q :
  0 <= nthQ (ivar_of_exposure inloglam wts comb these newloglam newmask) q.
Proof.
  rewrite ivar_of_exposure_eq.
  destruct (nthQ_map_combine (expo_val inloglam wts comb these) newloglam newmask q) as [(_ & _ & ->)|[_ ->]];
    [apply expo_val_nonneg; exact Hw|apply Qle_refl].
Qed.

(* B2 (Qmax form).  No hypothesis on q or on the lengths is needed: beyond the end nthQ is 0. *)
Theorem ivar_of_exposure_nonzero q :
  let p := nthQ newloglam q in
  let v := nthQ (ivar_of_exposure inloglam wts comb these newloglam newmask) q in
  ~ v == 0 ->
  (q < length newloglam)%nat /\ nth q newmask false = true /\
  exists i i', adjacent these i i' /\
    nthQ inloglam i <= p <= nthQ inloglam i' /\
    allowed_between (nthQ inloglam i) (nthQ inloglam i') (nthB comb i) (nthB comb i') p = true /\
    v == interp (map (fun i => (nthQ inloglam i, nthQ wts i * b2q (nthB comb i))) these) p /\
    v <= Qmax (nthQ wts i) (nthQ wts i').
Proof.
  cbn zeta. rewrite ivar_of_exposure_eq.
  destruct (nthQ_map_combine (expo_val inloglam wts comb these) newloglam newmask q) as [(Hq & _ & ->)|[_ ->]];
    [|intro H; exfalso; apply H; reflexivity].
  intro H. destruct (expo_val_nonzero _ _ Hsorted Hlen H) as (Hm & i & i' & Hadj & Hlt & Hbr & Hal & Hv & Hf).
  split; [exact Hq|]. split; [exact Hm|]. exists i, i'. repeat (split; [assumption|]).
  apply expo_val_le_max; assumption.
Qed.

End Exposure.

(* B3: in the checker's terms; the sign of the weights plays no role *)
Theorem ivar_of_exposure_nonzero_bracket inloglam wts comb these newloglam newmask q :
  incrl (map (nthQ inloglam) these) -> (2 <= length these)%nat ->
  ~ nthQ (ivar_of_exposure inloglam wts comb these newloglam newmask) q == 0 ->
  exists_bracket (map (fun i => (nthQ inloglam i, nthB comb i)) these) (nthQ newloglam q) = true.
Proof.
  intros Hs Hl. rewrite ivar_of_exposure_eq.
  destruct (nthQ_map_combine (expo_val inloglam wts comb these) newloglam newmask q) as [(Hq & _ & ->)|[_ ->]];
    [|intro H; exfalso; apply H; reflexivity].
  intro H. destruct (expo_val_nonzero _ _ _ _ _ _ Hs Hl H) as (_ & i & i' & (l1 & l2 & ->) & _ & _ & Hal & _).
  apply exists_bracket_adjacent. exact Hal.
Qed.

(* ------------------------------------------------------------------ PART C: growth of bad regions *)
Lemma set_nth_zero_nth : forall (l : list Q) i q, nthQ (set_nth i 0 l) q = 0 \/ nthQ (set_nth i 0 l) q = nthQ l q.
Proof.
  induction l as [|a l IH]; intros i q; [right; destruct i; reflexivity|].
  destruct i as [|i], q as [|q]; cbn; auto. apply IH.
Qed.

Lemma set_many_zero_nth : forall (idx : list nat) (vals l : list Q) q,
  Forall (fun v => v = 0) vals ->
  nthQ (set_many idx vals l) q = 0 \/ nthQ (set_many idx vals l) q = nthQ l q.
Proof.
  induction idx as [|i idx IH]; intros vals l q HF; [right; reflexivity|].
  destruct vals as [|a vals]; [right; reflexivity|]. inversion HF as [|? ? Ha HF']; subst.
  cbn [set_many]. destruct (IH vals (set_nth i 0 l) q HF') as [H|H]; [left; exact H|].
  rewrite H. apply set_nth_zero_nth.
Qed.

Lemma Forall_map_zero {A} (l : list A) : Forall (fun v : Q => v = 0) (map (fun _ => 0) l).
Proof. induction l; cbn; constructor; auto. Qed.

(* C1 *)
Theorem grow_nth v q : nthQ (grow v) q = 0 \/ nthQ (grow v) q = nthQ v q.
Proof.
  unfold grow.
  match goal with |- context [set_many ?u (map _ ?u) (set_many ?lo (map _ ?lo) v)] =>
    destruct (set_many_zero_nth u (map (fun _ => 0) u) (set_many lo (map (fun _ => 0) lo) v) q (Forall_map_zero u)) as [H|H];
    [left; exact H|rewrite H; apply set_many_zero_nth; apply Forall_map_zero]
  end.
Qed.

Lemma set_many_length {A} : forall (idx : list nat) (vals l : list A), length (set_many idx vals l) = length l.
Proof.
  induction idx as [|i idx IH]; intros vals l; [reflexivity|]. destruct vals as [|a vals]; [reflexivity|].
  cbn [set_many]. rewrite IH. apply set_nth_length.
Qed.

(* same statement as grow_length of C11/Proofs.v; repeated so that this file depends on Model.v only *)
Lemma grow_length_ivar v : length (grow v) = length v.
Proof. unfold grow. rewrite !set_many_length. reflexivity. Qed.

Corollary grow_nonneg v : (forall q, 0 <= nthQ v q) -> forall q, 0 <= nthQ (grow v) q.
Proof. intros H q. destruct (grow_nth v q) as [-> | ->]; [apply Qle_refl|apply H]. Qed.

Corollary grow_nonzero v q : ~ nthQ (grow v) q == 0 -> nthQ (grow v) q = nthQ v q /\ ~ nthQ v q == 0.
Proof.
  intro H. destruct (grow_nth v q) as [E|E]; [exfalso; apply H; rewrite E; reflexivity|].
  split; [exact E|]. rewrite <- E. exact H.
Qed.

(* ------------------------------------------------------------------ lists of non-negative rationals *)
Lemma Forall_nthQ (P : Q -> Prop) (l : list Q) : P 0 -> Forall P l -> forall q, P (nthQ l q).
Proof.
  intros H0 HF. induction HF as [|a l Ha HF IH]; intros [|q]; cbn; auto. apply IH.
Qed.

Lemma nthQ_Forall (P : Q -> Prop) (l : list Q) : (forall q, P (nthQ l q)) -> Forall P l.
Proof.
  intro H. apply Forall_forall. intros a Ha. destruct (In_nth l a 0 Ha) as (q & _ & <-). apply H.
Qed.

(* ------------------------------------------------------------------ vsum *)
Lemma vsum_nth : forall a b q,
  ((q < length a)%nat /\ (q < length b)%nat /\ nthQ (vsum a b) q == nthQ a q + nthQ b q)
  \/ (((length a <= q)%nat \/ (length b <= q)%nat) /\ nthQ (vsum a b) q = 0).
Proof.
  unfold vsum. induction a as [|x a IH]; intros b q.
  - right. split; [left; cbn; lia|]. destruct q; reflexivity.
  - destruct b as [|y b].
    + right. split; [right; cbn; lia|]. destruct q; reflexivity.
    + destruct q as [|q].
      * left. cbn [length combine map nthQ nth fst snd]. repeat split; try lia. apply Qred_correct.
      * destruct (IH b q) as [(H1 & H2 & H3)|[H1 H2]].
        -- left. cbn [length]. repeat split; try lia. exact H3.
        -- right. cbn [length]. split; [lia|exact H2].
Qed.

Lemma vsum_length a b : length (vsum a b) = Nat.min (length a) (length b).
Proof. unfold vsum. rewrite map_length, combine_length. reflexivity. Qed.

Lemma vsum_nonneg a b : (forall q, 0 <= nthQ a q) -> (forall q, 0 <= nthQ b q) -> forall q, 0 <= nthQ (vsum a b) q.
Proof.
  intros Ha Hb q. destruct (vsum_nth a b q) as [(_ & _ & ->)|[_ ->]]; [|apply Qle_refl].
  specialize (Ha q). specialize (Hb q). lra.
Qed.

Lemma vsum_nonzero a b q : ~ nthQ (vsum a b) q == 0 -> ~ nthQ a q == 0 \/ ~ nthQ b q == 0.
Proof.
  intro H. destruct (vsum_nth a b q) as [(_ & _ & E)|[_ E]]; [|exfalso; apply H; rewrite E; reflexivity].
  rewrite E in H. destruct (Qeq_dec (nthQ a q) 0) as [Ea|Ea]; [|left; exact Ea].
  right. intro Eb. apply H. rewrite Ea, Eb. reflexivity.
Qed.

Lemma nthQ_zeros {A} (l : list A) q : nthQ (map (fun _ => 0) l) q = 0.
Proof. revert q. induction l as [|a l IH]; intros [|q]; cbn; auto. apply IH. Qed.

(* sums over exposures *)
Lemma fold_vsum_nonneg (E : nat -> list Q) : forall js acc,
  (forall q, 0 <= nthQ acc q) -> (forall j q, In j js -> 0 <= nthQ (E j) q) ->
  forall q, 0 <= nthQ (fold_left (fun acc j => vsum acc (E j)) js acc) q.
Proof.
  induction js as [|j js IH]; intros acc Ha HE; [exact Ha|].
  cbn [fold_left]. apply IH.
  - apply vsum_nonneg; [exact Ha|]. intro q. apply HE. left; reflexivity.
  - intros j' q Hj. apply HE. right; exact Hj.
Qed.

Lemma fold_vsum_nonzero (E : nat -> list Q) : forall js acc q,
  ~ nthQ (fold_left (fun acc j => vsum acc (E j)) js acc) q == 0 ->
  ~ nthQ acc q == 0 \/ exists j, In j js /\ ~ nthQ (E j) q == 0.
Proof.
  induction js as [|j js IH]; intros acc q H; [left; exact H|].
  cbn [fold_left] in H. destruct (IH _ _ H) as [H1|(j' & Hj & H1)].
  - destruct (vsum_nonzero _ _ _ H1) as [H2|H2]; [left; exact H2|]. right. exists j. split; [left; reflexivity|exact H2].
  - right. exists j'. split; [right; exact Hj|exact H1].
Qed.

Lemma fold_vsum_length (E : nat -> list Q) n : forall js acc,
  length acc = n -> (forall j, In j js -> length (E j) = n) ->
  length (fold_left (fun acc j => vsum acc (E j)) js acc) = n.
Proof.
  induction js as [|j js IH]; intros acc Ha HE; [exact Ha|].
  cbn [fold_left]. apply IH.
  - rewrite vsum_length, Ha, (HE j) by (left; reflexivity). apply Nat.min_id.
  - intros j' Hj. apply HE. right; exact Hj.
Qed.

(* ------------------------------------------------------------------ PART D: the whole function *)
(* the input pixels of exposure j, and the contribution of exposure j to the output inverse variance *)
Definition these_of (c : cin) (j : nat) : list nat :=
  filter (fun i => (nth i (c_specnum c) O =? j)%nat) (seq 0 (length (c_inloglam c))).
Definition expo (c : cin) (fits : list (option gfit)) (j : nat) : list Q :=
  ivar_of_exposure (c_inloglam c) (weights c) (s_comb (fst (stages c fits))) (these_of c j)
                   (c_newloglam c) (s_mask (fst (stages c fits))).

Lemma stages_snd c fits :
  snd (stages c fits)
  = fold_left (fun acc j => vsum acc (expo c fits j)) (seq 0 (c_nspec c)) (map (fun _ => 0) (c_newloglam c)).
Proof. reflexivity. Qed.

(* D4 *)
Theorem no_good_pixel_all_zero c fits : good_index c = [] ->
  combine1fiber_model c fits = (map (fun _ => 0) (c_newloglam c), map (fun _ => 0) (c_newloglam c)).
Proof. intro H. unfold combine1fiber_model, combine1fiber_full. rewrite H. reflexivity. Qed.

Lemma model_ivar c fits : good_index c <> [] -> snd (combine1fiber_model c fits) = grow (snd (stages c fits)).
Proof.
  unfold combine1fiber_model, combine1fiber_full. destruct (good_index c); [congruence|]. intros _.
  destruct (stages c fits) as [s iv]. reflexivity.
Qed.

Lemma model_ivar_nth c fits q :
  nthQ (snd (combine1fiber_model c fits)) q = 0 \/
  nthQ (snd (combine1fiber_model c fits)) q = nthQ (snd (stages c fits)) q.
Proof.
  destruct (good_index c) eqn:Eg.
  - left. rewrite (no_good_pixel_all_zero c fits Eg). cbn [snd]. apply nthQ_zeros.
  - rewrite model_ivar by congruence. apply grow_nth.
Qed.

Lemma model_ivar_nonzero c fits q : ~ nthQ (snd (combine1fiber_model c fits)) q == 0 ->
  nthQ (snd (combine1fiber_model c fits)) q = nthQ (snd (stages c fits)) q /\ ~ nthQ (snd (stages c fits)) q == 0.
Proof.
  intro H. destruct (model_ivar_nth c fits q) as [E|E]; [exfalso; apply H; rewrite E; reflexivity|].
  split; [exact E|]. rewrite <- E. exact H.
Qed.

(* lengths *)
Lemma step_group_mask_length k inl nl s grp :
  length (s_mask s) = length nl -> length (s_mask (step_group k inl nl s grp)) = length nl.
Proof.
  intro H. unfold step_group. destruct grp as [ss f0]. destruct (usable ss f0); cbn [s_mask]; [|exact H].
  rewrite map_length, combine_length, map_length, H. apply Nat.min_id.
Qed.

Lemma fold_step_mask_length k inl nl : forall gs s,
  length (s_mask s) = length nl -> length (s_mask (fold_left (step_group k inl nl) gs s)) = length nl.
Proof.
  induction gs as [|g gs IH]; intros s H; [exact H|]. cbn [fold_left]. apply IH. apply step_group_mask_length. exact H.
Qed.

Lemma stages_mask_length c fits : length (s_mask (fst (stages c fits))) = length (c_newloglam c).
Proof. unfold stages. cbn [fst]. apply fold_step_mask_length. cbn [s_mask]. apply map_length. Qed.

Lemma expo_length c fits j : length (expo c fits j) = length (c_newloglam c).
Proof. unfold expo. apply ivar_of_exposure_length_eq. apply stages_mask_length. Qed.

Theorem ivar_length c fits : length (snd (combine1fiber_model c fits)) = length (c_newloglam c).
Proof.
  destruct (good_index c) eqn:Eg.
  - rewrite (no_good_pixel_all_zero c fits Eg). cbn [snd]. apply map_length.
  - rewrite model_ivar by congruence. rewrite grow_length_ivar, stages_snd. apply fold_vsum_length.
    + apply map_length.
    + intros j _. apply expo_length.
Qed.

(* D1, any number of exposures: non-negative weights give a non-negative output inverse variance *)
Theorem ivar_nonneg_weights c fits :
  (forall i, 0 <= nthQ (weights c) i) -> Forall (fun v => 0 <= v) (snd (combine1fiber_model c fits)).
Proof.
  intro Hw. apply nthQ_Forall. intro q. destruct (model_ivar_nth c fits q) as [-> | ->]; [apply Qle_refl|].
  rewrite stages_snd. apply fold_vsum_nonneg.
  - intro q'. rewrite nthQ_zeros. apply Qle_refl.
  - intros j q' _. apply ivar_of_exposure_nonneg. intros i _. apply Hw.
Qed.

(* single spectrum *)
Definition single_spectrum (c : cin) : Prop :=
  c_nspec c = 1%nat /\ Forall (fun s => s = 0%nat) (c_specnum c) /\ length (c_specnum c) = length (c_inloglam c) /\
  c_stacked c = false.          (* a 1-D input: no running median of the weights *)
(* the input inverse variance, when given, is non-negative (without objivar the weights are 1) *)
Definition ivar_input_nonneg (c : cin) : Prop :=
  match c_ivar c with Some iv => Forall (fun w => 0 <= w) iv | None => True end.

Lemma weights_nonneg_single c : c_stacked c = false -> ivar_input_nonneg c -> forall i, 0 <= nthQ (weights c) i.
Proof.
  unfold weights, ivar_input_nonneg. intros Hn H i. destruct (c_ivar c) as [iv|].
  - rewrite Hn. apply Forall_nthQ; [apply Qle_refl|exact H].
  - apply Forall_nthQ; [apply Qle_refl|]. induction (c_inloglam c); constructor; [discriminate|assumption].
Qed.

(* D1 *)
Theorem ivar_nonneg c fits :
  single_spectrum c -> ivar_input_nonneg c -> Forall (fun v => 0 <= v) (snd (combine1fiber_model c fits)).
Proof.
  intros (_ & _ & _ & Hn) Hiv. apply ivar_nonneg_weights. apply weights_nonneg_single; [exact Hn|exact Hiv].
Qed.

Lemma nth_all_zero (l : list nat) i : Forall (fun s => s = 0%nat) l -> nth i l 0%nat = 0%nat.
Proof. intro H. revert i. induction H as [|a l Ha H IH]; intros [|i]; cbn; auto. Qed.

Lemma filter_all {A} (f : A -> bool) l : (forall a, In a l -> f a = true) -> filter f l = l.
Proof.
  induction l as [|a l IH]; intro H; [reflexivity|]. cbn [filter]. rewrite (H a) by (left; reflexivity).
  f_equal. apply IH. intros b Hb. apply H. right; exact Hb.
Qed.

Lemma these_of_single c : single_spectrum c -> these_of c 0 = seq 0 (length (c_inloglam c)).
Proof.
  intros (_ & H0 & _). unfold these_of. apply filter_all. intros i _. rewrite nth_all_zero by exact H0. reflexivity.
Qed.

Lemma map_nthQ_seq l : map (nthQ l) (seq 0 (length l)) = l.
Proof.
  induction l as [|a l IH]; [reflexivity|]. cbn [length seq map]. rewrite <- seq_shift, map_map.
  unfold nthQ at 1. cbn [nth]. f_equal. exact IH.
Qed.

Lemma seq_adjacent : forall l1 s n i i' l2,
  seq s n = l1 ++ i :: i' :: l2 -> i' = S i /\ (s <= i)%nat /\ (S i < s + n)%nat.
Proof.
  induction l1 as [|a l1 IH]; intros s n i i' l2 H.
  - destruct n as [|[|n]]; cbn in H; inversion H; subst. lia.
  - destruct n as [|n]; cbn in H; [discriminate|]. inversion H as [[Ha H']].
    destruct (IH _ _ _ _ _ H') as (H1 & H2 & H3). lia.
Qed.

Lemma stages_snd_single c fits q :
  c_nspec c = 1%nat -> nthQ (snd (stages c fits)) q == nthQ (expo c fits 0) q.
Proof.
  intro Hn. rewrite stages_snd, Hn. cbn [seq fold_left].
  destruct (vsum_nth (map (fun _ => 0) (c_newloglam c)) (expo c fits 0) q) as [(_ & _ & E)|[Hq E]].
  - rewrite E, nthQ_zeros. ring.
  - rewrite E. rewrite map_length, expo_length in Hq. unfold nthQ. rewrite nth_overflow; [reflexivity|].
    rewrite expo_length. lia.
Qed.

(* D2.  (q < length (c_newloglam c) and good_index c <> [] are not needed: otherwise the value is 0.) *)
Theorem ivar_zero_outside c fits q :
  single_spectrum c -> incrl (c_inloglam c) -> (2 <= length (c_inloglam c))%nat ->
  ~ nthQ (snd (combine1fiber_model c fits)) q == 0 ->
  exists_bracket (map (fun i => (nthQ (c_inloglam c) i, nthB (s_comb (fst (stages c fits))) i))
                      (seq 0 (length (c_inloglam c))))
                 (nthQ (c_newloglam c) q) = true.
Proof.
  intros Hss Hs Hl H. destruct (model_ivar_nonzero c fits q H) as [_ H1].
  rewrite (stages_snd_single c fits q (proj1 Hss)) in H1. unfold expo in H1.
  rewrite (these_of_single c Hss) in H1.
  eapply ivar_of_exposure_nonzero_bracket; [| |exact H1].
  - rewrite map_nthQ_seq. exact Hs.
  - rewrite seq_length. exact Hl.
Qed.

(* D3 *)
Theorem ivar_is_interp_le_localmax c fits iv q :
  single_spectrum c -> incrl (c_inloglam c) -> (2 <= length (c_inloglam c))%nat ->
  c_ivar c = Some iv -> Forall (fun w => 0 <= w) iv -> length iv = length (c_inloglam c) ->
  let p := nthQ (c_newloglam c) q in
  let comb := s_comb (fst (stages c fits)) in
  let v := nthQ (snd (combine1fiber_model c fits)) q in
  ~ v == 0 ->
  exists i, (S i < length iv)%nat /\
    nthQ (c_inloglam c) i <= p <= nthQ (c_inloglam c) (S i) /\
    allowed_between (nthQ (c_inloglam c) i) (nthQ (c_inloglam c) (S i)) (nthB comb i) (nthB comb (S i)) p = true /\
    v == interp (map (fun i => (nthQ (c_inloglam c) i, nthQ iv i * b2q (nthB comb i))) (seq 0 (length iv))) p /\
    v <= Qmax (nthQ iv i) (nthQ iv (S i)).
Proof.
  intros Hss Hs Hl Hiv Hpos Hlen. cbn zeta. intro H.
  destruct (model_ivar_nonzero c fits q H) as [E H1]. rewrite E.
  assert (Hw : weights c = iv).
  { unfold weights. rewrite Hiv. destruct Hss as (_ & _ & _ & ->). reflexivity. }
  pose proof (stages_snd_single c fits q (proj1 Hss)) as E2. rewrite E2 in H1.
  revert E2. generalize (nthQ (snd (stages c fits)) q). intros v E2.
  unfold expo in H1, E2. rewrite (these_of_single c Hss), Hw, <- Hlen in H1, E2.
  destruct (ivar_of_exposure_nonzero (c_inloglam c) iv (s_comb (fst (stages c fits))) (seq 0 (length iv)))
    with (4 := H1) as (_ & _ & i & i' & Hadj & Hbr & Hal & Hv & Hmax).
  - rewrite Hlen, map_nthQ_seq. exact Hs.
  - rewrite seq_length. lia.
  - intros i _. apply Forall_nthQ; [apply Qle_refl|exact Hpos].
  - destruct Hadj as (l1 & l2 & Hadj). destruct (seq_adjacent _ _ _ _ _ _ Hadj) as (-> & _ & Hi).
    exists i. split; [lia|]. split; [exact Hbr|]. split; [exact Hal|].
    split; rewrite E2; assumption.
Qed.

(* ------------------------------------------------------------------ stacked exposures (any c_nspec) *)
(* D2 for several exposures: a non-zero output inverse variance is bracketed in at least one exposure *)
Theorem ivar_zero_outside_multi c fits q :
  (forall j, (j < c_nspec c)%nat ->
     incrl (map (nthQ (c_inloglam c)) (these_of c j)) /\ (2 <= length (these_of c j))%nat) ->
  ~ nthQ (snd (combine1fiber_model c fits)) q == 0 ->
  exists j, (j < c_nspec c)%nat /\
    exists_bracket (map (fun i => (nthQ (c_inloglam c) i, nthB (s_comb (fst (stages c fits))) i)) (these_of c j))
                   (nthQ (c_newloglam c) q) = true.
Proof.
  intros Hex H. destruct (model_ivar_nonzero c fits q H) as [_ H1]. rewrite stages_snd in H1.
  destruct (fold_vsum_nonzero _ _ _ _ H1) as [H2|(j & Hj & H2)].
  - exfalso. apply H2. rewrite nthQ_zeros. reflexivity.
  - apply in_seq in Hj. exists j. split; [lia|]. destruct (Hex j ltac:(lia)) as [Hs Hl].
    unfold expo in H2. eapply ivar_of_exposure_nonzero_bracket; eassumption.
Qed.

Corollary ivar_zero_outside_multi_b c fits q :
  (forall j, (j < c_nspec c)%nat ->
     incrl (map (nthQ (c_inloglam c)) (these_of c j)) /\ (2 <= length (these_of c j))%nat) ->
  ~ nthQ (snd (combine1fiber_model c fits)) q == 0 ->
  existsb (fun j =>
      let these := filter (fun i => (nth i (c_specnum c) O =? j)%nat) (seq 0 (length (c_inloglam c))) in
      exists_bracket (map (fun i => (nthQ (c_inloglam c) i, nthB (s_comb (fst (stages c fits))) i)) these)
                     (nthQ (c_newloglam c) q)) (seq 0 (c_nspec c)) = true.
Proof.
  intros Hex H. destruct (ivar_zero_outside_multi c fits q Hex H) as (j & Hj & Hb).
  apply existsb_exists. exists j. split; [apply in_seq; lia|exact Hb].
Qed.

Print Assumptions ivar_nonneg.
Print Assumptions ivar_zero_outside.
Print Assumptions ivar_is_interp_le_localmax.
Print Assumptions ivar_nonneg_weights.
Print Assumptions ivar_zero_outside_multi.
Print Assumptions ivar_length.
