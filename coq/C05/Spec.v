(* C05 -- the conditional property: under pair_coverage (geometry) and correctness of the per-cell
   groups (groups_ok), spheregroup_model returns (components, lists_of). *)
From Coq Require Import ZArith List Bool Arith Lia Relations.
Import ListNotations.
From PV Require Import C05.Model C05.Proofs C05.Renumber C05.Tail C05.Algo C05.Merge C05.MergeRel C05.FofTail.

(* what the per-cell friends-of-friends (class groups) must deliver, for the provisional groups pgs of all
   cells: members are valid points; a provisional group lies inside one friends-of-friends class; two
   linked points of one cell share a provisional group *)
Definition groups_ok (n : nat) (link : nat -> nat -> bool) (cells pgs : list (list nat)) : Prop :=
  (forall g a, In g pgs -> In a g -> a < n) /\
  (forall g a b, In g pgs -> In a g -> In b g -> E n link a b) /\
  (forall c a b, In c cells -> In a c -> In b c -> a < n -> b < n -> link a b = true ->
     exists g, In g pgs /\ In a g /\ In b g).

(* closure of the union of the per-cell partitions = closure of the whole linking relation, when every
   linked pair lies together in some cell *)
Lemma union_closure : forall n link cells pgs,
  pair_coverage n link cells -> groups_ok n link cells pgs ->
  forall i j, i < n -> j < n -> (E n link i j <-> U pgs i j).
Proof.
  intros n link cells pgs Hpc [G1 [G2 G3]] i j Hi Hj. split.
  - intro H. clear Hi Hj. induction H as [a b [Ha [Hb Hl]]| | |].
    + destruct (Hpc a b Ha Hb Hl) as [c [Hc [Hac Hbc]]].
      destruct (G3 c a b Hc Hac Hbc Ha Hb Hl) as [g [Hg [Hag Hbg]]].
      apply rst_step. exists g. auto.
    + apply rst_refl.
    + apply rst_sym. assumption.
    + eapply rst_trans; eassumption.
  - intro H. clear Hi Hj. induction H as [a b [g [Hg [Ha Hb]]]| | |].
    + apply (G2 g a b Hg Ha Hb).
    + apply E_refl.
    + apply E_sym. assumption.
    + eapply E_trans; eassumption.
Qed.

(* C05, conditional: pair_coverage is the geometric hypothesis, groups_ok the per-cell hypothesis *)
Theorem spheregroup_spec : forall n link cells pgs,
  (forall i, i < n -> link i i = true) ->
  pair_coverage n link cells ->
  groups_ok n link cells pgs ->
  spheregroup_model n pgs = spec_output n link.
Proof.
  intros n link cells pgs Hrefl Hpc Hok.
  pose proof (merge_refines pgs) as HI.
  assert (Hcov : forall p, p < n -> covered pgs p).
  { intros p Hp. destruct (Hpc p p Hp Hp (Hrefl p Hp)) as [c [Hc [Hpc' _]]].
    destruct Hok as [_ [_ G3]]. destruct (G3 c p p Hc Hpc' Hpc' Hp Hp (Hrefl p Hp)) as [g [Hg [Hpg _]]].
    exists g. auto. }
  destruct (fof_lab_spec n pgs (merge_model pgs) HI Hcov) as [L1 L2].
  pose proof (fof_arrs_spec n pgs (merge_model pgs) HI Hcov) as HA.
  unfold spheregroup_model.
  destruct (fof_tail_arrs n (merge_model pgs)) as [[[[ing mult] first] next] ng].
  destruct (HA ing mult first next ng eq_refl) as [A1 [_ [A3 [A4 A5]]]].
  assert (Hlab : forall i j, i < n -> j < n ->
            (fof_lab (merge_model pgs) i = fof_lab (merge_model pgs) j <-> clos_refl_sym_trans nat (R n link) i j)).
  { intros i j Hi Hj. rewrite (L1 i j Hi Hj). symmetry. apply (union_closure n link cells pgs Hpc Hok i j Hi Hj). }
  apply (spheregroup_tail_spec_gen n link (fof_lab (merge_model pgs)) ing first next ng Hlab A1 A3 A4).
  rewrite (ngroups_is_nfirst n link _ Hlab). subst ng. apply nfirst_le_bound. exact L2.
Qed.
