(* Yanny/BytesFacts.v -- facts about the byte-string library (Yanny/Bytes.v). *)
From Coq Require Import NArith ZArith List Bool Lia.
Import ListNotations.
From PV Require Import Yanny.Bytes.
Open Scope N_scope.
Ltac Zify.zify_post_hook ::= Z.to_euclidean_division_equations.

Lemma beq_refl a : beq a a = true.
Proof. induction a; simpl; auto. now rewrite N.eqb_refl. Qed.

Lemma beq_eq a b : beq a b = true <-> a = b.
Proof.
  split.
  - revert b; induction a as [|x a IH]; intros [|y b]; simpl; try discriminate; auto.
    intros H. apply andb_true_iff in H as [H1 H2]. apply N.eqb_eq in H1. f_equal; auto.
  - intros ->. apply beq_refl.
Qed.

Lemma beq_neq a b : beq a b = false <-> a <> b.
Proof.
  split.
  - intros H E. apply beq_eq in E. congruence.
  - intros H. destruct (beq a b) eqn:E; auto. apply beq_eq in E. contradiction.
Qed.

(* ---- span ---- *)
Lemma span_app_stop p a c r : forallb p a = true -> p c = false -> span p (a ++ c :: r) = (a, c :: r).
Proof.
  induction a as [|x a IH]; simpl; intros Ha Hc; [now rewrite Hc|].
  apply andb_true_iff in Ha as [Hx Ha]. rewrite Hx, IH; auto.
Qed.

Lemma span_all p a : forallb p a = true -> span p a = (a, []).
Proof.
  induction a as [|x a IH]; simpl; auto. intros Ha.
  apply andb_true_iff in Ha as [Hx Ha]. rewrite Hx, IH; auto.
Qed.

Lemma span_nil_head p c r : p c = false -> span p (c :: r) = ([], c :: r).
Proof. simpl. now intros ->. Qed.

Lemma span_spec p s a b : span p s = (a, b) ->
  s = a ++ b /\ forallb p a = true /\ match b with c :: _ => p c = false | [] => True end.
Proof.
  revert a b; induction s as [|x s IH]; simpl; intros a b H.
  - inversion H; subst; auto.
  - destruct (p x) eqn:Hx.
    + destruct (span p s) as [a' b'] eqn:E. inversion H; subst.
      destruct (IH a' b eq_refl) as [-> [Ha Hb]]. simpl. rewrite Hx. auto.
    + inversion H; subst. simpl. auto.
Qed.

(* ---- lstrip / rstrip / strip ---- *)
Definition head_not_ws (r : bytes) : Prop := match r with c :: _ => is_ws c = false | [] => True end.

Lemma lstrip_id r : head_not_ws r -> lstrip r = r.
Proof. destruct r; simpl; auto. now intros ->. Qed.

Lemma lstrip_ws_app w r : all_ws w = true -> lstrip (w ++ r) = lstrip r.
Proof.
  induction w as [|c w IH]; simpl; auto. intros H.
  apply andb_true_iff in H as [Hc Hw]. rewrite Hc. auto.
Qed.

Lemma lstrip_ws_app_id w r : all_ws w = true -> head_not_ws r -> lstrip (w ++ r) = r.
Proof. intros. rewrite lstrip_ws_app by auto. now apply lstrip_id. Qed.

Definition last_not_ws (s : bytes) : Prop := match rev s with c :: _ => is_ws c = false | [] => True end.

Lemma rstrip_nonempty s c : is_ws c = false -> rstrip (s ++ [c]) = s ++ [c].
Proof.
  intros Hc. induction s as [|x s IH]; simpl.
  - now rewrite Hc.
  - rewrite IH. destruct (s ++ [c]) eqn:E; auto. destruct s; discriminate.
Qed.

Lemma rstrip_id s : last_not_ws s -> rstrip s = s.
Proof.
  unfold last_not_ws. destruct (rev s) as [|c r] eqn:E.
  - intros _. apply (f_equal (@rev N)) in E. rewrite rev_involutive in E. now subst.
  - intros Hc. apply (f_equal (@rev N)) in E. rewrite rev_involutive in E. simpl in E. subst.
    now apply rstrip_nonempty.
Qed.

Lemma rstrip_all_ws w : all_ws w = true -> rstrip w = [].
Proof.
  induction w as [|c w IH]; simpl; auto. intros H.
  apply andb_true_iff in H as [Hc Hw]. rewrite IH by auto. now rewrite Hc.
Qed.

Lemma rstrip_app_ws s w : all_ws w = true -> rstrip (s ++ w) = rstrip s.
Proof.
  intros Hw. induction s as [|x s IH]; simpl.
  - now apply rstrip_all_ws.
  - now rewrite IH.
Qed.

Lemma strip_id s : head_not_ws s -> last_not_ws s -> strip s = s.
Proof. intros H1 H2. unfold strip. rewrite rstrip_id by auto. now apply lstrip_id. Qed.

Lemma last_not_ws_app a c : is_ws c = false -> last_not_ws (a ++ [c]).
Proof. intros H. unfold last_not_ws. rewrite rev_app_distr. simpl. exact H. Qed.

Lemma last_not_ws_app_r a b : b <> [] -> last_not_ws b -> last_not_ws (a ++ b).
Proof.
  intros Hb H. unfold last_not_ws in *. rewrite rev_app_distr.
  destruct (rev b) eqn:E; simpl; auto.
  apply (f_equal (@rev N)) in E. rewrite rev_involutive in E. simpl in E. congruence.
Qed.

(* ---- prefix / contains ---- *)
Lemma prefix_app p r : prefix p (p ++ r) = Some r.
Proof. induction p; simpl; auto. now rewrite N.eqb_refl. Qed.

Lemma prefix_spec p s r : prefix p s = Some r -> s = p ++ r.
Proof.
  revert s; induction p as [|x p IH]; simpl; intros s H.
  - now inversion H.
  - destruct s as [|y s]; [discriminate|]. destruct (x =? y) eqn:E; [|discriminate].
    apply N.eqb_eq in E. subst. f_equal. auto.
Qed.

Lemma starts_with_head p c s x : starts_with (c :: p) (x :: s) = true -> c = x.
Proof.
  unfold starts_with. simpl. destruct (c =? x) eqn:E; [|discriminate]. intros _. now apply N.eqb_eq.
Qed.

(* a pattern whose first character does not occur in s does not occur in s *)
Lemma contains_no_head c p s : mem c s = false -> contains (c :: p) s = false.
Proof.
  induction s as [|x s IH]; simpl; intros H.
  - reflexivity.
  - apply orb_false_iff in H as [Hx Hs]. unfold starts_with. simpl. rewrite Hx. simpl. auto.
Qed.

Lemma mem_app c a b : mem c (a ++ b) = mem c a || mem c b.
Proof. unfold mem. apply existsb_app. Qed.

Lemma mem_false_forallb c s : mem c s = false <-> forallb (fun x => negb (x =? c)) s = true.
Proof.
  induction s as [|x s IH]; simpl; [tauto|].
  rewrite orb_false_iff, andb_true_iff, IH, negb_true_iff, (N.eqb_sym c x). tauto.
Qed.

(* ---- rsplit_at ---- *)
Lemma rsplit_at_none c s : mem c s = false -> rsplit_at c s = None.
Proof.
  induction s as [|x s IH]; simpl; auto. intros H.
  apply orb_false_iff in H as [Hx Hs]. rewrite IH by auto. rewrite N.eqb_sym. now rewrite Hx.
Qed.

Lemma rsplit_at_spec c s a b : rsplit_at c s = Some (a, b) -> s = a ++ b /\ exists b', b = c :: b' /\ mem c b' = false.
Proof.
  revert a b; induction s as [|x s IH]; simpl; intros a b H; [discriminate|].
  destruct (rsplit_at c s) as [[a' b']|] eqn:E.
  - inversion H; subst. destruct (IH a' b eq_refl) as [-> Hb]. auto.
  - destruct (x =? c) eqn:Hx; [|discriminate]. inversion H; subst. apply N.eqb_eq in Hx. subst.
    split; auto. exists s. split; auto.
    clear -E. induction s as [|y s IH]; simpl in *; auto.
    destruct (rsplit_at c s) as [[? ?]|]; [discriminate|].
    destruct (y =? c) eqn:F; [discriminate|]. rewrite N.eqb_sym, F. simpl. auto.
Qed.

Lemma rsplit_at_last c a b : mem c b = false -> rsplit_at c (a ++ c :: b) = Some (a, c :: b).
Proof.
  intros Hb. induction a as [|x a IH]; simpl.
  - rewrite rsplit_at_none by auto. now rewrite N.eqb_refl.
  - now rewrite IH.
Qed.

(* ---- join ---- *)
Lemma join_cons sep x y l : join sep (x :: y :: l) = x ++ sep ++ join sep (y :: l).
Proof. reflexivity. Qed.

(* ---- decimal integers ---- *)
Definition dstep (a c : N) : N := a * 10 + (c - 48).

Lemma is_digit_add d : d < 10 -> is_digit (48 + d) = true.
Proof.
  intros H. unfold is_digit. apply andb_true_iff. split; apply N.leb_le; lia.
Qed.

Lemma digits_fuel_digits fuel : forall n acc, forallb is_digit acc = true -> forallb is_digit (digits_fuel fuel n acc) = true.
Proof.
  induction fuel as [|k IH]; cbn [digits_fuel]; intros n acc H; auto.
  destruct (n <? 10) eqn:E.
  - cbn [forallb]. rewrite H. apply N.ltb_lt in E. now rewrite is_digit_add.
  - apply IH. cbn [forallb]. rewrite H. rewrite is_digit_add; auto. apply N.mod_lt; lia.
Qed.

Lemma digits_fuel_value fuel : forall n acc, n < 2 ^ N.of_nat fuel ->
  fold_left dstep (digits_fuel fuel n acc) 0 = fold_left dstep acc n.
Proof.
  induction fuel as [|k IH]; intros n acc Hn.
  - simpl in *. assert (n = 0) by lia. now subst.
  - cbn [digits_fuel]. destruct (n <? 10) eqn:E.
    + cbn [fold_left]. f_equal. unfold dstep. lia.
    + apply N.ltb_ge in E. rewrite IH.
      * cbn [fold_left]. f_equal. unfold dstep. pose proof (N.div_mod n 10). lia.
      * rewrite Nnat.Nat2N.inj_succ, N.pow_succ_r' in Hn.
        apply N.div_lt_upper_bound; lia.
Qed.

Lemma show_N_digits n : forallb is_digit (show_N n) = true.
Proof. unfold show_N. now apply digits_fuel_digits. Qed.

Lemma digits_fuel_nonempty fuel n acc : digits_fuel (S fuel) n acc <> [].
Proof.
  revert n acc; induction fuel as [|k IH]; intros n acc; cbn [digits_fuel]; destruct (n <? 10); try discriminate.
  apply IH.
Qed.

Lemma show_N_nonempty n : show_N n <> [].
Proof. unfold show_N. apply digits_fuel_nonempty. Qed.

Lemma parse_digits_show_N n : parse_digits (show_N n) = Some n.
Proof.
  unfold parse_digits. pose proof (show_N_nonempty n). destruct (show_N n) eqn:E; [congruence|].
  rewrite <- E. rewrite show_N_digits. f_equal.
  change (fun a c : N => a * 10 + (c - 48)) with dstep.
  unfold show_N. rewrite digits_fuel_value; [reflexivity|].
  rewrite Nnat.Nat2N.inj_succ, Nnat.N2Nat.id, N.pow_succ_r'.
  pose proof (N.size_gt n). lia.
Qed.

Lemma show_N_head_digit n : match show_N n with c :: _ => is_digit c = true | [] => False end.
Proof.
  pose proof (show_N_digits n). pose proof (show_N_nonempty n).
  destruct (show_N n); [congruence|]. simpl in H. now apply andb_true_iff in H as [? _].
Qed.

Theorem parse_show_Z z : parse_Z (show_Z z) = Some z.
Proof.
  destruct z as [|p|p]; unfold show_Z.
  - reflexivity.
  - unfold parse_Z. pose proof (show_N_head_digit (Z.to_N (Z.pos p))) as Hd.
    destruct (show_N (Z.to_N (Z.pos p))) as [|c s] eqn:E; [contradiction|].
    assert (c =? MINUS = false) as ->.
    { apply N.eqb_neq. intros ->. discriminate. }
    assert (c =? PLUS = false) as ->.
    { apply N.eqb_neq. intros ->. discriminate. }
    rewrite <- E, parse_digits_show_N. simpl. now rewrite positive_N_Z || reflexivity.
  - unfold parse_Z. rewrite N.eqb_refl, parse_digits_show_N. reflexivity.
Qed.
