(* C05 -- the canonical renumbering of a labelling that is constant exactly on the classes of E is the
   labelling `components`; hence the tail of spheregroup() returns spec_output (spheregroup_tail_spec). *)
From Coq Require Import ZArith List Bool Arith Lia Relations Sorted.
Import ListNotations.
From PV Require Import C05.Model C05.Proofs C05.Renumber.

Lemma sorted_lt_eq : forall l l', StronglySorted lt l -> StronglySorted lt l' ->
  (forall x, In x l <-> In x l') -> l = l'.
Proof.
  induction l as [|a r IH]; intros l' Hs Hs' H.
  - destruct l' as [|b r']; [reflexivity|]. exfalso. apply (H b). left. reflexivity.
  - destruct l' as [|b r']; [exfalso; apply (H a); left; reflexivity|].
    inversion Hs as [|? ? Hr Hf]; subst. inversion Hs' as [|? ? Hr' Hf']; subst.
    rewrite Forall_forall in Hf, Hf'.
    assert (a = b).
    { destruct (proj1 (H a) (or_introl eq_refl)) as [Hab|Hab]; [auto|].
      destruct (proj2 (H b) (or_introl eq_refl)) as [Hba|Hba]; [auto|].
      specialize (Hf _ Hba). specialize (Hf' _ Hab). lia. }
    subst b. f_equal. apply IH; auto. intro x. split; intro Hx.
    + destruct (proj1 (H x) (or_intror Hx)) as [Hxa|Hxr]; [|exact Hxr]. specialize (Hf _ Hx). lia.
    + destruct (proj2 (H x) (or_intror Hx)) as [Hxa|Hxr]; [|exact Hxr]. specialize (Hf' _ Hx). lia.
Qed.

Lemma filter_seq_sorted : forall (P : nat -> bool) m a, StronglySorted lt (filter P (seq a m)).
Proof.
  induction m as [|m IH]; intro a; simpl; [constructor|].
  destruct (P a); [|apply IH]. constructor; [apply IH|].
  apply Forall_forall. intros x Hx. apply filter_In in Hx. destruct Hx as [Hx _]. apply in_seq in Hx. lia.
Qed.

Section Tail.
  Variable n : nat.
  Variable link : nat -> nat -> bool.
  Variable lab0 : nat -> nat.
  Hypothesis Hlab : forall i j, i < n -> j < n -> (lab0 i = lab0 j <-> E n link i j).

  Lemma fidx_least : forall i, i < n -> least n link (firstidx n lab0 i) /\ E n link (firstidx n lab0 i) i /\ firstidx n lab0 i < n.
  Proof.
    intros i Hi. destruct (fidx_spec n lab0 i Hi) as [A1 [A2 A3]].
    assert (Hfn : firstidx n lab0 i < n) by lia.
    split; [|split; [apply Hlab; auto|exact Hfn]].
    intros j Hj Ej.
    assert (Hjn : j < n) by lia.
    apply (A3 j Hj). rewrite <- A2. apply Hlab; auto.
  Qed.

  Lemma isfirst_iff_start : forall j, j < n -> (isfirst n lab0 j = true <-> In j (starts n link)).
  Proof.
    intros j Hj. rewrite starts_char. unfold isfirst. rewrite Nat.eqb_eq. split.
    - intro H. split; [exact Hj|]. rewrite <- H. apply fidx_least. exact Hj.
    - intros [_ Hl]. destruct (fidx_least j Hj) as [Hl' [He _]].
      apply (least_unique n link); assumption.
  Qed.

  Lemma starts_eq_filter : starts n link = filter (isfirst n lab0) (seq 0 n).
  Proof.
    apply sorted_lt_eq; [apply starts_sorted|apply filter_seq_sorted|].
    intro x. rewrite filter_In, in_seq. split.
    - intro H. assert (Hx : x < n) by (apply starts_char in H; tauto).
      split; [lia|apply isfirst_iff_start; assumption].
    - intros [Hx H]. apply isfirst_iff_start; [lia|exact H].
  Qed.

  Lemma canon_is_label : forall i, i < n -> canon n lab0 i = label n link i.
  Proof.
    intros i Hi. destruct (label_spec n link i Hi) as [s [Hn [Es [Hl Hsn]]]].
    destruct (fidx_least i Hi) as [Hl' [Es' Hfn]].
    assert (Hs : firstidx n lab0 i = s).
    { apply (least_unique n link); auto. eapply E_trans; [exact Es'|apply E_sym; exact Es]. }
    unfold canon. rewrite Hs.
    assert (Hsf : isfirst n lab0 s = true).
    { apply isfirst_iff_start; [exact Hsn|]. eapply nth_error_In; eauto. }
    assert (Hsplit : filter (isfirst n lab0) (seq 0 n)
                     = filter (isfirst n lab0) (seq 0 s) ++ s :: filter (isfirst n lab0) (seq (S s) (n - S s))).
    { assert (Hseq : seq 0 n = seq 0 s ++ seq s (S (n - S s))).
      { change (seq s (S (n - S s))) with (seq (0 + s) (S (n - S s))). rewrite <- (seq_app s (S (n - S s)) 0). f_equal. lia. }
      rewrite Hseq at 1. rewrite filter_app. cbn [seq filter]. rewrite Hsf. reflexivity. }
    apply (proj1 (NoDup_nth_error (starts n link)) (starts_NoDup n link)).
    - rewrite starts_eq_filter, Hsplit, app_length. simpl. lia.
    - rewrite Hn. rewrite starts_eq_filter, Hsplit.
      rewrite nth_error_app2 by lia. rewrite Nat.sub_diag. reflexivity.
  Qed.

  Lemma ngroups_is_nfirst : ngroups n link = length (filter (isfirst n lab0) (seq 0 n)).
  Proof. unfold ngroups, comps. rewrite map_length, starts_eq_filter. reflexivity. Qed.
End Tail.

Lemma lists_of_ext : forall n lab lab', (forall i, i < n -> lab i = lab' i) -> lists_of n lab = lists_of n lab'.
Proof.
  intros n lab lab' H. unfold lists_of. f_equal; [f_equal|].
  - apply map_ext_in. intros g _. unfold mult_of, members. f_equal. f_equal.
    apply filter_ext_in. intros i Hi. apply in_seq in Hi. rewrite H by lia. reflexivity.
  - apply map_ext_in. intros g _. unfold first_of, members. f_equal.
    apply filter_ext_in. intros i Hi. apply in_seq in Hi. rewrite H by lia. reflexivity.
  - apply map_ext_in. intros i Hi. apply in_seq in Hi. unfold next_of. f_equal.
    apply filter_ext_in. intros j Hj. apply in_seq in Hj. rewrite (H j), (H i) by lia. reflexivity.
Qed.

(* the tail of spheregroup(): for ANY labelling that is constant exactly on the friends-of-friends
   classes, given with arrays that agree with its true lists and a group count that is large enough,
   the four returned arrays are the specification's *)
Theorem spheregroup_tail_spec_gen : forall n link lab0 ing0 f0 nx0 K,
  (forall i j, i < n -> j < n -> (lab0 i = lab0 j <-> clos_refl_sym_trans nat (R n link) i j)) ->
  (forall i, i < n -> ing0 i = Z.of_nat (lab0 i)) ->
  (forall g, f0 g = first_of n lab0 g) ->
  (forall i, i < n -> nx0 i = next_of n lab0 i) ->
  ngroups n link <= K ->
  renumber_model n ing0 f0 nx0 K = spec_output n link.
Proof.
  intros n link lab0 ing0 f0 nx0 K H Hi Hf Hn HK.
  rewrite (renumber_refines_gen n lab0 ing0 f0 nx0 K Hi Hf Hn)
    by (rewrite <- (ngroups_is_nfirst n link lab0 H); exact HK).
  unfold spec_output. cbv zeta.
  assert (Hc : forall i, i < n -> canon n lab0 i = nth i (components n link) 0).
  { intros i Hi'. rewrite (canon_is_label n link lab0 H i Hi').
    symmetry. apply nth_error_nth. apply components_nth. exact Hi'. }
  f_equal.
  - rewrite <- (map_map (canon n lab0) Z.of_nat). f_equal.
    apply nth_ext with (d := 0) (d' := 0).
    + rewrite map_length, seq_length. unfold components. cbv zeta. rewrite map_length, seq_length. reflexivity.
    + intros i Hi'. rewrite map_length, seq_length in Hi'.
      rewrite (nth_indep _ 0 (canon n lab0 0)) by (rewrite map_length, seq_length; exact Hi').
      rewrite map_nth, seq_nth by exact Hi'. apply Hc. exact Hi'.
  - apply lists_of_ext. exact Hc.
Qed.

Theorem spheregroup_tail_spec : forall n link lab0,
  (forall i j, i < n -> j < n -> (lab0 i = lab0 j <-> clos_refl_sym_trans nat (R n link) i j)) ->
  renumber_model n (fun i => Z.of_nat (lab0 i)) (first_of n lab0) (next_of n lab0) (ngroups n link)
  = spec_output n link.
Proof. intros. apply (spheregroup_tail_spec_gen n link lab0); auto. Qed.
