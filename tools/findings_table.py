#!/usr/bin/env python3
"""Markdown table of known_findings.json (grouped by commit / open)."""
import json, os
HERE = os.path.dirname(os.path.dirname(os.path.abspath(__file__)))
d = json.load(open(os.path.join(HERE, 'known_findings.json')))['findings']
seen = {}
for f in d:
    key = (f['property'], f.get('commit', 'open'), f['status'])
    seen.setdefault(key, []).append(f)
print('| property | status | commit | signature(s) | what failed |\n|---|---|---|---|---|')
for (p, c, s), fs in sorted(seen.items()):
    what = fs[0]['what']
    what = what.split(' ', 3)[3] if what.startswith('fixed:') else what
    sigs = '<br>'.join('`%s`' % f['signature'] for f in fs[:3]) + (' (+%d more)' % (len(fs) - 3) if len(fs) > 3 else '')
    print('| %s | %s | %s | %s | %s |' % (p, s, c if s == 'fixed' else '-', sigs, what.replace('|', '/')[:400]))
