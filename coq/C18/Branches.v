(* C18 round 5 -- branch logic around the formulas, over R: reduction of longitudes to [0, 2 PI) (what the frames do to mu and
   RA), the ranges x_to_angles returns for EVERY input, when its arccos argument is legal, the equatorial stripes. *)
From Coq Require Import Reals ZArith QArith Qreals Lra Lia.
From PV Require Import C18.Spec C18.SpecProofs Generated.Coord C18.Model C18.Stripes C18.Proofs C18.Angles C18.RoundTrip.
Open Scope R_scope.

(* ------------------------------------------------------------------ longitudes modulo one turn *)

Lemma Int_part_floor : forall r, IZR (Int_part r) <= r < IZR (Int_part r) + 1.
Proof.
  intro r. destruct (base_fp r) as [H1 H2]. unfold frac_part in *. lra.
Qed.

Lemma two_PI_pos : 0 < 2 * PI.
Proof. pose proof PI_RGT_0. lra. Qed.

Lemma wrap_turn_range : forall x, 0 <= wrap_turn x < 2 * PI.
Proof.
  intro x. unfold wrap_turn. pose proof two_PI_pos as P.
  destruct (Int_part_floor (x / (2 * PI))) as [H1 H2].
  set (n := IZR (Int_part (x / (2 * PI)))) in *.
  assert (E : x = x / (2 * PI) * (2 * PI)) by (field; lra).
  split.
  - assert (n * (2 * PI) <= x / (2 * PI) * (2 * PI)) by (apply Rmult_le_compat_r; lra). lra.
  - assert (x / (2 * PI) * (2 * PI) < (n + 1) * (2 * PI)) by (apply Rmult_lt_compat_r; lra). lra.
Qed.

Lemma wrap_turn_cong : forall x, exists k, wrap_turn x = x + 2 * IZR k * PI.
Proof.
  intro x. exists (- Int_part (x / (2 * PI)))%Z. unfold wrap_turn. rewrite opp_IZR. ring.
Qed.

(* two numbers of [0, 2 PI) that differ by a whole number of turns are equal *)
Lemma turn_unique : forall a b k, 0 <= a < 2 * PI -> 0 <= b < 2 * PI -> a = b + 2 * IZR k * PI -> a = b.
Proof.
  intros a b k Ha Hb E. pose proof two_PI_pos as P.
  assert (K : k = 0%Z).
  { apply one_IZR_lt1. split.
    - apply Rmult_lt_reg_r with (2 * PI); [exact P|]. lra.
    - apply Rmult_lt_reg_r with (2 * PI); [exact P|]. lra. }
  subst k. lra.
Qed.

Lemma wrap_turn_periodic : forall x k, wrap_turn (x + 2 * IZR k * PI) = wrap_turn x.
Proof.
  intros x k.
  destruct (wrap_turn_cong (x + 2 * IZR k * PI)) as [k1 E1]. destruct (wrap_turn_cong x) as [k2 E2].
  apply (turn_unique _ _ (k1 + k - k2)%Z); try apply wrap_turn_range.
  rewrite E1, E2, minus_IZR, plus_IZR. ring.
Qed.

(* every longitude has a representative in node + (-PI, PI] *)
Lemma principal_representative : forall x node, exists x0 k, x = x0 + 2 * IZR k * PI /\ - PI < x0 - node <= PI.
Proof.
  intros x node. pose proof two_PI_pos as P.
  set (y := (PI - (x - node)) / (2 * PI)).
  destruct (Int_part_floor y) as [H1 H2].
  exists (x + 2 * IZR (Int_part y) * PI), (- Int_part y)%Z.
  rewrite opp_IZR. split; [ring|].
  set (n := IZR (Int_part y)) in *.
  assert (E : PI - (x - node) = y * (2 * PI)) by (unfold y; field; lra).
  assert (n * (2 * PI) <= y * (2 * PI)) by (apply Rmult_le_compat_r; lra).
  assert (y * (2 * PI) < (n + 1) * (2 * PI)) by (apply Rmult_lt_compat_r; lra).
  split; lra.
Qed.

(* (mu, nu) -> ICRS -> (mu, nu) for EVERY mu: the longitude that comes back is mu modulo one turn (equal after the
   reduction to [0, 2 PI) that the frames apply), the latitude is nu; every inclination and node, |nu| < 90 deg *)
Theorem munu_roundtrip_mod_turn : forall mu nu incl node,
  - (PI / 2) < nu < PI / 2 ->
  let '(ra, dec) := m2r_angles mu nu incl node in
  let '(mu', nu') := r2m_angles ra dec incl node in
  wrap_turn mu' = wrap_turn mu /\ nu' = nu.
Proof.
  intros mu nu incl node Hnu.
  destruct (principal_representative mu node) as [mu0 [k [E Hmu]]].
  pose proof (munu_radec_munu_angles mu0 nu incl node k Hnu Hmu) as T.
  rewrite <- E in T.
  destruct (m2r_angles mu nu incl node) as [ra dec]. rewrite T.
  split; [|reflexivity]. rewrite E. symmetry. apply wrap_turn_periodic.
Qed.

Theorem radec_roundtrip_mod_turn : forall ra dec incl node,
  - (PI / 2) < dec < PI / 2 ->
  let '(mu, nu) := r2m_angles ra dec incl node in
  let '(ra', dec') := m2r_angles mu nu incl node in
  wrap_turn ra' = wrap_turn ra /\ dec' = dec.
Proof.
  intros ra dec incl node Hd.
  destruct (principal_representative ra node) as [ra0 [k [E Hra]]].
  pose proof (radec_munu_radec_angles ra0 dec incl node k Hd Hra) as T.
  rewrite <- E in T.
  destruct (r2m_angles ra dec incl node) as [mu nu]. rewrite T.
  split; [|reflexivity]. rewrite E. symmetry. apply wrap_turn_periodic.
Qed.

(* ------------------------------------------------------------------ ranges of atan2 and of x_to_angles *)

Lemma atan2_range : forall y x, - PI < atan2 y x <= PI.
Proof.
  intros y x. pose proof PI_RGT_0 as P. unfold atan2.
  destruct (Rlt_dec 0 x) as [Hx|Hx].
  - pose proof (atan_bound (y / x)). lra.
  - destruct (Rlt_dec x 0) as [Hx'|Hx'].
    + destruct (Rle_dec 0 y) as [Hy|Hy].
      * assert (y / x <= 0).
        { unfold Rdiv. assert (/ x < 0) by (apply Rinv_lt_0_compat; exact Hx'). nra. }
        pose proof (atan_bound (y / x)).
        assert (atan (y / x) <= 0).
        { destruct (Rle_lt_or_eq_dec _ _ H) as [L|L].
          - left. rewrite <- atan_0. apply atan_increasing. exact L.
          - rewrite L, atan_0. lra. }
        lra.
      * assert (0 < y / x).
        { unfold Rdiv. assert (/ x < 0) by (apply Rinv_lt_0_compat; exact Hx'). nra. }
        pose proof (atan_bound (y / x)).
        assert (0 < atan (y / x)) by (rewrite <- atan_0; apply atan_increasing; assumption).
        lra.
    + destruct (Rlt_dec 0 y); [lra|]. destruct (Rlt_dec y 0); lra.
Qed.

Lemma to_deg_lt : forall t lo, lo * PI / 180 < t -> lo < t * 180 / PI.
Proof.
  intros t lo H. pose proof PI_RGT_0 as P.
  apply Rmult_lt_reg_r with (PI / 180); [lra|].
  replace (t * 180 / PI * (PI / 180)) with t by (field; lra). lra.
Qed.

Lemma to_deg_le : forall t lo, lo * PI / 180 <= t -> lo <= t * 180 / PI.
Proof.
  intros t lo H. pose proof PI_RGT_0 as P.
  apply Rmult_le_reg_r with (PI / 180); [lra|].
  replace (t * 180 / PI * (PI / 180)) with t by (field; lra). lra.
Qed.

Lemma to_deg_ge : forall t hi, t <= hi * PI / 180 -> t * 180 / PI <= hi.
Proof.
  intros t hi H. pose proof PI_RGT_0 as P.
  apply Rmult_le_reg_r with (PI / 180); [lra|].
  replace (t * 180 / PI * (PI / 180)) with t by (field; lra). lra.
Qed.

(* for EVERY input (unit vector or not): azimuth in (-180, 180], polar angle in [0, 180], latitude in [-90, 90]:
   both branches of the `latitude` flag *)
Theorem x_to_angles_ranges : forall (lat : bool) x0 x1 x2,
  let '(phi, th) := x_to_angles_gen atan2 lat x0 x1 x2 in
  -180 < phi <= 180 /\ (if lat then -90 <= th <= 90 else 0 <= th <= 180).
Proof.
  intros lat x0 x1 x2. unfold x_to_angles_gen. cbv zeta.
  pose proof (atan2_range x1 x0) as [A1 A2].
  pose proof (acos_bound (x2 / (x0 * x0 + x1 * x1 + x2 * x2))) as [B1 B2].
  set (t := atan2 x1 x0) in *. set (a := acos (x2 / (x0 * x0 + x1 * x1 + x2 * x2))) in *.
  assert (P1 : -180 < t * 180 / PI) by (apply to_deg_lt; lra).
  assert (P2 : t * 180 / PI <= 180) by (apply to_deg_ge; lra).
  assert (P3 : 0 <= a * 180 / PI) by (apply to_deg_le; lra).
  assert (P4 : a * 180 / PI <= 180) by (apply to_deg_ge; lra).
  destruct lat; split; lra.
Qed.

(* on unit vectors the divisor is 1 and the arccos argument is legal: x_to_angles returns finite angles *)
Theorem x_to_angles_defined_on_unit : forall x0 x1 x2,
  x0 * x0 + x1 * x1 + x2 * x2 = 1 -> x_to_angles_defined x0 x1 x2.
Proof.
  intros x0 x1 x2 H. unfold x_to_angles_defined. cbv zeta. rewrite H.
  split; [lra|]. replace (x2 / 1) with x2 by field. split; nra.
Qed.

(* ... and every output of angles_to_x is such a unit vector, both conventions *)
Theorem angles_to_x_unit : forall lat phi theta,
  let '(x0, x1, x2) := angles_to_x_gen lat phi theta in x_to_angles_defined x0 x1 x2.
Proof.
  intros lat phi theta. unfold angles_to_x_gen. cbv zeta.
  apply x_to_angles_defined_on_unit.
  set (p := phi * PI / 180). set (t := if lat then (90 - theta) * PI / 180 else theta * PI / 180).
  pose proof (sc1 p). pose proof (sc1 t). nra.
Qed.

Lemma atan2_0_0 : atan2 0 0 = 0.
Proof.
  unfold atan2. destruct (Rlt_dec 0 0); [lra|]. destruct (Rlt_dec 0 0); lra.
Qed.

(* The divisor in the source is the SQUARED norm ((points**2).sum(1), no square root).  So the function is correct on unit
   vectors only; it is not invariant under scaling of its argument: refuted full statement, with the witness (0, 0, 2)
   (polar angle 60 instead of 0) -- and (0, 0, 1/2) has an illegal arccos argument (NaN in numpy). *)
Theorem x_to_angles_scale_invariant_refuted :
  ~ (forall c x0 x1 x2, 0 < c ->
       x_to_angles_gen atan2 false (c * x0) (c * x1) (c * x2) = x_to_angles_gen atan2 false x0 x1 x2)
  /\ x_to_angles_gen atan2 false 0 0 2 = (0, 60)
  /\ x_to_angles_gen atan2 false 0 0 1 = (0, 0)
  /\ ~ x_to_angles_defined 0 0 (1 / 2)
  /\ ~ x_to_angles_defined 0 0 0.
Proof.
  pose proof PI_RGT_0 as P.
  assert (E2 : x_to_angles_gen atan2 false 0 0 2 = (0, 60)).
  { unfold x_to_angles_gen. cbv zeta. rewrite atan2_0_0.
    replace (2 / (0 * 0 + 0 * 0 + 2 * 2)) with (cos (PI / 3)) by (rewrite cos_PI3; field).
    rewrite acos_cos by lra. f_equal; field; lra. }
  assert (E1 : x_to_angles_gen atan2 false 0 0 1 = (0, 0)).
  { unfold x_to_angles_gen. cbv zeta. rewrite atan2_0_0.
    replace (1 / (0 * 0 + 0 * 0 + 1 * 1)) with 1 by field. rewrite acos_1. f_equal; field; lra. }
  split; [|split; [exact E2|split; [exact E1|split]]].
  - intro H. specialize (H 2 0 0 1 ltac:(lra)).
    replace (2 * 0) with 0 in H by ring. replace (2 * 1) with 2 in H by ring.
    rewrite E2, E1 in H. apply (f_equal snd) in H. cbn [snd] in H. lra.
  - unfold x_to_angles_defined. cbv zeta. intros [_ [_ H]].
    replace (1 / 2 / (0 * 0 + 0 * 0 + 1 / 2 * (1 / 2))) with 2 in H by field. lra.
  - unfold x_to_angles_defined. cbv zeta. intros [H _]. apply H. ring.
Qed.

(* ------------------------------------------------------------------ the equatorial stripes *)

Lemma rotx_0 : forall v, rotx 0 v = v.
Proof. intros [[x y] z]. unfold rotx. rewrite cos_0, sin_0. apply pair3_eq; ring. Qed.

Lemma incl_rad_zero : forall s, (stripe_to_incl_gen s == 0)%Q -> incl_rad s = 0.
Proof.
  intros s H. unfold incl_rad, deg. rewrite (Qeq_eqR _ _ H). rewrite RMicromega.Q2R_0. field.
Qed.

(* stripes 10 and 82 (= 10 + 72) have inclination 0: (mu, nu) are (RA, Dec) themselves *)
Theorem equatorial_stripes : forall mu nu,
  munu_to_radec_M 10 mu nu = vec (deg nu) (deg mu - node_rad) /\
  munu_to_radec_M 82 mu nu = vec (deg nu) (deg mu - node_rad).
Proof.
  intros mu nu. unfold munu_to_radec_M.
  rewrite !m2r_vec_is_S. unfold munu_to_radec_S.
  rewrite (incl_rad_zero 10) by reflexivity. rewrite (incl_rad_zero 82) by reflexivity.
  rewrite !rotx_0. split; reflexivity.
Qed.

(* non-vacuity witnesses *)
Lemma witness_lat0 : - (PI / 2) < 0 < PI / 2.
Proof. pose proof PI_RGT_0. lra. Qed.
Lemma witness_unit_001 : 0 * 0 + 0 * 0 + 1 * 1 = 1.
Proof. ring. Qed.
