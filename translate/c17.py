"""C17 extractor (fail-closed):

  pydl/pydlutils/math.py    djs_reject       -> coq/Generated/Reject.v
  pydl/pydlspec2d/spec1d.py skymask          -> coq/Generated/SkyMask.v
  pydl/pydlutils/image.py   djs_maskinterp1  -> coq/Generated/MaskInterp.v   (the `const` end rules)

What is extracted from djs_reject: for each of the five limit branches (lower/upper x sigma/invvar, maxdev)
the `qbad` comparison and the `badness +=` term; the statements that multiply badness by inmask / outmask
(in order, with their guards); `newmask = badness == 0`; the guard, loop bounds and the two clamped index
expressions of the grow loop; the final `& inmask`, `& outmask` statements; the qdone expression.
From skymask: the (group, label) pairs passed to sdss_flagval, the cast of the mask, the flag tests and how they are
combined, the ngrow guard, the width arithmetic, the arguments of the smooth() call and the `> 0` test, and
the final product.  From djs_maskinterp1: guards, destination slices and source index of the four `const`
assignments.

The *shape* of every statement is matched structurally; anything else raises Unrecognised, `recognised`
becomes false and the previous generated file is kept (the correspondence run then ties model and code alone).

Real numbers are Q.  `X * np.sqrt(invvar)` compared with C is rewritten with C17.Base.sqrtmul_lt
(`E*sqrt(iv) < C` -> sqrtmul_lt E iv C ; `> C` -> sqrtmul_lt (-E) iv (-C) ; `<=`, `>=` -> the negations);
a comparison or a boolean array used as a number becomes b2q.
"""
import ast
import os

from .pyexpr import Unrecognised, find_function, zlit


def is_name(n, name):
    return isinstance(n, ast.Name) and n.id == name


def np_call(node, fname, nargs):
    """np.fname(a1..an) -> [a1..an] or None"""
    if isinstance(node, ast.Call) and isinstance(node.func, ast.Attribute) and node.func.attr == fname \
            and isinstance(node.func.value, ast.Name) and node.func.value.id in ('np', 'numpy') \
            and len(node.args) == nargs and not node.keywords:
        return node.args
    return None


def has_sqrt(node):
    return any(np_call(n, 'sqrt', 1) is not None for n in ast.walk(node))


# ------------------------------------------------------------------ Q expressions

def qexpr(node, env):
    """numeric expression -> Gallina Q term; booleans used as numbers go through b2q"""
    if isinstance(node, ast.Constant):
        v = node.value
        if isinstance(v, bool) or not isinstance(v, int):
            raise Unrecognised('constant %r' % (v,))
        return '%d' % v if v >= 0 else '(- %d)' % (-v)
    if isinstance(node, ast.Name):
        if node.id in env:
            return env[node.id]
        raise Unrecognised('free name %s' % node.id)
    if isinstance(node, ast.UnaryOp) and isinstance(node.op, ast.USub):
        return '(- %s)' % qexpr(node.operand, env)
    if isinstance(node, ast.BinOp):
        ops = {ast.Add: '+', ast.Sub: '-', ast.Mult: '*', ast.Div: '/'}
        if type(node.op) not in ops:
            raise Unrecognised('operator %s' % type(node.op).__name__)
        return '(%s %s %s)' % (qexpr(node.left, env), ops[type(node.op)], qexpr(node.right, env))
    if isinstance(node, ast.Compare):
        return '(b2q %s)' % bexpr(node, env)
    a = np_call(node, 'absolute', 1) or np_call(node, 'abs', 1)
    if a is not None:
        return '(Qabs %s)' % qexpr(a[0], env)
    raise Unrecognised('numeric node %s' % ast.dump(node)[:70])


def bexpr(node, env):
    """comparison -> Gallina bool term"""
    if not (isinstance(node, ast.Compare) and len(node.ops) == 1):
        raise Unrecognised('condition %s' % ast.dump(node)[:70])
    op, l, r = node.ops[0], node.left, node.comparators[0]
    if has_sqrt(node):
        # (E * np.sqrt(invvar)) OP C
        if has_sqrt(r) or not (isinstance(l, ast.BinOp) and isinstance(l.op, ast.Mult)):
            raise Unrecognised('sqrt comparison shape')
        s = np_call(l.right, 'sqrt', 1)
        if s is None or not is_name(s[0], 'invvar') or has_sqrt(l.left):
            raise Unrecognised('sqrt comparison shape')
        e, c, iv = qexpr(l.left, env), qexpr(r, env), env['invvar']
        if isinstance(op, ast.Lt):
            return '(sqrtmul_lt %s %s %s)' % (e, iv, c)
        if isinstance(op, ast.Gt):
            return '(sqrtmul_lt (- %s) %s (- %s))' % (e, iv, c)
        if isinstance(op, ast.LtE):
            return '(negb (sqrtmul_lt (- %s) %s (- %s)))' % (e, iv, c)
        if isinstance(op, ast.GtE):
            return '(negb (sqrtmul_lt %s %s %s))' % (e, iv, c)
        raise Unrecognised('sqrt comparison operator')
    a, b = qexpr(l, env), qexpr(r, env)
    if isinstance(op, ast.Lt):
        return '(Qltb %s %s)' % (a, b)
    if isinstance(op, ast.Gt):
        return '(Qltb %s %s)' % (b, a)
    if isinstance(op, ast.LtE):
        return '(Qle_bool %s %s)' % (a, b)
    if isinstance(op, ast.GtE):
        return '(Qle_bool %s %s)' % (b, a)
    if isinstance(op, ast.Eq):
        return '(Qeq_bool %s %s)' % (a, b)
    if isinstance(op, ast.NotEq):
        return '(negb (Qeq_bool %s %s))' % (a, b)
    raise Unrecognised('comparison operator %s' % type(op).__name__)


# ------------------------------------------------------------------ Z expressions

def zexpr(node, env):
    if isinstance(node, ast.Constant):
        if isinstance(node.value, int) and not isinstance(node.value, bool):
            return zlit(node.value)
        raise Unrecognised('constant %r' % (node.value,))
    if isinstance(node, ast.Name):
        if node.id in env:
            return env[node.id]
        raise Unrecognised('free name %s' % node.id)
    if isinstance(node, ast.UnaryOp) and isinstance(node.op, ast.USub):
        return '(Z.opp %s)' % zexpr(node.operand, env)
    if isinstance(node, ast.BinOp):
        ops = {ast.Add: 'Z.add', ast.Sub: 'Z.sub', ast.Mult: 'Z.mul', ast.BitAnd: 'Z.land', ast.BitOr: 'Z.lor'}
        if type(node.op) not in ops:
            raise Unrecognised('operator %s' % type(node.op).__name__)
        return '(%s %s %s)' % (ops[type(node.op)], zexpr(node.left, env), zexpr(node.right, env))
    for fn, g in (('maximum', 'Z.max'), ('minimum', 'Z.min')):
        a = np_call(node, fn, 2)
        if a is not None:
            return '(%s %s %s)' % (g, zexpr(a[0], env), zexpr(a[1], env))
    # data.shape[0]
    if isinstance(node, ast.Subscript) and isinstance(node.value, ast.Attribute) and node.value.attr == 'shape' \
            and is_name(node.value.value, 'data') and isinstance(node.slice, ast.Constant) and node.slice.value == 0 \
            and 'data.shape[0]' in env:
        return env['data.shape[0]']
    # igood[E]
    if isinstance(node, ast.Subscript) and is_name(node.value, 'igood') and 'igood[]' in env:
        return '(%s %s)' % (env['igood[]'], zexpr(node.slice, env))
    raise Unrecognised('integer node %s' % ast.dump(node)[:70])


def zbexpr(node, env):
    if not (isinstance(node, ast.Compare) and len(node.ops) == 1):
        raise Unrecognised('condition %s' % ast.dump(node)[:70])
    a, b = zexpr(node.left, env), zexpr(node.comparators[0], env)
    op = node.ops[0]
    if isinstance(op, ast.Lt):
        return '(Z.ltb %s %s)' % (a, b)
    if isinstance(op, ast.Gt):
        return '(Z.ltb %s %s)' % (b, a)
    if isinstance(op, ast.LtE):
        return '(Z.leb %s %s)' % (a, b)
    if isinstance(op, ast.GtE):
        return '(Z.leb %s %s)' % (b, a)
    if isinstance(op, ast.Eq):
        return '(Z.eqb %s %s)' % (a, b)
    if isinstance(op, ast.NotEq):
        return '(negb (Z.eqb %s %s))' % (a, b)
    raise Unrecognised('comparison operator')


# ------------------------------------------------------------------ statement shapes

def strip_doc(body):
    return [s for s in body if not (isinstance(s, ast.Expr) and isinstance(s.value, ast.Constant))]


def is_not_none(test, name):
    return isinstance(test, ast.Compare) and is_name(test.left, name) and len(test.ops) == 1 \
        and isinstance(test.ops[0], ast.IsNot) and isinstance(test.comparators[0], ast.Constant) \
        and test.comparators[0].value is None


def given_expr(test):
    """a test on which of the keywords sigma / invvar the caller supplied:
    `sigma is not None`, `invvar is None`, and / or / not of these  ->  Gallina over (sigma_given invvar_given : bool)"""
    names = {'sigma': 'sigma_given', 'invvar': 'invvar_given'}
    if isinstance(test, ast.Compare) and len(test.ops) == 1 and isinstance(test.left, ast.Name) and test.left.id in names \
            and isinstance(test.comparators[0], ast.Constant) and test.comparators[0].value is None:
        if isinstance(test.ops[0], ast.IsNot):
            return names[test.left.id]
        if isinstance(test.ops[0], ast.Is):
            return '(negb %s)' % names[test.left.id]
    if isinstance(test, ast.BoolOp):
        op = ' && ' if isinstance(test.op, ast.And) else ' || '
        return '(' + op.join(given_expr(v) for v in test.values) + ')'
    if isinstance(test, ast.UnaryOp) and isinstance(test.op, ast.Not):
        return '(negb %s)' % given_expr(test.operand)
    raise Unrecognised('test on the supplied keywords not understood: ' + ast.unparse(test))


def assign_of(st, name):
    if isinstance(st, ast.Assign) and len(st.targets) == 1 and is_name(st.targets[0], name):
        return st.value
    return None


def aug_of(st, name, op):
    if isinstance(st, ast.AugAssign) and is_name(st.target, name) and isinstance(st.op, op):
        return st.value
    return None


def qbad_and_term(stmts, env):
    """[qbad = CMP ; badness += TERM] -> (bool term, Q term with `qbad` free)"""
    if len(stmts) != 2:
        raise Unrecognised('limit branch is not two statements')
    q, t = assign_of(stmts[0], 'qbad'), aug_of(stmts[1], 'badness', ast.Add)
    if q is None or t is None:
        raise Unrecognised('limit branch is not `qbad = ...; badness += ...`')
    e2 = dict(env)
    e2['qbad'] = '(b2q qbad)'
    return bexpr(q, env), qexpr(t, e2)


def generate_reject(repo):
    src = open(os.path.join(repo, 'pydl/pydlutils/math.py')).read()
    fn = find_function(ast.parse(src), 'djs_reject')
    body = strip_doc(fn.body)
    k0 = next((k for k, s in enumerate(body) if assign_of(s, 'diff') is not None), None)
    if k0 is None:
        raise Unrecognised('diff = data - model not found')
    d = assign_of(body[k0], 'diff')
    if not (isinstance(d, ast.BinOp) and isinstance(d.op, ast.Sub) and is_name(d.left, 'data') and is_name(d.right, 'model')):
        raise Unrecognised('diff is not data - model')
    # the statement before `diff = ...`: `if sigma is None and invvar is None:` estimates a sigma from the residuals --
    # after it sigma is set whenever this guard held
    est = body[k0 - 1] if k0 > 0 else None
    if not (isinstance(est, ast.If) and not est.orelse and len(est.body) == 2 and isinstance(est.body[1], ast.If)
            and all(assign_of(b_[0], 'sigma') is not None and len(b_) == 1 for b_ in (est.body[1].body, est.body[1].orelse))):
        raise Unrecognised('`if <neither sigma nor invvar>: ... sigma = ...` expected before diff = data - model')
    est_guard = given_expr(est.test)
    rest = body[k0 + 1:]
    z = assign_of(rest[0], 'badness')
    if not (isinstance(z, ast.Call) and isinstance(z.func, ast.Attribute) and z.func.attr == 'zeros'):
        raise Unrecognised('badness = np.zeros(...) expected')
    out = ['(* GENERATED by translate/c17.py from pydl/pydlutils/math.py (djs_reject) -- do not edit *)',
           'From Coq Require Import ZArith QArith Qabs List Bool.', 'From PV Require Import C17.Base.',
           'Open Scope Q_scope.', '']
    env = {'diff': 'd', 'lower': 'l', 'upper': 'u', 'sigma': 's', 'invvar': 'iv', 'maxdev': 'x'}
    out.append('(* source line %d: %s -- a sigma is estimated, so sigma is set afterwards *)' % (est.lineno, ast.unparse(est.test)))
    out.append('Definition rej_estimates_sigma (sigma_given invvar_given : bool) : bool := %s.\n' % est_guard)
    pos = 1
    for lim, var in (('lower', 'l'), ('upper', 'u')):
        st = rest[pos]
        pos += 1
        if not (isinstance(st, ast.If) and is_not_none(st.test, lim) and not st.orelse is None
                and len(st.body) == 1 and isinstance(st.body[0], ast.If) and st.body[0].orelse
                and not st.orelse):
            raise Unrecognised('`if %s is not None: if <sigma supplied>: ... else: ...` expected' % lim)
        inner = st.body[0]
        # WHICH scaling the branch uses, as a function of the keywords the caller supplied (both may be given)
        out.append('(* source line %d: %s *)' % (inner.lineno, ast.unparse(inner.test)))
        out.append('Definition rej_%s_use_sigma (sigma_given invvar_given : bool) : bool := %s.\n' % (lim, given_expr(inner.test)))
        for tag, stmts, sc in (('sig', inner.body, 's'), ('iv', inner.orelse, 'iv')):
            qb, term = qbad_and_term(stmts, env)
            out.append('(* source line %d *)' % stmts[0].lineno)
            out.append('Definition rej_%s_%s_qbad (d %s %s : Q) : bool := %s.' % (lim, tag, var, sc, qb))
            out.append('Definition rej_%s_%s_term (d %s %s : Q) (qbad : bool) : Q := %s.\n' % (lim, tag, var, sc, term))
    st = rest[pos]
    pos += 1
    if not (isinstance(st, ast.If) and is_not_none(st.test, 'maxdev') and not st.orelse):
        raise Unrecognised('`if maxdev is not None:` expected')
    qb, term = qbad_and_term(st.body, env)
    out.append('(* source line %d *)' % st.body[0].lineno)
    out.append('Definition rej_maxdev_qbad (d x : Q) : bool := %s.' % qb)
    out.append('Definition rej_maxdev_term (d x : Q) (qbad : bool) : Q := %s.\n' % term)

    def products(op_match, acc, conv):
        """consecutive `if inmask is not None: X` / `if sticky: X` statements -> nested lets"""
        nonlocal pos
        lines = []
        while pos < len(rest):
            st = rest[pos]
            if not (isinstance(st, ast.If) and len(st.body) == 1 and not st.orelse):
                break
            if is_not_none(st.test, 'inmask'):
                which, guard = 'inmask', None
            elif is_name(st.test, 'sticky'):
                which, guard = 'outmask', 'sticky'
            else:
                break
            if not op_match(st.body[0], which):
                break
            new = conv(which)
            lines.append('  let %s := %s in   (* line %d *)' % (acc, new if guard is None else 'if %s then %s else %s' % (guard, new, acc), st.lineno))
            pos += 1
        return lines

    pl = products(lambda s, w: (lambda v: v is not None and is_name(v, w))(aug_of(s, 'badness', ast.Mult)), 'b',
                  lambda w: 'b * b2q %s' % ('inm' if w == 'inmask' else 'outm'))
    out.append('Definition rej_products (b : Q) (inm outm sticky : bool) : Q :=\n%s\n  b.\n' % '\n'.join(pl) if pl else
               'Definition rej_products (b : Q) (inm outm sticky : bool) : Q := b.\n')
    st = rest[pos]
    pos += 1
    if not (isinstance(st, ast.If) and is_not_none(st.test, 'maxrej')):
        raise Unrecognised('`if maxrej is not None:` expected after the badness products')
    nm = assign_of(rest[pos], 'newmask')
    pos += 1
    if nm is None:
        raise Unrecognised('newmask = ... expected')
    out.append('(* source line %d *)' % rest[pos - 1].lineno)
    out.append('Definition rej_newmask (badness : Q) : bool := %s.\n' % bexpr(nm, {'badness': 'badness'}))
    # grow
    st = rest[pos]
    pos += 1
    if not (isinstance(st, ast.If) and isinstance(st.test, ast.Compare) and is_name(st.test.left, 'grow') and not st.orelse
            and len(st.body) == 2):
        raise Unrecognised('`if grow > 0:` expected')
    rj = assign_of(st.body[0], 'rejects')
    if not (isinstance(rj, ast.Compare) and is_name(rj.left, 'newmask') and isinstance(rj.ops[0], ast.Eq)
            and isinstance(rj.comparators[0], ast.Constant) and rj.comparators[0].value == 0):
        raise Unrecognised('rejects = newmask == 0 expected')
    anyif = st.body[1]
    if not (isinstance(anyif, ast.If) and isinstance(anyif.test, ast.Call) and isinstance(anyif.test.func, ast.Attribute)
            and anyif.test.func.attr == 'any' and is_name(anyif.test.func.value, 'rejects') and not anyif.orelse
            and len(anyif.body) == 2):
        raise Unrecognised('`if rejects.any():` expected')
    ir = assign_of(anyif.body[0], 'irejects')
    if ir is None or ast.unparse(ir) != 'rejects.nonzero()[0]':
        raise Unrecognised('irejects = rejects.nonzero()[0] expected')
    loop = anyif.body[1]
    if not (isinstance(loop, ast.For) and is_name(loop.target, 'k') and isinstance(loop.iter, ast.Call)
            and is_name(loop.iter.func, 'range') and len(loop.iter.args) == 2 and not loop.orelse and len(loop.body) == 2):
        raise Unrecognised('`for k in range(a, b):` with two assignments expected')
    ge = {'grow': 'grow'}
    out.append('(* source line %d *)' % st.lineno)
    out.append('Definition rej_grow_guard (grow : Z) : bool := %s.' % zbexpr(st.test, ge))
    out.append('Definition rej_grow_klo (grow : Z) : Z := %s.' % zexpr(loop.iter.args[0], ge))
    out.append('Definition rej_grow_khi (grow : Z) : Z := %s.' % zexpr(loop.iter.args[1], ge))
    ie = {'irejects': 'p', 'k': 'k', 'data.shape[0]': 'n'}
    for tag, a in zip(('left', 'right'), loop.body):
        if not (isinstance(a, ast.Assign) and len(a.targets) == 1 and isinstance(a.targets[0], ast.Subscript)
                and is_name(a.targets[0].value, 'newmask') and isinstance(a.value, ast.Constant) and a.value.value in (0, False)):
            raise Unrecognised('newmask[...] = 0 expected in the grow loop')
        out.append('Definition rej_grow_%s (p k n : Z) : Z := %s.   (* line %d *)' % (tag, zexpr(a.targets[0].slice, ie), a.lineno))
    out.append('')
    mask_forms = []

    def good_of(node, w):
        """the right operand of `newmask & ...`: the mask itself (bitwise and: equals `mask is good` only for masks that
        hold 0/1) or `mask != 0` / `np.asarray(mask) != 0` (any non-zero value is good, as documented)"""
        if is_name(node, w):
            mask_forms.append('bitwise')
            return True
        if isinstance(node, ast.Compare) and len(node.ops) == 1 and isinstance(node.ops[0], ast.NotEq) \
                and isinstance(node.comparators[0], ast.Constant) and node.comparators[0].value == 0 \
                and not isinstance(node.comparators[0].value, bool):
            inner = node.left
            aa = np_call(inner, 'asarray', 1)
            if is_name(inner, w) or (aa is not None and is_name(aa[0], w)):
                mask_forms.append('nonzero')
                return True
        return False

    fl = products(lambda s, w: (lambda v: isinstance(v, ast.BinOp) and isinstance(v.op, ast.BitAnd) and is_name(v.left, 'newmask')
                                and good_of(v.right, w))(assign_of(s, 'newmask')), 'm',
                  lambda w: 'm && %s' % ('inm' if w == 'inmask' else 'outm'))
    out.append('(* inm / outm below stand for "the mask entry marks a good point"; the source tests it as: %s *)' % ', '.join(mask_forms))
    out.append('Definition rej_masks_by_truth : bool := %s.   (* false: bitwise and, right only for masks holding 0 / 1 *)\n'
               % ('true' if mask_forms and all(f_ == 'nonzero' for f_ in mask_forms) else 'false'))
    out.append('Definition rej_final (m inm outm sticky : bool) : bool :=\n%s\n  m.\n' % '\n'.join(fl) if fl else
               'Definition rej_final (m inm outm sticky : bool) : bool := m.\n')
    qd = assign_of(rest[pos], 'qdone')
    pos += 1
    if not (isinstance(qd, ast.Call) and is_name(qd.func, 'bool') and len(qd.args) == 1):
        raise Unrecognised('qdone = bool(...) expected')
    inner = np_call(qd.args[0], 'all', 1)
    red = 'list_beq'
    if inner is None:
        inner, red = np_call(qd.args[0], 'any', 1), 'list_any_eq'
    if inner is None or not (isinstance(inner[0], ast.Compare) and len(inner[0].ops) == 1
                             and isinstance(inner[0].ops[0], ast.Eq)):
        raise Unrecognised('qdone is not bool(np.all/any(a == b))')
    qe = {'newmask': 'newmask', 'outmask': 'outmask'}
    a, b = inner[0].left, inner[0].comparators[0]

    def truth_of(node):
        """`outmask != 0` / `np.asarray(outmask) != 0` stand for the mask read by truthiness (what the model's booleans are)"""
        if isinstance(node, ast.Compare) and len(node.ops) == 1 and isinstance(node.ops[0], ast.NotEq) \
                and isinstance(node.comparators[0], ast.Constant) and node.comparators[0].value == 0 \
                and not isinstance(node.comparators[0].value, bool):
            aa = np_call(node.left, 'asarray', 1)
            inner_ = aa[0] if aa is not None else node.left
            if is_name(inner_, 'outmask'):
                return inner_
        return node
    a, b = truth_of(a), truth_of(b)
    if not (isinstance(a, ast.Name) and isinstance(b, ast.Name) and a.id in qe and b.id in qe):
        raise Unrecognised('qdone compares something else than newmask and outmask')
    out.append('(* source line %d *)' % rest[pos - 1].lineno)
    out.append('Definition rej_qdone (newmask outmask : list bool) : bool := %s %s %s.\n' % (red, qe[a.id], qe[b.id]))
    tail = rest[pos:]
    if not (len(tail) == 2 and assign_of(tail[0], 'outmask') is not None and is_name(assign_of(tail[0], 'outmask'), 'newmask')
            and isinstance(tail[1], ast.Return) and ast.unparse(tail[1].value) == '(outmask, qdone)'):
        raise Unrecognised('outmask = newmask; return (outmask, qdone) expected')
    out.append('Definition reject_recognised : bool := true.')
    return '\n'.join(out) + '\n'


def generate_skymask(repo):
    src = open(os.path.join(repo, 'pydl/pydlspec2d/spec1d.py')).read()
    fn = find_function(ast.parse(src), 'skymask')
    body = [s for s in strip_doc(fn.body) if not isinstance(s, (ast.Import, ast.ImportFrom))]
    out = ['(* GENERATED by translate/c17.py from pydl/pydlspec2d/spec1d.py (skymask) -- do not edit *)',
           'From Coq Require Import ZArith QArith List Bool String.', 'From PV Require Import C17.Base.',
           'Import ListNotations.', 'Open Scope Z_scope.', '']
    pos = 0
    if not (isinstance(body[0], ast.Assign) and ast.unparse(body[0]) == 'nrows, npix = invvar.shape'):
        raise Unrecognised('nrows, npix = invvar.shape expected')
    z = assign_of(body[1], 'badmask')
    if not (isinstance(z, ast.Call) and isinstance(z.func, ast.Attribute) and z.func.attr == 'zeros'):
        raise Unrecognised('badmask = np.zeros(...) expected')
    pos = 2
    flags = []
    while pos < len(body) and isinstance(body[pos], ast.Assign) and len(body[pos].targets) == 1 \
            and isinstance(body[pos].targets[0], ast.Name) and isinstance(body[pos].value, ast.Call) \
            and is_name(body[pos].value.func, 'sdss_flagval'):
        c = body[pos].value
        if not (len(c.args) == 2 and all(isinstance(a, ast.Constant) and isinstance(a.value, str) for a in c.args)):
            raise Unrecognised('sdss_flagval(<str>, <str>) expected')
        flags.append((body[pos].targets[0].id, c.args[0].value, c.args[1].value))
        pos += 1
    if len(flags) != 2:
        raise Unrecognised('exactly two sdss_flagval assignments expected')
    out.append('Definition sky_flag_names : list (string * string) := [%s]%%string.\n'
               % '; '.join('("%s", "%s")' % (g, l) for _, g, l in flags))
    st = body[pos]
    pos += 1
    if not (isinstance(st, ast.If) and is_not_none(st.test, 'ormask') and not st.orelse):
        raise Unrecognised('`if ormask is not None:` expected')
    env = {'ormask': 'm', flags[0][0]: 'f1', flags[1][0]: 'f2'}
    lines = []
    for s in st.body:
        c = assign_of(s, 'ormask64')
        if c is not None:
            if ast.unparse(c) != 'ormask.astype(np.uint64)':
                raise Unrecognised('ormask64 = ormask.astype(np.uint64) expected')
            env['ormask64'] = '(m mod 2 ^ 64)'
            continue
        v = assign_of(s, 'badmask')
        if not (isinstance(v, ast.BinOp) and isinstance(v.op, ast.BitOr) and is_name(v.left, 'badmask')):
            raise Unrecognised('badmask = badmask | (...) expected')
        lines.append('  let bad := bad || %s in   (* line %d *)' % (zbexpr(v.right, env), s.lineno))
    out.append('Definition sky_flagged (m f1 f2 : Z) : bool :=\n  let bad := false in\n%s\n  bad.\n' % '\n'.join(lines))
    st = body[pos]
    pos += 1
    if not (isinstance(st, ast.If) and isinstance(st.test, ast.Compare) and is_name(st.test.left, 'ngrow') and not st.orelse
            and len(st.body) == 2):
        raise Unrecognised('`if ngrow > 0:` with two statements expected')
    w = assign_of(st.body[0], 'width')
    if w is None:
        raise Unrecognised('width = ... expected')
    out.append('(* source line %d *)' % st.lineno)
    out.append('Definition sky_grow_guard (ngrow : Z) : bool := %s.' % zbexpr(st.test, {'ngrow': 'ngrow'}))
    out.append('Definition sky_width (ngrow : Z) : Z := %s.' % zexpr(w, {'ngrow': 'ngrow'}))
    loop = st.body[1]
    if not (isinstance(loop, ast.For) and is_name(loop.target, 'k') and ast.unparse(loop.iter) == 'range(nrows)'
            and len(loop.body) == 1 and not loop.orelse):
        raise Unrecognised('for k in range(nrows): expected')
    a = loop.body[0]
    if not (isinstance(a, ast.Assign) and ast.unparse(a.targets[0]) == 'badmask[k, :]' and isinstance(a.value, ast.Compare)
            and len(a.value.ops) == 1):
        raise Unrecognised('badmask[k, :] = smooth(...) > 0 expected')
    call = a.value.left
    if not (isinstance(call, ast.Call) and is_name(call.func, 'smooth') and len(call.args) == 3 and not call.keywords
            and isinstance(call.args[0], ast.BinOp) and isinstance(call.args[0].op, ast.Mult)
            and ast.unparse(call.args[0].left) == 'badmask[k, :]'
            and isinstance(call.args[2], ast.Constant) and isinstance(call.args[2].value, bool)):
        raise Unrecognised('smooth(badmask[k, :]*W, W, <bool>) expected')
    we = {'width': 'width'}
    out.append('(* source line %d *)' % a.lineno)
    out.append('Definition sky_smooth_scale (width : Z) : Z := %s.' % zexpr(call.args[0].right, we))
    out.append('Definition sky_smooth_width (width : Z) : Z := %s.' % zexpr(call.args[1], we))
    out.append('Definition sky_smooth_edge : bool := %s.' % ('true' if call.args[2].value else 'false'))
    cmp_ = ast.Compare(left=ast.Name(id='v'), ops=a.value.ops, comparators=a.value.comparators)
    out.append('Definition sky_smooth_test (v : Z) : bool := %s.\n' % zbexpr(cmp_, {'v': 'v'}))
    ret = body[pos]
    if not (isinstance(ret, ast.Return) and pos == len(body) - 1):
        raise Unrecognised('return expected last')
    out.append('(* source line %d *)' % ret.lineno)
    out.append('Definition sky_apply (v : Q) (bad : bool) : Q := (%s)%%Q.\n' % qexpr(ret.value, {'invvar': 'v', 'badmask': '(b2q bad)'}))
    out.append('Definition skymask_recognised : bool := true.')
    return '\n'.join(out) + '\n'


def generate_maskinterp(repo):
    src = open(os.path.join(repo, 'pydl/pydlutils/image.py')).read()
    fn = find_function(ast.parse(src), 'djs_maskinterp1')
    body = strip_doc(fn.body)
    top = next((s for s in body if isinstance(s, ast.If) and ast.unparse(s.test) == 'xval is None'), None)
    if top is None:
        raise Unrecognised('`if xval is None:` not found')
    out = ['(* GENERATED by translate/c17.py from pydl/pydlutils/image.py (djs_maskinterp1, const rules) -- do not edit *)',
           'From Coq Require Import ZArith QArith List Bool.', 'From PV Require Import C17.Base.', 'Import ListNotations.',
           'Open Scope Z_scope.', '',
           '(* each rule: guard, destination slice [lo, hi), source index -- in sample order (xval is None) or',
           '   in x-sorted order through ii (xval given).  igood : Z -> Z is the list of good positions. *)']
    env = {'igood[]': 'igood', 'ngood': 'ngood', 'ny': 'ny'}

    def rules(stmts, through_ii, tag):
        blk = stmts[-1]
        if not (isinstance(blk, ast.If) and is_name(blk.test, 'const') and not blk.orelse and len(blk.body) == 2):
            raise Unrecognised('`if const:` with two rules expected (%s)' % tag)
        for side, r in zip(('left', 'right'), blk.body):
            if not (isinstance(r, ast.If) and len(r.body) == 1 and not r.orelse and isinstance(r.body[0], ast.Assign)):
                raise Unrecognised('const rule shape')
            a = r.body[0]
            t, v = a.targets[0], a.value
            if not (isinstance(t, ast.Subscript) and is_name(t.value, 'ynew') and isinstance(v, ast.Subscript) and is_name(v.value, 'ynew')):
                raise Unrecognised('ynew[...] = ynew[...] expected')
            ts, vs = t.slice, v.slice
            if through_ii:
                if not (isinstance(ts, ast.Subscript) and is_name(ts.value, 'ii') and isinstance(vs, ast.Subscript) and is_name(vs.value, 'ii')):
                    raise Unrecognised('ynew[ii[...]] = ynew[ii[...]] expected')
                ts, vs = ts.slice, vs.slice
            if not (isinstance(ts, ast.Slice) and ts.step is None and ts.lower is not None and ts.upper is not None):
                raise Unrecognised('destination slice a:b expected')
            sig = '(igood : Z -> Z) (ngood ny : Z)'
            out.append('(* source line %d *)' % r.lineno)
            out.append('Definition mi_%s_%s_guard %s : bool := %s.' % (tag, side, sig, zbexpr(r.test, env)))
            out.append('Definition mi_%s_%s_lo %s : Z := %s.' % (tag, side, sig, zexpr(ts.lower, env)))
            out.append('Definition mi_%s_%s_hi %s : Z := %s.' % (tag, side, sig, zexpr(ts.upper, env)))
            out.append('Definition mi_%s_%s_src %s : Z := %s.\n' % (tag, side, sig, zexpr(vs, env)))
    rules(top.body, False, 'idx')
    rules(top.orelse, True, 'x')
    out.append('Definition maskinterp_recognised : bool := true.')
    out.append('')
    out.extend(generate_aesthetics(repo))
    out.append('')
    out.extend(generate_nd_dispatch(ast.parse(src)))
    return '\n'.join(out) + '\n'


def generate_aesthetics(repo):
    """pydl/pydlspec2d/spec2d.py aesthetics(): the bad-pixel test, the all-bad shortcut, the any-bad guard, and per
    method the mask expression / const flag given to djs_maskinterp, or the good-pixel test, destination and source
    of the `mean` assignment"""
    src = open(os.path.join(repo, 'pydl/pydlspec2d/spec2d.py')).read()
    fn = find_function(ast.parse(src), 'aesthetics')
    body = strip_doc(fn.body)
    env = {'invvar': 'v'}
    out = ['(* pydl/pydlspec2d/spec2d.py (aesthetics) *)']
    bp = assign_of(body[0], 'badpts')
    if bp is None:
        raise Unrecognised('badpts = ... expected first in aesthetics')
    out.append('(* source line %d *)' % body[0].lineno)
    out.append('Definition aes_badpts (v : Q) : bool := (%s)%%Q.' % bexpr(bp, env))
    pos = 1
    allbad = False
    st = body[pos]
    if isinstance(st, ast.If) and ast.unparse(st.test) == 'badpts.all()':
        if not (len(st.body) == 1 and not st.orelse and isinstance(st.body[0], ast.Return) and is_name(st.body[0].value, 'flux')):
            raise Unrecognised('`if badpts.all(): return flux` expected')
        allbad = True
        pos += 1
    out.append('Definition aes_allbad_returns_input : bool := %s.' % ('true' if allbad else 'false'))
    st = body[pos]
    if not (pos == len(body) - 1 and isinstance(st, ast.If) and ast.unparse(st.test) == 'badpts.any()' and len(st.orelse) == 1
            and isinstance(st.orelse[0], ast.Return) and is_name(st.orelse[0].value, 'flux')
            and isinstance(st.body[-1], ast.Return) and is_name(st.body[-1].value, 'newflux') and len(st.body) == 2):
        raise Unrecognised('`if badpts.any(): <dispatch>; return newflux else: return flux` expected')
    branches = {}
    node = st.body[0]
    while isinstance(node, ast.If):
        t = node.test
        if not (isinstance(t, ast.Compare) and is_name(t.left, 'method') and len(t.ops) == 1 and isinstance(t.ops[0], ast.Eq)
                and isinstance(t.comparators[0], ast.Constant) and isinstance(t.comparators[0].value, str)):
            raise Unrecognised('`method == <str>` expected in the dispatch of aesthetics')
        branches[t.comparators[0].value] = node.body
        if len(node.orelse) == 1 and isinstance(node.orelse[0], ast.If):
            node = node.orelse[0]
        else:
            if not (len(node.orelse) == 1 and isinstance(node.orelse[0], ast.Raise)):
                raise Unrecognised('the dispatch of aesthetics must end with `else: raise`')
            break
    for meth, tag in (('traditional', 'trad'), ('noconst', 'noconst')):
        b = branches.get(meth)
        v = assign_of(b[0], 'newflux') if b is not None and len(b) == 1 else None
        if not (isinstance(v, ast.Call) and is_name(v.func, 'djs_maskinterp') and len(v.args) == 2 and is_name(v.args[0], 'flux')
                and all(k.arg == 'const' and isinstance(k.value, ast.Constant) and isinstance(k.value.value, bool) for k in v.keywords)
                and len(v.keywords) <= 1):
            raise Unrecognised('%s: newflux = djs_maskinterp(flux, <mask>[, const=<bool>]) expected' % meth)
        out.append('(* source line %d *)' % b[0].lineno)
        out.append('Definition aes_%s_mask (v : Q) : bool := (%s)%%Q.' % (tag, bexpr(v.args[1], env)))
        out.append('Definition aes_%s_const : bool := %s.' % (tag, 'true' if (v.keywords and v.keywords[0].value.value) else 'false'))
    b = branches.get('mean')
    if not (b is not None and len(b) == 3 and assign_of(b[0], 'newflux') is not None and ast.unparse(b[0].value) == 'flux.copy()'
            and assign_of(b[1], 'goodpts') is not None and isinstance(b[2], ast.Assign)
            and ast.unparse(b[2].value) == 'newflux[goodpts].mean()' and isinstance(b[2].targets[0], ast.Subscript)
            and is_name(b[2].targets[0].value, 'newflux')):
        raise Unrecognised('mean: newflux = flux.copy(); goodpts = ...; newflux[<dest>] = newflux[goodpts].mean() expected')
    out.append('(* source line %d *)' % b[1].lineno)
    out.append('Definition aes_mean_good (v : Q) : bool := (%s)%%Q.' % bexpr(b[1].value, env))
    dest = b[2].targets[0].slice
    if isinstance(dest, ast.UnaryOp) and isinstance(dest.op, ast.Invert) and is_name(dest.operand, 'goodpts'):
        dterm = 'negb g'
    elif is_name(dest, 'badpts'):
        dterm = 'bad'
    elif isinstance(dest, ast.UnaryOp) and isinstance(dest.op, ast.Invert) and is_name(dest.operand, 'badpts'):
        dterm = 'negb bad'
    elif is_name(dest, 'goodpts'):
        dterm = 'g'
    else:
        raise Unrecognised('mean: destination %s' % ast.unparse(dest))
    out.append('Definition aes_mean_dest (g bad : bool) : bool := %s.   (* line %d: %s *)' % (dterm, b[2].lineno, ast.unparse(dest)))
    b = branches.get('nothing')
    if not (b is not None and len(b) == 1 and assign_of(b[0], 'newflux') is not None and ast.unparse(b[0].value) in ('flux.copy()', 'flux')):
        raise Unrecognised('nothing: newflux = flux.copy() expected')
    out.append('Definition aes_nothing_is_input : bool := true.   (* line %d *)' % b[0].lineno)
    out.append('Definition aesthetics_recognised : bool := true.')
    return out


def is_raise_valueerror(st):
    return isinstance(st, ast.Raise) and isinstance(st.exc, ast.Call) and is_name(st.exc.func, 'ValueError')


def generate_nd_dispatch(tree):
    """djs_maskinterp: the argument checks and the whole dispatch on (ndim, xval given, axis) down to the loops and the
    index pattern of every leaf `ynew[IDX] = djs_maskinterp1(yval[IDX], mask[IDX][, xval=xval[IDX]], const=const)`"""
    fn = find_function(tree, 'djs_maskinterp')
    body = strip_doc(fn.body)
    out = ['(* pydl/pydlutils/image.py (djs_maskinterp): argument checks and the dispatch on (ndim, xval, axis) *)']
    pos = 0

    def shape_check(st, who):
        return (isinstance(st, ast.If) and ast.unparse(st.test) == '%s.shape != yval.shape' % who and len(st.body) == 1
                and not st.orelse and is_raise_valueerror(st.body[0]))
    chk_mask = shape_check(body[pos], 'mask')
    pos += 1 if chk_mask else 0
    st = body[pos]
    chk_x = isinstance(st, ast.If) and is_not_none(st.test, 'xval') and len(st.body) == 1 and not st.orelse and shape_check(st.body[0], 'xval')
    pos += 1 if chk_x else 0
    out.append('Definition nd_check_mask_shape : bool := %s.' % ('true' if chk_mask else 'false'))
    out.append('Definition nd_check_xval_shape : bool := %s.' % ('true' if chk_x else 'false'))
    if not (assign_of(body[pos], 'ndim') is not None and ast.unparse(body[pos].value) == 'yval.ndim'):
        raise Unrecognised('ndim = yval.ndim expected')
    pos += 1
    top = body[pos]
    if not (isinstance(top, ast.If) and ast.unparse(top.test) == 'ndim == 1' and len(top.body) == 1 and pos == len(body) - 2
            and isinstance(body[-1], ast.Return) and is_name(body[-1].value, 'ynew')):
        raise Unrecognised('`if ndim == 1: ... else: ...; return ynew` expected')
    one = assign_of(top.body[0], 'ynew')
    if one is None or ast.unparse(one) != 'djs_maskinterp1(yval, mask, xval=xval, const=const)':
        raise Unrecognised('1-D route: ynew = djs_maskinterp1(yval, mask, xval=xval, const=const) expected')
    rest = top.orelse
    k = 0
    none_check = (isinstance(rest[k], ast.If) and ast.unparse(rest[k].test) == 'axis is None' and len(rest[k].body) == 1
                  and not rest[k].orelse and is_raise_valueerror(rest[k].body[0]))
    k += 1 if none_check else 0
    out.append('Definition nd_axis_none_is_error : bool := %s.' % ('true' if none_check else 'false'))
    st = rest[k]
    inv = 'false'
    if isinstance(st, ast.If) and len(st.body) == 1 and not st.orelse and is_raise_valueerror(st.body[0]) \
            and 'axis' in ast.unparse(st.test) and 'is None' not in ast.unparse(st.test):
        tests = st.test.values if isinstance(st.test, ast.BoolOp) and isinstance(st.test.op, ast.Or) else [st.test]
        parts = []
        for t in tests:
            if ast.unparse(t) == 'axis - int(axis) != 0':
                continue                      # never true of an integer axis (the model's axis is an integer)
            parts.append(zbexpr(t, {'axis': 'axis', 'ndim': 'ndim'}))
        inv = ' || '.join(parts) if parts else 'false'
        k += 1
    out.append('Definition nd_axis_invalid (axis ndim : Z) : bool := %s.' % inv)
    z = assign_of(rest[k], 'ynew')
    if z is None or ast.unparse(z) != 'np.zeros(yval.shape, dtype=yval.dtype)':
        raise Unrecognised('ynew = np.zeros(yval.shape, dtype=yval.dtype) expected')
    k += 1
    if k != len(rest) - 1:
        raise Unrecognised('unexpected statements before the ndim dispatch')
    entries = []

    def leaf(stmts, ndim, hasx, axtest):
        dims, vars_ = [], []
        node = stmts
        while len(node) == 1 and isinstance(node[0], ast.For):
            f = node[0]
            it = f.iter
            if not (isinstance(f.target, ast.Name) and not f.orelse and isinstance(it, ast.Call) and is_name(it.func, 'range')
                    and len(it.args) == 1 and isinstance(it.args[0], ast.Subscript) and ast.unparse(it.args[0].value) == 'yval.shape'
                    and isinstance(it.args[0].slice, ast.Constant) and isinstance(it.args[0].slice.value, int)):
                raise Unrecognised('`for v in range(yval.shape[d]):` expected')
            dims.append(it.args[0].slice.value)
            vars_.append(f.target.id)
            node = f.body
        if not (len(node) == 1 and isinstance(node[0], ast.Assign) and isinstance(node[0].targets[0], ast.Subscript)
                and is_name(node[0].targets[0].value, 'ynew')):
            raise Unrecognised('ynew[IDX] = djs_maskinterp1(...) expected inside the loops')
        a = node[0]
        idx = ast.dump(a.targets[0].slice)
        c = a.value

        def sub_of(node, name):
            return isinstance(node, ast.Subscript) and is_name(node.value, name) and ast.dump(node.slice) == idx
        if not (isinstance(c, ast.Call) and is_name(c.func, 'djs_maskinterp1') and len(c.args) == 2
                and sub_of(c.args[0], 'yval') and sub_of(c.args[1], 'mask')):
            raise Unrecognised('djs_maskinterp1(yval[IDX], mask[IDX], ...) with the IDX of the destination expected')
        kws = {kw.arg: kw.value for kw in c.keywords}
        if not ('const' in kws and is_name(kws['const'], 'const')) or set(kws) - {'const', 'xval'}:
            raise Unrecognised('const=const expected in the leaf call')
        if 'xval' in kws and not sub_of(kws['xval'], 'xval'):
            raise Unrecognised('xval=xval[IDX] with the IDX of the destination expected')
        sl = a.targets[0].slice
        elts = sl.elts if isinstance(sl, ast.Tuple) else [sl]
        pat = []
        for e in elts:
            if isinstance(e, ast.Slice) and e.lower is None and e.upper is None and e.step is None:
                pat.append('None')
            elif isinstance(e, ast.Name) and e.id in vars_:
                pat.append('Some %d%%nat' % vars_.index(e.id))
            else:
                raise Unrecognised('index element %s' % ast.unparse(e))
        entries.append('(%d%%nat, %s, %s, [%s]%%nat, [%s], %s)   (* line %d *)' % (
            ndim, 'true' if hasx else 'false', axtest, '; '.join('%d' % d for d in dims), '; '.join(pat),
            'true' if 'xval' in kws else 'false', a.lineno))

    def axis_chain(stmts, ndim, hasx):
        if not (len(stmts) == 1 and isinstance(stmts[0], ast.If)):
            raise Unrecognised('`if axis == k:` chain expected')
        node = stmts[0]
        while True:
            t = node.test
            if not (isinstance(t, ast.Compare) and is_name(t.left, 'axis') and len(t.ops) == 1 and isinstance(t.ops[0], ast.Eq)
                    and isinstance(t.comparators[0], ast.Constant) and isinstance(t.comparators[0].value, int)):
                raise Unrecognised('`axis == <int>` expected')
            leaf(node.body, ndim, hasx, '(Some %s)' % zlit(t.comparators[0].value))
            if len(node.orelse) == 1 and isinstance(node.orelse[0], ast.If):
                node = node.orelse[0]
                continue
            if node.orelse:
                leaf(node.orelse, ndim, hasx, 'None')
            break

    node = rest[k]
    while True:
        t = node.test if isinstance(node, ast.If) else None
        if not (isinstance(t, ast.Compare) and is_name(t.left, 'ndim') and len(t.ops) == 1 and isinstance(t.ops[0], ast.Eq)
                and isinstance(t.comparators[0], ast.Constant) and isinstance(t.comparators[0].value, int)):
            raise Unrecognised('`ndim == <int>` expected')
        nd = t.comparators[0].value
        xs = node.body
        if not (len(xs) == 1 and isinstance(xs[0], ast.If) and ast.unparse(xs[0].test) == 'xval is None'):
            raise Unrecognised('`if xval is None:` expected under ndim == %d' % nd)
        axis_chain(xs[0].body, nd, False)
        axis_chain(xs[0].orelse, nd, True)
        if len(node.orelse) == 1 and isinstance(node.orelse[0], ast.If):
            node = node.orelse[0]
            continue
        if not (len(node.orelse) == 1 and is_raise_valueerror(node.orelse[0])):
            raise Unrecognised('the ndim dispatch must end with `else: raise ValueError`')
        break
    out.append('(* leaf = (ndim, xval given, axis test (Some k: `axis == k`, None: the final else), dimensions looped over (outer first),')
    out.append('   index pattern (Some j: j-th loop variable, None: the `:` slice), xval passed on) -- in source order *)')
    out.append('Definition nd_table : list (nat * bool * option Z * list nat * list (option nat) * bool) := [\n  %s\n].'
               % ';\n  '.join(entries).replace(')   (* line', ')   (* line').replace(';\n', ';\n'))
    out.append('Definition maskinterp_nd_recognised : bool := true.')
    return out


def generate(repo):
    """-> {name: (text or None, info)}"""
    res = {}
    for name, gen in (('Reject', generate_reject), ('SkyMask', generate_skymask), ('MaskInterp', generate_maskinterp)):
        info = {'recognised': True}
        try:
            text = gen(repo)
        except (Unrecognised, SyntaxError, IndexError, OSError, AttributeError, TypeError) as e:
            info = {'recognised': False, 'detail': '%s: %s' % (type(e).__name__, e)}
            text = None
        res[name] = (text, info)
    return res
