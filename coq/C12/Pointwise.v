(* C12 -- is_in_window / is_in_polygon answer point by point (round 6).
   The answer for a list of points is the list of the answers for each point alone: it does not depend on how many
   points are passed together, on their order, on which other points accompany a point, or on whether the input is
   passed in one call or split into several.  These are the relations by which the correspondence run judges calls
   with several hundred thousand points (copies of a few points whose answers the model computes): the answer vector
   must be the small answer gathered through the same index vector, and equal to the answers of the two halves. *)
From Coq Require Import ZArith QArith List Bool Lia.
Import ListNotations.
From PV Require Import C12.Spec Generated.Mangle C12.Model C12.Proofs.
Open Scope Z_scope.

(* what is_in_window(polygons, [p], ncaps) returns for its only point *)
Definition window_answer (Ps : list polygon) (ncaps : Z) (p : vec) : bool * Z :=
  match in_window Ps ncaps [p] with r :: _ => r | [] => (false, -1) end.

Lemma window_answer_spec Ps ncaps p : Forall wf_poly Ps ->
  window_answer Ps ncaps p =
  match first_match Ps ncaps p with Some k => (true, Z.of_nat k) | None => (false, -1) end.
Proof.
  intro H. unfold window_answer. rewrite (in_window_refines Ps ncaps [p] H). reflexivity.
Qed.

Lemma in_window_pointwise Ps ncaps pts : Forall wf_poly Ps ->
  in_window Ps ncaps pts = map (window_answer Ps ncaps) pts.
Proof.
  intro H. rewrite (in_window_refines Ps ncaps pts H). unfold spec_window.
  apply map_ext. intro p. rewrite (window_answer_spec Ps ncaps p H). reflexivity.
Qed.

(* one call = two calls on the two parts *)
Lemma in_window_split Ps ncaps a b : Forall wf_poly Ps ->
  in_window Ps ncaps (a ++ b) = in_window Ps ncaps a ++ in_window Ps ncaps b.
Proof.
  intro H. rewrite !(in_window_pointwise _ _ _ H). apply map_app.
Qed.

(* n positions holding copies of a few points (position j holds point f (idx_j)): the answer at position j is the
   answer of point f (idx_j) alone, whatever n is *)
Lemma in_window_copies Ps ncaps (f : nat -> vec) (idx : list nat) : Forall wf_poly Ps ->
  in_window Ps ncaps (map f idx) = map (fun i => window_answer Ps ncaps (f i)) idx.
Proof.
  intro H. rewrite (in_window_pointwise _ _ _ H). apply map_map.
Qed.

(* the same point at two positions of one call gets the same answer *)
Lemma in_window_same_point Ps ncaps pts i j p ri rj : Forall wf_poly Ps ->
  nth_error pts i = Some p -> nth_error pts j = Some p ->
  nth_error (in_window Ps ncaps pts) i = Some ri -> nth_error (in_window Ps ncaps pts) j = Some rj ->
  ri = rj.
Proof.
  intros H Hi Hj Ri Rj. rewrite (in_window_pointwise _ _ _ H) in Ri, Rj.
  rewrite nth_error_map, Hi in Ri. rewrite nth_error_map, Hj in Rj. cbn [option_map] in Ri, Rj. congruence.
Qed.

(* the index part of the answer, as the correspondence cases use it *)
Lemma in_window_idx_split Ps ncaps a b : Forall wf_poly Ps ->
  map snd (in_window Ps ncaps (a ++ b)) = map snd (in_window Ps ncaps a) ++ map snd (in_window Ps ncaps b).
Proof.
  intro H. rewrite (in_window_split _ _ _ _ H). apply map_app.
Qed.
