(* C18 round 5 -- why gcirc guards the arcsin argument (np.minimum(sindis, 1.0), /repo 21dc9f6): in the abstract rounding model of
   FloatModel.v (every operation exact * (1 + d), |d| <= eps) the UNGUARDED argument can exceed 1 for antipodal points, where the
   exact haversine is 1 -- IEEE arcsin then returns NaN (observed on the real code: gcirc(182, -58.375, 2, 58.37500000000002)).
   The guard makes the argument legal for every perturbation and is the identity on legal values. *)
From Coq Require Import Reals Lra.
From PV Require Import C18.FloatModel.
Open Scope R_scope.

Theorem float_model_needs_guard :
  (exists d3, Rabs d3 <= eps /\ hav_exact (PI / 2) 0 1 1 = 1 /\
              1 < sqrt (hav_model (PI / 2) 0 1 1 0 0 0 0 d3 0 0 0 0 0 0)) /\
  (forall s, 0 <= s -> 0 <= Rmin s 1 <= 1 /\ (s <= 1 -> Rmin s 1 = s)).
Proof.
  assert (E0 : 0 < eps) by (unfold eps; lra).
  split.
  - exists eps. split; [rewrite Rabs_pos_eq; lra|]. split.
    + unfold hav_exact. rewrite sin_PI2, sin_0. ring.
    + unfold hav_model. cbv zeta.
      replace (PI / 2 * (1 + 0)) with (PI / 2) by ring. replace (0 * (1 + 0)) with 0 by ring.
      rewrite sin_PI2, sin_0. rewrite <- sqrt_1 at 1. apply sqrt_lt_1_alt. lra.
  - intros s Hs. split.
    + split; [apply Rmin_glb; lra | apply Rmin_r].
    + intro H. apply Rmin_left. exact H.
Qed.
