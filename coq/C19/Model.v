(* C19 -- algorithmic model M: the expressions GENERATED from the pydl source (Generated/AstroConsts.v) composed into
   airtovac / vactoair (over Q, executable, and the same text over R for the analytic theorems), the filter_thru band
   sum, and the case type evaluated by the harness.  Definitions only. *)
From Coq Require Import Reals QArith List Bool ZArith Qabs.
Import ListNotations.
From PV Require Import C19.Spec Generated.AstroConsts.

(* ---------- air <-> vacuum over Q ---------- *)
Open Scope Q_scope.

Fixpoint iterQ (n : nat) (f : Q -> Q) (x : Q) : Q :=
  match n with O => x | S k => iterQ k f (Qred (f x)) end.

(* `for k in range(N): vacuum = a * fact(vacuum)` starting from vacuum = a; below the threshold the input is returned *)
Definition airtovac_Q (a : Q) : Q :=
  if airtovac_guard_Q a then a else iterQ airtovac_iterations (airtovac_step_Q a) a.
Definition vactoair_Q (v : Q) : Q :=
  if vactoair_guard_Q v then v else Qred (vactoair_body_Q v).

(* Quantity input in a unit of k Angstrom: converted to Angstrom, result converted back *)
Definition in_unit (k : Q) (f : Q -> Q) (x : Q) : Q := f (k * x) / k.

Close Scope Q_scope.

(* ---------- air <-> vacuum over R (same generated text) ---------- *)
Open Scope R_scope.
Fixpoint iterR (n : nat) (f : R -> R) (x : R) : R :=
  match n with O => x | S k => iterR k f (f x) end.
Definition airtovac_R (a : R) : R :=
  if airtovac_guard_R_dec a then a else iterR airtovac_iterations (airtovac_step_R a) a.
Definition vactoair_R (v : R) : R :=
  if vactoair_guard_R_dec v then v else vactoair_body_R v.
Close Scope R_scope.

(* ---------- filter_thru: one (trace, band) ---------- *)
Open Scope Q_scope.
Definition filter_band (l : list (Q * Q)) : Q := filter_norm (sumwf l) (sumw l).

(* one (trace, band) from the raw ingredients (fitted d(log lambda), interpolated response, flux) per pixel, with the
   GENERATED pixel-width post-processing and weight formula *)
Definition band_pairs (l : list (Q * Q * Q)) : list (Q * Q) :=
  map (fun t : Q * Q * Q => (filter_weight (filter_logdiff (fst (fst t))) (snd (fst t)), snd t)) l.
Definition filter_thru_band (l : list (Q * Q * Q)) : Q := filter_band (band_pairs l).

(* masked pixels are replaced through an interpolation that sees only the unmasked (index, value) pairs *)
Definition good_pairs (fl : list (Z * Q * bool)) : list (Z * Q) :=
  map (fun t : Z * Q * bool => (fst (fst t), snd (fst t))) (filter (fun t : Z * Q * bool => negb (snd t)) fl).
Definition mask_interp (interp : list (Z * Q) -> Z -> Q) (fl : list (Z * Q * bool)) : list Q :=
  map (fun t : Z * Q * bool => if snd t then interp (good_pairs fl) (fst (fst t)) else snd (fst t)) fl.

(* ---------- np.interp(x, xp, fp) (library model; exercised by the correspondence run) ----------
   the sample j with xp[j] <= x < xp[j+1] gives fp[j] + (fp[j+1]-fp[j]) (x - xp[j])/(xp[j+1]-xp[j]); x at or before the first
   sample gives fp[0], at or beyond the last fp[-1] *)
Fixpoint interp_seg (x x0 y0 : Q) (l : list (Q * Q)) : Q :=
  match l with
  | [] => y0
  | (x1, y1) :: t => if Qle_bool x1 x then interp_seg x x1 y1 t else y0 + (y1 - y0) * ((x - x0) / (x1 - x0))
  end.
Definition np_interp (x : Q) (l : list (Q * Q)) : Q :=
  match l with [] => 0 | (x0, y0) :: t => if Qle_bool x x0 then y0 else interp_seg x x0 y0 t end.

(* ---------- djs_maskinterp1 on one row of (flux value, mask value), with the GENERATED good / bad tests and dispatch ---------- *)
(* igood, ynew[igood]: (index, value) of the good pixels *)
Fixpoint good_samples (i : Z) (l : list (Q * Q)) : list (Q * Q) :=
  match l with
  | [] => []
  | (v, m) :: t => if maskinterp_good m then (inject_Z i, v) :: good_samples (i + 1) t else good_samples (i + 1) t
  end.
(* ynew[ibad] = np.interp(ibad, igood, ynew[igood]) *)
Fixpoint fill_from (s : list (Q * Q)) (i : Z) (l : list (Q * Q)) : list Q :=
  match l with
  | [] => []
  | (v, m) :: t => (if maskinterp_bad m then np_interp (inject_Z i) s else v) :: fill_from s (i + 1) t
  end.
Definition mi_row (l : list (Q * Q)) : list Q :=
  let s := good_samples 0 l in
  let all_good := forallb (fun p : Q * Q => maskinterp_good (snd p)) l in
  match maskinterp_dispatch all_good (Z.of_nat (length s)) with
  | 0%Z => map fst l
  | 1%Z => match s with [] => map fst l | (_, v0) :: _ => map (fun _ => v0) l end
  | _ => fill_from s 0 l
  end.

(* one (trace, band) of filter_thru(flux, mask=...) : masked pixels interpolated, then the band sum with weights ws *)
Definition filter_trace (ws : list Q) (l : list (Q * Q)) : Q := filter_band (combine ws (mi_row l)).

(* ---------- the filter response at a wavelength: np.interp in the GENERATED curve of band b ---------- *)
Definition filter_response (b : nat) (lam : Q) : Q := np_interp lam (nth b filter_curves []).
(* (fitted d(log lambda), wavelength, flux) -> (fitted, response, flux) *)
Definition resp_tr (b : nat) (l : list (Q * Q * Q)) : list (Q * Q * Q) :=
  map (fun t : Q * Q * Q => (fst (fst t), filter_response b (snd (fst t)), snd t)) l.
Definition filter_thru_lam (b : nat) (l : list (Q * Q * Q)) : Q := filter_thru_band (resp_tr b l).

(* ---------- cases ---------- *)
Inductive case :=
| CAir (k x r : Q)        (* airtovac on x [unit of k Angstrom]; the implementation returned r [same unit] *)
| CVac (k x r : Q)        (* vactoair *)
| CFilter (l : list (Q * Q * Q)) (r : Q) (tol : Q)   (* (fitted dloglam, response, interpolated flux) per pixel of one trace and band; result r *)
| CFilterLam (b : nat) (l : list (Q * Q * Q * Q)) (r : Q) (tol : Q)
    (* band b; per pixel (fitted dloglam, wavelength handed to np.interp, response the implementation obtained, flux); result r *)
| CMask (l : list (Q * Q)) (r : list Q) (tol : Q).   (* (flux, mask value) per pixel of one trace; r = the row after djs_maskinterp *)

Definition tol_wave : Q := 1 # 1000000000000.   (* 1e-12 relative *)
Definition tol_resp : Q := 1 # 1000000000000.   (* 1e-12 absolute: responses are <= 1 *)

Definition lam_model (t : Q * Q * Q * Q) : Q * Q * Q := (fst (fst (fst t)), snd (fst (fst t)), snd t).
Definition lam_recorded (t : Q * Q * Q * Q) : Q * Q * Q := (fst (fst (fst t)), snd (fst t), snd t).
Fixpoint rows_close (a b : list Q) (tol : Q) : bool :=
  match a, b with
  | [], [] => true
  | x :: t, y :: u => Qle_bool (Qabs (x - y)) tol && rows_close t u tol
  | _, _ => false
  end.

Definition run_case (c : case) : Z :=
  match c with
  | CAir k x r =>
      (if rel_close (in_unit k airtovac_Q x) r tol_wave then 0 else 1) +
      (if airtovac_ok (k * x) (k * r) then 0 else 2)
  | CVac k x r =>
      (if rel_close (in_unit k vactoair_Q x) r tol_wave then 0 else 1) +
      (if vactoair_ok (k * x) (k * r) then 0 else 2)
  | CFilter l r tol =>
      (if Qle_bool (Qabs (filter_thru_band l - r)) tol then 0 else 1) +
      (if wmean_ok (spec_pairs l) r tol then 0 else 2)
  | CFilterLam b l r tol =>
      (* M: the response is computed by the model from the generated curve; S: the implementation's own response values *)
      (if Qle_bool (Qabs (filter_thru_lam b (map lam_model l) - r)) tol &&
          forallb (fun t : Q * Q * Q * Q => Qle_bool (Qabs (filter_response b (snd (fst (fst t))) - snd (fst t))) tol_resp) l
       then 0 else 1) +
      (if wmean_ok (spec_pairs (map lam_recorded l)) r tol then 0 else 2)
  | CMask l r tol =>
      (if rows_close (mi_row l) r tol then 0 else 1) +
      (if fill_ok l r tol then 0 else 2)
  end%Z.

Definition run_cases (l : list case) : list Z := map run_case l.
Close Scope Q_scope.
