(* Yanny/DtypeFacts.v -- second stage of the read (dtype() and the conversion to record arrays) on a
   document the writer produced: every column gets its own numpy kind and array length, every cell survives. *)
From Coq Require Import NArith ZArith List Bool Lia.
Import ListNotations.
From PV Require Import Yanny.Bytes Yanny.BytesFacts Yanny.Types Yanny.Parse Yanny.Render
  Yanny.TokenFacts Yanny.RowFacts Yanny.TypeFacts Yanny.DocFacts Yanny.LayoutFacts Yanny.ScanFacts Yanny.StructFacts
  Yanny.EnumFacts.
Open Scope N_scope.

(* ---- numbers inside brackets ---- *)
Lemma parse_Z_show_N n : parse_Z (show_N n) = Some (Z.of_N n).
Proof.
  unfold parse_Z. pose proof (show_N_head_digit n) as Hd. destruct (show_N n) as [|c s] eqn:E; [contradiction|].
  assert (c =? MINUS = false) as -> by (apply N.eqb_neq; intros ->; discriminate).
  assert (c =? PLUS = false) as -> by (apply N.eqb_neq; intros ->; discriminate).
  rewrite <- E, parse_digits_show_N. reflexivity.
Qed.

Lemma z_to_N_of_N n : z_to_N (Z.of_N n) = Some n.
Proof. unfold z_to_N. assert ((Z.of_N n <? 0)%Z = false) as -> by (apply Z.ltb_ge; lia). now rewrite N2Z.id. Qed.

Lemma show_N_no d n : is_digit d = false -> mem d (show_N n) = false.
Proof.
  intros Hd. apply mem_false_forallb. eapply forallb_impl; [|apply show_N_digits]. intros x Hx.
  apply negb_true_iff. apply N.eqb_neq. intros ->. congruence.
Qed.

(* ---- array_length ---- *)
Lemma array_length_typ word c rest : mem LBRACK word = false -> mem RBRACK word = false ->
  isarray (word ++ arr_suffix c ++ rest) = is_arr c ->
  array_length (word ++ arr_suffix c ++ rest) = Some (match c_arr c with Some l => if 0 <? l then l else 1 | None => 1 end).
Proof.
  intros H1 H2 Ha. unfold array_length. rewrite Ha.
  destruct (arr_suffix_cases c) as [[E1 E2]|[l [E0 [E1 E2]]]]; rewrite E1.
  - unfold is_arr in E1. destruct (c_arr c) as [l|]; [now rewrite E1|reflexivity].
  - rewrite E2, E0. unfold is_arr in E1. rewrite E0 in E1. rewrite E1. unfold brack.
    replace (word ++ (LBRACK :: show_N l ++ [RBRACK]) ++ rest) with (word ++ LBRACK :: (show_N l ++ RBRACK :: rest))
      by (cbn [app]; rewrite <- !app_assoc; reflexivity).
    rewrite span_app_stop; [| |unfold not_c; now rewrite N.eqb_refl].
    2:{ apply mem_false_forallb in H1. eapply forallb_impl; [|exact H1]. auto. }
    rewrite H2. rewrite span_app_stop; [| |unfold not_c; now rewrite N.eqb_refl].
    2:{ eapply forallb_impl; [|apply show_N_digits]. intros x Hx. unfold not_c. apply negb_true_iff. apply N.eqb_neq. intros ->. discriminate. }
    cbn [obind]. rewrite parse_Z_show_N. cbn [obind]. apply z_to_N_of_N.
Qed.

(* ---- char_length ---- *)
Lemma rfind_idx_last c p q : mem c q = false -> rfind_idx c (p ++ c :: q) = Some (length p).
Proof.
  intros Hq. assert (E : rfind_idx c q = None).
  { induction q as [|x q IH]; [reflexivity|]. apply mem_cons_false in Hq as [Hx Hq]. cbn [rfind_idx]. now rewrite IH, Hx. }
  induction p as [|x p IH]; cbn [app rfind_idx length].
  - now rewrite E, N.eqb_refl.
  - now rewrite IH.
Qed.

Lemma char_length_typ pre w : char_length_decl (pre ++ brack w) = Some w.
Proof.
  unfold char_length_decl, brack.
  rewrite (rfind_idx_last LBRACK pre (show_N w ++ [RBRACK])).
  2:{ rewrite mem_app. rewrite show_N_no by reflexivity. reflexivity. }
  replace (pre ++ LBRACK :: show_N w ++ [RBRACK]) with ((pre ++ LBRACK :: show_N w) ++ RBRACK :: [])
    by (rewrite <- app_assoc; reflexivity).
  rewrite (rfind_idx_last RBRACK (pre ++ LBRACK :: show_N w) []) by reflexivity.
  rewrite <- app_assoc. cbn [app].
  replace (length (pre ++ LBRACK :: show_N w) - S (length pre))%nat with (length (show_N w))
    by (rewrite app_length; cbn [length]; lia).
  replace (S (length pre)) with (length (pre ++ [LBRACK])) by (rewrite app_length; cbn [length]; lia).
  replace (pre ++ LBRACK :: show_N w ++ [RBRACK]) with ((pre ++ [LBRACK]) ++ show_N w ++ [RBRACK])
    by (rewrite <- app_assoc; reflexivity).
  rewrite skipn_app, skipn_all, Nat.sub_diag. cbn [skipn app].
  rewrite firstn_app, firstn_all, Nat.sub_diag. cbn [firstn]. rewrite app_nil_r.
  rewrite parse_Z_show_N. cbn [obind]. apply z_to_N_of_N.
Qed.

(* ---- enum cache ---- *)
Definition enums_of (es : list enumdecl) : list (bytes * list bytes) := map (fun e => (upper (e_tname e), e_labels e)) es.

Lemma assoc_last_none {A} k (l : list (bytes * A)) : existsb (fun kv => beq k (fst kv)) l = false -> assoc_last k l = None.
Proof.
  induction l as [|[k' v] l IH]; [reflexivity|]. cbn [existsb fst assoc_last]. intros H. apply orb_false_iff in H as [H1 H2].
  now rewrite IH, H1.
Qed.

Lemma assoc_last_distinct es e : distinct (map (fun e => upper (e_tname e)) es) = true -> In e es ->
  assoc_last (upper (e_tname e)) (enums_of es) = Some (e_labels e).
Proof.
  induction es as [|x es IH]; [contradiction|]. cbn [map distinct]. intros Hd Hin. apply andb_true_iff in Hd as [Hx Hd].
  apply negb_true_iff in Hx. cbn [enums_of map assoc_last]. fold (enums_of es). destruct Hin as [->|Hin].
  - rewrite assoc_last_none; [now rewrite beq_refl|].
    unfold enums_of. rewrite existsb_map in Hx || idtac.
    clear -Hx. induction es as [|y es IH]; [reflexivity|]. cbn [map existsb] in *. apply orb_false_iff in Hx as [H1 H2].
    cbn [enums_of map existsb fst]. now rewrite H1, IH.
  - now rewrite IH.
Qed.

Lemma enum_for_In_col c es e : enum_for c es = Some e -> In e es.
Proof. apply enum_for_In. Qed.

Lemma kw_not_upper kw s : existsb is_lower kw = true -> beq kw (upper s) = false.
Proof.
  intros H. apply beq_neq. intros E. rewrite E in H. rewrite upper_no_lower in H. discriminate.
Qed.

Lemma assoc_last_kw kw es : existsb is_lower kw = true -> assoc_last kw (enums_of es) = None.
Proof.
  intros H. apply assoc_last_none. induction es as [|e es IH]; [reflexivity|].
  cbn [enums_of map existsb fst]. fold (enums_of es). now rewrite kw_not_upper, IH.
Qed.

(* ---- dtype of one column ---- *)
Definition arr_pos (c : column) : Prop := match c_arr c with Some l => 0 <? l = true | None => True end.

Lemma finish_dtype typ c (k : npk) : isarray typ = is_arr c -> arr_pos c ->
  array_length typ = Some (match c_arr c with Some l => if 0 <? l then l else 1 | None => 1 end) ->
  (if isarray typ then option_map (fun n => (k, Some n)) (array_length typ) else Some (k, None)) = Some (k, c_arr c).
Proof.
  intros Ha Hp Hl. rewrite Ha, Hl. unfold is_arr, arr_pos in *. destruct (c_arr c) as [l|]; [|reflexivity]. now rewrite Hp.
Qed.

Lemma col_dtype_kw es c kw k vals :
  mem LBRACK kw = false -> mem RBRACK kw = false -> beq kw KW_CHAR = false -> assoc_last kw (enums_of es) = None ->
  (if beq kw KW_SHORT then Some NI2 else if beq kw KW_INT then Some NI4 else if beq kw KW_LONG then Some NI8
   else if beq kw KW_FLOAT then Some NF4 else if beq kw KW_DOUBLE then Some NF8 else None) = Some k ->
  isarray (kw ++ arr_suffix c) = is_arr c -> arr_pos c ->
  col_dtype (enums_of es) (kw ++ arr_suffix c) vals = Some (k, c_arr c).
Proof.
  intros H1 H2 Hc He Hk Ha Hp. unfold col_dtype. rewrite basetype_app; [|exact H1|apply arr_suffix_head].
  rewrite Hc, He, Hk. apply finish_dtype; auto.
  pose proof (array_length_typ kw c [] H1 H2) as AL. rewrite app_nil_r in AL. now apply AL.
Qed.

Lemma typ_of_simple es c w : ctype_word es c = Some w ->
  (match c_type c, enum_for (c_name c) es with TChar _, None => False | _, _ => True end) ->
  typ_of es c = w ++ arr_suffix c.
Proof.
  intros Hw Hs. unfold typ_of. rewrite Hw, decl_suffix_eq.
  destruct (c_type c); try (now rewrite app_nil_r). destruct (enum_for (c_name c) es); [now rewrite app_nil_r|contradiction].
Qed.

Theorem col_dtype_rendered es c vals : forallb enum_ok es = true -> distinct (map (fun e => upper (e_tname e)) es) = true ->
  col_ok c = true ->
  exists k, np_of es c = Some k /\ col_dtype (enums_of es) (typ_of es c) vals = Some (k, c_arr c).
Proof.
  intros Hes Hd Hc. destruct (col_ok_parts c Hc) as [_ [_ Harr]].
  pose proof (enums_ok_names es Hes) as Hnames.
  destruct (typ_of_facts es c Hnames (col_ok_wkind es c Hc)) as [_ Hisarr].
  unfold col_ok in Hc. apply andb_true_iff in Hc as [_ Hty]. unfold np_of.
  destruct (c_type c) eqn:Et; try discriminate.
  - exists NI2. split; auto. assert (Etyp : typ_of es c = S_SHORT ++ arr_suffix c) by (apply typ_of_simple; [unfold ctype_word; now rewrite Et|now rewrite Et]). rewrite Etyp in *.
    apply col_dtype_kw; auto; try reflexivity. now apply assoc_last_kw.
  - exists NI4. split; auto. assert (Etyp : typ_of es c = S_INT ++ arr_suffix c) by (apply typ_of_simple; [unfold ctype_word; now rewrite Et|now rewrite Et]). rewrite Etyp in *.
    apply col_dtype_kw; auto; try reflexivity. now apply assoc_last_kw.
  - exists NI8. split; auto. assert (Etyp : typ_of es c = S_LONG ++ arr_suffix c) by (apply typ_of_simple; [unfold ctype_word; now rewrite Et|now rewrite Et]). rewrite Etyp in *.
    apply col_dtype_kw; auto; try reflexivity. now apply assoc_last_kw.
  - exists NF4. split; auto. assert (Etyp : typ_of es c = S_FLOAT ++ arr_suffix c) by (apply typ_of_simple; [unfold ctype_word; now rewrite Et|now rewrite Et]). rewrite Etyp in *.
    apply col_dtype_kw; auto; try reflexivity. now apply assoc_last_kw.
  - exists NF8. split; auto. assert (Etyp : typ_of es c = S_DOUBLE ++ arr_suffix c) by (apply typ_of_simple; [unfold ctype_word; now rewrite Et|now rewrite Et]). rewrite Etyp in *.
    apply col_dtype_kw; auto; try reflexivity. now apply assoc_last_kw.
  - (* char / enum *)
    destruct (enum_for (c_name c) es) as [e|] eqn:Ee.
    + pose proof (enum_for_In _ _ _ Ee) as Hin. pose proof (Hnames e Hin) as Hw. pose proof (upper_word _ Hw) as Hu.
      eexists; split; [reflexivity|].
      assert (Etyp : typ_of es c = upper (e_tname e) ++ arr_suffix c) by (apply typ_of_simple; [unfold ctype_word; now rewrite Et, Ee|now rewrite Et, Ee]). rewrite Etyp in *.
      unfold col_dtype. rewrite basetype_app; [|now apply word_mem|apply arr_suffix_head].
      rewrite upper_neq_kw by reflexivity. rewrite (assoc_last_distinct es e Hd Hin).
      apply finish_dtype; auto.
      pose proof (array_length_typ (upper (e_tname e)) c []) as AL. rewrite app_nil_r in AL. apply AL; auto; now apply word_mem.
    + eexists; split; [reflexivity|].
      assert (Etyp : typ_of es c = S_CHAR ++ arr_suffix c ++ brack w).
      { unfold typ_of, ctype_word. rewrite Et, Ee, decl_suffix_eq, Et, Ee. reflexivity. }
      rewrite Etyp in *. unfold col_dtype.
      rewrite basetype_app; [|reflexivity|destruct (arr_suffix_cases c) as [[_ ->]|[l [_ [_ ->]]]]; reflexivity].
      cbn [beq N.eqb Pos.eqb andb]. rewrite app_assoc. rewrite char_length_typ. rewrite <- app_assoc.
      apply finish_dtype; auto. now apply array_length_typ.
Qed.

(* ---- all columns of a table ---- *)
Lemma sem_col_eq es c : forallb enum_ok es = true -> col_ok c = true ->
  exists k, np_of es c = Some k /\ sem_col es c = Some (mkpcol (c_name c) (typ_of es c) k (c_arr c)).
Proof.
  intros Hes Hc. destruct (col_words es c Hes Hc) as [w [Hw [_ [_ [Ht _]]]]].
  unfold sem_col. rewrite Hw. unfold col_ok in Hc. apply andb_true_iff in Hc as [_ Hty].
  unfold np_of. destruct (c_type c); try discriminate; try (eexists; split; [reflexivity|now rewrite Ht]).
  destruct (enum_for (c_name c) es); eexists; (split; [reflexivity|now rewrite Ht]).
Qed.

Lemma nth_col_some j rows : (forall r, In r rows -> (j < length r)%nat) -> exists vals, nth_col j rows = Some vals.
Proof.
  unfold nth_col. induction rows as [|r rows IH]; intros H; [exists []; reflexivity|].
  destruct IH as [vals Hv]; [intros r' Hr'; apply H; now right|].
  cbn [omap]. destruct (nth_error r j) eqn:E.
  - rewrite Hv. eauto.
  - apply nth_error_None in E. specialize (H r (or_introl eq_refl)). lia.
Qed.

Theorem typed_cols_rendered es : forallb enum_ok es = true -> distinct (map (fun e => upper (e_tname e)) es) = true ->
  forall cols j rows, forallb col_ok cols = true -> (forall r, In r rows -> length r = (j + length cols)%nat) ->
  typed_cols (enums_of es) j (tcols_of es cols) rows = omap (sem_col es) cols.
Proof.
  intros Hes Hd cols. induction cols as [|c cols IH]; intros j rows Hc Hr; [reflexivity|].
  cbn [forallb] in Hc. apply andb_true_iff in Hc as [Hc1 Hc2].
  cbn [tcols_of map typed_cols omap]. fold (tcols_of es cols).
  destruct (nth_col_some j rows) as [vals Hv].
  { intros r Hin. rewrite (Hr r Hin). cbn [length]. lia. }
  rewrite Hv. destruct (col_dtype_rendered es c vals Hes Hd Hc1) as [k [Hk Hdt]]. rewrite Hdt.
  destruct (sem_col_eq es c Hes Hc1) as [k' [Hk' Hs]]. rewrite Hs. rewrite Hk in Hk'. inversion Hk'; subst k'.
  rewrite IH; auto.
  intros r Hin. rewrite (Hr r Hin). cbn [length]. lia.
Qed.

(* ---- the cells survive the conversion ---- *)
Lemma firstn_short {A} n (l : list A) : (length l <= n)%nat -> firstn n l = l.
Proof. apply firstn_all2. Qed.

Lemma maxlen_ge s labels : existsb (beq s) labels = true -> (length s <= maxlen labels)%nat.
Proof.
  induction labels as [|l labels IH]; [discriminate|]. cbn [existsb maxlen fold_right]. intros H.
  apply orb_true_iff in H as [H|H].
  - apply beq_eq in H. subst. lia.
  - specialize (IH H). unfold maxlen in IH. lia.
Qed.

Lemma conv_sval_ok es c inarr v k : np_of es c = Some k -> sval_ok es c inarr v = true -> conv_sval k v = Some v.
Proof.
  unfold np_of, sval_ok. destruct (c_type c) eqn:Et, v as [z|t]; try discriminate; intros Hk H.
  - inversion Hk; subst k. cbn [conv_sval int_range in_range] in *. now rewrite H.
  - inversion Hk; subst k. cbn [conv_sval int_range in_range] in *. now rewrite H.
  - inversion Hk; subst k. cbn [conv_sval int_range in_range] in *. now rewrite H.
  - inversion Hk; subst k. reflexivity.
  - inversion Hk; subst k. reflexivity.
  - apply andb_true_iff in H as [_ H].
    destruct (enum_for (c_name c) es) as [e|]; inversion Hk; subst k; cbn [conv_sval].
    + rewrite firstn_short; auto. rewrite Nnat.Nat2N.id. now apply maxlen_ge.
    + rewrite firstn_short; auto. apply N.leb_le in H. lia.
Qed.

Lemma omap_id {A} (f : A -> option A) l : (forall x, In x l -> f x = Some x) -> omap f l = Some l.
Proof.
  induction l as [|x l IH]; intros H; [reflexivity|]. cbn [omap]. rewrite (H x (or_introl eq_refl)).
  rewrite IH; auto. intros y Hy. apply H. now right.
Qed.

Lemma conv_cell_ok es c x k : np_of es c = Some k -> cell_ok es c x = true -> conv_cell k (c_arr c) x = Some x.
Proof.
  intros Hk. unfold cell_ok. destruct (c_arr c) as [n|], x as [v|l]; try discriminate; intros H; cbn [conv_cell].
  - apply andb_true_iff in H as [H Hl]. apply andb_true_iff in H as [_ Hn]. rewrite Hn.
    rewrite omap_id; [reflexivity|]. intros v Hv. rewrite forallb_forall in Hl. eapply conv_sval_ok; eauto.
  - now rewrite (conv_sval_ok es c false v k Hk H).
Qed.

Lemma conv_row_ok es : forallb enum_ok es = true -> forall cols pcols r, forallb col_ok cols = true ->
  omap (sem_col es) cols = Some pcols -> row_ok es cols r = true -> conv_row pcols r = Some r.
Proof.
  intros Hes cols. induction cols as [|c cols IH]; intros pcols r Hc Hp Hr.
  - inversion Hp; subst. destruct r; [reflexivity|discriminate].
  - cbn [forallb] in Hc. apply andb_true_iff in Hc as [Hc1 Hc2]. cbn [omap] in Hp.
    destruct (sem_col_eq es c Hes Hc1) as [k [Hk Hs]]. rewrite Hs in Hp.
    destruct (omap (sem_col es) cols) as [pc|] eqn:E; [|discriminate]. inversion Hp; subst pcols.
    destruct r as [|x r]; [discriminate|]. cbn [row_ok] in Hr. apply andb_true_iff in Hr as [Hx Hr].
    cbn [conv_row pc_np pc_arr]. rewrite (conv_cell_ok es c x k Hk Hx). now rewrite (IH pc r Hc2 eq_refl Hr).
Qed.

Lemma row_ok_length es cols : forall r, row_ok es cols r = true -> length r = length cols.
Proof.
  induction cols as [|c cols IH]; intros [|x r] H; try discriminate; auto.
  cbn [row_ok] in H. apply andb_true_iff in H as [_ H]. cbn [length]. now rewrite (IH r H).
Qed.

(* a table as the first stage delivers it becomes the table the specification demands *)
Theorem to_table_rendered es t : forallb enum_ok es = true -> distinct (map (fun e => upper (e_tname e)) es) = true ->
  table_ok es t = true ->
  to_table (enums_of es) (mkrtable (upper (t_name t)) (tcols_of es (t_cols t)) (t_rows t)) = sem_table es t.
Proof.
  intros Hes Hd Ht. destruct (table_ok_parts es t Ht) as [_ [Hne [Hc [_ Hrows]]]].
  unfold to_table, sem_table. cbn [rt_cols rt_rows rt_name].
  destruct (tcols_of es (t_cols t)) eqn:E; [destruct (t_cols t); [congruence|discriminate]|]. rewrite <- E.
  assert (Hlen : forall r, In r (t_rows t) -> length r = (0 + length (t_cols t))%nat).
  { intros r Hr. rewrite forallb_forall in Hrows. specialize (Hrows r Hr). apply andb_true_iff in Hrows as [Hr1 _].
    now apply row_ok_length in Hr1. }
  rewrite (typed_cols_rendered es Hes Hd (t_cols t) 0 (t_rows t) Hc Hlen).
  destruct (omap (sem_col es) (t_cols t)) as [pcols|] eqn:P; [|reflexivity].
  cbn [option_map]. rewrite omap_id; [reflexivity|].
  intros r Hr. rewrite forallb_forall in Hrows. specialize (Hrows r Hr). apply andb_true_iff in Hrows as [Hr1 _].
  eapply conv_row_ok; eauto.
Qed.

Lemma omap_enum_entries es : forallb enum_ok es = true ->
  omap enum_entry (map render_enum es) = Some (enums_of es).
Proof.
  induction es as [|e es IH]; [reflexivity|]. cbn [forallb]. intros H. apply andb_true_iff in H as [He Hes].
  cbn [map omap enums_of]. fold (enums_of es). rewrite render_enum_text by auto.
  destruct (enum_ok_parts e He) as [_ [Hn [Hne Hl]]]. destruct (ident_word _ Hn) as [Hn1 Hn2].
  rewrite enum_entry_rendered; auto.
  - now rewrite IH.
  - now apply idents_labels_ok.
  - destruct (e_tname e); [congruence|discriminate].
  - now apply upper_word.
Qed.
