(* Yanny/LayoutFile.v -- layout independence at FILE level for decorations of the canonical file:
   indentation, trailing blanks and trailing comments on every keyword / data line, comment lines and blank
   lines anywhere between the items, CRLF line ends (text-mode read). *)
From Coq Require Import NArith ZArith List Bool Lia.
Import ListNotations.
From PV Require Import Yanny.Bytes Yanny.BytesFacts Yanny.Types Yanny.Parse Yanny.Render
  Yanny.TokenFacts Yanny.RowFacts Yanny.TypeFacts Yanny.DocFacts Yanny.LayoutFacts Yanny.ScanFacts Yanny.StructFacts
  Yanny.EnumFacts Yanny.DtypeFacts Yanny.FileFacts Yanny.RoundTrip.
Open Scope N_scope.

(* blanks and tabs only *)
Definition blank (s : bytes) : bool := forallb (fun c => (c =? SP) || (c =? TAB)) s.
(* text of a comment: printable, no backslash, never the typedef keyword *)
Definition cmt_plain (c : bytes) : bool := forallb printable c && negb (mem BSL c) && no_td c.

Lemma blank_all_ws s : blank s = true -> all_ws s = true.
Proof. apply forallb_impl. intros x Hx. apply orb_true_iff in Hx as [H|H]; apply N.eqb_eq in H; subst; reflexivity. Qed.
Lemma blank_printable s : blank s = true -> forallb printable s = true.
Proof. apply forallb_impl. intros x Hx. apply orb_true_iff in Hx as [H|H]; apply N.eqb_eq in H; subst; reflexivity. Qed.
Lemma blank_no_bsl s : blank s = true -> mem BSL s = false.
Proof.
  intros H. apply mem_false_forallb. eapply forallb_impl; [|exact H]. intros x Hx.
  apply orb_true_iff in Hx as [E|E]; apply N.eqb_eq in E; subst; reflexivity.
Qed.
Lemma blank_no_td s r : blank s = true -> no_td r = true -> no_td (s ++ r) = true.
Proof.
  induction s as [|c s IH]; intros H Hr; [exact Hr|]. cbn [blank forallb] in H. apply andb_true_iff in H as [Hc Hs].
  cbn [app]. apply no_td_cons; [|now apply IH]. apply orb_true_iff in Hc as [E|E]; apply N.eqb_eq in E; subst; reflexivity.
Qed.

Lemma no_td_prefix a c : no_td (a ++ [c]) = true -> no_td a = true.
Proof.
  unfold no_td. rewrite !negb_true_iff. induction a as [|y a IH]; intros H; [reflexivity|].
  cbn [app] in H. rewrite contains_cons in *. apply orb_false_iff in H as [H1 H2]. rewrite IH by auto. rewrite orb_false_r.
  unfold starts_with in *. destruct (prefix KW_TYPEDEF (y :: a)) eqn:E; auto.
  apply prefix_spec in E. change (y :: a ++ [c]) with ((y :: a) ++ [c]) in H1. rewrite E in H1.
  rewrite <- app_assoc in H1. now rewrite prefix_app in H1.
Qed.

(* a continuation-safe line stays safe whatever follows it on the same line *)
Lemma cont_okb_extend L : cont_okb (L ++ [NL]) = true -> mem NL L = false ->
  forall S, cont_okb S = true -> cont_okb (L ++ S) = true.
Proof.
  induction L as [|c L IH]; intros H Hn S HS; [exact HS|]. apply mem_cons_false in Hn as [Hc Hn].
  cbn [app cont_okb] in *. apply andb_true_iff in H as [H1 H2]. rewrite IH by auto. rewrite andb_true_r.
  destruct (c =? BSL); [|reflexivity]. cbn [negb orb] in *.
  (* the blank run after the backslash ends inside L *)
  unfold run_ok in *. destruct (span is_ws L) as [p q] eqn:E. destruct (span_spec _ _ _ _ E) as [EL [Hp Hq]].
  destruct q as [|x q].
  - exfalso. rewrite app_nil_r in EL. subst p. rewrite span_all in H1.
    + cbn [fst snd] in H1. discriminate.
    + rewrite forallb_app, Hp. reflexivity.
  - subst L. rewrite <- app_assoc. cbn [app]. rewrite span_app_stop by auto. cbn [fst snd].
    rewrite mem_app in Hn. apply orb_false_iff in Hn as [Hn _]. now rewrite Hn.
Qed.

Definition tail_text (cmt : option bytes) : bytes := match cmt with Some c => HASH :: c | None => [] end.

(* a decorated core line is again a good item *)
Lemma decorated_line_good lead L w cmt : item_good (ILine L) -> L <> [] ->
  blank lead = true -> blank w = true -> match cmt with Some c => cmt_plain c = true | None => True end ->
  item_good (ILine (lead ++ L ++ w ++ tail_text cmt)).
Proof.
  intros [[HT HN] [HX HC]] Hne Hl Hw Hc. cbn [item_text] in *.
  assert (PL : forallb printable L = true).
  { rewrite forallb_app in HX. apply andb_true_iff in HX as [HX _]. rewrite forallb_forall in *. intros x Hx.
    specialize (HX x Hx). unfold textch in HX. apply orb_true_iff in HX as [H|H]; auto. apply N.eqb_eq in H. subst x.
    exfalso. assert (mem NL L = true) by (unfold mem; apply existsb_exists; exists NL; split; auto). congruence. }
  assert (PT : forallb printable (tail_text cmt) = true /\ mem BSL (tail_text cmt) = false /\ no_td (tail_text cmt ++ [NL]) = true).
  { destruct cmt as [c|]; cbn [tail_text]; [|repeat split; reflexivity].
    apply andb_true_iff in Hc as [Hc H3]. apply andb_true_iff in Hc as [H1 H2]. apply negb_true_iff in H2. repeat split.
    - cbn [forallb]. exact H1.
    - unfold mem in *. cbn [existsb]. exact H2.
    - cbn [app]. apply no_td_cons; [reflexivity|]. now apply no_td_end. }
  destruct PT as [P1 [P2 P3]].
  assert (PW : forallb printable (lead ++ L ++ w ++ tail_text cmt) = true).
  { rewrite !forallb_app, (blank_printable _ Hl), PL, (blank_printable _ Hw), P1. reflexivity. }
  repeat split.
  - (* no typedef *)
    rewrite <- !app_assoc. apply blank_no_td; auto.
    assert (TL : no_td L = true) by (now apply (no_td_prefix L NL)).
    (* L is followed by a separator in every case *)
    destruct w as [|x w].
    + cbn [app]. destruct cmt as [c|]; cbn [tail_text app] in *.
      * apply no_td_sep; auto.
      * exact HT.
    + cbn [app]. cbn [blank forallb] in Hw. apply andb_true_iff in Hw as [Hx Hw].
      apply no_td_sep; auto.
      * apply orb_true_iff in Hx as [E|E]; apply N.eqb_eq in E; subst; reflexivity.
      * now apply blank_no_td.
  - now apply printable_no_nl.
  - cbn [item_text]. rewrite forallb_app, (printable_textch _ PW). reflexivity.
  - cbn [item_text]. rewrite <- !app_assoc. apply cont_okb_app; [apply cont_okb_nobsl; now apply blank_no_bsl|].
    apply cont_okb_extend; auto. apply cont_okb_nobsl. rewrite !mem_app, (blank_no_bsl _ Hw), P2. reflexivity.
Qed.

(* ---------------------------------------------------------------- decorated item lists *)
Inductive decorates_items : list item -> list item -> Prop :=
  | di_nil : decorates_items [] []
  | di_same i Ds Is : decorates_items Ds Is -> decorates_items (i :: Ds) (i :: Is)
  | di_skip l Ds Is :
      (* an inserted blank line or comment line *)
      (blank l = true \/ exists lead c, l = lead ++ HASH :: c /\ blank lead = true /\ cmt_plain c = true) ->
      decorates_items Ds Is -> decorates_items (ILine l :: Ds) Is
  | di_line lead L w cmt Ds Is :
      core_line L -> blank lead = true -> blank w = true ->
      match cmt with Some c => cmt_plain c = true /\ comment_text_ok c = true | None => True end ->
      decorates_items Ds Is -> decorates_items (ILine (lead ++ L ++ w ++ tail_text cmt) :: Ds) (ILine L :: Is).

Lemma inserted_line_good l :
  (blank l = true \/ exists lead c, l = lead ++ HASH :: c /\ blank lead = true /\ cmt_plain c = true) ->
  item_good (ILine l) /\ (all_ws l = true \/ starts_with [HASH] (lstrip l) = true).
Proof.
  intros [Hb|[lead [c [-> [Hl Hc]]]]].
  - split; [|left; now apply blank_all_ws]. apply line_good; [now apply blank_printable| |right; now apply blank_no_bsl].
    rewrite <- (app_nil_r l) at 1. rewrite <- app_assoc. now apply blank_no_td.
  - apply andb_true_iff in Hc as [Hc H3]. apply andb_true_iff in Hc as [H1 H2]. apply negb_true_iff in H2. split.
    + apply line_good.
      * rewrite forallb_app, (blank_printable _ Hl). cbn [forallb]. exact H1.
      * rewrite <- app_assoc. apply blank_no_td; auto. cbn [app]. apply no_td_cons; [reflexivity|]. now apply no_td_end.
      * right. rewrite mem_app, (blank_no_bsl _ Hl). unfold mem in *. cbn [existsb]. exact H2.
    + right. rewrite lstrip_ws_app_id; [reflexivity|now apply blank_all_ws|reflexivity].
Qed.

Theorem decorated_items_facts Ds Is : decorates_items Ds Is -> Forall item_good Is ->
  Forall item_good Ds /\
  (forall kw, filter (item_is_td kw) Ds = filter (item_is_td kw) Is) /\
  decorates (map item_line Ds) (map item_line Is).
Proof.
  induction 1 as [|i Ds Is _ IH|l Ds Is Hl _ IH|lead L w cmt Ds Is Hc Hlead Hw Hcmt _ IH]; intros Hg.
  - repeat split; constructor.
  - inversion Hg; subst. destruct (IH H2) as [G [F D]]. repeat split.
    + constructor; auto.
    + intros kw. cbn [filter]. rewrite F. reflexivity.
    + cbn [map]. now apply dec_same.
  - destruct (IH Hg) as [G [F D]]. destruct (inserted_line_good l Hl) as [G1 S1]. repeat split.
    + constructor; auto.
    + intros kw. cbn [filter item_is_td]. apply F.
    + cbn [map item_line]. now apply dec_skip.
  - inversion Hg; subst. destruct (IH H2) as [G [F D]]. repeat split.
    + constructor; auto. apply decorated_line_good; auto.
      * destruct Hc as [Hne _]. exact Hne.
      * destruct cmt; auto. now destruct Hcmt.
    + intros kw. cbn [filter item_is_td]. apply F.
    + cbn [map item_line].
      replace (lead ++ L ++ w ++ tail_text cmt) with (lead ++ L ++ w ++ tail_of cmt false).
      * apply dec_line; auto; [now apply blank_all_ws|now apply blank_all_ws|]. destruct cmt; auto. now destruct Hcmt.
      * unfold tail_of, tail_text. now rewrite app_nil_r.
Qed.

Lemma decorates_snoc Ds Ls l : decorates Ds Ls -> decorates (Ds ++ [l]) (Ls ++ [l]).
Proof.
  induction 1; cbn [app].
  - apply dec_same. constructor.
  - now apply dec_same.
  - now apply dec_skip.
  - now apply dec_line.
Qed.

(* ---------------------------------------------------------------- the theorem *)
Theorem layout_file_independence d tws Ds : doc_ok d = true -> map fst tws = d_tables d -> tws_ok (d_enums d) tws ->
  decorates_items Ds (items_of d tws) ->
  exists p, sem d = Some p /\ parse (items_text Ds) = Some p /\ parse_binary (items_text Ds) = Some p.
Proof.
  intros Hd Et Hok HD. destruct (doc_ok_parts d Hd) as [_ [_ [_ [_ [Hes _]]]]].
  pose proof (items_all_good d tws Hd Et Hok) as Hg.
  destruct (decorated_items_facts _ _ HD Hg) as [G [F D]].
  destruct (canonical_line_loop d tws Hd Et Hok) as [st' [PL LR]].
  apply (parse_items d tws Ds st'); auto.
  - intros E. subst Ds. inversion HD.
  - rewrite F. apply items_structs.
  - rewrite F. now apply items_enums.
  - rewrite <- PL. apply decorated_lines_same_state. now apply decorates_snoc.
Qed.

(* CRLF line ends, text-mode read *)
Fixpoint crlf (s : bytes) : bytes :=
  match s with [] => [] | c :: s' => if c =? NL then CR :: NL :: crlf s' else c :: crlf s' end.

Lemma univ_nl_crlf_all s : mem CR s = false -> univ_nl (crlf s) = s.
Proof.
  induction s as [|c s IH]; intros H; [reflexivity|]. apply mem_cons_false in H as [Hc Hs]. cbn [crlf].
  destruct (c =? NL) eqn:E.
  - apply N.eqb_eq in E. subst c. cbn [univ_nl]. change (CR =? CR) with true. cbv iota. change (NL =? NL) with true. cbv iota.
    now rewrite IH.
  - cbn [univ_nl]. rewrite Hc. now rewrite IH.
Qed.

Theorem crlf_file_independence s : mem CR s = false -> parse (crlf s) = parse s.
Proof. intros H. unfold parse. rewrite univ_nl_crlf_all by auto. now rewrite univ_nl_id. Qed.

(* ---------------------------------------------------------------- composition principle *)
(* ANY text made of well-formed items that carries the document's typedef blocks and whose lines drive the
   line loop exactly as the canonical lines do is read as the document.  Every line-level freedom (case of the
   row name, interleaving, quote forms, blank runs ...) composes to file level through this statement. *)
Theorem layout_composition d tws Ds : doc_ok d = true -> map fst tws = d_tables d -> tws_ok (d_enums d) tws ->
  Forall item_good Ds -> Ds <> [] ->
  (forall kw, filter (item_is_td kw) Ds = filter (item_is_td kw) (items_of d tws)) ->
  (forall st, process_lines (sy_of (d_enums d) tws) st (map item_line Ds)
              = process_lines (sy_of (d_enums d) tws) st (map item_line (items_of d tws))) ->
  exists p, sem d = Some p /\ parse (items_text Ds) = Some p /\ parse_binary (items_text Ds) = Some p.
Proof.
  intros Hd Et Hok G Hne F E. destruct (doc_ok_parts d Hd) as [_ [_ [_ [_ [Hes _]]]]].
  destruct (canonical_line_loop d tws Hd Et Hok) as [st' [PL LR]].
  apply (parse_items d tws Ds st'); auto.
  - rewrite F. apply items_structs.
  - rewrite F. now apply items_enums.
  - rewrite <- PL. rewrite !process_lines_app. now rewrite E.
Qed.
