(* C15: all proofs (re-exported); see Chi2Proofs, HmfProofs, HmfProofs2, HmfProofs3, GenProofs, GenTheorems, SpectralProofs, CompleteProofs, Round5Proofs (and C13/LinAlgProofs). *)
From PV Require Export C13.LinAlgProofs C15.Chi2Proofs C15.HmfProofs C15.HmfProofs2 C15.HmfProofs3 C15.GenProofs C15.GenTheorems C15.SpectralProofs C15.CompleteProofs C15.Round5Proofs.
