(* C14 proofs, part 1: list/index lemmas and smooth.
   The statements about `smooth` are statements about the GENERATED index arithmetic
   (Generated/Smooth.v), so they are re-checked against pydl/smooth.py on every run. *)
From Coq Require Import ZArith QArith Qround Qabs List Bool Lia Lqa.
Import ListNotations.
From PV Require Import Generated.Smooth C14.Model.
Open Scope Z_scope.
Ltac Zify.zify_post_hook ::= Z.to_euclidean_division_equations.

(* ------------------------------------------------------------------ lists *)

Lemma map_seq_shift {A} (f : nat -> A) a n : map f (seq a n) = map (fun k => f (a + k)%nat) (seq 0 n).
Proof.
  revert a. induction n; intros a; simpl; [reflexivity|].
  rewrite Nat.add_0_r. f_equal. rewrite IHn. rewrite <- seq_shift, map_map.
  apply map_ext. intros k. f_equal. lia.
Qed.

Lemma map_seq_app {A} (f : nat -> A) a b :
  map f (seq 0 (a + b)) = map f (seq 0 a) ++ map (fun k => f (a + k)%nat) (seq 0 b).
Proof. rewrite seq_app, map_app. f_equal. apply map_seq_shift. Qed.

Lemma firstn_nth {A} (d : A) l : forall cnt, (cnt <= length l)%nat ->
  firstn cnt l = map (fun k => nth k l d) (seq 0 cnt).
Proof.
  induction l; intros [|c] H; simpl in *; try reflexivity; try lia.
  f_equal. rewrite IHl by lia. rewrite <- seq_shift, map_map. reflexivity.
Qed.

Lemma firstn_skipn_nth {A} (d : A) (l : list A) cnt : forall a,
  (a + cnt <= length l)%nat -> firstn cnt (skipn a l) = map (fun k => nth (a + k) l d) (seq 0 cnt).
Proof.
  induction l; intros [|a'] H.
  - simpl in H. assert (cnt = 0%nat) by lia. subst. reflexivity.
  - simpl in H. lia.
  - cbn [skipn]. apply firstn_nth. simpl in *. lia.
  - cbn [skipn]. rewrite IHl by (simpl in H; lia). reflexivity.
Qed.

Lemma nth_error_map_seq {A} (f : nat -> A) n k : (k < n)%nat -> nth_error (map f (seq 0 n)) k = Some (f k).
Proof.
  intros H. apply map_nth_error. rewrite nth_error_nth' with (d := 0%nat) by (rewrite seq_length; lia).
  rewrite seq_nth by lia. reflexivity.
Qed.

Lemma Forall2_map_seq {A B} (R : A -> B -> Prop) (f : nat -> A) (g : nat -> B) n :
  (forall k, (k < n)%nat -> R (f k) (g k)) -> Forall2 R (map f (seq 0 n)) (map g (seq 0 n)).
Proof.
  intros H. assert (G : forall a m, (a + m <= n)%nat -> Forall2 R (map f (seq a m)) (map g (seq a m))).
  { intros a m. revert a. induction m; intros a Hm; simpl; constructor.
    - apply H. lia.
    - apply IHm. lia. }
  apply G. lia.
Qed.

Lemma Forall2_nth_error {A B} (R : A -> B -> Prop) l1 l2 k b :
  Forall2 R l1 l2 -> nth_error l2 k = Some b -> exists a, nth_error l1 k = Some a /\ R a b.
Proof.
  intros F. revert k. induction F; intros [|k] E; simpl in *; try discriminate.
  - inversion E; subst. eauto.
  - eauto.
Qed.

(* ------------------------------------------------------------------ sums over Q *)

Lemma sumQ_app a b : sumQ (a ++ b) == sumQ a + sumQ b.
Proof. induction a; simpl; [ring|]. rewrite IHa. ring. Qed.

Lemma sumQ_const (c : Q) n : sumQ (map (fun _ : nat => c) (seq 0 n)) == inject_Z (Z.of_nat n) * c.
Proof.
  assert (G : forall a, sumQ (map (fun _ : nat => c) (seq a n)) == inject_Z (Z.of_nat n) * c).
  { induction n; intros a.
    - simpl. ring.
    - cbn [seq map sumQ fold_right]. fold (sumQ (map (fun _ : nat => c) (seq (S a) n))). rewrite IHn.
      rewrite Nat2Z.inj_succ. unfold Z.succ. rewrite inject_Z_plus. ring. }
  apply G.
Qed.

(* ------------------------------------------------------------------ windows and slices *)

Lemma getQ_nth xs j : 0 <= j -> getQ xs j = nth (Z.to_nat j) xs 0%Q.
Proof. intros H. unfold getQ. destruct (j <? 0) eqn:E; [lia|reflexivity]. Qed.

Lemma pyslice_window xs a b : 0 <= a <= b -> b <= lenZ xs -> pyslice xs a b = window xs a (Z.to_nat (b - a)).
Proof.
  intros H1 H2. unfold pyslice, window, slice_norm, lenZ in *.
  destruct (a <? 0) eqn:Ea; [lia|]. destruct (b <? 0) eqn:Eb; [lia|].
  rewrite !Z.min_l by lia.
  rewrite (firstn_skipn_nth 0%Q) by lia.
  apply map_ext. intros k. rewrite getQ_nth by lia. f_equal. lia.
Qed.

Lemma window_app xs lo c1 c2 : window xs lo (c1 + c2) = window xs lo c1 ++ window xs (lo + Z.of_nat c1) c2.
Proof.
  unfold window. rewrite map_seq_app. f_equal. apply map_ext. intros k. f_equal. lia.
Qed.

Lemma cwindow_app xs lo c1 c2 : cwindow xs lo (c1 + c2) = cwindow xs lo c1 ++ cwindow xs (lo + Z.of_nat c1) c2.
Proof.
  unfold cwindow. rewrite map_seq_app. f_equal. apply map_ext. intros k. do 2 f_equal. lia.
Qed.

Lemma map_seq_ext {A} (f g : nat -> A) n : (forall k, (k < n)%nat -> f k = g k) -> map f (seq 0 n) = map g (seq 0 n).
Proof. intros H. apply map_ext_in. intros k Hk. apply in_seq in Hk. apply H. lia. Qed.

Lemma cwindow_inside xs lo cnt : 0 <= lo -> lo + Z.of_nat cnt <= lenZ xs -> cwindow xs lo cnt = window xs lo cnt.
Proof.
  intros H1 H2. unfold cwindow, window. apply map_seq_ext. intros k Hk. f_equal. unfold clampZ. lia.
Qed.

Lemma cwindow_below xs lo cnt : 1 <= lenZ xs -> lo + Z.of_nat cnt <= 1 ->
  cwindow xs lo cnt = map (fun _ => getQ xs 0) (seq 0 cnt).
Proof.
  intros H1 H2. unfold cwindow. apply map_seq_ext. intros k Hk. f_equal. unfold clampZ. lia.
Qed.

Lemma cwindow_above xs lo cnt : 1 <= lenZ xs -> lenZ xs - 1 <= lo ->
  cwindow xs lo cnt = map (fun _ => getQ xs (lenZ xs - 1)) (seq 0 cnt).
Proof.
  intros H1 H2. unfold cwindow. apply map_seq_ext. intros k Hk. f_equal. unfold clampZ. lia.
Qed.

(* ================================================================== smooth *)

Lemma boxcar_interior xs h i : 0 <= h -> h <= i -> i <= lenZ xs - 1 - h -> boxcar xs h i = window_mean xs h i.
Proof.
  intros H0 H1 H2. unfold boxcar, window_mean. rewrite cwindow_inside by lia. reflexivity.
Qed.

Lemma smooth_mid_branch xs h i a b w : 0 <= h -> h <= i -> i <= lenZ xs - 1 - h ->
  a = i - h -> b = i + h + 1 -> w = 2 * h + 1 ->
  (sumQ (pyslice xs a b) / inject_Z w)%Q = window_mean xs h i.
Proof.
  intros H0 H1 H2 -> -> ->. unfold window_mean. rewrite pyslice_window by lia.
  replace (i + h + 1 - (i - h)) with (2 * h + 1) by lia. reflexivity.
Qed.

Lemma smooth_lo_branch xs h i a b m e w : 1 <= h -> 2 * h <= lenZ xs -> 0 <= i < h ->
  a = 0 -> b = h + i + 1 -> m = h - i -> e = 0 -> w = 2 * h + 1 ->
  (sumQ (pyslice xs a b) + inject_Z m * pygetQ xs e) / inject_Z w == boxcar xs h i.
Proof.
  intros H0 H1 H2 -> -> -> -> ->. unfold boxcar.
  replace (Z.to_nat (2 * h + 1)) with (Z.to_nat (h - i) + Z.to_nat (h + i + 1))%nat by lia.
  rewrite cwindow_app, sumQ_app. rewrite cwindow_below by lia. rewrite sumQ_const.
  rewrite cwindow_inside by lia. rewrite pyslice_window by lia.
  replace (i - h + Z.of_nat (Z.to_nat (h - i))) with 0 by lia.
  replace (h + i + 1 - 0) with (h + i + 1) by lia.
  rewrite Z2Nat.id by lia. unfold pygetQ. cbn [Z.ltb Z.compare].
  apply Qdiv_comp; [ring|reflexivity].
Qed.

Lemma smooth_hi_branch xs h i a b m e w : 1 <= h -> 2 * h <= lenZ xs -> lenZ xs - 1 - h < i < lenZ xs ->
  a = i - h -> b = lenZ xs -> m = i - (lenZ xs - (h + 1)) -> e = lenZ xs - 1 -> w = 2 * h + 1 ->
  (sumQ (pyslice xs a b) + inject_Z m * pygetQ xs e) / inject_Z w == boxcar xs h i.
Proof.
  intros H0 H1 H2 -> -> -> -> ->. unfold boxcar.
  replace (Z.to_nat (2 * h + 1)) with (Z.to_nat (lenZ xs - (i - h)) + Z.to_nat (i - (lenZ xs - (h + 1))))%nat by lia.
  rewrite cwindow_app, sumQ_app. rewrite cwindow_inside by lia. rewrite cwindow_above by lia. rewrite sumQ_const.
  rewrite pyslice_window by lia.
  rewrite Z2Nat.id by lia. unfold pygetQ. destruct (lenZ xs - 1 <? 0) eqn:E; [lia|].
  apply Qdiv_comp; [ring|reflexivity].
Qed.

Lemma smooth_width_odd ow : smooth_width ow = odd_width ow.
Proof. unfold smooth_width, odd_width. rewrite Zmod_even. destruct (Z.even ow); reflexivity. Qed.

Lemma smooth_width_mod2 ow : smooth_width ow mod 2 = 1.
Proof. unfold smooth_width. destruct (ow mod 2 =? 0) eqn:E; lia. Qed.

Lemma Forall2_Qeq_refl l : Forall2 Qeq l l.
Proof. induction l; constructor; [reflexivity|assumption]. Qed.

Ltac unfold_smooth_generated :=
  unfold smooth_in_lo, smooth_in_hi, smooth_lo_a, smooth_lo_b, smooth_lo_mult, smooth_lo_edge,
         smooth_hi_a, smooth_hi_b, smooth_hi_mult, smooth_hi_edge, smooth_mid_a, smooth_mid_b,
         smooth_istart, smooth_iend, smooth_w2 in *.

(* M = S for every array, every width without edge_truncate, and every width with width - 1 <= n
   with edge_truncate *)
Theorem smooth_refines_spec xs ow et :
  et = false \/ smooth_width ow - 1 <= lenZ xs ->
  Forall2 Qeq (smooth xs ow et) (smooth_spec xs ow et).
Proof.
  intros D. unfold smooth, smooth_spec. rewrite <- smooth_width_odd. unfold smooth_returns_input.
  pose proof (smooth_width_mod2 ow) as Hodd. set (w := smooth_width ow) in *.
  destruct (w <? 3) eqn:E3; [apply Forall2_Qeq_refl|].
  apply Forall2_map_seq. intros k Hk. cbv zeta.
  set (h := w / 2). assert (Hw : w = 2 * h + 1) by lia. assert (Hh : 1 <= h) by lia.
  set (i := Z.of_nat k). assert (Hi : 0 <= i < lenZ xs) by (unfold lenZ; lia).
  unfold_smooth_generated. unfold interior.
  destruct (i <? Z.quot (w - 1) 2) eqn:Elo.
  - (* low edge *)
    replace ((h <=? i) && (i <=? lenZ xs - 1 - h)) with false by lia.
    destruct et; [|reflexivity].
    apply smooth_lo_branch; lia.
  - destruct (i >? lenZ xs - Z.quot (w + 1) 2) eqn:Ehi.
    + (* high edge *)
      replace ((h <=? i) && (i <=? lenZ xs - 1 - h)) with false by lia.
      destruct et; [|reflexivity].
      apply smooth_hi_branch; lia.
    + (* interior *)
      replace ((h <=? i) && (i <=? lenZ xs - 1 - h)) with true by lia.
      rewrite (smooth_mid_branch xs h i) by lia. reflexivity.
Qed.

Lemma getQ_nth_error xs j : 0 <= j < lenZ xs -> nth_error xs (Z.to_nat j) = Some (getQ xs j).
Proof.
  intros H. rewrite getQ_nth by lia. apply nth_error_nth'. unfold lenZ in H. lia.
Qed.

(* the specification's windows only ever read genuine elements of the array *)
Lemma window_reads_array xs lo cnt k : 0 <= lo -> lo + Z.of_nat cnt <= lenZ xs -> (k < cnt)%nat ->
  nth_error (window xs lo cnt) k = nth_error xs (Z.to_nat (lo + Z.of_nat k)).
Proof.
  intros H1 H2 H3. unfold window. rewrite nth_error_map_seq by assumption.
  symmetry. apply getQ_nth_error. lia.
Qed.

Lemma cwindow_reads_array xs lo cnt k : 1 <= lenZ xs -> (k < cnt)%nat ->
  nth_error (cwindow xs lo cnt) k = nth_error xs (Z.to_nat (clampZ (lenZ xs) (lo + Z.of_nat k))) /\
  0 <= clampZ (lenZ xs) (lo + Z.of_nat k) < lenZ xs.
Proof.
  intros H1 H3. unfold cwindow. rewrite nth_error_map_seq by assumption.
  assert (0 <= clampZ (lenZ xs) (lo + Z.of_nat k) < lenZ xs) by (unfold clampZ; lia).
  split; [|assumption]. symmetry. apply getQ_nth_error. assumption.
Qed.

Lemma smooth_spec_nth xs ow et k : 3 <= odd_width ow -> (k < length xs)%nat ->
  nth_error (smooth_spec xs ow et) k =
  Some (let h := odd_width ow / 2 in let i := Z.of_nat k in
        if interior (lenZ xs) h i then window_mean xs h i
        else if et then boxcar xs h i else getQ xs i).
Proof.
  intros H3 Hk. unfold smooth_spec. destruct (odd_width ow <? 3) eqn:E; [lia|].
  rewrite nth_error_map_seq by assumption. reflexivity.
Qed.

Theorem smooth_interior xs ow et k :
  let h := odd_width ow / 2 in
  3 <= odd_width ow -> h <= Z.of_nat k <= lenZ xs - 1 - h ->
  exists v, nth_error (smooth xs ow et) k = Some v /\ v == window_mean xs h (Z.of_nat k).
Proof.
  intros h H3 Hi. pose proof (smooth_width_mod2 ow) as Hodd. rewrite smooth_width_odd in Hodd.
  assert (D : et = false \/ smooth_width ow - 1 <= lenZ xs) by (right; rewrite smooth_width_odd; subst h; lia).
  apply (Forall2_nth_error Qeq _ _ k (window_mean xs h (Z.of_nat k)) (smooth_refines_spec xs ow et D)).
  rewrite smooth_spec_nth by (unfold lenZ in *; lia). cbv zeta. fold h.
  unfold interior. replace ((h <=? Z.of_nat k) && (Z.of_nat k <=? lenZ xs - 1 - h)) with true by lia. reflexivity.
Qed.

Theorem smooth_edges_untouched xs ow k :
  let h := odd_width ow / 2 in
  (k < length xs)%nat -> (Z.of_nat k < h \/ lenZ xs - 1 - h < Z.of_nat k) ->
  nth_error (smooth xs ow false) k = nth_error xs k.
Proof.
  intros h Hk He. unfold smooth. rewrite smooth_width_odd. unfold smooth_returns_input.
  pose proof (smooth_width_mod2 ow) as Hodd. rewrite smooth_width_odd in Hodd.
  set (w := odd_width ow) in *. destruct (w <? 3) eqn:E3; [reflexivity|].
  rewrite nth_error_map_seq by assumption. cbv zeta. unfold_smooth_generated.
  assert (G : getQ xs (Z.of_nat k) = nth k xs 0%Q) by (rewrite getQ_nth by lia; f_equal; lia).
  rewrite (nth_error_nth' xs 0%Q Hk).
  destruct (Z.of_nat k <? Z.quot (w - 1) 2) eqn:Elo; [congruence|].
  destruct (Z.of_nat k >? lenZ xs - Z.quot (w + 1) 2) eqn:Ehi; [congruence|].
  exfalso. subst h. lia.
Qed.

Theorem smooth_edge_truncate xs ow k :
  let h := odd_width ow / 2 in
  3 <= odd_width ow -> odd_width ow - 1 <= lenZ xs -> (k < length xs)%nat ->
  exists v, nth_error (smooth xs ow true) k = Some v /\ v == boxcar xs h (Z.of_nat k).
Proof.
  intros h H3 Hw Hk.
  assert (D : true = false \/ smooth_width ow - 1 <= lenZ xs) by (right; rewrite smooth_width_odd; lia).
  apply (Forall2_nth_error Qeq _ _ k (boxcar xs h (Z.of_nat k)) (smooth_refines_spec xs ow true D)).
  rewrite smooth_spec_nth by assumption. cbv zeta. fold h.
  destruct (interior (lenZ xs) h (Z.of_nat k)) eqn:E; [|reflexivity].
  unfold interior in E. rewrite boxcar_interior by lia. reflexivity.
Qed.

Theorem smooth_even_width_made_odd xs ow et : Z.even ow = true -> smooth xs ow et = smooth xs (ow + 1) et.
Proof.
  intros H. unfold smooth. replace (smooth_width (ow + 1)) with (smooth_width ow); [reflexivity|].
  rewrite !smooth_width_odd. unfold odd_width. rewrite H. rewrite Z.even_add. rewrite H. reflexivity.
Qed.

Theorem smooth_narrow_identity xs ow et : smooth_width ow < 3 -> smooth xs ow et = xs.
Proof.
  intros H. unfold smooth. replace (smooth_returns_input (smooth_width ow)) with true; [reflexivity|].
  unfold smooth_returns_input. symmetry. apply Z.ltb_lt. exact H.
Qed.

Theorem smooth_length xs ow et : length (smooth xs ow et) = length xs.
Proof.
  unfold smooth. destruct (smooth_returns_input (smooth_width ow)); [reflexivity|].
  rewrite map_length, seq_length. reflexivity.
Qed.
