(* placeholder; replaced below *)
From PV Require Import C01.Model.
