"""C14 extractor: the index arithmetic of pydl/smooth.py -> coq/Generated/Smooth.v.

Fail-closed.  What is extracted (integer expressions only):
  * the width parity rule           if owidth % 2 == 0: width = owidth + 1 else: width = owidth
  * the identity threshold          if width < 3: return signal
  * istart, iend, w2                int((width-1)/2), n - int((width+1)/2), int(width/2)
  * the loop's branch conditions    i < istart / i > iend
  * for each of the three branches the slice bounds, and for the two edge
    branches the multiplier and the index of the repeated edge sample:
        s[i] = (signal[A:B].sum() + MULT*signal[EDGE])/float(width)
        s[i] = signal[A:B].sum()/float(width)
The arithmetic *shape* of the right-hand sides (sum of a slice, plus multiplier
times one sample, divided by float(width)) is matched structurally; anything
else raises Unrecognised, `recognised` becomes false and the previous
Generated/Smooth.v is kept (the correspondence run then ties model and code).

`int(a/b)` (true division then truncation toward zero) becomes `Z.quot a b`,
which is the same number for |a| < 2^53.
"""
import ast
import os

from . import pyexpr as P

PARAMS = ['i', 'n', 'istart', 'iend', 'w2', 'width']
SIG = '(' + ' '.join(PARAMS) + ' : Z)'

BIN = {ast.Add: 'Z.add', ast.Sub: 'Z.sub', ast.Mult: 'Z.mul', ast.FloorDiv: 'Z.div', ast.Mod: 'Z.modulo'}
CMP = {ast.Lt: 'Z.ltb', ast.LtE: 'Z.leb', ast.Gt: 'Z.gtb', ast.GtE: 'Z.geb', ast.Eq: 'Z.eqb'}


def zexpr(node, env):
    """Integer expression -> Gallina term over Z."""
    if isinstance(node, ast.Constant):
        if isinstance(node.value, int) and not isinstance(node.value, bool):
            return P.zlit(node.value)
        raise P.Unrecognised('constant %r' % (node.value,))
    if isinstance(node, ast.Name):
        if node.id in env:
            return env[node.id]
        raise P.Unrecognised('free name %s' % node.id)
    if isinstance(node, ast.UnaryOp) and isinstance(node.op, ast.USub):
        return '(Z.opp %s)' % zexpr(node.operand, env)
    if isinstance(node, ast.BinOp):
        op = BIN.get(type(node.op))
        if op is None:
            raise P.Unrecognised('operator %s' % type(node.op).__name__)
        return '(%s %s %s)' % (op, zexpr(node.left, env), zexpr(node.right, env))
    if isinstance(node, ast.Call) and isinstance(node.func, ast.Name) and node.func.id == 'int' \
            and len(node.args) == 1 and not node.keywords:
        a = node.args[0]
        if isinstance(a, ast.BinOp) and isinstance(a.op, ast.Div):
            return '(Z.quot %s %s)' % (zexpr(a.left, env), zexpr(a.right, env))
        return zexpr(a, env)
    raise P.Unrecognised('node %s' % type(node).__name__)


def bexpr(node, env):
    if isinstance(node, ast.Compare) and len(node.ops) == 1 and type(node.ops[0]) in CMP:
        return '(%s %s %s)' % (CMP[type(node.ops[0])], zexpr(node.left, env), zexpr(node.comparators[0], env))
    raise P.Unrecognised('condition %s' % ast.dump(node)[:60])


def is_name(n, name):
    return isinstance(n, ast.Name) and n.id == name


def slice_sum(node, env):
    """signal[A:B].sum() -> (A, B)"""
    if not (isinstance(node, ast.Call) and isinstance(node.func, ast.Attribute) and node.func.attr == 'sum'
            and not node.args and not node.keywords):
        raise P.Unrecognised('expected <slice>.sum()')
    sub = node.func.value
    if not (isinstance(sub, ast.Subscript) and is_name(sub.value, 'signal') and isinstance(sub.slice, ast.Slice)
            and sub.slice.step is None and sub.slice.lower is not None and sub.slice.upper is not None):
        raise P.Unrecognised('expected signal[a:b]')
    return zexpr(sub.slice.lower, env), zexpr(sub.slice.upper, env)


def over_width(node):
    """X/float(width) -> X"""
    if not (isinstance(node, ast.BinOp) and isinstance(node.op, ast.Div)):
        raise P.Unrecognised('expected division by float(width)')
    d = node.right
    if not (isinstance(d, ast.Call) and is_name(d.func, 'float') and len(d.args) == 1 and is_name(d.args[0], 'width')):
        raise P.Unrecognised('divisor is not float(width)')
    return node.left


def store_rhs(stmts):
    """[s[i] = RHS] -> RHS"""
    if len(stmts) != 1 or not isinstance(stmts[0], ast.Assign) or len(stmts[0].targets) != 1:
        raise P.Unrecognised('expected a single store s[i] = ...')
    t = stmts[0].targets[0]
    if not (isinstance(t, ast.Subscript) and is_name(t.value, 's') and is_name(t.slice, 'i')):
        raise P.Unrecognised('store target is not s[i]')
    return stmts[0].value


def edge_branch(stmts, env):
    """if edge_truncate: s[i] = (signal[A:B].sum() + MULT*signal[EDGE])/float(width)"""
    if len(stmts) != 1 or not isinstance(stmts[0], ast.If) or not is_name(stmts[0].test, 'edge_truncate') \
            or stmts[0].orelse:
        raise P.Unrecognised('edge branch is not `if edge_truncate:` without else')
    num = over_width(store_rhs(stmts[0].body))
    if not (isinstance(num, ast.BinOp) and isinstance(num.op, ast.Add)):
        raise P.Unrecognised('edge numerator is not a sum')
    a, b = slice_sum(num.left, env)
    m = num.right
    if not (isinstance(m, ast.BinOp) and isinstance(m.op, ast.Mult) and isinstance(m.right, ast.Subscript)
            and is_name(m.right.value, 'signal') and not isinstance(m.right.slice, ast.Slice)):
        raise P.Unrecognised('edge term is not MULT*signal[EDGE]')
    return a, b, zexpr(m.left, env), zexpr(m.right.slice, env)


def assign_of(st, name):
    if isinstance(st, ast.Assign) and len(st.targets) == 1 and is_name(st.targets[0], name):
        return st.value
    return None


def generate(repo):
    info = {'recognised': True, 'detail': []}
    try:
        src = open(os.path.join(repo, 'pydl/smooth.py')).read()
        fn = P.find_function(ast.parse(src), 'smooth')
        body = [s for s in fn.body if not (isinstance(s, ast.Expr) and isinstance(s.value, ast.Constant))]
        env = {p: p for p in PARAMS}
        out = ['(* GENERATED by translate/c14.py from pydl/smooth.py -- do not edit *)',
               'From Coq Require Import ZArith.', 'Open Scope Z_scope.', '']
        # 0: parity rule
        st = body[0]
        if not (isinstance(st, ast.If) and len(st.body) == 1 and len(st.orelse) == 1):
            raise P.Unrecognised('first statement is not the width parity if/else')
        w_then, w_else = assign_of(st.body[0], 'width'), assign_of(st.orelse[0], 'width')
        if w_then is None or w_else is None:
            raise P.Unrecognised('parity branches do not assign width')
        e0 = {'owidth': 'owidth'}
        out.append('(* source line %d *)' % st.lineno)
        out.append('Definition smooth_width (owidth : Z) : Z :=\n  if %s then %s else %s.\n'
                   % (bexpr(st.test, e0), zexpr(w_then, e0), zexpr(w_else, e0)))
        # 1: identity threshold
        st = body[1]
        if not (isinstance(st, ast.If) and len(st.body) == 1 and isinstance(st.body[0], ast.Return)
                and is_name(st.body[0].value, 'signal') and not st.orelse):
            raise P.Unrecognised('second statement is not `if width < 3: return signal`')
        out.append('(* source line %d *)' % st.lineno)
        out.append('Definition smooth_returns_input (width : Z) : bool := %s.\n' % bexpr(st.test, {'width': 'width'}))
        # 2..: n, istart, iend, w2, s = signal.copy(), for
        v = assign_of(body[2], 'n')
        if not (isinstance(v, ast.Attribute) and is_name(v.value, 'signal') and v.attr == 'size'):
            raise P.Unrecognised('n = signal.size expected')
        for k, (name, e) in enumerate([('istart', {'width': 'width'}), ('iend', {'width': 'width', 'n': 'n'}),
                                       ('w2', {'width': 'width'})]):
            v = assign_of(body[3 + k], name)
            if v is None:
                raise P.Unrecognised('%s assignment expected' % name)
            args = 'n width' if name == 'iend' else 'width'
            out.append('(* source line %d *)' % body[3 + k].lineno)
            out.append('Definition smooth_%s (%s : Z) : Z := %s.\n' % (name, args, zexpr(v, e)))
        v = assign_of(body[6], 's')
        if not (isinstance(v, ast.Call) and isinstance(v.func, ast.Attribute) and v.func.attr == 'copy'
                and is_name(v.func.value, 'signal')):
            raise P.Unrecognised('s = signal.copy() expected')
        loop = body[7]
        if not (isinstance(loop, ast.For) and is_name(loop.target, 'i') and isinstance(loop.iter, ast.Call)
                and is_name(loop.iter.func, 'range') and len(loop.iter.args) == 1 and is_name(loop.iter.args[0], 'n')
                and len(loop.body) == 1 and isinstance(loop.body[0], ast.If) and not loop.orelse):
            raise P.Unrecognised('for i in range(n): if ... expected')
        if not (len(body) == 9 and isinstance(body[8], ast.Return) and is_name(body[8].value, 's')):
            raise P.Unrecognised('return s expected after the loop')
        top = loop.body[0]
        if not (len(top.orelse) == 1 and isinstance(top.orelse[0], ast.If)):
            raise P.Unrecognised('if / elif / else expected')
        mid = top.orelse[0]
        out.append('(* source line %d *)' % top.lineno)
        out.append('Definition smooth_in_lo %s : bool := %s.' % (SIG, bexpr(top.test, env)))
        out.append('Definition smooth_in_hi %s : bool := %s.\n' % (SIG, bexpr(mid.test, env)))
        for tag, stmts in (('lo', top.body), ('hi', mid.body)):
            a, b, m, e = edge_branch(stmts, env)
            out.append('(* source line %d *)' % stmts[0].lineno)
            out.append('Definition smooth_%s_a %s : Z := %s.' % (tag, SIG, a))
            out.append('Definition smooth_%s_b %s : Z := %s.' % (tag, SIG, b))
            out.append('Definition smooth_%s_mult %s : Z := %s.' % (tag, SIG, m))
            out.append('Definition smooth_%s_edge %s : Z := %s.\n' % (tag, SIG, e))
        a, b = slice_sum(over_width(store_rhs(mid.orelse)), env)
        out.append('(* source line %d *)' % mid.orelse[0].lineno)
        out.append('Definition smooth_mid_a %s : Z := %s.' % (SIG, a))
        out.append('Definition smooth_mid_b %s : Z := %s.\n' % (SIG, b))
        out.append('Definition smooth_recognised : bool := true.')
    except (P.Unrecognised, SyntaxError, IndexError, OSError) as e:
        info['recognised'] = False
        info['detail'].append('%s: %s' % (type(e).__name__, e))
        return None, info
    return '\n'.join(out) + '\n', info


if __name__ == '__main__':
    import sys
    text, info = generate(sys.argv[1] if len(sys.argv) > 1 else '/repo')
    print(info)
    print(text)
