(* C18 -- a floating-point statement about the REPAIRED small-separation formula of gcirc, in an ABSTRACT rounding model:
   every arithmetic operation and every library call returns  exact_result * (1 + d)  with |d| <= eps, eps = 2^-52
   (binary64 unit roundoff is 2^-53; sin, cos, sqrt, asin are taken as faithful to the same bound).  This is a model of the
   arithmetic, NOT of numpy or of IEEE-754 corner cases (no overflow/underflow/subnormals), and says nothing about the
   original formula, whose differences were taken after rounding.
   Inputs of the model: x = deldec/2 and y = delra/2 carry relative errors <= eps (the differences dec2-dec1, ra2-ra1 of
   nearby doubles are exact, one rounded multiplication converts them to radians, halving is exact); c1, c2 are the exact
   cosines of the declinations, computed with relative error <= eps.
   Result: the computed haversine has relative error <= 12 eps for every separation (|x|, |y| <= PI/2, no full-turn RA
   offsets), and the computed distance 2 asin sqrt h has relative error <= 32 eps for separations up to 90 degrees. *)
From Coq Require Import Reals Lra.
From Interval Require Import Tactic.
Open Scope R_scope.

Definition eps : R := / 4503599627370496.

Lemma abs_le_inv : forall x a, Rabs x <= a -> - a <= x <= a.
Proof. intros x a H. unfold Rabs in H. destruct (Rcase_abs x); lra. Qed.

Lemma sin_lb_poly : forall x, sin_lb x = x - x^3/6 + x^5/120 - x^7/5040.
Proof.
  intro x. unfold sin_lb, sin_approx, sin_term. cbn [sum_f_R0 Nat.mul Nat.add fact INR pow]. simpl. field.
Qed.

Lemma jordan_small : forall x, 0 <= x <= 1/2 -> x <= 8/5 * sin x.
Proof.
  intros x H. assert (P := PI2_3_2).
  assert (L := proj1 (SIN x ltac:(lra) ltac:(lra))). rewrite sin_lb_poly in L.
  assert (0 <= x * (3/5 - 8/5 * (x^2/6 + x^6/5040))) by (apply Rmult_le_pos; [lra | interval with (i_prec 40)]).
  assert (P5 : 0 <= x^5) by (apply pow_le; lra).
  assert (E : 8/5 * (x - x^3/6 + x^5/120 - x^7/5040)
              = x + x * (3/5 - 8/5 * (x^2/6 + x^6/5040)) + 8/5 * (x^5/120)) by field.
  lra.
Qed.

Lemma jordan_pos : forall x, 0 <= x <= 63/40 -> x <= 8/5 * sin x.
Proof.
  intros x H. destruct (Rle_lt_dec x (1/2)) as [S|L]. apply jordan_small; lra.
  assert (0 <= 8/5 * sin x - x) by (interval with (i_bisect x, i_prec 40)). lra.
Qed.

(* |x| <= 8/5 |sin x| on [-63/40, 63/40] (63/40 > PI/2) *)
Lemma jordan : forall x, Rabs x <= 63/40 -> Rabs x <= 8/5 * Rabs (sin x).
Proof.
  intros x H. destruct (Rle_lt_dec 0 x) as [P|N].
  - rewrite Rabs_pos_eq in * by lra. pose proof (jordan_pos x ltac:(lra)) as J.
    rewrite Rabs_pos_eq; lra.
  - rewrite (Rabs_left x) in * by lra. pose proof (jordan_pos (- x) ltac:(lra)) as J.
    rewrite sin_neg in J. rewrite Rabs_left; lra.
Qed.

Lemma abs_sin_le : forall t, Rabs (sin t) <= Rabs t.
Proof.
  intro t. destruct (Rtotal_order t 0) as [N|[->|P]].
  - assert (L := sin_lt_x (- t) ltac:(lra)). rewrite sin_neg in L.
    destruct (Rle_lt_dec (sin t) 0).
    + rewrite !Rabs_left1 by lra. lra.
    + rewrite Rabs_pos_eq, Rabs_left by lra.
      (* sin t > 0 with t < 0: sin t <= 1 and if -t >= ... use bound sin t <= -t via |sin| <= 1 and sin(-t) > t *)
      assert (B := SIN_bound t). destruct (Rle_lt_dec (- t) 1).
      * (* -t in (0,1]: sin(-t) > 0 so sin t < 0, contradiction *)
        assert (0 < sin (- t)) by (apply sin_gt_0; [lra | assert (P := PI2_3_2); lra]).
        rewrite sin_neg in *. lra.
      * lra.
  - rewrite sin_0, Rabs_R0. lra.
  - assert (L := sin_lt_x t P).
    destruct (Rle_lt_dec 0 (sin t)).
    + rewrite !Rabs_pos_eq by lra. lra.
    + rewrite Rabs_left, Rabs_pos_eq by lra.
      assert (B := SIN_bound t). destruct (Rle_lt_dec t 1).
      * assert (0 < sin t) by (apply sin_gt_0; [lra | assert (Q := PI2_3_2); lra]). lra.
      * lra.
Qed.

(* perturbing the argument of sin by a relative eps changes the sine by at most a relative 8/5 eps *)
Lemma sin_pert : forall x d, Rabs x <= 63/40 -> Rabs d <= eps ->
  exists r, sin (x * (1 + d)) = sin x * (1 + r) /\ Rabs r <= 8/5 * eps.
Proof.
  intros x d Hx Hd.
  assert (D : Rabs (sin (x * (1 + d)) - sin x) <= Rabs x * eps).
  { rewrite form4. replace ((x * (1 + d) - x) / 2) with (x * d / 2) by field.
    rewrite !Rabs_mult. rewrite (Rabs_pos_eq 2) by lra.
    pose proof (COS_bound ((x * (1 + d) + x) / 2)) as C.
    assert (C' : Rabs (cos ((x * (1 + d) + x) / 2)) <= 1) by (apply Rabs_le; lra).
    pose proof (abs_sin_le (x * d / 2)) as S.
    assert (E : Rabs (x * d / 2) = Rabs x * Rabs d / 2).
    { unfold Rdiv. rewrite !Rabs_mult, (Rabs_pos_eq (/ 2)) by lra. reflexivity. }
    rewrite E in S. pose proof (Rabs_pos x). pose proof (Rabs_pos d).
    pose proof (Rabs_pos (sin (x * d / 2))). pose proof (Rabs_pos (cos ((x * (1 + d) + x) / 2))).
    nra. }
  pose proof (jordan x Hx) as J.
  destruct (Req_dec (sin x) 0) as [Z|NZ].
  - exists 0. rewrite Z in J. rewrite Rabs_R0 in J.
    assert (X0 : x = 0).
    { destruct (Req_dec x 0) as [E|E]; [exact E | exfalso; pose proof (Rabs_pos_lt x E); lra]. }
    subst x. rewrite Rmult_0_l, sin_0, Rabs_R0. split. ring. unfold eps. lra.
  - exists ((sin (x * (1 + d)) - sin x) / sin x). split. field. exact NZ.
    unfold Rdiv. rewrite Rabs_mult, Rabs_inv.
    assert (P : 0 < Rabs (sin x)) by (apply Rabs_pos_lt; exact NZ).
    apply Rmult_le_reg_r with (Rabs (sin x)). exact P.
    rewrite Rmult_assoc, Rinv_l, Rmult_1_r by lra.
    assert (0 < eps) by (unfold eps; lra). nra.
Qed.

(* accumulated factors, bounded numerically for eps = 2^-52 *)
Lemma factor_A : forall r d1 d3, Rabs r <= 8/5 * eps -> Rabs d1 <= eps -> Rabs d3 <= eps ->
  Rabs ((1 + r) * (1 + r) * ((1 + d1) * (1 + d1)) * (1 + d3) - 1) <= 63/10 * eps.
Proof. unfold eps. intros. interval with (i_prec 200). Qed.

Lemma factor_B : forall r d2 d4 d5 d6 d7 d8, Rabs r <= 8/5 * eps -> Rabs d2 <= eps -> Rabs d4 <= eps ->
  Rabs d5 <= eps -> Rabs d6 <= eps -> Rabs d7 <= eps -> Rabs d8 <= eps ->
  Rabs ((1 + d4) * (1 + d5) * (1 + d6) * ((1 + r) * (1 + r)) * ((1 + d2) * (1 + d2)) * (1 + d7) * (1 + d8) - 1)
  <= 103/10 * eps.
Proof. unfold eps. intros. interval with (i_prec 200). Qed.

(* the haversine as the repaired gcirc computes it, in the rounding model *)
Definition hav_model (x y c1 c2 dx dy d1 d2 d3 d4 d5 d6 d7 d8 d9 : R) : R :=
  let sx := sin (x * (1 + dx)) * (1 + d1) in
  let sy := sin (y * (1 + dy)) * (1 + d2) in
  let A := sx * sx * (1 + d3) in
  let P := (c1 * (1 + d4)) * (c2 * (1 + d5)) * (1 + d6) in
  let B := (P * sy * (1 + d7)) * sy * (1 + d8) in
  (A + B) * (1 + d9).

Definition hav_exact (x y c1 c2 : R) : R := sin x * sin x + c1 * c2 * (sin y * sin y).

Theorem hav_backward_stable : forall x y c1 c2 dx dy d1 d2 d3 d4 d5 d6 d7 d8 d9,
  Rabs x <= PI / 2 -> Rabs y <= PI / 2 -> 0 <= c1 -> 0 <= c2 ->
  Rabs dx <= eps -> Rabs dy <= eps -> Rabs d1 <= eps -> Rabs d2 <= eps -> Rabs d3 <= eps -> Rabs d4 <= eps ->
  Rabs d5 <= eps -> Rabs d6 <= eps -> Rabs d7 <= eps -> Rabs d8 <= eps -> Rabs d9 <= eps ->
  Rabs (hav_model x y c1 c2 dx dy d1 d2 d3 d4 d5 d6 d7 d8 d9 - hav_exact x y c1 c2) <= 12 * eps * hav_exact x y c1 c2.
Proof.
  intros x y c1 c2 dx dy d1 d2 d3 d4 d5 d6 d7 d8 d9 Hx Hy Hc1 Hc2 Hdx Hdy H1 H2 H3 H4 H5 H6 H7 H8 H9.
  assert (PB : PI / 2 <= 63/40) by (interval with (i_prec 40)).
  destruct (sin_pert x dx ltac:(lra) Hdx) as [rx [Ex Rx]].
  destruct (sin_pert y dy ltac:(lra) Hdy) as [ry [Ey Ry]].
  unfold hav_model, hav_exact. cbv zeta. rewrite Ex, Ey.
  set (a := sin x * sin x). set (b := c1 * c2 * (sin y * sin y)).
  set (FA := (1 + rx) * (1 + rx) * ((1 + d1) * (1 + d1)) * (1 + d3)).
  set (FB := (1 + d4) * (1 + d5) * (1 + d6) * ((1 + ry) * (1 + ry)) * ((1 + d2) * (1 + d2)) * (1 + d7) * (1 + d8)).
  assert (Ha : 0 <= a) by (unfold a; nra).
  assert (Hb : 0 <= b) by (unfold b; apply Rmult_le_pos; [apply Rmult_le_pos; assumption | nra]).
  replace ((sin x * (1 + rx) * (1 + d1) * (sin x * (1 + rx) * (1 + d1)) * (1 + d3) +
            c1 * (1 + d4) * (c2 * (1 + d5)) * (1 + d6) * (sin y * (1 + ry) * (1 + d2)) * (1 + d7) *
            (sin y * (1 + ry) * (1 + d2)) * (1 + d8)) * (1 + d9) - (a + b))
    with ((a * (FA - 1) + b * (FB - 1)) * (1 + d9) + (a + b) * d9) by (unfold a, b, FA, FB; ring).
  pose proof (factor_A rx d1 d3 Rx H1 H3) as BA. fold FA in BA.
  pose proof (factor_B ry d2 d4 d5 d6 d7 d8 Ry H2 H4 H5 H6 H7 H8) as BB. fold FB in BB.
  assert (E0 : 0 < eps) by (unfold eps; lra). assert (E1 : eps <= 1/1000000) by (unfold eps; lra).
  apply abs_le_inv in BA. apply abs_le_inv in BB. apply abs_le_inv in H9.
  apply Rabs_le. generalize dependent (FA - 1). generalize dependent (FB - 1). intros fb BB fa BA.
  set (h := a + b). assert (Hh : 0 <= h) by (unfold h; lra).
  assert (T1 : - (63/10 * eps) * a <= a * fa <= 63/10 * eps * a) by (split; nra).
  assert (T2 : - (103/10 * eps) * b <= b * fb <= 103/10 * eps * b) by (split; nra).
  set (t := a * fa + b * fb) in *.
  assert (T : - (103/10 * eps) * h <= t <= 103/10 * eps * h) by (unfold t, h; split; nra).
  assert (TD : - (103/10 * eps * eps) * h <= t * d9 <= 103/10 * eps * eps * h).
  { assert (0 <= 103/10 * eps * h) by nra. split; nra. }
  assert (HD : - eps * h <= h * d9 <= eps * h) by (split; nra).
  assert (EE : 103/10 * eps * eps * h <= 1/10 * eps * h) by nra.
  replace (t * (1 + d9) + h * d9) with (t + t * d9 + h * d9) by ring.
  split; nra.
Qed.

(* ---- from the haversine to the distance: 2 asin sqrt, separations up to 90 degrees (h <= 1/2) ---- *)
From PV Require Import C18.Spec C18.SpecProofs.

Lemma sqrt_rel : forall h H eta, 0 <= h -> 0 <= eta <= 1/2 -> Rabs (H - h) <= eta * h ->
  exists r, sqrt H = sqrt h * (1 + r) /\ Rabs r <= eta.
Proof.
  intros h H eta Hh He D. apply abs_le_inv in D.
  destruct (Req_dec h 0) as [->|NZ].
  - exists 0. assert (H = 0) by lra. subst H. rewrite sqrt_0, Rabs_R0. split. ring. lra.
  - assert (P : 0 < h) by lra. assert (S : 0 < sqrt h) by (apply sqrt_lt_R0; exact P).
    exists (sqrt H / sqrt h - 1). split. field. lra.
    assert (HH : 0 <= H) by nra.
    assert (L : sqrt h * (1 - eta) <= sqrt H).
    { rewrite <- (sqrt_square (sqrt h * (1 - eta))) by nra. apply sqrt_le_1_alt.
      replace (sqrt h * (1 - eta) * (sqrt h * (1 - eta))) with (sqrt h * sqrt h * ((1 - eta) * (1 - eta))) by ring.
      rewrite sqrt_def by lra. nra. }
    assert (U : sqrt H <= sqrt h * (1 + eta)).
    { rewrite <- (sqrt_square (sqrt h * (1 + eta))) by nra. apply sqrt_le_1_alt.
      replace (sqrt h * (1 + eta) * (sqrt h * (1 + eta))) with (sqrt h * sqrt h * ((1 + eta) * (1 + eta))) by ring.
      rewrite sqrt_def by lra. nra. }
    apply Rabs_le. split.
    + apply Rmult_le_reg_r with (sqrt h). exact S.
      replace ((sqrt H / sqrt h - 1) * sqrt h) with (sqrt H - sqrt h) by (field; lra). nra.
    + apply Rmult_le_reg_r with (sqrt h). exact S.
      replace ((sqrt H / sqrt h - 1) * sqrt h) with (sqrt H - sqrt h) by (field; lra). nra.
Qed.

Lemma cos_lb_079 : forall t, 0 <= t <= 79/100 -> 7/10 <= cos t.
Proof. intros t H. interval with (i_prec 40). Qed.

Lemma asin_small : forall s, 0 <= s <= 7073/10000 -> 0 <= asin s <= 79/100.
Proof.
  intros s Hs. pose proof (asin_nonneg s ltac:(lra)) as [A0 A1]. split. exact A0.
  destruct (Rle_lt_dec (asin s) (79/100)) as [L|G]; [exact L|exfalso].
  assert (B : sin (79/100) < sin (asin s)).
  { assert (P := PI2_3_2). apply sin_increasing_1; lra. }
  rewrite sin_asin in B by lra. assert (7100/10000 <= sin (79/100)) by (interval with (i_prec 40)). lra.
Qed.

(* the distance as computed from a computed haversine H, in the rounding model *)
Definition dis_model (H d10 d11 : R) : R := 2 * (asin (sqrt H * (1 + d10)) * (1 + d11)).

Theorem gcirc_forward_stable : forall h H d10 d11,
  0 <= h <= 1/2 -> Rabs (H - h) <= 12 * eps * h -> Rabs d10 <= eps -> Rabs d11 <= eps ->
  Rabs (dis_model H d10 d11 - 2 * asin (sqrt h)) <= 32 * eps * (2 * asin (sqrt h)).
Proof.
  intros h H d10 d11 Hh D H10 H11.
  assert (E0 : 0 < eps) by (unfold eps; lra). assert (E1 : eps <= 1/1000000) by (unfold eps; lra).
  destruct (sqrt_rel h H (12 * eps) ltac:(lra) ltac:(lra) D) as [r [Es Rr]].
  unfold dis_model. rewrite Es.
  set (s0 := sqrt h). assert (S0 : 0 <= s0 <= 7072/10000).
  { unfold s0. split. apply sqrt_pos. assert (sqrt h <= sqrt (1/2)) by (apply sqrt_le_1_alt; lra).
    assert (sqrt (1/2) <= 7072/10000) by (interval with (i_prec 40)). lra. }
  apply abs_le_inv in Rr. apply abs_le_inv in H10. apply abs_le_inv in H11.
  set (q := (1 + r) * (1 + d10) - 1).
  assert (Q : - (131/10 * eps) <= q <= 131/10 * eps) by (unfold q; split; nra).
  replace (s0 * (1 + r) * (1 + d10)) with (s0 * (1 + q)) by (unfold q; ring).
  set (s1 := s0 * (1 + q)). assert (S1 : 0 <= s1 <= 7073/10000) by (unfold s1; split; nra).
  pose proof (asin_small s0 ltac:(lra)) as T0. pose proof (asin_small s1 S1) as T1.
  set (t0 := asin s0) in *. set (t1 := asin s1) in *.
  assert (X0 : sin t0 = s0) by (unfold t0; apply sin_asin; lra).
  assert (X1 : sin t1 = s1) by (unfold t1; apply sin_asin; lra).
  (* s1 - s0 = 2 cos((t1+t0)/2) sin((t1-t0)/2) *)
  assert (F : s1 - s0 = 2 * cos ((t1 + t0) / 2) * sin ((t1 - t0) / 2)) by (rewrite <- X0, <- X1; apply form4).
  pose proof (cos_lb_079 ((t1 + t0) / 2) ltac:(lra)) as C.
  pose proof (jordan ((t1 - t0) / 2)) as J.
  assert (JJ : Rabs ((t1 - t0) / 2) <= 8/5 * Rabs (sin ((t1 - t0) / 2))) by (apply J; apply Rabs_le; lra).
  (* |t1 - t0| <= (8/5)/(7/10) |s1 - s0| *)
  assert (K : Rabs (t1 - t0) <= 16/7 * Rabs (s1 - s0)).
  { rewrite F, !Rabs_mult, (Rabs_pos_eq 2), (Rabs_pos_eq (cos ((t1 + t0) / 2))) by lra.
    replace (Rabs ((t1 - t0) / 2)) with (Rabs (t1 - t0) / 2) in JJ
      by (unfold Rdiv; rewrite Rabs_mult, (Rabs_pos_eq (/ 2)) by lra; reflexivity).
    pose proof (Rabs_pos (sin ((t1 - t0) / 2))). nra. }
  assert (DS : Rabs (s1 - s0) <= 131/10 * eps * s0).
  { unfold s1. replace (s0 * (1 + q) - s0) with (s0 * q) by ring. rewrite Rabs_mult, (Rabs_pos_eq s0) by lra.
    assert (Rabs q <= 131/10 * eps) by (apply Rabs_le; lra). nra. }
  assert (ST : s0 <= t0).
  { rewrite <- X0. pose proof (abs_sin_le t0) as A. rewrite !Rabs_pos_eq in A by (try lra; rewrite X0; lra). exact A. }
  apply abs_le_inv in K.
  apply Rabs_le.
  assert (EST : eps * s0 <= eps * t0) by nra.
  assert (KK : - (30 * eps) * t0 <= t1 - t0 <= 30 * eps * t0).
  { generalize dependent (Rabs (s1 - s0)). intros w K DS. split; lra. }
  assert (M : - (31 * eps) * t0 <= t1 * (1 + d11) - t0 <= 31 * eps * t0).
  { replace (t1 * (1 + d11) - t0) with ((t1 - t0) + t1 * d11) by ring.
    assert (T1b : 0 <= t1 <= t0 * (1 + 30 * eps)) by (split; nra).
    assert (- eps * (t0 * (1 + 30 * eps)) <= t1 * d11 <= eps * (t0 * (1 + 30 * eps))) by (split; nra).
    split; nra. }
  split; nra.
Qed.

(* both steps together: the repaired gcirc in the rounding model, separations up to 90 degrees *)
Corollary gcirc_model_stable : forall x y c1 c2 dx dy d1 d2 d3 d4 d5 d6 d7 d8 d9 d10 d11,
  Rabs x <= PI / 2 -> Rabs y <= PI / 2 -> 0 <= c1 -> 0 <= c2 -> hav_exact x y c1 c2 <= 1/2 ->
  Rabs dx <= eps -> Rabs dy <= eps -> Rabs d1 <= eps -> Rabs d2 <= eps -> Rabs d3 <= eps -> Rabs d4 <= eps ->
  Rabs d5 <= eps -> Rabs d6 <= eps -> Rabs d7 <= eps -> Rabs d8 <= eps -> Rabs d9 <= eps -> Rabs d10 <= eps ->
  Rabs d11 <= eps ->
  let exact := 2 * asin (sqrt (hav_exact x y c1 c2)) in
  Rabs (dis_model (hav_model x y c1 c2 dx dy d1 d2 d3 d4 d5 d6 d7 d8 d9) d10 d11 - exact) <= 32 * eps * exact.
Proof.
  intros. apply gcirc_forward_stable; try assumption.
  - split; [|assumption]. unfold hav_exact.
    assert (0 <= c1 * c2 * (sin y * sin y)) by (apply Rmult_le_pos; [apply Rmult_le_pos; assumption | nra]). nra.
  - apply hav_backward_stable; assumption.
Qed.

(* the rounding model with all errors zero is the expression GENERATED from the (repaired) source: the model is a model of
   that formula -- differences first (deldec, delra), then halving, sines, cosines of the two declinations *)
From PV Require Import Generated.Gcirc.
Lemma hav_model_is_generated : forall dcrad1 dcrad2 deldec delra,
  hav_model (deldec / 2) (delra / 2) (cos dcrad1) (cos dcrad2) 0 0 0 0 0 0 0 0 0 0 0
  = gcirc_sindis2 dcrad1 dcrad2 deldec delra.
Proof. intros. unfold hav_model, gcirc_sindis2. cbv zeta. rewrite !Rplus_0_r, !Rmult_1_r. ring. Qed.

Lemma float_model_stable :
  (forall x y c1 c2 dx dy d1 d2 d3 d4 d5 d6 d7 d8 d9,
    Rabs x <= PI / 2 -> Rabs y <= PI / 2 -> 0 <= c1 -> 0 <= c2 ->
    Rabs dx <= eps -> Rabs dy <= eps -> Rabs d1 <= eps -> Rabs d2 <= eps -> Rabs d3 <= eps -> Rabs d4 <= eps ->
    Rabs d5 <= eps -> Rabs d6 <= eps -> Rabs d7 <= eps -> Rabs d8 <= eps -> Rabs d9 <= eps ->
    Rabs (hav_model x y c1 c2 dx dy d1 d2 d3 d4 d5 d6 d7 d8 d9 - hav_exact x y c1 c2) <= 12 * eps * hav_exact x y c1 c2) /\
  (forall x y c1 c2 dx dy d1 d2 d3 d4 d5 d6 d7 d8 d9 d10 d11,
    Rabs x <= PI / 2 -> Rabs y <= PI / 2 -> 0 <= c1 -> 0 <= c2 -> hav_exact x y c1 c2 <= 1/2 ->
    Rabs dx <= eps -> Rabs dy <= eps -> Rabs d1 <= eps -> Rabs d2 <= eps -> Rabs d3 <= eps -> Rabs d4 <= eps ->
    Rabs d5 <= eps -> Rabs d6 <= eps -> Rabs d7 <= eps -> Rabs d8 <= eps -> Rabs d9 <= eps -> Rabs d10 <= eps ->
    Rabs d11 <= eps ->
    let exact := 2 * asin (sqrt (hav_exact x y c1 c2)) in
    Rabs (dis_model (hav_model x y c1 c2 dx dy d1 d2 d3 d4 d5 d6 d7 d8 d9) d10 d11 - exact) <= 32 * eps * exact).
Proof. split. exact hav_backward_stable. exact gcirc_model_stable. Qed.
