"""Fail-closed extraction of the integer / label arithmetic of class groups, chunks.friendsoffriends and the tail of
spheregroup() (pydl/pydlutils/spheregroup.py) into coq/Generated/Groups.v, and (used by translate/c04.py) of the two
maxmatch passes of spherematch().

The statements of the recognised loops are compiled, generically, into the store-transformer combinators of
coq/C05/Imp.v (assign / aassign / sq / ifte / while-with-fuel / for_range / break / continue): a changed statement
(min -> max, a chase loop replaced by a single step, counters incremented before the test, ...) still compiles, to a
different term, and the bridge lemmas of coq/C05/GenProofs.v (`generated = reference`) stop checking.  Loop headers
(range bounds, direction) are emitted as separate integer expressions.  The *skeleton* around those slots (which loop
is where) is matched strictly: anything else raises Unrecognised and the committed Generated/Groups.v is restored.
"""
import ast
import copy
import os

from translate import pyexpr as P

U = P.Unrecognised


# ---------------------------------------------------------------- generic compiler: Python statements -> Imp.v combinators

class Compiler(object):
    """names: substitution of AST sub-trees by plain names, list of functions node -> str or None"""

    def __init__(self, subst=()):
        self.subst = list(subst)

    def norm(self, node):
        comp = self

        class T(ast.NodeTransformer):
            def visit(self, n):
                for pred in comp.subst:
                    nm = pred(n)
                    if nm is not None:
                        return ast.copy_location(ast.Name(id=nm, ctx=ast.Load()), n)
                return super().visit(n)
        return T().visit(copy.deepcopy(node))

    # expressions of type Z, as Gallina terms over the store `s`
    def expr(self, n):
        if isinstance(n, ast.Constant):
            if isinstance(n.value, bool):
                return '1' if n.value else '0'
            if isinstance(n.value, int):
                return P.zlit(n.value)
            raise U('constant %r' % (n.value,))
        if isinstance(n, ast.Name):
            return '(sv s "%s")' % n.id
        if isinstance(n, ast.UnaryOp) and isinstance(n.op, ast.USub):
            return '(- %s)' % self.expr(n.operand)
        if isinstance(n, ast.BinOp):
            ops = {ast.Add: '+', ast.Sub: '-', ast.Mult: '*'}
            if type(n.op) in ops:
                return '(%s %s %s)' % (self.expr(n.left), ops[type(n.op)], self.expr(n.right))
            if isinstance(n.op, ast.FloorDiv):
                return '(Z.div %s %s)' % (self.expr(n.left), self.expr(n.right))
            if isinstance(n.op, ast.Mod):
                return '(Z.modulo %s %s)' % (self.expr(n.left), self.expr(n.right))
            raise U('operator %s' % type(n.op).__name__)
        if isinstance(n, ast.Subscript):
            if isinstance(n.value, ast.Name) and not isinstance(n.slice, ast.Slice):
                return '(rd s "%s" %s)' % (n.value.id, self.expr(n.slice))
            raise U('subscript %s' % ast.dump(n)[:60])
        if isinstance(n, ast.Call) and isinstance(n.func, ast.Name) and n.func.id in ('min', 'max') and len(n.args) == 2 and not n.keywords:
            return '(Z.%s %s %s)' % (n.func.id, self.expr(n.args[0]), self.expr(n.args[1]))
        if isinstance(n, ast.Call) and isinstance(n.func, ast.Name) and n.func.id == 'int' and len(n.args) == 1:
            return self.expr(n.args[0])
        raise U('expression %s' % ast.dump(n)[:80])

    CMP = {ast.Lt: 'Z.ltb', ast.LtE: 'Z.leb', ast.Gt: 'Z.gtb', ast.GtE: 'Z.geb', ast.Eq: 'Z.eqb'}

    def cond(self, n):
        if isinstance(n, ast.BoolOp):
            op = ' && ' if isinstance(n.op, ast.And) else ' || '
            return '(' + op.join(self.cond(v) for v in n.values) + ')'
        if isinstance(n, ast.UnaryOp) and isinstance(n.op, ast.Not):
            return '(negb %s)' % self.cond(n.operand)
        if isinstance(n, ast.Compare) and len(n.ops) == 1:
            a, b = self.expr(n.left), self.expr(n.comparators[0])
            if type(n.ops[0]) in self.CMP:
                return '(%s %s %s)' % (self.CMP[type(n.ops[0])], a, b)
            if isinstance(n.ops[0], ast.NotEq):
                return '(negb (Z.eqb %s %s))' % (a, b)
            raise U('comparison')
        if isinstance(n, (ast.Name, ast.Subscript)):       # truth value of a flag (0 / 1)
            return '(negb (Z.eqb %s 0))' % self.expr(n)
        raise U('condition %s' % ast.dump(n)[:80])

    def fn(self, e):
        return '(fun s => %s)' % e

    def stmt(self, n):
        if isinstance(n, ast.Assign) and len(n.targets) == 1:
            t = n.targets[0]
            if isinstance(t, ast.Name):
                return '(assign "%s" %s)' % (t.id, self.fn(self.expr(n.value)))
            if isinstance(t, ast.Subscript) and isinstance(t.value, ast.Name) and not isinstance(t.slice, ast.Slice):
                return '(aassign "%s" %s %s)' % (t.value.id, self.fn(self.expr(t.slice)), self.fn(self.expr(n.value)))
            raise U('assignment target %s' % ast.dump(t)[:60])
        if isinstance(n, ast.AugAssign) and isinstance(n.op, (ast.Add, ast.Sub)):
            op = '+' if isinstance(n.op, ast.Add) else '-'
            t = n.target
            if isinstance(t, ast.Name):
                return '(assign "%s" %s)' % (t.id, self.fn('(%s %s %s)' % (self.expr(t), op, self.expr(n.value))))
            if isinstance(t, ast.Subscript) and isinstance(t.value, ast.Name):
                return '(aassign "%s" %s %s)' % (t.value.id, self.fn(self.expr(t.slice)),
                                                  self.fn('(%s %s %s)' % (self.expr(t), op, self.expr(n.value))))
            raise U('augmented assignment target')
        if isinstance(n, ast.While):
            if n.orelse:
                raise U('while/else')
            return '(while fuel %s %s)' % (self.fn(self.cond(n.test)), self.block(n.body))
        if isinstance(n, ast.If):
            return '(ifte %s %s %s)' % (self.fn(self.cond(n.test)), self.block(n.body), self.block(n.orelse))
        if isinstance(n, ast.For):
            a, b, c = self.range_args(n)
            if n.orelse or not isinstance(n.target, ast.Name):
                raise U('for target / else')
            return '(for_range "%s" %s %s %s %s)' % (n.target.id, self.fn(a), self.fn(b), self.fn(c), self.block(n.body))
        if isinstance(n, ast.Pass):
            return 'skip'
        if isinstance(n, ast.Raise):
            return 'skip'      # the exception path is not modelled
        if isinstance(n, ast.Break):
            return 'do_break'
        raise U('statement %s' % type(n).__name__)

    def range_args(self, n):
        it = n.iter
        if not (isinstance(it, ast.Call) and isinstance(it.func, ast.Name) and it.func.id == 'range' and 1 <= len(it.args) <= 3):
            raise U('for loop is not over range(...)')
        a = [self.expr(x) for x in it.args]
        if len(a) == 1:
            return '0', a[0], '1'
        if len(a) == 2:
            return a[0], a[1], '1'
        return a[0], a[1], a[2]

    def block(self, body):
        """a statement list; `if c: continue` / `if c: break` guard the rest of the list"""
        if not body:
            return 'skip'
        n = body[0]
        if isinstance(n, ast.If) and len(n.body) == 1 and not n.orelse and isinstance(n.body[0], (ast.Continue, ast.Break)):
            first = 'skip' if isinstance(n.body[0], ast.Continue) else 'do_break'
            return '(ifte %s %s %s)' % (self.fn(self.cond(n.test)), first, self.block(body[1:]))
        if isinstance(n, ast.Continue):
            return 'skip'
        for m in ast.walk(n):
            if isinstance(m, ast.Continue):
                raise U('continue in an unsupported position')
        if len(body) == 1:
            return self.stmt(n)
        return '(sq %s %s)' % (self.stmt(n), self.block(body[1:]))


def defn(name, args, typ, body):
    return 'Definition %s%s : %s :=\n  %s.\n' % (name, (' ' + args) if args else '', typ, body)


# ---------------------------------------------------------------- helpers to find things

def is_self_attr(n, attr):
    return isinstance(n, ast.Attribute) and isinstance(n.value, ast.Name) and n.value.id == 'self' and n.attr == attr


def for_over(n, var):
    return isinstance(n, ast.For) and isinstance(n.target, ast.Name) and n.target.id == var


def whiles_on(body, var):
    """top-level `while var != -1` loops of a statement list"""
    out = []
    for n in body:
        if isinstance(n, ast.While) and isinstance(n.test, ast.Compare) and isinstance(n.test.left, ast.Name) and n.test.left.id == var:
            out.append(n)
    return out


def fill_value(fn, name):
    """name = np.zeros(...)  (-> 0)   or   name = np.zeros(...) - 1  (-> -1)"""
    for n in ast.walk(fn):
        if isinstance(n, ast.Assign) and len(n.targets) == 1 and isinstance(n.targets[0], ast.Name) and n.targets[0].id == name:
            v = n.value

            def zeros(x):
                return isinstance(x, ast.Call) and isinstance(x.func, ast.Attribute) and x.func.attr == 'zeros'
            if zeros(v):
                return 0
            if isinstance(v, ast.BinOp) and isinstance(v.op, ast.Sub) and zeros(v.left):
                return -P.const_value(v.right)
            if isinstance(v, ast.Call) and isinstance(v.func, ast.Attribute) and v.func.attr == 'arange':
                return 'arange'
            raise U('initialiser of %s' % name)
    raise U('no initialiser of %s' % name)


def slice_fill(body, name):
    """name[:] = c"""
    for n in body:
        if isinstance(n, ast.Assign) and len(n.targets) == 1 and isinstance(n.targets[0], ast.Subscript) and \
                isinstance(n.targets[0].value, ast.Name) and n.targets[0].value.id == name and isinstance(n.targets[0].slice, ast.Slice):
            return P.const_value(n.value)
    raise U('no %s[:] = c' % name)


def range_defs(comp, loop, prefix, argnames):
    """emit prefix_from/to/step as functions of the store"""
    a, b, c = comp.range_args(comp.norm(loop))
    return [defn(prefix + '_from', '(s : store)', 'Z', a), defn(prefix + '_to', '(s : store)', 'Z', b),
            defn(prefix + '_step', '(s : store)', 'Z', c)]


# ---------------------------------------------------------------- chunks.friendsoffriends

def fof_pieces(fn):
    out = []

    def cell_subst(n):
        # self.chunkList[i][j][l] -> cell[l] ; chunkGroup.firstGroup -> cg_first ; chunkGroup.nextGroup -> cg_next
        if isinstance(n, ast.Subscript) and isinstance(n.value, ast.Subscript) and is_self_attr(n.value.value, 'chunkList'):
            return 'cell'
        if isinstance(n, ast.Attribute) and isinstance(n.value, ast.Name) and n.value.id == 'chunkGroup':
            return {'firstGroup': 'cg_first', 'nextGroup': 'cg_next', 'nGroups': 'cg_nGroups'}.get(n.attr)
        return None
    comp = Compiler([cell_subst])
    outer = [n for n in fn.body if for_over(n, 'i')]
    if not outer:
        raise U('friendsoffriends: no loop over i')
    li = outer[0]
    if not (len(li.body) == 1 and for_over(li.body[0], 'j')):
        raise U('friendsoffriends: cell loops')
    lj = li.body[0]
    if not (len(lj.body) == 1 and isinstance(lj.body[0], ast.If)):
        raise U('friendsoffriends: non-empty test')
    body = lj.body[0].body
    lk = [n for n in body if for_over(n, 'k')]
    if len(lk) != 1 or len(body) != 2:
        raise U('friendsoffriends: loop over the groups of a cell')
    out += range_defs(comp, lk[0], 'gen_fof_groups', None)
    kb = lk[0].body
    ws = whiles_on(kb, 'l')
    if len(ws) != 1:
        raise U('friendsoffriends: first member walk')
    ifs = [n for n in kb if isinstance(n, ast.If)]
    if len(ifs) != 1:
        raise U('friendsoffriends: root test')
    ws2 = whiles_on(ifs[0].orelse, 'l')
    if len(ws2) != 1:
        raise U('friendsoffriends: second member walk')
    init = [n for n in kb if isinstance(n, ast.Assign) and isinstance(n.targets[0], ast.Name) and n.targets[0].id == 'minEarly']
    if len(init) != 1:
        raise U('friendsoffriends: minEarly initialisation')
    out.append('(* friendsoffriends, source line %d: per provisional group *)' % lk[0].lineno)
    out.append(defn('gen_fof_min_init', '', 'stmt', comp.stmt(comp.norm(init[0]))))
    out.append(defn('gen_fof_walk_continue', '(s : store)', 'bool', comp.cond(comp.norm(ws[0].test))))
    out.append(defn('gen_fof_pass1_body', '(fuel : nat)', 'stmt', comp.block([comp.norm(x) for x in ws[0].body])))
    out.append(defn('gen_fof_is_new', '(s : store)', 'bool', comp.cond(comp.norm(ifs[0].test))))
    out.append(defn('gen_fof_new_root', '', 'stmt', comp.block([comp.norm(x) for x in ifs[0].body])))
    pre = [x for x in ifs[0].orelse if x is not ws2[0] and not (isinstance(x, ast.Assign) and isinstance(x.targets[0], ast.Name) and x.targets[0].id == 'l')]
    out.append(defn('gen_fof_link_root', '', 'stmt', comp.block([comp.norm(x) for x in pre])))
    out.append(defn('gen_fof_pass2_body', '(fuel : nat)', 'stmt', comp.block([comp.norm(x) for x in ws2[0].body])))
    # flattening pass and tail: the loops after the cell loops, in source order
    rest = fn.body[fn.body.index(li) + 1:]
    loops = [n for n in rest if isinstance(n, ast.For)]
    if len(loops) != 4:
        raise U('friendsoffriends: expected 4 loops after the cell loops, found %d' % len(loops))
    flat, mapin, build, mult = loops
    comp2 = Compiler([])
    out.append('(* friendsoffriends, flattening pass, source line %d *)' % flat.lineno)
    out += range_defs(comp2, flat, 'gen_fof_flat', None)
    out.append(defn('gen_fof_flat_body', '', 'stmt', comp2.block(flat.body)))
    out += range_defs(comp2, mapin, 'gen_fof_mapin', None)
    out.append(defn('gen_fof_mapin_body', '', 'stmt', comp2.block(mapin.body)))
    out += range_defs(comp2, build, 'gen_fof_build', None)
    out.append(defn('gen_fof_build_body', '', 'stmt', comp2.block(build.body)))
    out += range_defs(comp2, mult, 'gen_fof_mult', None)
    out.append(defn('gen_fof_mult_body', '(fuel : nat)', 'stmt', comp2.block(mult.body)))
    for nm in ('inGroup', 'mapGroups', 'firstGroup', 'nextGroup', 'multGroup'):
        out.append(defn('gen_fof_fill_%s' % nm, '', 'Z', P.zlit(fill_value(fn, nm))))
    return out


# ---------------------------------------------------------------- class groups

def groups_pieces(fn):
    out = []

    def sep_subst(n):
        return None
    comp = Compiler([])
    loops = [n for n in fn.body if for_over(n, 'i')]
    if len(loops) != 4:
        raise U('groups: expected 4 loops over i, found %d' % len(loops))
    main, renum, build, mult = loops
    inner = [n for n in main.body if isinstance(n, ast.For)]
    if len(inner) != 4:
        raise U('groups: expected 4 inner loops, found %d' % len(inner))
    partner, relabel, reset, rebuild = inner
    out.append('(* class groups, main loop, source line %d *)' % main.lineno)
    out += range_defs(comp, main, 'gen_groups_main', None)
    out += range_defs(comp, partner, 'gen_groups_partner', None)
    # partner loop: sep = ...; if sep <= distance: <integer statements>
    if not (len(partner.body) == 2 and isinstance(partner.body[0], ast.Assign) and isinstance(partner.body[1], ast.If)
            and not partner.body[1].orelse):
        raise U('groups: partner loop body')
    t = partner.body[1].test
    if not (isinstance(t, ast.Compare) and len(t.ops) == 1 and isinstance(t.left, ast.Name) and t.left.id == 'sep'
            and isinstance(t.comparators[0], ast.Name) and t.comparators[0].id == 'distance'):
        raise U('groups: link test')
    op = {ast.LtE: 'Qle_bool sep d', ast.Lt: 'negb (Qle_bool d sep)'}.get(type(t.ops[0]))
    if op is None:
        raise U('groups: link comparison')
    out.append(defn('gen_groups_link', '(sep d : Q)', 'bool', op))
    out.append(defn('gen_groups_partner_body', '', 'stmt', comp.block(partner.body[1].body)))
    init = [n for n in main.body if isinstance(n, ast.Assign) and isinstance(n.targets[0], ast.Name) and n.targets[0].id == 'minGroup']
    if len(init) != 1:
        raise U('groups: minGroup initialisation')
    out.append(defn('gen_groups_min_init', '', 'stmt', comp.stmt(init[0])))
    out += range_defs(comp, relabel, 'gen_groups_relabel', None)
    out.append(defn('gen_groups_relabel_body', '(fuel : nat)', 'stmt', comp.block(relabel.body)))
    newg = [n for n in main.body if isinstance(n, ast.If)]
    if len(newg) != 1:
        raise U('groups: new-group test')
    out.append(defn('gen_groups_newgroup', '', 'stmt', comp.stmt(newg[0])))
    out += range_defs(comp, reset, 'gen_groups_reset', None)
    out.append(defn('gen_groups_reset_body', '', 'stmt', comp.block(reset.body)))
    out += range_defs(comp, rebuild, 'gen_groups_rebuild', None)
    out.append(defn('gen_groups_rebuild_body', '', 'stmt', comp.block(rebuild.body)))
    out.append('(* class groups, renumbering and final lists, source line %d *)' % renum.lineno)
    out += range_defs(comp, renum, 'gen_groups_renum', None)
    out.append(defn('gen_groups_renum_body', '(fuel : nat)', 'stmt', comp.block(renum.body)))
    out += range_defs(comp, build, 'gen_groups_build', None)
    out.append(defn('gen_groups_build_body', '', 'stmt', comp.block(build.body)))
    out += range_defs(comp, mult, 'gen_groups_mult', None)
    out.append(defn('gen_groups_mult_body', '(fuel : nat)', 'stmt', comp.block(mult.body)))
    out.append(defn('gen_groups_fill_firstGroup', '', 'Z', P.zlit(fill_value(fn, 'firstGroup'))))
    out.append(defn('gen_groups_fill_nextGroup', '', 'Z', P.zlit(fill_value(fn, 'nextGroup'))))
    out.append(defn('gen_groups_refill_firstGroup', '', 'Z', P.zlit(slice_fill(fn.body, 'firstGroup'))))
    if fill_value(fn, 'inGroup') != 'arange':
        raise U('groups: inGroup is not arange(nTargets)')
    return out


# ---------------------------------------------------------------- tail of spheregroup()

def spheregroup_pieces(fn):
    out = []
    comp = Compiler([])
    loops = [n for n in fn.body if isinstance(n, ast.For)]
    if len(loops) != 3:
        raise U('spheregroup: expected 3 loops, found %d' % len(loops))
    renum, build, mult = loops
    out.append('(* spheregroup(), renumbering in order of appearance, source line %d *)' % renum.lineno)
    out += range_defs(comp, renum, 'gen_sg_renum', None)
    out.append(defn('gen_sg_renum_body', '(fuel : nat)', 'stmt', comp.block(renum.body)))
    out += range_defs(comp, build, 'gen_sg_build', None)
    out.append(defn('gen_sg_build_body', '', 'stmt', comp.block(build.body)))
    out += range_defs(comp, mult, 'gen_sg_mult', None)
    out.append(defn('gen_sg_mult_body', '(fuel : nat)', 'stmt', comp.block(mult.body)))
    out.append(defn('gen_sg_refill_firstgroup', '', 'Z', P.zlit(slice_fill(fn.body, 'firstgroup'))))
    out.append(defn('gen_sg_refill_multgroup', '', 'Z', P.zlit(slice_fill(fn.body, 'multgroup'))))
    return out


# ---------------------------------------------------------------- the call route from spheregroup() to the separation routine

def coq_str(t):
    return '"%s"' % t.replace('"', '""')


def coq_strs(items, sep=' :: '):
    return '(%s)' % sep.join([coq_str(x) for x in items] + ['nil'])


def src_lines(stmts):
    """normalised source text (ast.unparse: comments and layout dropped) of straight-line statements, docstrings skipped"""
    out = []
    for st in stmts:
        if isinstance(st, ast.Expr) and isinstance(st.value, ast.Constant) and isinstance(st.value.value, str):
            continue
        out.append(ast.unparse(st))
    return out


def route_pieces(cls, fns):
    """groups.sphereradec (which routine, which arguments, which units), chunks.chunkfriendsoffriends (row order of the
    coordinate array, conversion to radians of coordinates and linking length, metric name) and the head of spheregroup()
    (npoints guard, chunk size rule, chunks / assign / friendsoffriends calls with their arguments) as normalised source
    text; C05/GenRef.v holds the reference they must equal"""
    out = ['(* the route from spheregroup() to the separation routine, as normalised source text *)']
    sr = P.find_function(cls['groups'], 'sphereradec')
    body = src_lines(sr.body)
    if len(body) != 1 or not isinstance([x for x in sr.body if isinstance(x, ast.Return)][0].value, ast.Call):
        raise U('groups.sphereradec: expected a single return of a call')
    out.append(defn('gen_route_sphereradec_args', '', 'list string', coq_strs(a.arg for a in sr.args.args)))
    out.append(defn('gen_route_sphereradec', '', 'list string', coq_strs(body)))
    cf = P.find_function(cls['chunks'], 'chunkfriendsoffriends')
    if any(not isinstance(x, (ast.Assign, ast.Return, ast.Expr)) for x in cf.body):
        raise U('chunks.chunkfriendsoffriends: expected straight-line code')
    out.append(defn('gen_route_chunkfof_args', '', 'list string', coq_strs(a.arg for a in cf.args.args)))
    out.append(defn('gen_route_chunkfof', '', 'list string', coq_strs(src_lines(cf.body), ' ::\n   ')))
    sg = fns['spheregroup']
    head = []
    for st in sg.body:
        if isinstance(st, ast.For):
            break
        head.append(st)
    else:
        raise U('spheregroup: no loop after the head')
    if not head or any(isinstance(x, (ast.While, ast.For, ast.Try, ast.With)) for st in head for x in ast.walk(st)):
        raise U('spheregroup: head is not loop-free')
    out.append(defn('gen_route_spheregroup_args', '', 'list string', coq_strs(a.arg for a in sg.args.args)))
    out.append(defn('gen_route_spheregroup_defaults', '', 'list string', coq_strs(ast.unparse(d) for d in sg.args.defaults)))
    out.append(defn('gen_route_spheregroup_head', '', 'list string', coq_strs(src_lines(head), ' ::\n   ')))
    return out


# ---------------------------------------------------------------- normal form: single-assignment local aliases inlined

_PURE = (ast.Name, ast.Subscript, ast.Constant, ast.BinOp, ast.UnaryOp, ast.expr_context, ast.operator, ast.unaryop)


def _pure(e):
    return all(isinstance(m, _PURE) for m in ast.walk(e)) and not any(isinstance(m, ast.Slice) for m in ast.walk(e))


def _assigned(stmts):
    """names a statement list may change: plain stores, bases of subscript / attribute stores, loop targets, and -- since a
    call may mutate what it is given -- every name that occurs inside a call"""
    out = set()
    for st in stmts:
        for m in ast.walk(st):
            if isinstance(m, ast.Name) and isinstance(m.ctx, (ast.Store, ast.Del)):
                out.add(m.id)
            elif isinstance(m, (ast.Subscript, ast.Attribute)) and isinstance(m.ctx, (ast.Store, ast.Del)):
                b = m
                while isinstance(b, (ast.Subscript, ast.Attribute)):
                    b = b.value
                if isinstance(b, ast.Name):
                    out.add(b.id)
            elif isinstance(m, ast.Call):
                out.update(x.id for x in ast.walk(m) if isinstance(x, ast.Name))
    return out


def _top_alias(body, name):
    """index of the one top-level `name = <pure expression>` of a statement list, or None"""
    hits = [k for k, st in enumerate(body) if isinstance(st, ast.Assign) and len(st.targets) == 1 and
            isinstance(st.targets[0], ast.Name) and st.targets[0].id == name and _pure(st.value)]
    return hits[0] if len(hits) == 1 else None


def inline_aliases(fn, loop):
    """Normal form of a loop body.  A local name bound ONCE per iteration, at the top level of the body and before any use,
    to a pure expression (names, subscripts, arithmetic; no call, no slice) over things the body never assigns
    (`i1 = omatch1[s[i]]`) is replaced by that expression and its binding is dropped, so that
    `x = a[b[i]]; if g[x] < m: g[x] += 1` and `if g[a[b[i]]] < m: g[a[b[i]]] += 1` compile to the same term.
    Done only when every other occurrence of the name in the function lies in a loop body that binds it the same way
    (so the dropped binding is dead); otherwise the binding stays and compiles as the assignment it is."""
    body = list(loop.body)
    loops = [n for n in ast.walk(fn) if isinstance(n, ast.For)]
    changed = True
    while changed:
        changed = False
        for k, st in enumerate(body):
            if not (isinstance(st, ast.Assign) and len(st.targets) == 1 and isinstance(st.targets[0], ast.Name) and _pure(st.value)):
                continue
            name = st.targets[0].id
            rest = body[:k] + body[k + 1:]
            if name in _assigned(rest) or (isinstance(loop.target, ast.Name) and loop.target.id == name):
                continue                                      # bound more than once
            if any(isinstance(m, ast.Name) and m.id == name for b in body[:k + 1] for m in ast.walk(b.value if b is st else b)):
                continue                                      # read before (or inside) its binding
            reads = set(m.id for m in ast.walk(st.value) if isinstance(m, ast.Name))
            if reads & _assigned(rest):
                continue                                      # the expression's value may change after the binding
            # every occurrence of the name in the function: inside a loop body that binds it at its top level, after the binding
            covered = set()
            for lp in loops:
                j = _top_alias(lp.body, name)
                if j is not None:
                    covered.add(id(lp.body[j].targets[0]))
                    for later in lp.body[j + 1:]:
                        covered.update(id(m) for m in ast.walk(later))
            if any(isinstance(m, ast.Name) and m.id == name and id(m) not in covered for m in ast.walk(fn)):
                continue
            value = st.value

            class Sub(ast.NodeTransformer):
                def visit_Name(self, n):
                    if n.id == name and isinstance(n.ctx, ast.Load):
                        return ast.copy_location(copy.deepcopy(value), n)
                    return n
            # (the statements are replaced by transformed COPIES; node identities of the original tree stay valid for `covered`)
            body = [Sub().visit(copy.deepcopy(b)) for b in rest]
            for b in body:
                ast.fix_missing_locations(b)
            changed = True
            break
    return body


# ---------------------------------------------------------------- spherematch(): the two maxmatch passes (used by translate/c04.py)

def greedy_pieces(fn):
    out = []

    def size_subst(n):
        if isinstance(n, ast.Attribute) and n.attr == 'size' and isinstance(n.value, ast.Name):
            return n.value.id + '_size'
        return None
    comp = Compiler([size_subst])
    sel = [n for n in fn.body if isinstance(n, ast.If) and isinstance(n.test, ast.Compare) and isinstance(n.test.left, ast.Name)
           and n.test.left.id == 'maxmatch']
    if len(sel) != 1:
        raise U('spherematch: if maxmatch > 0')
    out.append(defn('gen_greedy_enabled', '(s : store)', 'bool', comp.cond(sel[0].test)))
    loops = [n for n in sel[0].body if isinstance(n, ast.For)]
    if len(loops) != 2:
        raise U('spherematch: expected two selection passes, found %d' % len(loops))
    for loop, tag in zip(loops, ('count', 'fill')):
        if not (isinstance(loop.target, ast.Name) and isinstance(loop.iter, ast.Call)):
            raise U('spherematch: pass header')
        out.append('(* spherematch(), %s pass, source line %d *)' % (tag, loop.lineno))
        out += range_defs(comp, loop, 'gen_greedy_%s' % tag, None)
        out.append(defn('gen_greedy_%s_var' % tag, '', 'string', '"%s"' % loop.target.id))
        out.append(defn('gen_greedy_%s_body' % tag, '', 'stmt', comp.block([comp.norm(x) for x in inline_aliases(fn, loop)])))
    return out


HEADER = ['From Coq Require Import ZArith QArith String List Bool Reals.', 'From PV Require Import C05.Imp.',
          'Open Scope string_scope. Close Scope Q_scope. Open Scope Z_scope.', '']


def gcirc_pieces(repo):
    """the real-number reading of goddard.astro.gcirc (the routine groups.sphereradec calls), produced by the extractor of
    translate/c18.py (imported, not modified) and wrapped in a module of this file, so that it is regenerated on C05 runs"""
    from . import c18
    text = c18.gen_gcirc(open(os.path.join(repo, 'pydl/goddard/astro.py')).read())
    keep = []
    skip = False
    for line in text.split('\n'):
        if line.startswith(('From ', 'Import ', 'Open Scope', '(* GENERATED')):
            continue
        if line.startswith('Definition gcirc_valid_units'):
            continue
        keep.append(line)
    return ['(* goddard.astro.gcirc as a function on the reals (extractor: translate/c18.py gen_gcirc) *)', 'Module GcircSrc.',
            'Local Open Scope R_scope.'] + keep + ['End GcircSrc.', '']


def generate(repo):
    info = {'recognised': True, 'detail': []}
    src = open(os.path.join(repo, 'pydl/pydlutils/spheregroup.py')).read()
    out = ['(* GENERATED by translate/c05.py from pydl/pydlutils/spheregroup.py (class groups, chunks.friendsoffriends, '
           'spheregroup) -- do not edit *)'] + HEADER
    try:
        tree = ast.parse(src)
        cls = {n.name: n for n in tree.body if isinstance(n, ast.ClassDef)}
        fns = {n.name: n for n in tree.body if isinstance(n, ast.FunctionDef)}
        out += fof_pieces(P.find_function(cls['chunks'], 'friendsoffriends'))
        out += groups_pieces(P.find_function(cls['groups'], '__init__'))
        out += spheregroup_pieces(fns['spheregroup'])
        out += route_pieces(cls, fns)
        out += gcirc_pieces(repo)
        out.append('Definition groups_recognised : bool := true.')
    except (U, SyntaxError, KeyError, IndexError, AttributeError, ValueError) as e:
        info['recognised'] = False
        info['detail'].append('%s: %s' % (type(e).__name__, e))
        return None, info
    return '\n'.join(out) + '\n', info


def generate_greedy(repo):
    """-> list of definition strings (or raises Unrecognised)"""
    tree = ast.parse(open(os.path.join(repo, 'pydl/pydlutils/spheregroup.py')).read())
    fns = {n.name: n for n in tree.body if isinstance(n, ast.FunctionDef)}
    return greedy_pieces(fns['spherematch'])


if __name__ == '__main__':
    import sys
    text, info = generate(sys.argv[1] if len(sys.argv) > 1 else '/repo')
    print(info)
    print(text)
    print('\n'.join(generate_greedy(sys.argv[1] if len(sys.argv) > 1 else '/repo')))
