"""C19 extractor (fail-closed) -> coq/Generated/AstroConsts.v

  pydl/goddard/astro.py     airtovac, vactoair : guard threshold and comparison, iteration count, the
                                                 sigma2 / fact / update expressions (over Q and over R)
  pydl/photoop/sdssio.py    sdssflux2ab        : correction vector, factor = 10**(-c/2.5), ivar factor, += / *=
  pydl/pydlspec2d/spec2d.py filter_thru        : the normalisation res / (sumfilt + (sumfilt <= 0))

The expression translator is translate/c18.py:rexpr.  Anything not recognised raises Unrecognised and the
previous generated file is kept (recognised: false).
"""
import ast
import os

from .pyexpr import Unrecognised, find_function
from .c18 import rexpr, lit, frac_of_const, simple_assigns, call_name, let_chain


def cmp_const(test, names):
    """`name < const` / `name <= const` -> (name, op, Fraction)"""
    if isinstance(test, ast.Compare) and len(test.ops) == 1 and isinstance(test.left, ast.Name) and test.left.id in names \
            and isinstance(test.comparators[0], ast.Constant):
        op = {ast.Lt: '<', ast.LtE: '<='}.get(type(test.ops[0]))
        if op is None:
            raise Unrecognised('guard comparison %s' % type(test.ops[0]).__name__)
        return test.left.id, op, frac_of_const(test.comparators[0].value)
    raise Unrecognised('guard test')


def guard_Q(op, thr):
    t = lit(thr, 'Q')
    return ('negb (Qle_bool %s x)' % t) if op == '<' else ('Qle_bool x %s' % t)


def guard_R(op, thr):
    t = lit(thr, 'R')
    return ('Rlt_dec x %s' % t, 'x < %s' % t) if op == '<' else ('Rle_dec x %s' % t, 'x <= %s' % t)


def wave_function(fn, inname, work, result):
    """Common shape of airtovac / vactoair.  Returns dict with guard, body assignments, loop count."""
    info = {}
    scalar_guard = array_guard = None
    restore = False
    loop = None
    straight = []
    for st in fn.body:
        if isinstance(st, ast.If) and isinstance(st.test, ast.Compare) and isinstance(st.test.left, ast.Name) \
                and st.test.left.id == 't':
            # if t is None: scalar path / else: array path
            for s in st.body:
                if isinstance(s, ast.If):
                    nm, op, thr = cmp_const(s.test, (inname,))
                    if not (len(s.body) == 1 and isinstance(s.body[0], ast.Return) and isinstance(s.body[0].value, ast.Name)
                            and s.body[0].value.id == inname):
                        raise Unrecognised('%s scalar guard does not return the input' % fn.name)
                    scalar_guard = (op, thr)
            for s in st.orelse:
                if isinstance(s, ast.Assign) and isinstance(s.targets[0], ast.Name) and s.targets[0].id == 'g':
                    nm, op, thr = cmp_const(s.value, (work,))
                    array_guard = (op, thr)
                if isinstance(s, ast.If):
                    t = s.test
                    if not (isinstance(t, ast.Call) and isinstance(t.func, ast.Attribute) and t.func.attr == 'all'
                            and isinstance(t.func.value, ast.Name) and t.func.value.id == 'g'
                            and len(s.body) == 1 and isinstance(s.body[0], ast.Return)
                            and isinstance(s.body[0].value, ast.Name) and s.body[0].value.id == inname):
                        raise Unrecognised('%s: g.all() shortcut' % fn.name)
        elif isinstance(st, ast.For):
            if not (isinstance(st.iter, ast.Call) and isinstance(st.iter.func, ast.Name) and st.iter.func.id == 'range'
                    and len(st.iter.args) == 1 and isinstance(st.iter.args[0], ast.Constant)
                    and isinstance(st.iter.args[0].value, int) and not st.orelse):
                raise Unrecognised('%s loop' % fn.name)
            asg = simple_assigns(st.body)
            if len(asg) != len(st.body):
                raise Unrecognised('%s loop body' % fn.name)
            loop = (st.iter.args[0].value, asg)
        elif isinstance(st, ast.Assign) and len(st.targets) == 1 and isinstance(st.targets[0], ast.Name) \
                and st.targets[0].id in ('sigma2', 'fact', result):
            v = st.value
            # result = np.where(g, work, result)[()]  is the restore step of the repaired shape
            w = v.value if isinstance(v, ast.Subscript) else v
            if isinstance(w, ast.Call) and call_name(w.func) == 'where':
                if not (len(w.args) == 3 and all(isinstance(a, ast.Name) for a in w.args)
                        and [a.id for a in w.args] == ['g', work, result]):
                    raise Unrecognised('%s: np.where restore' % fn.name)
                restore = True
            else:
                straight.append((st.targets[0].id, st.value, st.lineno))
        elif isinstance(st, ast.If) and isinstance(st.test, ast.Compare) and isinstance(st.test.left, ast.Name) \
                and st.test.left.id == 'g':
            for s in st.body:
                # result[g] = work[g]
                if isinstance(s, ast.Assign) and isinstance(s.targets[0], ast.Subscript):
                    tg, vl = s.targets[0], s.value
                    if isinstance(tg.value, ast.Name) and tg.value.id == result and isinstance(tg.slice, ast.Name) \
                            and tg.slice.id == 'g' and isinstance(vl, ast.Subscript) and isinstance(vl.value, ast.Name) \
                            and vl.value.id == work and isinstance(vl.slice, ast.Name) and vl.slice.id == 'g':
                        restore = True
                    else:
                        raise Unrecognised('%s: restore statement' % fn.name)
                elif isinstance(s, ast.Assign) and isinstance(s.targets[0], ast.Name) and s.targets[0].id == result:
                    w = s.value.value if isinstance(s.value, ast.Subscript) else s.value
                    if isinstance(w, ast.Call) and call_name(w.func) == 'where' and len(w.args) == 3 \
                            and all(isinstance(a, ast.Name) for a in w.args) and [a.id for a in w.args] == ['g', work, result]:
                        restore = True
                    else:
                        raise Unrecognised('%s: restore statement' % fn.name)
    if scalar_guard is None or array_guard is None:
        raise Unrecognised('%s: guards not found' % fn.name)
    if scalar_guard != array_guard:
        raise Unrecognised('%s: scalar and array guards differ (%s vs %s)' % (fn.name, scalar_guard, array_guard))
    if not restore:
        raise Unrecognised('%s: below-threshold values are not restored' % fn.name)
    info['guard'] = scalar_guard
    info['loop'] = loop
    info['straight'] = straight
    return info


def gen_airvac(src):
    tree = ast.parse(src)
    fa = find_function(tree, 'airtovac')
    fv = find_function(tree, 'vactoair')
    ia = wave_function(fa, 'air', 'a', 'vacuum')
    iv = wave_function(fv, 'vacuum', 'v', 'air')
    if ia['loop'] is None or ia['straight']:
        raise Unrecognised('airtovac: expected the update inside a for loop only')
    if iv['loop'] is not None:
        raise Unrecognised('vactoair: unexpected loop')
    niter, body = ia['loop']
    if [b[0] for b in body] != ['sigma2', 'fact', 'vacuum']:
        raise Unrecognised('airtovac loop body names %s' % [b[0] for b in body])
    if [b[0] for b in iv['straight']] != ['sigma2', 'fact', 'air']:
        raise Unrecognised('vactoair body names %s' % [b[0] for b in iv['straight']])
    out = []
    for mode, ty in (('Q', 'Q'), ('R', 'R')):
        sfx = '_' + mode
        out.append('(* ---- over %s ---- *)' % mode)
        out.append('Open Scope %s_scope.' % mode)
        # airtovac: sigma2(vacuum), fact(sigma2), vacuum' = a * fact
        sig = rexpr(body[0][1], {'vacuum': 'vacuum'}, mode)
        fac = rexpr(body[1][1], {'sigma2': 'sigma2'}, mode)
        upd = rexpr(body[2][1], {'a': 'a', 'fact': 'fact'}, mode)
        out.append('Definition airtovac_sigma2%s (vacuum : %s) : %s := %s.' % (sfx, ty, ty, sig))
        out.append('Definition airtovac_fact%s (sigma2 : %s) : %s :=\n  %s.' % (sfx, ty, ty, fac))
        out.append('Definition airtovac_update%s (a fact : %s) : %s := %s.' % (sfx, ty, ty, upd))
        out.append('Definition airtovac_step%s (a vacuum : %s) : %s :=\n'
                   '  airtovac_update%s a (airtovac_fact%s (airtovac_sigma2%s vacuum)).' % (sfx, ty, ty, sfx, sfx, sfx))
        sig = rexpr(iv['straight'][0][1], {'v': 'v'}, mode)
        fac = rexpr(iv['straight'][1][1], {'sigma2': 'sigma2'}, mode)
        upd = rexpr(iv['straight'][2][1], {'v': 'v', 'fact': 'fact'}, mode)
        out.append('Definition vactoair_sigma2%s (v : %s) : %s := %s.' % (sfx, ty, ty, sig))
        out.append('Definition vactoair_fact%s (sigma2 : %s) : %s :=\n  %s.' % (sfx, ty, ty, fac))
        out.append('Definition vactoair_update%s (v fact : %s) : %s := %s.' % (sfx, ty, ty, upd))
        out.append('Definition vactoair_body%s (v : %s) : %s :=\n'
                   '  vactoair_update%s v (vactoair_fact%s (vactoair_sigma2%s v)).' % (sfx, ty, ty, sfx, sfx, sfx))
        if mode == 'Q':
            out.append('Definition airtovac_guard_Q (x : Q) : bool := %s.' % guard_Q(*ia['guard']))
            out.append('Definition vactoair_guard_Q (x : Q) : bool := %s.' % guard_Q(*iv['guard']))
        else:
            d, p = guard_R(*ia['guard'])
            out.append('Definition airtovac_guard_R (x : R) : Prop := %s.' % p)
            out.append('Definition airtovac_guard_R_dec (x : R) : {airtovac_guard_R x} + {~ airtovac_guard_R x} := %s.' % d)
            d, p = guard_R(*iv['guard'])
            out.append('Definition vactoair_guard_R (x : R) : Prop := %s.' % p)
            out.append('Definition vactoair_guard_R_dec (x : R) : {vactoair_guard_R x} + {~ vactoair_guard_R x} := %s.' % d)
        out.append('Close Scope %s_scope.\n' % mode)
    out.append('Definition airtovac_iterations : nat := %d%%nat.\n' % niter)
    return out


def gen_flux2ab(src):
    tree = ast.parse(src)
    fn = find_function(tree, 'sdssflux2ab')
    corr = None
    mag_op = flux_op = None
    factor = ivar = None
    for st in fn.body:
        if isinstance(st, ast.Assign) and isinstance(st.targets[0], ast.Name) and st.targets[0].id == 'correction':
            v = st.value
            if not (isinstance(v, ast.Call) and call_name(v.func) == 'array' and len(v.args) == 1 and isinstance(v.args[0], ast.List)):
                raise Unrecognised('correction vector')
            corr = []
            for e in v.args[0].elts:
                if isinstance(e, ast.UnaryOp) and isinstance(e.op, ast.USub) and isinstance(e.operand, ast.Constant):
                    corr.append(-frac_of_const(e.operand.value))
                elif isinstance(e, ast.Constant):
                    corr.append(frac_of_const(e.value))
                else:
                    raise Unrecognised('correction element')
        if isinstance(st, ast.If) and isinstance(st.test, ast.Name) and st.test.id == 'magnitude':
            def row_update(stmts):
                for s in stmts:
                    if isinstance(s, ast.For) and len(s.body) == 1 and isinstance(s.body[0], ast.AugAssign):
                        a = s.body[0]
                        if isinstance(a.value, ast.Name):
                            return type(a.op), a.value.id
                raise Unrecognised('row update loop')
            op, nm = row_update(st.body)
            if op is not ast.Add or nm != 'correction':
                raise Unrecognised('magnitude branch is not += correction')
            mag_op = '+'
            op, nm = row_update(st.orelse)
            if op is not ast.Mult or nm != 'factor':
                raise Unrecognised('flux branch is not *= factor')
            flux_op = '*'
            for s in st.orelse:
                if isinstance(s, ast.Assign) and isinstance(s.targets[0], ast.Name) and s.targets[0].id == 'factor':
                    factor = s.value
                if isinstance(s, ast.If) and isinstance(s.test, ast.Name) and s.test.id == 'ivar':
                    a = simple_assigns(s.body)
                    if len(a) != 1 or a[0][0] != 'factor' or s.orelse:
                        raise Unrecognised('ivar branch')
                    ivar = a[0][1]
    if corr is None or mag_op is None or factor is None or ivar is None:
        raise Unrecognised('sdssflux2ab shape')
    if len(corr) != 5:
        raise Unrecognised('correction vector length %d' % len(corr))
    # factor = B ** (E)   with constant base
    if not (isinstance(factor, ast.BinOp) and isinstance(factor.op, ast.Pow) and isinstance(factor.left, ast.Constant)):
        raise Unrecognised('factor is not const ** expr')
    base = frac_of_const(factor.left.value)
    if base <= 0:
        raise Unrecognised('factor base')
    expo = rexpr(factor.right, {'correction': 'c'}, 'R')
    iv = rexpr(ivar, {'factor': 'factor'}, 'R')
    out = ['(* sdssflux2ab, pydl/photoop/sdssio.py line %d *)' % fn.lineno,
           'Open Scope Q_scope.',
           'Definition flux2ab_correction : list Q := [%s].' % '; '.join(lit(c, 'Q') for c in corr),
           'Close Scope Q_scope.',
           'Open Scope R_scope.',
           'Definition flux2ab_factor (c : R) : R := Rpower %s %s.' % (lit(base, 'R'), expo),
           'Definition flux2ab_ivar_factor (factor : R) : R := %s.' % iv,
           'Definition flux2ab_mag (m c : R) : R := m + c.',
           'Definition flux2ab_flux (f factor : R) : R := f * factor.',
           'Close Scope R_scope.', '']
    return out


def gen_filter_norm(src):
    tree = ast.parse(src)
    fn = find_function(tree, 'filter_thru')
    found = None
    masked_sum = plain_sum = None
    for n in ast.walk(fn):
        if isinstance(n, ast.Assign) and len(n.targets) == 1 and isinstance(n.targets[0], ast.Subscript) \
                and isinstance(n.targets[0].value, ast.Name) and n.targets[0].value.id == 'res':
            v = n.value
            if isinstance(v, ast.BinOp) and isinstance(v.op, ast.Div):
                found = v
            elif isinstance(v, ast.Call) and isinstance(v.func, ast.Attribute) and v.func.attr == 'sum':
                b = v.func.value
                if isinstance(b, ast.BinOp) and isinstance(b.op, ast.Mult) and isinstance(b.left, ast.Name) \
                        and isinstance(b.right, ast.Name) and b.right.id == 'filtimg':
                    if b.left.id == 'flux_interp':
                        masked_sum = True
                    elif b.left.id == 'flux':
                        plain_sum = True
    if found is None or not masked_sum or not plain_sum:
        raise Unrecognised('filter_thru: weighted sums / normalisation not found')
    # res[:, i] / (sumfilt + (sumfilt <= 0).astype(...))
    num, den = found.left, found.right
    if not (isinstance(num, ast.Subscript) and isinstance(num.value, ast.Name) and num.value.id == 'res'):
        raise Unrecognised('filter_thru: numerator')

    def hookQ(node):
        if isinstance(node, ast.Call) and isinstance(node.func, ast.Attribute) and node.func.attr == 'astype':
            c = node.func.value
            if isinstance(c, ast.Compare) and len(c.ops) == 1 and isinstance(c.left, ast.Name) and c.left.id == 'sumfilt' \
                    and isinstance(c.comparators[0], ast.Constant):
                thr = lit(frac_of_const(c.comparators[0].value), 'Q')
                if isinstance(c.ops[0], ast.LtE):
                    return '(if Qle_bool sumfilt %s then 1 else 0)' % thr
                if isinstance(c.ops[0], ast.Lt):
                    return '(if negb (Qle_bool %s sumfilt) then 1 else 0)' % thr
            raise Unrecognised('filter_thru: guard in the denominator')
        return None
    den_t = rexpr(den, {'sumfilt': 'sumfilt'}, 'Q', hookQ)
    # ---- the pixel-width factor: `pixnorm, logdiff = traceset2xy(diffset)` followed by zero or more `logdiff = f(logdiff)`
    start = None
    for k, st in enumerate(fn.body):
        if isinstance(st, ast.Assign) and isinstance(st.targets[0], ast.Tuple) and len(st.targets[0].elts) == 2 \
                and isinstance(st.targets[0].elts[1], ast.Name) and st.targets[0].elts[1].id == 'logdiff' \
                and isinstance(st.value, ast.Call) and call_name(st.value.func) == 'traceset2xy':
            start = k
    if start is None:
        raise Unrecognised('filter_thru: logdiff is not taken from traceset2xy')
    logdiff_t = 'fitted'
    for st in fn.body[start + 1:]:
        if isinstance(st, ast.Assign) and len(st.targets) == 1 and isinstance(st.targets[0], ast.Name) \
                and st.targets[0].id == 'logdiff':
            v = st.value
            if isinstance(v, ast.Call) and call_name(v.func) in ('absolute', 'abs', 'fabs') and len(v.args) == 1 \
                    and isinstance(v.args[0], ast.Name) and v.args[0].id == 'logdiff' and not v.keywords:
                logdiff_t = '(Qabs %s)' % logdiff_t
            else:
                logdiff_t = rexpr(v, {'logdiff': logdiff_t}, 'Q')
    # ---- the weight image: filtimg = logdiff * <interpolated response>
    weight_t = None
    for n in ast.walk(fn):
        if isinstance(n, ast.Assign) and len(n.targets) == 1 and isinstance(n.targets[0], ast.Name) \
                and n.targets[0].id == 'filtimg':
            v = n.value
            if not (isinstance(v, ast.BinOp) and isinstance(v.op, ast.Mult)):
                raise Unrecognised('filter_thru: filtimg is not a product')

            def is_interp(e):
                return any(isinstance(c, ast.Call) and call_name(c.func) == 'interp' for c in ast.walk(e))
            sides = []
            for side in (v.left, v.right):
                if isinstance(side, ast.Name) and side.id == 'logdiff':
                    sides.append('logdiff')
                elif is_interp(side) and 'logdiff' not in {m.id for m in ast.walk(side) if isinstance(m, ast.Name)} - {'logdiff'} \
                        and not any(isinstance(m, ast.BinOp) for m in ast.walk(side)):
                    sides.append('resp')
                else:
                    raise Unrecognised('filter_thru: factor of filtimg')
            if sorted(sides) != ['logdiff', 'resp']:
                raise Unrecognised('filter_thru: filtimg factors %s' % sides)
            weight_t = '%s * %s' % tuple(sides)
    if weight_t is None:
        raise Unrecognised('filter_thru: filtimg not found')
    out = ['(* filter_thru, pydl/pydlspec2d/spec2d.py line %d: res = sum(flux * filtimg) / denominator *)' % fn.lineno,
           'Open Scope Q_scope.',
           'Definition filter_norm (res sumfilt : Q) : Q := res / %s.' % den_t,
           '(* pixel width d(log lambda): the fitted trace-set value as the source post-processes it; weight = width * response *)',
           'Definition filter_logdiff (fitted : Q) : Q := %s.' % logdiff_t,
           'Definition filter_weight (logdiff resp : Q) : Q := %s.' % weight_t,
           'Close Scope Q_scope.', '']
    return out


def generate(repo):
    info = {'recognised': True, 'detail': []}
    out = ['(* GENERATED by translate/c19.py from pydl/goddard/astro.py, pydl/photoop/sdssio.py, pydl/pydlspec2d/spec2d.py -- do not edit *)',
           'From Coq Require Import Reals QArith Qabs List Bool.', 'Import ListNotations.', '']
    try:
        out += gen_airvac(open(os.path.join(repo, 'pydl/goddard/astro.py')).read())
        out += gen_flux2ab(open(os.path.join(repo, 'pydl/photoop/sdssio.py')).read())
        out += gen_filter_norm(open(os.path.join(repo, 'pydl/pydlspec2d/spec2d.py')).read())
    except (Unrecognised, SyntaxError, OSError) as e:
        info['recognised'] = False
        info['detail'].append('%s: %s' % (type(e).__name__, e))
        return None, info
    return '\n'.join(out) + '\n', info


if __name__ == '__main__':
    import sys
    text, info = generate(sys.argv[1] if len(sys.argv) > 1 else '/repo')
    print(info)
    print(text)
