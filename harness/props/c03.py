"""C03 -- yanny: object and file never diverge over write/append histories."""
import copy
import itertools
import json
import os
import re

import numpy as np

from harness import common as C
from harness.props import yanny_gen as G

ID = 'C03'
PROPS_V = 'C03/Props.v'
LEVEL = 'proof'
TRUSTED = [
    'model coq/C03/Model.v of yanny.write() / yanny.append() / a fresh yanny(filename) over an abstract file system, on top '
    'of the reader / writer models coq/Yanny/{Parse,Render}.v.  Two ties on every run: (a) translate/c03.py regenerates the '
    'statement-by-statement skeleton of write() and append() (coq/Generated/YannyOps.v) and C03_source_write_is_model / '
    'C03_source_append_is_model prove that EXECUTING it (interpreter C03/SkelSem.v) is Model.do_write / do_append; '
    '(b) after EVERY operation of every generated history the outcome class, the object\'s file name, the bytes of that file '
    'and the object state computed by the model in Coq equal those of the real class',
    'the interpreter C03/SkelSem.v (meaning of the statement language: os.access F_OK / W_OK = the file exists, a raise leaves '
    'what was modified before it modified, loop bodies have block scope, `container[key]` is the value belonging to the loop '
    'key) and the per-row loop carried as source text (ROWS_SELF / ROWS_DATA = what Render.render_row transliterates)',
    'the operating system file layer beyond exists / create / append / read (permissions, concurrent writers: os.access is '
    'modelled as "the file exists")',
    'numpy float text: str(np.float32/64(float(t))) and repr(float(t)) reproduce the text t numpy printed (validated every run)',
    'harness/props/yanny_gen.py, harness/impl/c03_impl.py (dumps of the real objects; datetime patched to the clock of the op)',
    'Coq stdlib NArith/ZArith/List/Lia (theorems closed under the global context)',
]
ASSUMPTIONS = [
    'histories start from an object returned by write_ndarray_to_yanny for a document of the domain doc_ok (coq/Yanny/Render.v); '
    'raw mode: the written file re-opened with yanny(path, raw=True)',
    'the directory may hold planted entries when the history starts (zero bytes, a lone newline, blanks, another yanny file, '
    'garbage, a directory, a read-only file): write() is aimed at them; append targets are the own file or an absent name '
    '(append onto a directory / read-only file raises other error classes and is not generated)',
    'text-seeded histories (hand-written text with char x[] / char x[n][] columns, appends of values longer than all present, '
    'CRLF / tabs / trailing blanks / trailing comments / a keyword after the data / no final newline) are outside the domain of '
    'the CONTENT theorems (doc_ok excludes undeclared lengths) but inside the invariant-for-every-state theorems '
    '(C03_text_history_Inv; Total.text_domain evaluated on every such history); they are compared with the model after every '
    'op (Model.CText) and their content is decided by the direct checks object == fresh re-read == expected content',
    'appended rows fit the table (same domain as C01 cells), appended keys are identifiers different from every table name '
    '(they may re-state an existing keyword or be a case twin of one: dictionary semantics, Model.upd_pairs), '
    'appended values satisfy hdr_ok; write() is given its comments as a list / tuple, ONE string, None or not at all (round 6; a '
    'multi-line string carries its own # on continuation lines: a string is written verbatim); row data come as lists holding numpy '
    'scalars of the column type for floats (python ints / str otherwise) or as record arrays',
    'a table key in mixed letter case (neither all-lower nor all-upper) is silently dropped by append(): outside the statement; '
    'a table given under both NAME and name keeps only the lower-case entry: specified as is (Model.spec_rows)',
    'domain of the theorems: Append.op_ok / hist_ok (decidable: hist_okb); the harness evaluates Append.in_domain on every '
    'history it runs and reports histories_in_theorem_domain; the default header of write(comments=None) is a hand transliteration '
    '(CommentsModel.comment_text (CmtNone ..)) tied by the file bytes: its text is computed by os.path.basename and an f-string that the '
    'skeleton carries as opaque source text',
    'floats in histories have a text that is the same under str(numpy scalar) and repr(float): raw-mode write() respells '
    'other values (1e+10 -> 10000000000.0), equal as numbers',
    'the model keeps the typed (record-array) view of the object also in raw mode; raw dumps are compared through Types.raw_of',
]


def translate(ctx):
    # the regex literals / type tables of yanny.py -> Generated/YannyLits.v (same generator as C01); the obligation
    # Cxx_source_regexes_are_the_scanners in Props.v fails when the source uses another literal
    from harness.props import c01 as _c01
    out = _c01.translate(ctx)
    # the control skeleton of yanny.write() / yanny.append() -> Generated/YannyOps.v (statement language C03/SkelLang.v;
    # C03/Skel.v proves that its interpretation IS Model.do_write / Model.do_append: C03_source_*_skeleton*)
    from translate import c03 as T
    text, info = T.generate(C.REPO)
    if text is not None:
        info['changed'] = C.write_if_changed(os.path.join(C.COQ, 'Generated', 'YannyOps.v'), text)
    else:
        info['restored_committed_file'] = C.restore_generated('coq/Generated/YannyOps.v')
        info['note'] = 'yanny.write / yanny.append not found: committed Generated/YannyOps.v kept; the correspondence run alone ties the model'
    out['YannyOps'] = info
    out['recognised'] = bool(info.get('recognised')) and all(v.get('recognised', True) for v in out.values() if isinstance(v, dict))
    return out

HEADER = '''From Coq Require Import String.
From Coq Require Import NArith ZArith List. Import ListNotations.
From PV Require Import Yanny.Bytes Yanny.Types Yanny.Parse Yanny.Render C03.Model C03.Append C03.Total. Open Scope N_scope.'''

OUT_CODE = {'ok': 0, 'PydlutilsException': 1, 'warning': 2, 'ValueError': 3}
COMMENTS = ['c', 'second write', 'copy of the file', 'x  y', 'FOO 1 2', 'k v']
FRESH_KEYS = ['new_keyword', 'added', 'note', 'k9', 'Zeta', '_u', 'extra_1', 'status2', 'when', 'who', 'VERSION', 'SEEING', 'RUN2']


def pair_keys(rng, h, n):
    """keys for appended keyword pairs: fresh ones, and keys that re-state a keyword -- (i) one of the file's header (upper-case
    ones included), (ii) one appended earlier in the history, (iii) a lower / upper / mixed-case twin of an existing key.
    Never a key whose upper case is a table name (append() takes those for row data)."""
    tn = [t['name'].upper() for t in h.doc['tables']]
    present = [kv[0] for kv in (h.doc.get('hdr') or [])]
    fresh = [x for x in FRESH_KEYS + G.HDR_KEYS if x not in present]
    out = []
    for _ in range(n):
        t = rng.random()
        if present and t < 0.25:
            k = rng.choice(present)                                   # (i) / (ii) the same key again
        elif present and t < 0.45:
            p = rng.choice(present)                                   # (iii) a twin in another letter case
            k = rng.choice([p.upper(), p.lower(), p.swapcase(), p.capitalize()])
        elif fresh:
            k = rng.choice(fresh)
            if rng.random() < 0.3:
                k = k.upper()
        else:
            continue
        if k.upper() in tn or k == 'symbols' or k in out:
            continue
        out.append(k)
    return out


# ---------------------------------------------------------------------------------------------- generation

def stable(code, bits):
    """write() in raw mode prints a float column through python's float repr; numpy prints some float32 values in
    another spelling of the same value (1e+10 / 10000000000.0).  The model carries TEXT, so histories use floats whose
    text is the same under str(np.float32), str(np.float64) and repr(float)."""
    t = G.float_text(code, bits)
    return repr(float(t)) == t


def stabilise(rng, col, v):
    if isinstance(v, list):
        return [stabilise(rng, col, x) for x in v]
    if isinstance(v, dict):
        b = v['f']
        while not stable(col['code'], b):
            b = G.rand_float_bits(rng, col['code'])
        return {'f': b}
    return v


def stabilise_doc(rng, doc):
    for t in doc['tables']:
        for r in t['rows']:
            for j, c in enumerate(t['cols']):
                r[j] = stabilise(rng, c, r[j])
    return doc


def gen_rows(rng, doc, ti, n):
    t = doc['tables'][ti]
    names = [x['name'] for x in doc['tables']] + [x['name'].upper() for x in doc['tables']]
    em = G.enum_map(doc)
    enums = {k: (v[0], v[1]) for k, v in em.items()} if em else None
    rows = []
    for _ in range(n):
        r = []
        for j, c in enumerate(t['cols']):
            if c['arr'] is not None:
                r.append(stabilise(rng, c, [G.rand_scalar(rng, c, names, True, enums) for _ in range(c['arr'])]))
            else:
                v = G.rand_scalar(rng, c, names, False, enums)
                if j == len(t['cols']) - 1 and isinstance(v, str) and v.endswith('\\'):
                    v = v[:-1] + '/'
                r.append(stabilise(rng, c, v))
        rows.append(r)
    return rows


class Hist:
    """Python twin of the specification: the logical document and the set of files after each op."""

    def __init__(self, doc):
        self.doc = copy.deepcopy(doc)
        self.planted = [it['name'] for it in (doc.get('plant') or [])]
        self.files = {'f0.par'} | set(self.planted)
        self.cur = 'f0.par'
        self.nfile = 1
        self.clock = 0
        self.last_lines = (0, 0)
        self.used_keys = set(k for k, _ in (doc.get('hdr') or []))

    def tick(self):
        self.clock += 1
        return '2026-10-01 %02d:%02d:%02d UTC' % (self.clock // 3600, (self.clock // 60) % 60, self.clock % 60)

    def table_key(self, ti, lower):
        n = self.doc['tables'][ti]['name'].upper()
        return n.lower() if lower else n

    def apply(self, op):
        """expected effect of a SUCCESSFUL op on the logical document / file set"""
        if op['op'] == 'write':
            target = op['path'] if op['path'] is not None else self.cur
            if target not in self.files:
                self.files.add(target)
                self.cur = target
                return 'ok'
            return 'PydlutilsException'
        if op['op'] in ('append', 'append_missing'):
            tn = [t['name'].upper() for t in self.doc['tables']]
            pairs = [(e['k'], e['text']) for e in op['entries'] if 'text' in e and e['k'].upper() not in tn and e['k'] != 'symbols']
            keys = [e['k'] for e in op['entries']]
            rows = {}
            for ti, t in enumerate(self.doc['tables']):
                up = t['name'].upper()
                k = up.lower() if up.lower() in keys else up
                for e in op['entries']:
                    if e['k'] == k and 'rows' in e:
                        rows[ti] = e['rows']
                        break
            if not pairs and not any(rows.values()):
                return 'warning'
            if op['op'] == 'append_missing':
                return 'PydlutilsException'
            if self.doc['hdr'] is None:
                self.doc['hdr'] = []
            for k, v in pairs:
                # keywords are a dictionary: a re-stated key keeps its place and takes the new value
                for kv in self.doc['hdr']:
                    if kv[0] == k:
                        kv[1] = v
                        break
                else:
                    self.doc['hdr'].append([k, v])
                self.used_keys.add(k)
            self.last_lines = (len(pairs), sum(len(rr) for rr in rows.values()))
            for ti, rr in rows.items():
                self.doc['tables'][ti]['rows'].extend(copy.deepcopy(rr))
            return 'ok'
        return 'ok'


def gen_op(rng, h, kinds=None):
    doc = h.doc
    k = rng.choice(kinds or ['write_new', 'write_copy', 'write_over', 'write_existing_other', 'write_planted', 'append_rows', 'append_rows',
                             'append_rows_rec', 'append_pairs', 'append_mixed', 'append_empty', 'append_missing', 'reread'])
    if k in ('write_new', 'write_copy'):
        name = 'f%d.par' % h.nfile
        h.nfile += 1
        return {'op': 'write', 'path': name, 'comments': rng.sample(COMMENTS, rng.randint(1, 2)), 'tag': k}
    if k == 'write_over':
        return {'op': 'write', 'path': None, 'comments': ['c'], 'tag': k}
    if k == 'write_existing_other':
        return {'op': 'write', 'path': rng.choice(sorted(h.files)), 'comments': ['c'], 'tag': k}
    if k == 'write_planted':
        if not h.planted:
            return gen_op(rng, h, ['write_existing_other'])
        name = rng.choice(h.planted)
        cls = [it['cls'] for it in doc['plant'] if it['name'] == name][0]
        return {'op': 'write', 'path': name, 'comments': ['c'], 'tag': 'write_onto_%s' % cls}
    if k in ('append_rows', 'append_rows_rec'):
        ti = rng.randrange(len(doc['tables']))
        lower = rng.random() < 0.5
        e = {'k': h.table_key(ti, lower), 'table': ti, 'rows': gen_rows(rng, doc, ti, rng.randint(1, 3)),
             'form': 'recarray' if k == 'append_rows_rec' else 'lists'}
        return {'op': 'append', 'entries': [e], 'clock': h.tick(), 'tag': k + ('_lower' if lower else '_upper')}
    if k == 'append_pairs':
        tn = [t['name'].upper() for t in doc['tables']]
        ks = pair_keys(rng, h, rng.randint(1, 3))
        if not ks:
            return gen_op(rng, h, ['append_rows'])
        es = [{'k': x, 'text': str(rng.choice(G.HDR_VALUES + [42, 2.5]))} for x in ks]
        have = [kv[0] for kv in (h.doc.get('hdr') or [])]
        if any(x in have for x in ks):
            k += '_restated'
        elif any(x.upper() in [p.upper() for p in have] for x in ks):
            k += '_case_twin'
        return {'op': 'append', 'entries': es, 'clock': h.tick(), 'tag': k}
    if k == 'append_mixed':
        tn = [t['name'].upper() for t in doc['tables']]
        es = [{'k': x, 'text': str(rng.choice(G.HDR_VALUES))} for x in pair_keys(rng, h, rng.randint(0, 2))]
        for ti in rng.sample(range(len(doc['tables'])), rng.randint(1, min(2, len(doc['tables'])))):
            es.append({'k': h.table_key(ti, rng.random() < 0.5), 'table': ti, 'rows': gen_rows(rng, doc, ti, rng.randint(0, 2)),
                       'form': rng.choice(['lists', 'recarray'])})
        if rng.random() < 0.2:
            es.append({'k': 'symbols', 'text': 'ignored'})
        if rng.random() < 0.2:
            # the same table under BOTH spellings: append() takes the lower-case key and never looks at the other
            tabs = [e for e in es if 'table' in e]
            e0 = tabs[0]
            other = e0['k'].upper() if e0['k'] != e0['k'].upper() else e0['k'].lower()
            if other != e0['k'] and other not in [e['k'] for e in es]:
                es.append({'k': other, 'table': e0['table'], 'rows': gen_rows(rng, doc, e0['table'], rng.randint(1, 2)),
                           'form': rng.choice(['lists', 'recarray'])})
        rng.shuffle(es)
        return {'op': 'append', 'entries': es, 'clock': h.tick(), 'tag': k}
    if k == 'append_empty':
        t = rng.random()
        es = []
        if t < 0.3:
            es = [{'k': 'symbols', 'text': 'x'}]
        elif t < 0.6:
            ti = rng.randrange(len(doc['tables']))
            es = [{'k': h.table_key(ti, rng.random() < 0.5), 'table': ti, 'rows': [], 'form': 'lists'}]
        return {'op': 'append', 'entries': es, 'clock': h.tick(), 'tag': k}
    if k == 'append_missing':
        ti = rng.randrange(len(doc['tables']))
        es = [{'k': h.table_key(ti, True), 'table': ti, 'rows': gen_rows(rng, doc, ti, 1), 'form': 'lists'}]
        return {'op': 'append_missing', 'path': 'gone%d.par' % h.nfile, 'entries': es, 'clock': h.tick(), 'tag': k}
    return {'op': 'reread', 'tag': 'reread'}


def gen_history(rng, nops):
    doc = stabilise_doc(rng, G.gen_doc(rng, 'ndarray', ntables=rng.choice([1, 2, 2, 3]), allow_u=False, max_rows=3))
    if rng.random() < 0.7:
        doc['plant'] = gen_plant(rng, doc)
    h = Hist(doc)
    ops = []
    for _ in range(nops):
        op = gen_op(rng, h)
        h.apply(op)
        ops.append(op)
    return doc, ops


def py_protect(s):
    """twin of yanny.protect for the seed text"""
    if len(s) == 0 or '#' in s or re.search(r'\s+', s) is not None:
        return '"' + s + '"'
    return s


def render_text(doc):
    """The text write() would produce for the document, except that columns flagged 'unsized' are declared
    char x[] / char x[n][] (which the writer never emits: such files are hand-written)."""
    em = G.enum_map(doc)
    out = '#%yanny\n' + ''.join('# %s\n' % c for c in doc['comments'])
    for k, v in (doc.get('hdr') or []):
        out += '%s %s\n' % (k, v)
    ens = ['typedef enum {\n' + ',\n'.join('    ' + lab for lab in e[2]) + '\n} %s;' % e[1].upper() for e in (doc.get('enums') or [])]
    if ens:
        out += '\n' + '\n\n'.join(ens) + '\n'
    sts = []
    for t in doc['tables']:
        txt = 'typedef struct {\n'
        for c in t['cols']:
            code = c['code']
            arr = '[%d]' % c['arr'] if c['arr'] else ''
            if code[0] == 'S':
                if c['name'] in em:
                    txt += '    %s %s%s;\n' % (em[c['name']][0].upper(), c['name'], arr)
                else:
                    txt += '    char %s%s[%s];\n' % (c['name'], arr, '' if c.get('unsized') else code[1:])
            else:
                txt += '    %s %s%s;\n' % (G.CTYPE[code], c['name'], arr)
        sts.append(txt + '} %s;' % t['name'].upper())
    out += '\n' + '\n\n'.join(sts) + '\n\n'

    def tok(c, v):
        if isinstance(v, dict):
            return G.float_text(c['code'], v['f'])
        return py_protect(v) if isinstance(v, str) else str(v)
    for t in doc['tables']:
        for r in t['rows']:
            cells = []
            for c, v in zip(t['cols'], r):
                cells.append('{' + ' '.join(tok(c, x) for x in v) + '}' if isinstance(v, list) else tok(c, v))
            out += ' '.join([t['name'].upper()] + cells) + '\n'
    return out


def restyle(rng, doc, text):
    """Byte-level classes of a hand-written file (the meaning stays the same): LF / CRLF / mixed line ends, trailing
    blanks and tabs at line ends, a tab (or blanks and a tab) between the table name and the first cell and in front of
    a data row, no final newline.  Returns (bytes as str, style tag)."""
    style = rng.choice(['lf', 'lf', 'crlf', 'crlf', 'mixed'])
    trailing = rng.random() < 0.4
    tabs = rng.random() < 0.4
    nofinal = rng.random() < 0.2
    comments = rng.random() < 0.35          # trailing comments after keyword values and data rows
    tailpair = rng.random() < 0.25          # the last keyword line comes AFTER the data (hand-written files may do that)
    if rng.random() < 0.2:                  # the three together: the last line is `key value # comment`, unterminated
        nofinal = comments = tailpair = True
    names = [t['name'].upper() for t in doc['tables']]
    lines = text.split('\n')
    assert lines[-1] == ''
    first_td = next((i for i, ln in enumerate(lines) if ln.startswith('typedef')), len(lines))
    pair_idx = [i for i, ln in enumerate(lines[:first_td]) if ln and not ln.startswith('#')]
    if tailpair and pair_idx:
        ln = lines.pop(pair_idx[-1])
        lines.insert(len(lines) - 1, ln)
        pair_idx = pair_idx[:-1] + [len(lines) - 2]
    elif tailpair:
        tailpair = False
    if comments:
        for i, ln in enumerate(lines[:-1]):
            is_row = any(ln.startswith(n + ' ') for n in names)
            if (i in pair_idx or is_row) and not ln.endswith('\\') and (rng.random() < 0.6 or i == len(lines) - 2):
                lines[i] = ln + rng.choice([' # note', '\t# set by hand', ' # "quoted" remark', '  #', ' # it is 3.5 m'])
    out = []
    for ln in lines[:-1]:
        if tabs and any(ln.startswith(n + ' ') for n in names):
            n = [n for n in names if ln.startswith(n + ' ')][0]
            ln = rng.choice(['', '\t', ' \t']) + n + rng.choice(['\t', ' \t ', '  ']) + ln[len(n) + 1:]
        if trailing and rng.random() < 0.5 and not ln.endswith('\\'):
            ln += rng.choice([' ', '\t', ' \t ', '   '])
        eol = {'lf': '\n', 'crlf': '\r\n'}.get(style) or rng.choice(['\n', '\r\n'])
        out.append(ln + eol)
    res = ''.join(out)
    if nofinal:
        res = res[:-2] if res.endswith('\r\n') else res[:-1]
    tag = style + ('+trailing-blanks' if trailing else '') + ('+tabs' if tabs else '') + ('+trailing-comments' if comments else '') \
        + ('+keyword-after-data' if tailpair else '') + ('+no-final-newline' if nofinal else '')
    return res, tag


def make_text_seed(rng, doc):
    """Turn a generated document into one that is read from hand-written TEXT: character columns of undeclared length.
    The seed values stay short; the column's 'code' (used only to draw appended values and to build record arrays) is
    widened, so later appends bring values longer than everything present at the first parse."""
    em = G.enum_map(doc)
    for t in doc['tables']:
        for j, c in enumerate(t['cols']):
            if c['code'][0] == 'S' and c['name'] not in em and t['rows'] and rng.random() < 0.7:
                vals = [x for r in t['rows'] for x in (r[j] if isinstance(r[j], list) else [r[j]])]
                if any(len(x) > 0 for x in vals):          # numpy has no zero-width strings
                    c['unsized'] = True
                    c['code'] = 'S%d' % (max(len(x) for x in vals) + rng.randint(2, 9))
    used = [t['name'].upper() for t in doc['tables']]
    name = [n for n in ('LOG', 'ULOG', 'NOTES') if n not in used][0]
    k = rng.randint(2, 3)
    doc['tables'].insert(rng.randint(0, len(doc['tables'])), {
        'name': name,
        'cols': [{'name': 'id9', 'code': 'i4', 'arr': None},
                 {'name': 'note9', 'code': 'S%d' % rng.randint(6, 14), 'arr': None, 'unsized': True},
                 {'name': 'tags9', 'code': 'S%d' % rng.randint(5, 10), 'arr': k, 'unsized': True}],
        'rows': [[1, 'ok', ['a', 'b', ''][:k]], [2, 'bad', ['c', 'd', 'e'][:k]]][:rng.randint(1, 2)]})
    doc['text_seed'] = True
    doc['text'], doc['text_style'] = restyle(rng, doc, render_text(doc))
    return doc


PLANT_CLASSES = ['zero', 'newline', 'blanks', 'yanny', 'garbage', 'dir', 'readonly']


def twin_text(doc):
    """another valid yanny file with the SAME table names but other declarations (columns reversed, one more column)"""
    v = copy.deepcopy(doc)
    v.pop('text_seed', None)
    for t in v['tables']:
        t['cols'] = list(reversed(t['cols'])) + [{'name': 'zz9', 'code': 'i8', 'arr': None}]
        t['rows'] = [list(reversed(r)) + [k] for k, r in enumerate(t['rows'])]
        for c in t['cols']:
            c.pop('unsized', None)
    v['hdr'] = [['twin', 'yes']]
    return render_text(v)


def gen_plant(rng, doc, classes=None):
    """files that are already in the directory when the history starts: the possible targets of a write"""
    out = []
    for k, cls in enumerate(classes if classes is not None else rng.sample(PLANT_CLASSES, rng.randint(1, 3))):
        data = {'zero': b'', 'newline': b'\n', 'blanks': rng.choice([b' ', b' \t \n\n', b'\t']),
                'yanny': twin_text(doc).encode('latin-1'), 'garbage': rng.choice([b'\x00\xff\xfe}{', b'typedef struct {', b'FOO 1 2\n"']),
                'dir': b'', 'readonly': b'kept 1\n'}[cls]
        out.append({'name': 'x%d.par' % k, 'cls': cls, 'hex': data.hex()})
    return out


def gen_text_history(rng, nops):
    doc = make_text_seed(rng, stabilise_doc(rng, G.gen_doc(rng, 'ndarray', ntables=rng.choice([1, 1, 2]), allow_u=False, max_rows=2)))
    h = Hist(doc)
    ui = [i for i, t in enumerate(doc['tables']) if any(c.get('unsized') for c in t['cols'])]
    ops = []
    for i in range(nops):
        if i == 0 or rng.random() < 0.35:
            # rows for a table with an undeclared-length column (values up to the widened code, i.e. longer than the seed's)
            ti = rng.choice(ui)
            lower = rng.random() < 0.5
            form = rng.choice(['lists', 'recarray'])
            op = {'op': 'append', 'entries': [{'k': h.table_key(ti, lower), 'table': ti, 'rows': gen_rows(rng, h.doc, ti, rng.randint(1, 2)),
                                               'form': form}],
                  'clock': h.tick(), 'tag': 'append_rows_unsized' + ('_rec' if form == 'recarray' else '')}
            if i == 0:
                op['style'] = doc.get('text_style')
        else:
            op = gen_op(rng, h, ['write_copy', 'write_new', 'reread', 'append_rows', 'append_rows_rec', 'append_pairs', 'append_mixed',
                                 'write_over', 'append_empty'])
        h.apply(op)
        ops.append(op)
    return doc, ops


# ---------------------------------------------------------------------------------------------- round 6: the comments option
CWORDS = ['information', 'follows', 'in', 'the', 'pairs', 'below', 'and', 'must', 'be', 'kept', 'together', 'with', 'table', 'when', 'this',
          'file', 'is', 'redistributed', '1', '2.5', '99', '-3', 'injected', 'by', 'a', 'comment', 'k', 'v', '{x}', 'a;b', '#', '##', "it's",
          '"quoted"', 'mjd', '54579', 'x=1', '(see', 'above)', 'reprocessed', 'copy', 'of', 'observing', 'log', ',', '.', '%yanny', '{', '}', '{{}}']


def comment_line(rng, h, lo, hi):
    """a line of commentary of lo..hi characters; table names, keywords and numbers are among its words (a word that starts
    a folded continuation line would be taken for a row or a keyword); single and double blanks, tabs"""
    names = [t['name'].upper() for t in h.doc['tables']] + [t['name'].lower() for t in h.doc['tables']] + [kv[0] for kv in (h.doc.get('hdr') or [])]
    target = rng.randint(lo, hi)
    out = rng.choice(CWORDS + names)
    while len(out) < target:
        out += rng.choice([' ', ' ', ' ', '  ', '\t']) + rng.choice(CWORDS + names + names)
    return out


def gen_comment_value(rng, h):
    """-> (cform, value): every form yanny.write(comments=...) documents.  All lines of the resulting header are comment lines
    (a string is written VERBATIM: continuation lines of a multi-line string carry their own '#')."""
    form = rng.choice(['list-long', 'list-long', 'tuple', 'str-short', 'str-long', 'str-long', 'str-hash', 'str-newline', 'str-multi', 'str-multi',
                       'str-empty', 'none', 'absent', 'list-many'])
    long_ = lambda: comment_line(rng, h, 79, rng.choice([90, 160, 400]))
    short = lambda: comment_line(rng, h, 0, 40)
    if form == 'list-long':
        return 'list', [rng.choice([long_, long_, short])() for _ in range(rng.randint(1, 3))]
    if form == 'list-many':
        return 'list', [short() for _ in range(rng.randint(4, 12))]
    if form == 'tuple':
        return 'tuple', [rng.choice([long_, short])() for _ in range(rng.randint(1, 3))]
    if form == 'str-short':
        return 'str', short()
    if form == 'str-long':
        return 'str', long_()
    if form == 'str-hash':
        return 'str', rng.choice(['#', '# ', '#!', '##']) + rng.choice([long_, short])()
    if form == 'str-newline':
        return 'str', rng.choice([long_, short])() + '\n'
    if form == 'str-multi':
        lines = [rng.choice([long_, short])()] + [rng.choice(['#', '# ', '#  ', '##']) + rng.choice([long_, short, lambda: ''])() for _ in range(rng.randint(1, 4))]
        return 'str', '\n'.join(lines) + rng.choice(['', '\n'])
    if form == 'str-empty':
        return 'str', ''
    return form, None


def gen_comment_history(rng):
    """a short ordinary history, then ONE write with a comments value of some form (to a new name, onto an existing name, or
    onto the own file), then appends / re-reads that go on from the file so written.  -> (doc, ops, index of the write)"""
    doc = stabilise_doc(rng, G.gen_doc(rng, 'ndarray', ntables=rng.choice([1, 2, 2]), allow_u=False, max_rows=3))
    if rng.random() < 0.4:
        doc['plant'] = gen_plant(rng, doc)
    h = Hist(doc)
    ops = []
    for _ in range(rng.randint(0, 3)):
        op = gen_op(rng, h)
        h.apply(op)
        ops.append(op)
    k = len(ops)
    t = rng.random()
    op = gen_op(rng, h, ['write_new'] if t < 0.8 else (['write_existing_other'] if t < 0.92 else ['write_over']))
    cform, value = gen_comment_value(rng, h)
    op.update(cform=cform, comments=value, clock=h.tick(), tag='%s:comments=%s' % (op['tag'], cform))
    h.apply(op)
    ops.append(op)
    for _ in range(rng.randint(0, 3)):
        op = gen_op(rng, h, ['append_rows', 'append_rows_rec', 'append_pairs', 'append_mixed', 'append_empty', 'reread', 'append_missing'])
        h.apply(op)
        ops.append(op)
    return doc, ops, k


CHEADER = HEADER.replace('C03.Total.', 'C03.Total C03.SkelLang C03.SkelSem C03.CommentsModel.')


def cmt_term(op, target_name):
    if op['cform'] in ('list', 'tuple'):
        return '(CmtList %s)' % C.coq_list([G.blit(c) for c in op['comments']])
    if op['cform'] == 'str':
        return '(CmtStr %s)' % G.blit(op['comments'])
    return '(CmtNone %s %s)' % (G.blit(target_name), G.blit(op['clock']))


def evaluate_comment_histories(ctx, chists, dist, seen, groups):
    """Three Coq cases per history: the prefix as an ordinary history (Model.step), the write itself (CommentsModel.CWriteC:
    the source's write() skeleton executed with the comments value; +2 when the object is no longer the history content),
    and the suffix as a history that starts from the TEXT of the file so written (Model.CText)."""
    jobs = [job_of('c%05d' % i, doc, raw, ops) for i, (doc, raw, ops, k) in enumerate(chists)]
    results, _ = run_jobs(ctx, jobs)
    pre_terms, w_terms, suf_terms = [], [], []
    pre_idx, w_idx, suf_idx = [], [], []
    infos = []
    for i, ((doc, raw, ops, k), res) in enumerate(zip(chists, results)):
        bad, exps = direct_checks(doc, raw, ops, res)
        infos.append(bad)
        for op, st in zip(ops, res.get('steps', [])):
            key = '%s:%s' % (op['tag'], st['outcome'])
            dist[key] = dist.get(key, 0) + 1
        if bad:
            groups.setdefault(bad[0][1], []).append((len(ops), doc, raw, ops, bad, 0))
        steps = res.get('steps', [])
        if 'exc' in res.get('init', {}) or len(exps) < len(steps):
            continue
        if k > 0:
            pre_terms.append(case_term(doc, raw, ops[:k], dict(res, steps=steps[:k]), exps[:k]))
            pre_idx.append(i)
        if len(steps) > k:
            op, st = ops[k], steps[k]
            before = steps[k - 1] if k > 0 else res['init']
            target = op['path'] if op['path'] is not None else before['filename']
            extra = C.coq_list(['(%s, %s)' % (G.blit(it['name']), G.blit(b'' if it['cls'] == 'dir' else bytes.fromhex(it['hex'])))
                                for it in (doc.get('plant') or [])])
            w_terms.append('(CWriteC %s %s %s %s %s %s %s %s)' % (
                G.doc_term(doc), G.blit('f0.par'), C.boollit(raw), extra, C.coq_list([op_term(doc, o) for o in ops[:k]]),
                'None' if op['path'] is None else '(Some %s)' % G.blit(op['path']), cmt_term(op, target), obs_term(st, raw, exps[k])))
            w_idx.append(i)
            if len(steps) > k + 1 and st['outcome'] == 'ok' and st.get('bytes_hex') is not None:
                sub = list(zip(ops[k + 1:], steps[k + 1:], exps[k + 1:]))
                suf_terms.append('(CText %s %s %s %s %s)' % (
                    G.blit(bytes.fromhex(st['bytes_hex'])), G.blit(st['filename']), C.boollit(raw), state_term(st, raw, exps[k]),
                    C.coq_list(['(%s, %s)' % (op_term(doc, o), obs_term(s_, raw, e_)) for o, s_, e_ in sub])))
                suf_idx.append(i)
    cc = C.CoqCases(ctx.work, HEADER, 'run_cases_all', shard=ctx.n(8, 40))
    v_pre = cc.run(pre_terms, tag='cpre') if pre_terms else []
    v_suf = cc.run(suf_terms, tag='csuf') if suf_terms else []
    cw = C.CoqCases(ctx.work, CHEADER, 'run_ccases', shard=ctx.n(8, 40))
    v_w = cw.run(w_terms, tag='cwrite') if w_terms else []
    ctx.coverage['coq_eval_s'] = round(ctx.coverage.get('coq_eval_s', 0) + cc.coq_seconds + cw.coq_seconds, 1)
    for i, v in zip(w_idx, v_w):
        doc, raw, ops, k = chists[i]
        if v & 4:
            raise RuntimeError('generator produced a comments value whose header is not made of comment lines: %r' % (ops[k],))
        if v == 8:
            raise RuntimeError('initial document does not render/parse in the model: %r' % (doc,))
        if infos[i]:
            continue
        if v & 2:
            sig = 'C03:harness:python-and-coq-spec-disagree'
        elif v & 1:
            sig = 'C03:model:write-comments=%s' % ops[k]['cform']
        else:
            continue
        if sig in seen:
            continue
        seen.add(sig)
        ctx.violation(sig, 'write(comments=<%s>): the write() skeleton of the source, executed on this comments value, and the implementation '
                      'disagree (outcome, file bytes or object) although the direct checks hold' % ops[k]['cform'],
                      {'kind': 'broken-correspondence', 'item': 'C03.CommentsModel.model_write_c (Generated.YannyOps.write_skel executed)',
                       'doc': doc, 'raw': raw, 'ops': ops, 'step': k + 1, 'verdict': v, 'observed': results[i]['steps'][k]}, False)
    for which, idx, vs in (('prefix', pre_idx, v_pre), ('suffix', suf_idx, v_suf)):
        for i, v in zip(idx, vs):
            v &= ~4
            if v == 0 or infos[i]:
                continue
            doc, raw, ops, k = chists[i]
            sig = 'C03:model:step' if which == 'prefix' else 'C03:model:step-after-comment-write'
            if sig in seen:
                continue
            seen.add(sig)
            ctx.violation(sig, 'model and implementation disagree in the %s of a history with a write(comments=<%s>) although the direct checks hold'
                          % (which, ops[k]['cform']),
                          {'kind': 'broken-correspondence', 'item': 'C03.Model.step', 'doc': doc, 'raw': raw, 'ops': ops, 'verdict': v, 'part': which}, False)
    ctx.coverage['comment_histories'] = {'histories': len(chists), 'coq_s': round(cc.coq_seconds + cw.coq_seconds, 1), 'write_cases': len(w_terms), 'prefix_cases': len(pre_terms), 'suffix_cases': len(suf_terms),
                                         'by_form': {f: sum(1 for c in chists if c[2][c[3]]['cform'] == f) for f in ('list', 'tuple', 'str', 'none', 'absent')},
                                         'longest_comment_line': max([len(l) for c in chists if isinstance(c[2][c[3]].get('comments'), (str, list))
                                                                      for x in ([c[2][c[3]]['comments']] if isinstance(c[2][c[3]]['comments'], str) else c[2][c[3]]['comments'])
                                                                      for l in x.split('\n')] + [0])}
    return sum(len(r.get('steps', [])) for r in results)


SEED_DOC = {'comments': ['seed'], 'hdr': [['k', 'v w']], 'enums': [['state', 'STATUS', ['FAILURE', 'SUCCESS']]], 'tables': [
    {'name': 'FOO', 'cols': [{'name': 'x', 'code': 'i4', 'arr': None}, {'name': 's', 'code': 'S6', 'arr': 2}],
     'rows': [[1, ['a b', '']]]},
    {'name': 'foobar', 'cols': [{'name': 'foo', 'code': 'f4', 'arr': None}, {'name': 'state', 'code': 'S7', 'arr': None}],
     'rows': []}]}


def exhaustive_histories(maxlen):
    """all op sequences of length <= maxlen over a two-table seed document (thorough tier)"""
    kinds = ['write_new', 'write_over', 'write_planted', 'append_rows', 'append_rows_rec', 'append_pairs', 'append_empty', 'append_missing',
             'reread']
    seed = copy.deepcopy(SEED_DOC)
    seed['plant'] = [{'name': 'x0.par', 'cls': 'zero', 'hex': ''}, {'name': 'x1.par', 'cls': 'newline', 'hex': '0a'}]
    out = []
    for n in range(1, maxlen + 1):
        for seq in itertools.product(kinds, repeat=n):
            rng = __import__('random').Random('exh-' + '-'.join(seq))
            h = Hist(seed)
            ops = []
            for k in seq:
                op = gen_op(rng, h, [k])
                h.apply(op)
                ops.append(op)
            out.append((copy.deepcopy(seed), ops))
    return out


# ---------------------------------------------------------------------------------------------- Coq terms

def rows_term(doc, e):
    t = doc['tables'][e['table']]
    return C.coq_list([C.coq_list([G.cell_term(c, v) for c, v in zip(t['cols'], r)]) for r in e['rows']])


def adata_term(doc, entries):
    out = []
    for e in entries:
        if 'text' in e:
            out.append('(%s, AText %s)' % (G.blit(e['k']), G.blit(e['text'])))
        else:
            out.append('(%s, ARows %s)' % (G.blit(e['k']), rows_term(doc, e)))
    return C.coq_list(out)


def op_term(doc, op):
    if op['op'] == 'write':
        cm = C.coq_list([G.blit(c) for c in op['comments']])
        if op['path'] is None:
            return '(WriteOverExisting %s)' % cm
        return '(%s %s %s)' % ('WriteNew' if op.get('tag') == 'write_new' else 'WriteCopy', G.blit(op['path']), cm)
    if op['op'] == 'append':
        es = op['entries']
        if not es:
            return '(AppendEmpty %s)' % G.blit(op['clock'])
        if len(es) == 1 and 'rows' in es[0] and es[0]['rows']:
            e = es[0]
            name = doc['tables'][e['table']]['name']
            up = name.upper()
            if e['k'] in (up, up.lower()):
                return '(AppendRows %s %s %s %s)' % (C.boollit(e['k'] != up), G.blit(name), rows_term(doc, e), G.blit(op['clock']))
        if all('text' in e for e in es) and all(e['k'] != 'symbols' for e in es):
            return '(AppendPairs %s %s)' % (C.coq_list(['(%s, %s)' % (G.blit(e['k']), G.blit(e['text'])) for e in es]), G.blit(op['clock']))
        return '(AppendMixed %s %s)' % (adata_term(doc, es), G.blit(op['clock']))
    if op['op'] == 'append_missing':
        return '(AppendToMissing %s %s %s)' % (G.blit(op['path']), adata_term(doc, op['entries']), G.blit(op['clock']))
    return 'ReRead'


def state_term(st, raw, exp):
    ob = st.get('object')
    if ob is None or 'exc' in ob:
        return 'ONone'
    if raw:
        return '(OR %s)' % G.rdoc_term(ob['ok'], exp)
    return '(OP %s)' % G.pdoc_term(ob['ok'], exp)


def obs_term(st, raw, exp):
    code = OUT_CODE.get(st['outcome'], 4)
    return '(mkobs %s %s %s %s)' % (C.zlit(code), G.blit(st['filename']),
                                    C.optlit(st.get('bytes_hex'), lambda h: G.blit(bytes.fromhex(h))), state_term(st, raw, exp))


def case_term(doc, raw, ops, res, exps):
    steps = []
    for op, st, exp in zip(ops, res['steps'], exps):
        steps.append('(%s, %s)' % (op_term(doc, op), obs_term(st, raw, exp)))
    if doc.get('text_seed'):
        return '(CText %s %s %s %s %s)' % (G.blit(doc.get('text') or render_text(doc)), G.blit('f0.par'), C.boollit(raw),
                                           state_term(res['init'], raw, G.expected(doc)), C.coq_list(steps))
    if doc.get('plant'):
        extra = C.coq_list(['(%s, %s)' % (G.blit(it['name']), G.blit(b'' if it['cls'] == 'dir' else bytes.fromhex(it['hex'])))
                            for it in doc['plant']])
        return '(CHistX %s %s %s %s %s)' % (G.doc_term(doc), G.blit('f0.par'), C.boollit(raw), extra, C.coq_list(steps))
    return '(CHist %s %s %s %s)' % (G.doc_term(doc), G.blit('f0.par'), C.boollit(raw), C.coq_list(steps))


# ---------------------------------------------------------------------------------------------- direct checks

def first_difference(a, b, path='object'):
    """where two dumps differ first: '<path>: <object side> / fresh read: <file side>'"""
    if isinstance(a, dict) and isinstance(b, dict):
        for k in sorted(set(a) | set(b)):
            if json.dumps(a.get(k), sort_keys=True) != json.dumps(b.get(k), sort_keys=True):
                return first_difference(a.get(k), b.get(k), '%s.%s' % (path, k))
    if isinstance(a, list) and isinstance(b, list) and len(a) == len(b):
        for i, (x, y) in enumerate(zip(a, b)):
            if json.dumps(x, sort_keys=True) != json.dumps(y, sort_keys=True):
                return first_difference(x, y, '%s[%d]' % (path, i))
    return '%s holds %s, a fresh read of the file gives %s' % (path, json.dumps(a)[:100], json.dumps(b)[:100])


def direct_checks(doc, raw, ops, res):
    """Behavioural statement of the property on the real code, step by step.
    Returns (list of (step index, kind, detail), list of expected() views per step)."""
    bad = []
    exps = []
    if 'exc' in res.get('init', {}):
        return [(0, 'init-raised-%s' % res['init']['exc'], res['init'].get('msg', ''))], exps
    h = Hist(doc)
    prev = res['init']
    ob0 = prev.get('object') or {}
    if 'exc' in ob0:
        return [(0, 'initial-object-dump-raised-%s' % ob0['exc'], ob0.get('msg', ''))], exps
    d0 = G.diff_tables(G.expected(doc), ob0['ok'], check_types=not raw)
    if d0:
        bad.append((0, 'initial-read-is-not-the-file-content', '; '.join(d0)[:300]))
    for i, (op, st) in enumerate(zip(ops, res['steps'])):
        before_doc = copy.deepcopy(h.doc)
        want = h.apply(op)
        got = st['outcome']
        exp = G.expected(h.doc)
        exps.append(exp)
        k = i + 1
        if got not in ('ok', 'warning', 'PydlutilsException'):
            bad.append((k, 'raised-%s' % got, st.get('msg', '')))
            break
        if st.get('caller_data_changed'):
            bad.append((k, 'caller-data-modified', 'the dict / record arrays / comment list handed to %s differ after the call' % op['op']))
        if st.get('bystander_changed'):
            bad.append((k, 'another-live-object-changed', 'a second yanny object alive in the process changed during %s' % op['op']))
        if got != want:
            # the outcome class itself is part of the property for the refusal paths
            if want == 'PydlutilsException' and op['op'] == 'write':
                bad.append((k, 'write-replaced-existing-file' if got == 'ok' else 'write-over-existing-%s' % got,
                            st.get('msg', '') or 'write(%r) [%s] onto a name that exists returned without raising' % (op.get('path'), op.get('tag'))))
            elif want == 'PydlutilsException':
                bad.append((k, 'append-to-missing-%s' % got, st.get('msg', '')))
            elif want == 'warning':
                bad.append((k, 'append-nothing-%s' % got, st.get('msg', '')))
            else:
                bad.append((k, 'refused-%s' % got, st.get('msg', '')))
            h.doc = before_doc if got != 'ok' else h.doc
        # refused / warned: nothing may change
        if got in ('warning', 'PydlutilsException'):
            if st['files'] != prev['files']:
                created = sorted(set(st['files']) - set(prev['files']))
                bad.append((k, 'refused-op-created-file' if created else 'refused-op-changed-file', 'files before %r after %r' % (prev['files'], st['files'])))
            if json.dumps(st['object'], sort_keys=True) != json.dumps(prev['object'], sort_keys=True) or st['filename'] != prev['filename']:
                bad.append((k, 'refused-op-changed-object', ''))
        # earlier bytes are preserved
        if got == 'ok' and op['op'] == 'append':
            pb = prev.get('bytes_hex') or ''
            nb = st.get('bytes_hex') or ''
            if not nb.startswith(pb) or len(nb) <= len(pb):
                ob_, nb_ = bytes.fromhex(pb), bytes.fromhex(nb)
                i0 = next((i for i in range(min(len(ob_), len(nb_))) if ob_[i] != nb_[i]), min(len(ob_), len(nb_)))
                bad.append((k, 'append-changed-earlier-bytes', 'the file is not (old bytes + appended bytes): first difference at byte %d of %d: '
                            'before %r, after %r' % (i0, len(ob_), ob_[max(0, i0 - 12):i0 + 6], nb_[max(0, i0 - 12):i0 + 6])))
            else:
                added = bytes.fromhex(nb[len(pb):]).decode('latin-1')
                npairs, nrows = h.last_lines if want == 'ok' else (0, 0)      # every pair of the dictionary gets its line
                marker = '# Appended by yanny.py at %s.\n' % op['clock']
                unterminated = len(pb) > 0 and not pb.endswith('0a')
                if unterminated and added.startswith('\n'):
                    added = added[1:]             # the old last line had no newline: append() may terminate it first
                if not added.startswith(marker):
                    bad.append((k, 'append-marker-line-missing', repr(added[:80])))
                elif want == 'ok' and (not added.endswith('\n') or added.count('\n') != 1 + npairs + nrows):
                    bad.append((k, 'append-wrote-wrong-number-of-lines', '%d lines for %d new pairs and %d new rows'
                                % (added.count('\n') - 1, npairs, nrows)))
            other_before = {f: s for f, s in prev['files'].items() if f != prev['filename']}
            other_after = {f: s for f, s in st['files'].items() if f != st['filename']}
            if other_before != other_after:
                bad.append((k, 'append-touched-another-file', ''))
        if got == 'ok' and op['op'] == 'write':
            for f, s in prev['files'].items():
                if st['files'].get(f) != s:
                    bad.append((k, 'write-changed-existing-file', f))
        # object == fresh re-read == specified content
        ob = st.get('object') or {}
        rr = st.get('reread')
        if 'exc' in ob:
            bad.append((k, 'object-dump-raised-%s' % ob['exc'], ob.get('msg', '')))
            break
        if rr is None or 'exc' in rr:
            bad.append((k, 'reread-failed', repr(rr)[:200]))
        elif json.dumps(ob['ok'], sort_keys=True) != json.dumps(rr['ok'], sort_keys=True):
            d = G.diff_tables(exp, rr['ok'], check_types=not raw)
            bad.append((k, 'object-differs-from-fresh-reread', ('; '.join(d) or first_difference(ob['ok'], rr['ok']))[:300]))
        d = G.diff_tables(exp, ob['ok'], check_types=not raw)
        pb_ = prev.get('bytes_hex') or ''
        if d and got == 'ok' and op['op'] == 'append' and pb_ and not pb_.endswith('0a') \
                and not G.diff_tables(G.expected(before_doc), (prev.get('object') or {}).get('ok') or {}, check_types=not raw):
            # the content was right before this append, the file had no final newline, and now an EARLIER line reads differently
            bad.append((k, 'append-glued-to-unterminated-last-line',
                        ('the file did not end with a newline (last line %r); after the append: ' % bytes.fromhex(pb_).decode('latin-1').split('\n')[-1][:60]
                         + '; '.join(d))[:300]))
        elif d:
            bad.append((k, 'object-is-not-the-history-content', '; '.join(d)[:300]))
        prev = st
    return bad, exps


def oracle_check(rng, n):
    """re-rendering a value read from numpy's own text reproduces the text (write() after a read)"""
    bad = []
    for code, specials, nb in (('f4', G.SPECIAL32, 32), ('f8', G.SPECIAL64, 64)):
        for b in list(specials) + [rng.getrandbits(nb) for _ in range(n)]:
            x = G.bits_to_float(code, b)
            t = str(x)
            y = np.float32(float(t)) if code == 'f4' else np.float64(float(t))
            if str(y) != t or (stable(code, b) and str(float(t)) != t):
                bad.append((code, b, t, str(y), str(float(t))))
    return bad


# ---------------------------------------------------------------------------------------------- the check

def job_of(ident, doc, raw, ops):
    j = {'id': ident, 'doc': doc, 'raw': raw, 'ops': ops}
    if doc.get('plant'):
        j['plant'] = doc['plant']
    if doc.get('text_seed'):
        j['text'] = doc.get('text') or render_text(doc)
    return j


def run_jobs(ctx, jobs, nb=12):
    nb = min(nb, max(1, len(jobs)))
    batches = [jobs[i::nb] for i in range(nb)]
    payloads = [{'workdir': os.path.join(ctx.work, 'hist%d' % i), 'jobs': b} for i, b in enumerate(batches)]
    outs = C.run_impl_parallel('c03_impl.py', payloads)
    results = [None] * len(jobs)
    for bi, o in enumerate(outs):
        for k, r in enumerate(o['results']):
            results[bi + k * nb] = r
    return results, outs[0]['pydl_file']


def evaluate(ctx, hists, tag='cases'):
    jobs = [job_of('h%05d' % i, doc, raw, ops) for i, (doc, raw, ops) in enumerate(hists)]
    results, pydl_file = run_jobs(ctx, jobs)
    ctx.coverage['pydl_file'] = pydl_file
    infos = []
    terms = []
    for (doc, raw, ops), res in zip(hists, results):
        bad, exps = direct_checks(doc, raw, ops, res)
        infos.append(bad)
        if 'exc' in res.get('init', {}):
            terms.append('(CHist %s %s %s [])' % (G.doc_term(doc), G.blit('f0.par'), C.boollit(raw)))
        else:
            terms.append(case_term(doc, raw, ops, res, exps))
    cc = C.CoqCases(ctx.work, HEADER, 'run_cases_all', shard=ctx.n(8, 40))
    verdicts = cc.run(terms, tag=tag)
    ctx.coverage['coq_eval_s'] = round(ctx.coverage.get('coq_eval_s', 0) + cc.coq_seconds, 1)
    return results, infos, verdicts, terms


def failing(doc, raw, ops, ctx):
    """does the history (doc, raw, ops) fail the direct checks?  -> first bad (step, kind, detail) or None"""
    results, _ = run_jobs(ctx, [job_of('s0', doc, raw, ops)], nb=1)
    bad, _ = direct_checks(doc, raw, ops, results[0])
    return bad[0] if bad else None


def shrink(ctx, doc, raw, ops, kind):
    """remove operations (then rows of the document) while the same kind of failure remains"""
    ops = list(ops)
    changed = True
    rounds = 0
    while changed and rounds < 6:
        changed = False
        rounds += 1
        cands = [ops[:i] + ops[i + 1:] for i in range(len(ops))]
        jobs = [job_of('c%03d' % i, doc, raw, c) for i, c in enumerate(cands)]
        if not jobs:
            break
        results, _ = run_jobs(ctx, jobs, nb=8)
        for c, r in zip(cands, results):
            try:
                bad, _ = direct_checks(doc, raw, c, r)
            except Exception:  # noqa: BLE001 - a candidate that no longer makes sense (row of a removed op ...)
                continue
            if bad and bad[0][1] == kind:
                ops = c
                changed = True
                break
    return ops


def correspond(ctx, proof_ok=True):
    ok, log = C.coq_make(['C03/Total.vo'])
    if not ok:
        raise RuntimeError('C03/Total.v does not build:\n' + log[-2000:])
    bo = oracle_check(ctx.rng, ctx.n(10000, 200000))
    if bo:
        ctx.violation('C03:oracle:float-text-rerender', 'numpy float text is not reproduced when a read value is printed again: %r' % (bo[:3],),
                      {'kind': 'broken-correspondence', 'item': 'oracle: str(np.floatN(float(t))) == t', 'examples': bo[:10]}, False)
    rng = ctx.rng
    hists = []
    for i in range(ctx.n(180, 2000)):
        doc, ops = gen_history(rng, rng.randint(1, 12))
        hists.append((doc, rng.random() < 0.4, ops))
    for i in range(ctx.n(70, 600)):
        doc, ops = gen_text_history(rng, rng.randint(1, 8))
        hists.append((doc, rng.random() < 0.3, ops))
    if ctx.thorough:
        for doc, ops in exhaustive_histories(4):
            hists.append((doc, False, ops))
        for doc, ops in exhaustive_histories(4):
            hists.append((doc, True, ops))
    else:
        for k, (doc, ops) in enumerate(exhaustive_histories(3)):
            if len(ops) <= 2 or k % 3 == 0:           # all sequences of length <= 2, every third one of length 3
                hists.append((doc, k % 2 == 0, ops))
    dist = {}
    nsteps = 0
    seen = set()
    groups = {}
    outside = []
    term_hashes = set()
    sample_term = None
    CH = 1500        # histories per pass: bounds the memory held (file bytes and dumps after every op)
    for c0 in range(0, len(hists), CH):
        part = hists[c0:c0 + CH]
        results, infos, verdicts, terms = evaluate(ctx, part, tag='cases%d' % (c0 // CH))
        term_hashes.update(hash(t) for t in terms)
        if sample_term is None:
            sample_term = terms[0][:700]
        analyse(ctx, part, results, infos, verdicts, dist, seen, groups, outside)
        nsteps += sum(len(r.get('steps', [])) for r in results)
        del results, infos, verdicts, terms
    chists = []
    for i in range(ctx.n(90, 900)):
        doc, ops, k = gen_comment_history(rng)
        chists.append((doc, rng.random() < 0.35, ops, k))
    nsteps += evaluate_comment_histories(ctx, chists, dist, seen, groups)
    report(ctx, hists + [(d, r, o) for d, r, o, _k in chists], dist, nsteps, groups, outside, term_hashes, sample_term)


def analyse(ctx, hists, results, infos, verdicts, dist, seen, groups, outside):
    for (doc, raw, ops), res, bad, v in zip(hists, results, infos, verdicts):
        for op, st in zip(ops, res.get('steps', [])):
            key = '%s:%s' % (op['tag'], st['outcome'])
            dist[key] = dist.get(key, 0) + 1
        if v in (8, 12) and not bad:
            raise RuntimeError('initial document does not render/parse in the model: %r' % (doc,))
        if v & 4:       # outside the domain of the theorems (written seeds: Append.in_domain, text seeds: Total.text_domain)
            v -= 4
            if not doc.get('text_seed'):
                outside.append((doc, raw, ops))
            else:
                dist['__text_outside'] = dist.get('__text_outside', 0) + 1
        spec_bad = bool(v & 2)
        if bad:
            kind = bad[0][1]
            groups.setdefault(kind, []).append((len(ops), doc, raw, ops, bad, v))
        elif v != 0:
            step = v // 16          # 0: the initial read of a text-seeded history (verdict 9)
            if spec_bad:
                sig = 'C03:harness:python-and-coq-spec-disagree'
            else:
                sig = 'C03:model:step'
            if sig in seen:
                continue
            seen.add(sig)
            op = ops[step - 1] if 0 < step <= len(ops) else None
            ctx.violation(sig, 'model and implementation disagree at step %d (%s) of a history although the direct checks hold'
                          % (step, op['tag'] if op else '?'),
                          {'kind': 'broken-correspondence', 'item': 'C03.Model.step', 'doc': doc, 'raw': raw, 'ops': ops,
                           'step': step, 'verdict': v, 'observed': res['steps'][step - 1] if op else None}, False)


def report(ctx, hists, dist, nsteps, groups, outside, term_hashes, sample_term):
    for kind, lst in groups.items():
        lst.sort(key=lambda x: x[0])
        _n, doc, raw, ops, bad, v = lst[0]
        small = shrink(ctx, doc, raw, ops, kind)
        fb = failing(doc, raw, small, ctx)
        sig = 'C03:history:%s' % kind
        ctx.violation(sig, 'object and file diverge (%s; %d generated histories fail this way) at step %s of %d: %s'
                      % (kind, len(lst), fb[0] if fb else '?', len(small), (fb[2] if fb else '')[:200]),
                      {'kind': 'failing-input', 'doc': doc, 'raw': raw, 'ops': small, 'first_bad_step': fb, 'original_ops': ops,
                       'original_bad': bad[:3], 'coq_verdict': v, 'histories_failing_this_way': len(lst),
                       'meaning': 'verdict = 16*step + flags: +1 model differs from implementation, +2 the object is not the '
                                  'specified history content (Model.spec_state)'}, True)
    if len(outside) * 10 > len(hists):
        ctx.violation('C03:harness:generator-outside-theorem-domain',
                      '%d of %d generated histories are outside the domain of the C03 theorems (Append.in_domain)' % (len(outside), len(hists)),
                      {'kind': 'broken-correspondence', 'item': 'C03.Append.in_domain vs harness generator', 'doc': outside[0][0],
                       'raw': outside[0][1], 'ops': outside[0][2]}, False)
    ctx.coverage.update({
        'evaluations': nsteps,
        'distinct_nontrivial': len(term_hashes),
        'rule': 'one evaluation = one operation of a history executed on the real yanny object (after it: outcome class, file name, '
                'file bytes, object dump, fresh re-read dump), compared in Coq with C03.Model.step and with the specified history '
                'content, and checked directly (object = re-read = original + appended; earlier bytes preserved; refusals change '
                'nothing); distinct = distinct histories',
        'histories': len(hists),
        'raw_histories': sum(1 for h in hists if h[1]),
        'text_seeded_histories': sum(1 for h in hists if h[0].get('text_seed')),
        'text_seed_byte_styles': {st: sum(1 for h in hists if h[0].get('text_style') == st)
                                  for st in sorted(set(h[0].get('text_style') for h in hists if h[0].get('text_style')))},
        'histories_in_theorem_domain': len(hists) - len(outside) - sum(1 for h in hists if h[0].get('text_seed')),
        'text_histories_in_total_invariant_domain': sum(1 for h in hists if h[0].get('text_seed')) - dist.pop('__text_outside', 0),
        'first_history_outside_domain': ({'doc': outside[0][0], 'ops': outside[0][2]} if outside else None),
        'ops_by_kind_and_outcome': dist,
        'histories_failing': sum(len(x) for x in groups.values()),
        'samples': [{'doc': hists[0][0], 'raw': hists[0][1], 'ops': hists[0][2]}, {'coq_case': sample_term}],
    })


def replay(ctx, rep):
    doc, ops = rep.get('doc'), rep.get('ops')
    if doc is None or ops is None:
        print('replay file has no history (kind=%s, item=%s)' % (rep.get('kind'), rep.get('item')))
        return 2
    raw = bool(rep.get('raw'))
    results, pf = run_jobs(ctx, [job_of('replay', doc, raw, ops)], nb=1)
    bad, _ = direct_checks(doc, raw, ops, results[0])
    print('pydl :', pf)
    print('doc  :', doc)
    print('raw  :', raw)
    for i, (op, st) in enumerate(zip(ops, results[0]['steps'])):
        print('step %d: %s -> %s %s' % (i + 1, {k: v for k, v in op.items() if k != 'entries'} if 'entries' in op else op, st['outcome'], st.get('msg', '')))
        if 'entries' in op:
            print('        entries:', op['entries'])
    print('file :', repr(bytes.fromhex(results[0]['steps'][-1].get('bytes_hex') or '').decode('latin-1')) if results[0]['steps'] else '')
    print('bad  :', bad)
    print('before:', rep.get('first_bad_step'))
    return 0
