(* C15: computechi2_ref returns the weighted least-squares optimum, its covariance is the inverse of A^T W A. *)
From Coq Require Import QArith Qabs Lqa List Bool Lia ZArith.
From PV Require Import Lib.WLS C13.LinAlg C13.LinAlgProofs C15.Model.
Import ListNotations.
Open Scope Q_scope.

Lemma wf_combine m rows w ys : rows_len m rows -> Forall (fun v => 0 <= v) w -> wf m (combine (combine rows w) ys).
Proof.
  unfold wf, rows_len. revert w ys; induction rows as [|r rows IH]; intros [|v w] [|y ys] Hr Hw; simpl; try constructor.
  - simpl. inversion Hr; inversion Hw; auto.
  - inversion Hr; inversion Hw; subst. apply IH; auto.
Qed.

Lemma sqr_nonneg q : 0 <= sqr q.
Proof. unfold sqr. nra. Qed.

Lemma map_sqr_nonneg sq : Forall (fun v => 0 <= v) (map sqr sq).
Proof. induction sq; simpl; constructor; [apply sqr_nonneg | assumption]. Qed.

Lemma cc_data_wf A sq b : rows_len (ncols A) A -> wf (ncols A) (cc_data A sq b).
Proof. intros H. unfold cc_data. apply wf_combine; [exact H | apply map_sqr_nonneg]. Qed.

Lemma computechi2_inv b sq A r : computechi2_ref b sq A = Some r ->
  let nstar := ncols A in
  let D := cc_data A sq b in
  let mm := mred (normal_mat nstar D) in
  exists a cov, solve_checked mm (vred (normal_rhs nstar D)) = Some a /\ inverse_checked mm = Some cov /\
    r = {| c_acoeff := a; c_chi2 := cc_chi2 A sq b a; c_yfit := mat_vec A a;
           c_dof := cc_dof sq nstar; c_covar := cov; c_var := diag cov |}.
Proof.
  intros H nstar D mm. unfold computechi2_ref in H. fold nstar in H. fold D in H. fold mm in H.
  destruct (solve_checked mm _) as [a|] eqn:E1; [|discriminate].
  destruct (inverse_checked mm) as [cov|] eqn:E2; [|discriminate].
  inversion H; subst. exists a, cov. repeat split; auto.
Qed.

(* the code's chi2 = sum ((mmatrix . a) - bvec*sqivar)^2 is the weighted chi-square with weights sqivar^2 *)
Lemma cc_chi2_is_chi2 A : forall sq b a, cc_chi2 A sq b a == chi2 (cc_data A sq b) a.
Proof.
  unfold cc_data. induction A as [|r A IH]; intros [|s sq] [|y b] a; try reflexivity.
  cbn [cc_chi2 map combine chi2 resid]. unfold sqr. rewrite Qred_correct, IH, dotr_correct. apply Qplus_comp; [ring | reflexivity].
Qed.

(* chi2_optimal: the returned coefficients minimise sum_i sqivar_i^2 (A_i . x - b_i)^2 over all x;
   no hypothesis on the weights is needed (they are squares) *)
Theorem chi2_optimal b sq A r : computechi2_ref b sq A = Some r -> rows_len (ncols A) A ->
  length (c_acoeff r) = ncols A /\
  forall z, length z = ncols A -> chi2 (cc_data A sq b) (c_acoeff r) <= chi2 (cc_data A sq b) z.
Proof.
  intros H HA. destruct (computechi2_inv b sq A r H) as [a [cov [E1 [E2 Er]]]]. subst r. simpl.
  apply (wls_solve_optimal (ncols A) (cc_data A sq b) a (cc_data_wf A sq b HA)). exact E1.
Qed.

Theorem chi2_value b sq A r : computechi2_ref b sq A = Some r -> c_chi2 r == chi2 (cc_data A sq b) (c_acoeff r).
Proof.
  intros H. destruct (computechi2_inv b sq A r H) as [a [cov [E1 [E2 Er]]]]. subst r. simpl. apply cc_chi2_is_chi2.
Qed.

(* covar_is_inverse: covar * (A^T W A) = I = (A^T W A) * covar, entry by entry (the matrix is the reduced
   representation mm of normal_mat, equal to it entry-wise) *)
Theorem covar_is_inverse b sq A r : computechi2_ref b sq A = Some r ->
  let N := normal_mat (ncols A) (cc_data A sq b) in
  exists mm, meq mm N /\ meq (mat_mul (c_covar r) mm) (identity (length mm)) /\
             meq (mat_mul mm (c_covar r)) (identity (length mm)).
Proof.
  intros H N. destruct (computechi2_inv b sq A r H) as [a [cov [E1 [E2 Er]]]]. subst r. simpl.
  exists (mred N). split; [apply mred_meq|].
  destruct (inverse_checked_sound _ _ E2) as [I1 [I2 _]]. split; assumption.
Qed.

Theorem var_is_diag b sq A r : computechi2_ref b sq A = Some r -> c_var r = diag (c_covar r).
Proof. intros H. destruct (computechi2_inv b sq A r H) as [a [cov [E1 [E2 Er]]]]. subst r. reflexivity. Qed.

Theorem dof_spec b sq A r : computechi2_ref b sq A = Some r ->
  c_dof r = (Z.of_nat (length (filter (fun s => Qlt_bool 0 s) sq)) - Z.of_nat (ncols A))%Z.
Proof. intros H. destruct (computechi2_inv b sq A r H) as [a [cov [E1 [E2 Er]]]]. subst r. reflexivity. Qed.

Theorem yfit_spec b sq A r : computechi2_ref b sq A = Some r -> c_yfit r = mat_vec A (c_acoeff r).
Proof. intros H. destruct (computechi2_inv b sq A r H) as [a [cov [E1 [E2 Er]]]]. subst r. reflexivity. Qed.

(* the normal equations hold at the returned coefficients: the gradient of chi2 vanishes in every direction *)
Theorem chi2_gradient_zero b sq A r : computechi2_ref b sq A = Some r -> rows_len (ncols A) A ->
  forall d, gdot (cc_data A sq b) (c_acoeff r) d == 0.
Proof.
  intros H HA d. destruct (computechi2_inv b sq A r H) as [a [cov [E1 [E2 Er]]]]. subst r. simpl.
  apply (wls_solve_gradient (ncols A)); [apply wf_wfl, cc_data_wf; exact HA | exact E1].
Qed.
