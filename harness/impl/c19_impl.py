"""Runs airtovac / vactoair, sdssflux2ab and filter_thru of the repository under test on a list of jobs (stdin JSON)
and returns the raw doubles (stdout JSON).  Floats travel as repr; NaN/inf as strings."""
import json
import math
import sys
import warnings

import numpy as np

warnings.simplefilter('ignore')
import os  # noqa: E402
from astropy import units as u  # noqa: E402
from astropy.io import fits as _fits  # noqa: E402
from astropy.io import ascii as _ascii  # noqa: E402,F401


def global_state():
    """process-global settings a library must leave alone"""
    from astropy.config import ConfigItem
    conf = {k: repr(getattr(_fits.conf, k)) for k, v in vars(type(_fits.conf)).items() if isinstance(v, ConfigItem)}
    return {'np.geterr': dict(np.geterr()), 'np.printoptions': {k: repr(v) for k, v in np.get_printoptions().items()},
            'astropy.io.fits.conf': conf, 'os.environ': dict(os.environ)}


def state_diff(a, b):
    out = []
    for k in a:
        if a[k] != b[k]:
            keys = sorted(set(a[k]) | set(b[k]))
            out.append({'what': k, 'changed': {x: [a[k].get(x), b[k].get(x)] for x in keys if a[k].get(x) != b[k].get(x)}})
    return out


STATE0 = global_state()
import pydl  # noqa: E402
from pydl.goddard.astro import airtovac, vactoair  # noqa: E402
from pydl.photoop.sdssio import sdssflux2ab  # noqa: E402
from pydl.pydlspec2d import spec2d  # noqa: E402
from pydl.pydlutils.trace import xy2traceset  # noqa: E402

UNITS = {'AA': u.Angstrom, 'nm': u.nm, 'um': u.um}

# every spelling of a boolean keyword ('omit' = keyword not given)
BOOL_TOKENS = {'False': False, '0': 0, 'None': None, 'True': True, '1': 1, 'npFalse': np.bool_(False), 'npTrue': np.bool_(True)}


def layout(a, how):
    """the same 2-D array (values, dtype, shape) in another memory layout"""
    if a is None or how in (None, 'C'):
        return a
    if how == 'F':
        return np.asfortranarray(a)
    if how == 'T':                      # transposed view of an [npix, ntrace] array (IDL order)
        return np.ascontiguousarray(a.T).T
    if how == 'strided':                # every other column of a wider array
        big = np.zeros((a.shape[0], 2 * a.shape[1] + 1), dtype=a.dtype)
        big[:, 1::2] = a
        return big[:, 1::2]
    if how == 'rowstrided':             # every other row of a taller array
        big = np.zeros((2 * a.shape[0] + 1, a.shape[1]), dtype=a.dtype)
        big[1::2, :] = a
        return big[1::2, :]
    if how == 'rev':                    # negative stride along the pixel axis
        return np.ascontiguousarray(a[:, ::-1])[:, ::-1]
    if how == 'revrows':                # negative stride along the trace axis
        return np.ascontiguousarray(a[::-1, :])[::-1, :]
    if how == 'Frev':
        return np.asfortranarray(a[::-1, ::-1])[::-1, ::-1]
    raise ValueError(how)


def fl(x):
    x = float(x)
    if x != x:
        return 'nan'
    if x in (math.inf, -math.inf):
        return 'inf' if x > 0 else '-inf'
    return x


def fls(a):
    return [fl(x) for x in np.asarray(a, dtype='d').ravel()]


def err(e):
    return {'err': type(e).__name__, 'msg': str(e)[:160]}


def wave_job(j):
    f = airtovac if j['fn'] == 'airtovac' else vactoair
    vals = j['values']
    kind = j['kind']
    unit = j.get('unit', 'AA')
    if kind == 'scalar':
        out, unchanged, tname = [], True, set()
        for v in vals:
            r = f(float(v))
            tname.add(type(r).__name__)
            out.append(fl(r))
        return {'values': out, 'type': sorted(tname), 'unit': None, 'input_unchanged': unchanged, 'shape': None}
    if kind == 'npscalar':
        out, tname = [], set()
        for v in vals:
            x = np.float64(v)
            r = f(x)
            tname.add(type(r).__name__)
            out.append(fl(r))
        return {'values': out, 'type': sorted(tname), 'unit': None, 'input_unchanged': True, 'shape': None}
    if kind in ('int_scalar', 'npint32_scalar', 'npint64_scalar'):
        conv = {'int_scalar': int, 'npint32_scalar': np.int32, 'npint64_scalar': np.int64}[kind]
        out, tname = [], set()
        for v in vals:
            r = f(conv(int(v)))
            tname.add(type(r).__name__)
            out.append(fl(r))
        return {'values': out, 'type': sorted(tname), 'unit': None, 'input_unchanged': True, 'shape': None}
    if kind in ('int32_array', 'int64_array', 'f32_array'):
        dt = {'int32_array': np.int32, 'int64_array': np.int64, 'f32_array': np.float32}[kind]
        arr = np.array(vals, dtype=dt)
        keep = arr.copy()
        r = f(arr)
        ref = f(arr.astype('d'))        # the same wavelengths as float64
        return {'values': fls(r), 'reference_f64': fls(ref), 'type': [type(r).__name__], 'dtype': str(getattr(r, 'dtype', None)),
                'unit': None, 'input_unchanged': bool(np.array_equal(keep, arr) and arr.dtype == dt),
                'shape': list(np.shape(r)), 'input_as_float': fls(arr)}
    if kind == 'quantity_scalar':
        out, tname, units = [], set(), set()
        for v in vals:
            x = float(v) * UNITS[unit]
            r = f(x)
            tname.add(type(r).__name__)
            units.add(str(getattr(r, 'unit', None)))
            out.append(fl(getattr(r, 'value', r)))
        return {'values': out, 'type': sorted(tname), 'unit': sorted(units), 'input_unchanged': True, 'shape': None}
    arr = np.array(vals, dtype='d')
    if kind == 'array2d':
        arr = arr.reshape(j['shape'])
    if kind == 'quantity':
        x = arr * UNITS[unit]
        keep = x.copy()
        r = f(x)
        return {'values': fls(getattr(r, 'value', r)), 'type': [type(r).__name__], 'unit': [str(getattr(r, 'unit', None))],
                'input_unchanged': bool(np.array_equal(keep.value, x.value) and keep.unit == x.unit),
                'shape': list(np.shape(r))}
    keep = arr.copy()
    r = f(arr)
    return {'values': fls(r), 'type': [type(r).__name__], 'unit': None,
            'input_unchanged': bool(np.array_equal(keep, arr)), 'shape': list(np.shape(r)),
            'same_object': bool(r is arr)}


def roundtrip_job(j):
    lo, hi, n = j['lo'], j['hi'], j['n']
    if j.get('log'):
        a = np.exp(np.linspace(math.log(lo), math.log(hi), n))
    else:
        a = np.linspace(lo, hi, n)
    res = {}
    # air -> vacuum -> air
    back = vactoair(airtovac(a.copy()))
    d = np.abs(back - a)
    d[~np.isfinite(d)] = np.inf
    k = int(np.argmax(d))
    res['av'] = {'worst': fl(d[k]), 'at': fl(a[k]), 'mid': fl(airtovac(float(a[k]))), 'back': fl(back[k])}
    # scalar path on a subsample
    sub = a[:: max(1, n // 200)]
    ds = [abs(float(vactoair(airtovac(float(x)))) - float(x)) for x in sub]
    ks = int(np.argmax(ds))
    res['av_scalar'] = {'worst': fl(ds[ks]), 'at': fl(sub[ks])}
    # vacuum -> air -> vacuum wherever vactoair(v) >= 2000
    air = vactoair(a.copy())
    ok = air >= 2000.0
    back2 = airtovac(air.copy())
    d2 = np.where(ok, np.abs(back2 - a), 0.0)
    d2[~np.isfinite(d2)] = np.inf
    k2 = int(np.argmax(d2))
    res['va'] = {'worst': fl(d2[k2]), 'at': fl(a[k2]), 'mid': fl(air[k2]), 'back': fl(back2[k2])}
    # monotone and ordering facts on the grid
    vac = airtovac(a.copy())
    above = a >= 2000.0
    res['vac_gt_air_fail'] = fls(a[above & ~(vac > a)][:3])
    res['air_lt_vac_fail'] = fls(a[above & ~(air < a)][:3])
    res['below_changed'] = fls(a[~above & ((vac != a) | (air != a))][:3])
    res['n'] = int(n)
    return res


def flux_job(j):
    flux = np.array(j['flux'], dtype='d').reshape(-1, 5)
    keep = flux.copy()
    mode = j['mode']
    if j.get('kw') is not None:
        # explicit spellings of the two boolean keywords (the expected form follows from their truth values)
        kw = {k: BOOL_TOKENS[v] for k, v in j['kw'].items() if v != 'omit'}
        if j.get('positional'):
            r = sdssflux2ab(flux, *[BOOL_TOKENS[j['kw'][k]] for k in ('magnitude', 'ivar')])
        else:
            r = sdssflux2ab(flux, **kw)
    elif mode == 'flux':
        r = sdssflux2ab(flux)
    elif mode == 'mag':
        r = sdssflux2ab(flux, magnitude=True)
    else:
        r = sdssflux2ab(flux, ivar=True)
    out = {'out': [fls(row) for row in r], 'input_unchanged': bool(np.array_equal(keep, flux)),
           'shape': list(r.shape), 'same_object': bool(r is flux)}
    if j.get('kw') is None:
        # the caller changes the SAME array in place and calls again: the answer must be that of a fresh array with these values
        kw = {'flux': {}, 'mag': {'magnitude': True}, 'ivar': {'ivar': True}}[mode]
        flux += 0.5
        out['inplace_same'] = bool(np.array_equal(sdssflux2ab(flux, **kw), sdssflux2ab(flux.copy(), **kw)))
    return out


class NPProxy(object):
    """stands in for the name `np` inside pydl.pydlspec2d.spec2d: records the pieces filtimg is made of"""

    def __init__(self, rec):
        self._rec = rec

    def __getattr__(self, k):
        return getattr(np, k)

    def interp(self, *a, **k):
        r = np.interp(*a, **k)
        # the five band calls interpolate the response at every pixel; other np.interp calls inside the module are not weights
        if np.size(r) == self._rec.get('npix'):
            self._rec['interp'].append(r)
            self._rec.setdefault('interp_x', []).append(np.array(a[0], dtype='d').ravel())
        else:
            self._rec['other_interp'] = self._rec.get('other_interp', 0) + 1
        return r

    def absolute(self, x):
        r = np.absolute(x)
        self._rec['logdiff'] = r
        return r


def run_filter(flux, wave, mask, toair):
    rec = {'interp': [], 'logdiff': None, 'flux_interp': None, 't2xy': None, 'npix': int(np.size(flux))}
    real_np, real_mi, real_t2xy = spec2d.np, spec2d.djs_maskinterp, spec2d.traceset2xy

    def t2xy(*a, **k):
        r = real_t2xy(*a, **k)
        rec['t2xy'] = r[1]       # the last call before the band loop evaluates the fitted d(log lambda)
        return r

    def mi(*a, **k):
        r = real_mi(*a, **k)
        rec['flux_interp'] = r
        return r
    spec2d.np = NPProxy(rec)
    spec2d.djs_maskinterp = mi
    spec2d.traceset2xy = t2xy
    try:
        kw = {} if toair == 'omit' else {'toair': BOOL_TOKENS[toair] if isinstance(toair, str) else toair}
        if mask is not None:
            kw['mask'] = mask
        if wave['kind'] == 'waveimg':
            res = spec2d.filter_thru(flux, waveimg=wave['img'], **kw)
        else:
            res = spec2d.filter_thru(flux, wset=wave['wset'], **kw)
    finally:
        spec2d.np, spec2d.djs_maskinterp, spec2d.traceset2xy = real_np, real_mi, real_t2xy
    return res, rec


def build_mask(vals, dtype, nT, nx):
    """mask values (ints, floats, 'nan' / 'inf' / '-inf') in the storage type `dtype` ('bool', 'i1'..'i8', 'u1'..'u8', '>i4', 'f4', 'f8')"""
    if dtype == 'bool':
        return (np.array([int(v) for v in vals], dtype='i8') != 0).reshape(nT, nx)
    if 'f' in dtype:
        return np.array([float(v) for v in vals], dtype=dtype).reshape(nT, nx)
    return np.array([int(v) for v in vals], dtype=object).astype(dtype).reshape(nT, nx)


def filter_job(j):
    nT, nx = j['nT'], j['nx']
    dt = j.get('dtype', 'd')
    flux = np.array(j['flux'], dtype=dt).reshape(nT, nx)
    flux2 = np.array(j['flux2'], dtype=dt).reshape(nT, nx)
    loglam = np.array([[l0 + dl * k for k in range(nx)] for l0, dl in zip(j['loglam0'], j['dloglam'])], dtype='d')

    lay = j.get('layout') or {}

    def mk_wave(ll):
        if j['wave'] == 'waveimg':
            return {'kind': 'waveimg', 'img': layout(10.0 ** ll, lay.get('wave'))}
        x = np.tile(np.arange(nx, dtype='d'), nT).reshape(nT, nx)
        return {'kind': 'wset', 'wset': xy2traceset(x, ll, ncoeff=3)}
    wave = mk_wave(loglam)
    mask = None
    if j.get('mask') is not None:
        mask = layout(build_mask(j['mask'], j.get('mask_dtype', 'i4'), nT, nx), lay.get('mask'))
    toair = j['toair_token'] if j.get('toair_token') else bool(j.get('toair'))
    a, b, c = j['a'], j['b'], j['c']
    flux = layout(flux, lay.get('flux'))
    flux2 = layout(flux2, lay.get('flux'))
    keep = flux.copy()
    mkeep = None if mask is None else mask.copy()
    r1, rec = run_filter(flux, wave, mask, toair)
    unchanged = bool(np.array_equal(keep, flux))
    r2, _ = run_filter(flux2, wave, mask, toair)
    r3, _ = run_filter(layout((a * flux + b * flux2).astype(dt), lay.get('flux')), wave, mask, toair)
    rc, _ = run_filter(layout(np.full((nT, nx), c, dtype=dt), lay.get('flux')), wave, mask, toair)
    # every trace constant at its OWN level: a band of a trace is a weighted mean of that trace's flux only
    levels = j.get('levels')
    rl = None
    if levels:
        lv = np.array(levels, dtype=dt).reshape(nT, 1) * np.ones((1, nx), dtype=dt)
        rl, _ = run_filter(layout(lv, lay.get('flux')), wave, mask, toair)
    if lay:
        # the same call on C-contiguous copies of the same three arrays
        wc = wave if wave['kind'] != 'waveimg' else {'kind': 'waveimg', 'img': np.array(wave['img'], order='C')}
        rC, _ = run_filter(np.array(flux, order='C'), wc, None if mask is None else np.array(mask, order='C'), toair)
    out = {'res': [fls(r) for r in r1], 'res2': [fls(r) for r in r2], 'res_lin': [fls(r) for r in r3],
           'res_const': [fls(r) for r in rc], 'input_unchanged': unchanged, 'shape': list(r1.shape), 'res_dtype': str(r1.dtype)}
    if rl is not None:
        out['res_levels'] = [fls(r) for r in rl]
    if lay:
        out['res_contig'] = [fls(r) for r in rC]
        out['flags'] = {'flux': [bool(flux.flags.c_contiguous), bool(flux.flags.f_contiguous)],
                        'wave': None if wave['kind'] != 'waveimg' else [bool(wave['img'].flags.c_contiguous), bool(wave['img'].flags.f_contiguous)],
                        'mask': None if mask is None else [bool(mask.flags.c_contiguous), bool(mask.flags.f_contiguous)]}
    # the caller changes the SAME flux array in place and calls again: the answer must be that of a fresh array with these values
    work = np.array(flux, order='C')
    ra0, _ = run_filter(work, wave, mask, toair)
    work += np.asarray(0.5, dtype=dt)
    ra1, _ = run_filter(work, wave, mask, toair)
    ra2, _ = run_filter(work.copy(), wave, mask, toair)
    out['inplace_same'] = bool(np.array_equal(ra1, ra2))
    out['inplace_pair'] = [[fls(r) for r in ra1], [fls(r) for r in ra2]]
    # the same pixels stored in the opposite order (flux, wavelength solution and mask reversed along the pixel axis)
    try:
        rr, _ = run_filter(np.ascontiguousarray(flux[:, ::-1]), mk_wave(np.ascontiguousarray(loglam[:, ::-1])),
                           None if mask is None else np.ascontiguousarray(mask[:, ::-1]), toair)
        out['res_rev'] = [fls(r) for r in rr]
    except Exception as e:  # noqa: BLE001
        out['res_rev_err'] = err(e)
    out['other_interp_calls'] = rec.get('other_interp', 0)
    rec_junk = None
    junk = None
    if mask is not None:
        bad = mask != 0
        out['mask_unchanged'] = bool(mask.dtype == mkeep.dtype and np.array_equal(mask, mkeep, equal_nan=True)) if mask.dtype.kind == 'f' \
            else bool(mask.dtype == mkeep.dtype and np.array_equal(mask, mkeep))
        out['mask_dtype'] = str(mask.dtype)
        junk = np.array(flux, order='C')
        junk[np.array(bad, order='C')] = np.array(j['junk'], dtype=dt)[: int(bad.sum())] if j.get('junk') else 1.0e6
        junk = layout(junk, lay.get('flux'))
        rj, rec_junk = run_filter(junk, wave, mask, toair)
        out['res_junk'] = [fls(r) for r in rj]
        out['good_per_trace'] = [int((mask[t] == 0).sum()) for t in range(nT)]
        out['bad_per_trace'] = [int(bad[t].sum()) for t in range(nT)]
    # bounds that do not depend on recorded weights: interpolated values lie between unmasked neighbours
    good = (mask == 0) if mask is not None else np.ones(flux.shape, dtype=bool)
    out['good_min'] = [fl(flux[t][good[t]].min()) if good[t].any() else None for t in range(nT)]
    out['good_max'] = [fl(flux[t][good[t]].max()) if good[t].any() else None for t in range(nT)]
    # the implementation's own weights: |fitted d(log lambda)| times the interpolated response; when np.absolute is not
    # applied, the raw fitted values are what enters the sum
    ld = rec['logdiff']
    out['absolute_applied'] = ld is not None
    if ld is None and rec['t2xy'] is not None and np.shape(rec['t2xy']) == flux.shape:
        ld = rec['t2xy']
    if ld is None or len(rec['interp']) != 5:
        out['weights_recorded'] = False
        return out
    out['weights_recorded'] = True
    fi = rec['flux_interp'] if mask is not None else flux
    ld = np.array(ld, order='C')
    out['maskinterp_called'] = rec['flux_interp'] is not None
    if fi is None:
        fi = flux   # the mask was not applied through djs_maskinterp; the mask-independence check decides
    w = [ld * rec['interp'][i].reshape(ld.shape) for i in range(5)]
    out['sumw'] = [[fl(w[i][t].sum()) for i in range(5)] for t in range(nT)]
    out['minw'] = fl(min(float(x.min()) for x in w))
    out['fmin'] = [fl(fi[t].min()) for t in range(nT)]
    out['fmax'] = [fl(fi[t].max()) for t in range(nT)]
    resp = [rec['interp'][i].reshape(ld.shape) for i in range(5)]
    out['min_resp'] = fl(min(float(x.min()) for x in resp))
    raw = rec['t2xy'] if rec['t2xy'] is not None and np.shape(rec['t2xy']) == flux.shape else None
    out['raw_fitted_recorded'] = raw is not None
    if j.get('return_weights'):
        out['w'] = [[fls(w[i][t]) for i in range(5)] for t in range(nT)]
        out['fi'] = [fls(fi[t]) for t in range(nT)]
        out['resp'] = [[fls(resp[i][t]) for i in range(5)] for t in range(nT)]
        if raw is not None:
            out['fitted'] = [fls(raw[t]) for t in range(nT)]
        xs = rec.get('interp_x') or []
        if len(xs) == 5 and all(np.array_equal(xs[0], x) for x in xs[1:]):
            out['lam'] = [fls(xs[0].reshape(nT, nx)[t]) for t in range(nT)]     # the wavelengths handed to np.interp
        if wave['kind'] == 'waveimg':
            out['waveimg_in'] = [fls(wave['img'][t]) for t in range(nT)]
        if mask is not None and rec_junk is not None and rec_junk['flux_interp'] is not None:
            out['junk_flux'] = [fls(junk[t]) for t in range(nT)]
            out['fi_junk'] = [fls(rec_junk['flux_interp'][t]) for t in range(nT)]
    return out


def restore(a, storage):
    """float64 array `a` (any shape) in another storage type"""
    a = np.asarray(a, dtype='d')
    if storage == 'noncontig':
        big = np.zeros(a.shape[:-1] + (2 * a.shape[-1] + 1,), dtype='d')
        big[..., 1::2] = a
        return big[..., 1::2]
    if storage == 'fortran':
        return np.asfortranarray(a)
    return a.astype(storage)


def restore2(a, storage):
    """2-D: storage type or memory layout ('layout:<how>')"""
    if isinstance(storage, str) and storage.startswith('layout:'):
        return layout(np.asarray(a, dtype='d'), storage[7:])
    return restore(a, storage)


def same(a, b):
    return bool(np.array_equal(np.asarray(a), np.asarray(b)) and getattr(a, 'dtype', None) == getattr(b, 'dtype', None))


def leg_eval(coeff, xn):
    """sum_j coeff[j] P_j(xn) by the three-term recurrence (independent of pydl)"""
    p0, p1 = np.ones_like(xn), xn
    out = coeff[0] * p0
    for k in range(1, len(coeff)):
        out = out + coeff[k] * p1
        p0, p1 = p1, ((2 * k + 1) * xn * p1 - k * p0) / (k + 1)
    return out


def wsetseq_job(j):
    """several wavelength solutions given as trace sets on the SAME pixel grid (same function, order, xmin, xmax) but with
    different coefficients and x-jump parameters, used one after the other in this process: filter_thru(flux, wset=...) against
    filter_thru(flux, waveimg=...) with the wavelength image computed here from the same coefficients"""
    from astropy.io import fits
    from pydl.pydlutils.trace import TraceSet
    nT, nx = j['nT'], j['nx']
    flux = np.array(j['flux'], dtype='d').reshape(nT, nx)
    outs = []
    for sset in j['sets']:
        coeff = np.array(sset['coeff'], dtype='d')
        nc = coeff.shape[1]
        xmin, xmax = 0.0, float(nx - 1)
        cols = [fits.Column(name='FUNC', format='16A', array=np.array(['legendre'])),
                fits.Column(name='XMIN', format='D', array=np.array([xmin])), fits.Column(name='XMAX', format='D', array=np.array([xmax])),
                fits.Column(name='COEFF', format='%dD' % (nT * nc), dim='(%d,%d)' % (nc, nT), array=coeff.reshape(1, nT, nc))]
        x = np.arange(nx, dtype='d')
        if sset.get('jump') is not None:
            lo, hi, val = sset['jump']
            cols += [fits.Column(name=n, format='D', array=np.array([v], dtype='d')) for n, v in (('XJUMPLO', lo), ('XJUMPHI', hi), ('XJUMPVAL', val))]
            x = x + np.minimum(np.maximum((x - lo) / (hi - lo), 0.0), 1.0) * val
        xn = 2.0 * (x - 0.5 * (xmin + xmax)) / (xmax - xmin)
        loglam = np.array([leg_eval(coeff[t], xn) for t in range(nT)])
        try:
            ws = TraceSet(fits.BinTableHDU.from_columns(cols).data)
            r_w = spec2d.filter_thru(flux, wset=ws, toair=bool(sset.get('toair')))
            r_i = spec2d.filter_thru(flux, waveimg=10.0 ** loglam, toair=bool(sset.get('toair')))
            outs.append({'wset': [fls(r) for r in r_w], 'waveimg': [fls(r) for r in r_i],
                         'lam_range': [fl(10.0 ** loglam.min()), fl(10.0 ** loglam.max())],
                         'monotone': bool(np.all(np.diff(loglam, axis=1) > 0))})
        except Exception as e:  # noqa: BLE001
            outs.append(err(e))
    return {'results': outs}


def storage_job(j):
    """one call with the data in another storage type, and the same call on float64 copies of the same numbers"""
    fn, st = j['fn'], j['storage']
    if fn in ('airtovac', 'vactoair'):
        f = airtovac if fn == 'airtovac' else vactoair
        a = restore(j['values'], st)
        unit = j.get('unit')
        x = a * UNITS[unit] if unit else a
        keep = a.copy()
        r = f(x)
        ref = f(a.astype('d') * UNITS[unit] if unit else a.astype('d'))
        rv, refv = getattr(r, 'value', r), getattr(ref, 'value', ref)
        allbelow = bool((a.astype('d') * {None: 1, 'AA': 1, 'nm': 10, 'um': 10000}[unit] < 2000).all())
        return {'out': fls(rv), 'ref': fls(refv), 'input_unchanged': same(a, keep), 'dtype': str(np.asarray(rv).dtype),
                'aliases_input': bool(np.shares_memory(np.asarray(rv), a)), 'all_below': allbelow,
                'unit': str(getattr(r, 'unit', None)), 'numbers': fls(a)}
    if fn == 'sdssflux2ab':
        a = restore(np.array(j['values'], dtype='d').reshape(-1, 5), st)
        keep = a.copy()
        kw = {'flux': {}, 'mag': {'magnitude': True}, 'ivar': {'ivar': True}}[j['mode']]
        r = sdssflux2ab(a, **kw)
        ref = sdssflux2ab(np.array(a, dtype='d', order='C'), **kw)
        return {'out': fls(r), 'ref': fls(ref), 'input_unchanged': same(a, keep), 'dtype': str(r.dtype),
                'aliases_input': bool(np.shares_memory(r, a)), 'numbers': fls(a)}
    if fn == 'filter_thru':
        nT, nx = j['nT'], j['nx']
        flux64 = np.array(j['values'], dtype='d').reshape(nT, nx)
        loglam = np.array([[l0 + dl * k for k in range(nx)] for l0, dl in zip(j['loglam0'], j['dloglam'])], dtype='d')
        wave64 = 10.0 ** loglam
        flux = restore2(flux64, st)
        wave = restore2(wave64, j.get('wave_storage', 'd')) if j.get('wave_storage') else wave64
        kw, kw64 = {}, {}
        if j.get('mask') is not None:
            m = np.array(j['mask'], dtype='i4').reshape(nT, nx)
            kw['mask'] = (m != 0) if j.get('mask_storage') == 'bool' else m.astype(j.get('mask_storage', 'i4'))
            kw['mask'] = layout(kw['mask'], j.get('mask_layout'))
            kw64['mask'] = m
        fkeep, wkeep = flux.copy(), wave.copy()
        mkeep = kw['mask'].copy() if 'mask' in kw else None
        r = spec2d.filter_thru(flux, waveimg=wave, **kw)
        # reference: the same numbers as C-contiguous float64 arrays
        ref = spec2d.filter_thru(np.array(flux, dtype='d', order='C'), waveimg=np.array(wave, dtype='d', order='C'), **kw64)
        unchanged = same(flux, fkeep) and same(wave, wkeep) and (mkeep is None or same(kw['mask'], mkeep))
        return {'out': fls(r), 'ref': fls(ref), 'input_unchanged': bool(unchanged), 'dtype': str(r.dtype),
                'aliases_input': bool(np.shares_memory(r, flux)), 'shape': list(r.shape)}
    return {'err': 'BadStorageJob'}


def job(j):
    try:
        k = j['op']
        if k == 'history':
            return {'results': [job(c) for c in j['calls']]}
        if k == 'storage':
            return storage_job(j)
        if k == 'wave':
            return wave_job(j)
        if k == 'roundtrip':
            return roundtrip_job(j)
        if k == 'flux2ab':
            return flux_job(j)
        if k == 'filter':
            return filter_job(j)
        if k == 'wsetseq':
            return wsetseq_job(j)
        return {'err': 'BadJob'}
    except Exception as e:  # noqa: BLE001 - the error class is the observation
        return err(e)


def main():
    jobs = json.load(sys.stdin)
    state1 = global_state()
    results = [job(j) for j in jobs]
    json.dump({'pydl_file': pydl.__file__, 'results': results,
               'globals_changed_by_import': state_diff(STATE0, state1), 'globals_changed_by_calls': state_diff(state1, global_state())}, sys.stdout)


if __name__ == '__main__':
    main()
