(* C15 -- Least-squares and factorisation solvers return the optimum they claim.
   Property theorems only; each is closed by `exact` and followed by Print Assumptions.
   Model: C15/Model.v (M = computechi2 and the HMF steps over Q; S = checkers for the LAPACK-backed outputs). *)
From Coq Require Import QArith ZArith List Bool.
Import ListNotations.
From PV Require Import Lib.WLS C13.LinAlg Generated.Chi2 C15.Model C15.Proofs.
Open Scope Q_scope.

(* computechi2, astep, gstep, astepnn, gstepnn, normbase2 are assembled from expressions GENERATED from /repo on every
   run (Generated/Chi2.v: weights on A and b with their axis, chi2 term, dof, the Gi/Fi/Aj/Fj terms, the epsilon test,
   the d multiplier loop, the three e assignments with their column offsets, the multiplicative-update ratios, normbase).
   The first block says they are the reference forms; the theorems below are therefore about what the source says now. *)
Theorem C15_computechi2_generated_is_reference : forall b sq A, computechi2 b sq A = computechi2_ref b sq A.
Proof. exact computechi2_eq_ref. Qed.
Print Assumptions C15_computechi2_generated_is_reference.
Theorem C15_astep_generated_is_reference : forall s w g, astep s w g = astep_ref s w g.
Proof. exact astep_eq_ref. Qed.
Print Assumptions C15_astep_generated_is_reference.
(* the source's three e assignments and d loop = "old values of the neighbouring columns" / "number of neighbours" *)
Theorem C15_gstep_generated_is_reference : forall s w a g eps, (2 <= ncols s)%nat -> gstep s w a g eps = gstep_ref s w a g eps.
Proof. exact gstep_eq_ref. Qed.
Print Assumptions C15_gstep_generated_is_reference.
(* broadcasting axes, sort idiom and mean axis found in the source are the documented ones *)
Theorem C15_generated_axes :
  g_mm_axis = ScaleRows /\ g_mmi_axis = ScaleCols /\ g_pcomp_axis = ScaleCols /\ g_pcomp_order = Descending /\ g_norm_axis = 1%nat.
Proof. exact generated_axes. Qed.
Print Assumptions C15_generated_axes.
(* covar's weights and the pseudo-inverse use RECIPROCAL singular values *)
Theorem C15_generated_reciprocals : forall w vt, 0 < w -> g_wwt w == / w /\ g_mmi_scale vt w == vt / w.
Proof. exact generated_reciprocals. Qed.
Print Assumptions C15_generated_reciprocals.
Theorem C15_generated_covar_term : forall wwt vi vj, g_covar_term wwt vi vj == wwt * (vi * vj).
Proof. exact generated_covar_term. Qed.
Print Assumptions C15_generated_covar_term.
(* pcomp scales eigenvector k by sqrt(l_k) (squared factor l_k) and reports l_k / trace *)
Theorem C15_generated_pcomp_norm : forall l tr, 0 <= l -> g_pcomp_norm2 l == l /\ g_variance l tr == l / tr.
Proof. exact generated_pcomp_norm. Qed.
Print Assumptions C15_generated_pcomp_norm.
Theorem C15_normbase2_is_mean_square : forall g,
  normbase2 g = map (fun gk => vsum (map sqr gk) / inject_Z (Z.of_nat (length gk))) g.
Proof. exact normbase2_is_mean_square. Qed.
Print Assumptions C15_normbase2_is_mean_square.

(* ---------------------------------------------------------------- computechi2 *)
(* the coefficients minimise sum_i sqivar_i^2 (A_i . x - b_i)^2 over ALL x (any weights: they enter squared) *)
Theorem C15_chi2_optimal : forall b sq A r, computechi2 b sq A = Some r -> rows_len (ncols A) A ->
  length (c_acoeff r) = ncols A /\
  forall z, length z = ncols A -> chi2 (cc_data A sq b) (c_acoeff r) <= chi2 (cc_data A sq b) z.
Proof. exact gen_chi2_optimal. Qed.
Print Assumptions C15_chi2_optimal.

(* ... and the gradient of chi-square vanishes there *)
Theorem C15_chi2_gradient_zero : forall b sq A r, computechi2 b sq A = Some r -> rows_len (ncols A) A ->
  forall d, gdot (cc_data A sq b) (c_acoeff r) d == 0.
Proof. exact gen_chi2_gradient_zero. Qed.
Print Assumptions C15_chi2_gradient_zero.

(* the chi2 attribute (computed the way the code does) is that minimum *)
Theorem C15_chi2_value : forall b sq A r, computechi2 b sq A = Some r -> c_chi2 r == chi2 (cc_data A sq b) (c_acoeff r).
Proof. exact gen_chi2_value. Qed.
Print Assumptions C15_chi2_value.

Theorem C15_covar_is_inverse : forall b sq A r, computechi2 b sq A = Some r ->
  let N := normal_mat (ncols A) (cc_data A sq b) in
  exists mm, meq mm N /\ meq (mat_mul (c_covar r) mm) (identity (length mm)) /\
             meq (mat_mul mm (c_covar r)) (identity (length mm)).
Proof. exact gen_covar_is_inverse. Qed.
Print Assumptions C15_covar_is_inverse.

Theorem C15_var_is_diag : forall b sq A r, computechi2 b sq A = Some r -> c_var r = diag (c_covar r).
Proof. exact gen_var_is_diag. Qed.
Print Assumptions C15_var_is_diag.

Theorem C15_dof_spec : forall b sq A r, computechi2 b sq A = Some r ->
  c_dof r = (Z.of_nat (length (filter (fun s => Qlt_bool 0 s) sq)) - Z.of_nat (ncols A))%Z.
Proof. exact gen_dof_spec. Qed.
Print Assumptions C15_dof_spec.

Theorem C15_yfit_spec : forall b sq A r, computechi2 b sq A = Some r -> c_yfit r = mat_vec A (c_acoeff r).
Proof. exact gen_yfit_spec. Qed.
Print Assumptions C15_yfit_spec.

(* ---------------------------------------------------------------- HMF *)
(* each coefficient update: row i of astep() minimises sum_j w_ij (s_ij - (x g)_j)^2 over all x; gradient zero *)
Theorem C15_astep_optimal_rowwise : forall s w g a' i si wi ai,
  astep s w g = Some a' ->
  nth_error s i = Some si -> nth_error w i = Some wi -> nth_error a' i = Some ai ->
  Forall (fun v => 0 <= v) wi ->
  length ai = length g /\
  (forall d, gdot (hmf_row_data g wi si) ai d == 0) /\
  forall z, length z = length g -> chi2 (hmf_row_data g wi si) ai <= chi2 (hmf_row_data g wi si) z.
Proof. exact gen_astep_optimal_rowwise. Qed.
Print Assumptions C15_astep_optimal_rowwise.

(* each component update: column j solved by gstep minimises  sum_i w_ij (s_ij - a_i . x)^2
   + eps * sum_{n neighbour of j} |x - g_old[:,n]|^2  (exactly the system the code solves), gradient zero *)
Theorem C15_gstep_col_optimal : forall s w a g eps j x,
  (2 <= ncols s)%nat -> (j < ncols s)%nat ->
  gstep_col s w a g eps (ncols a) (ncols s) j = Some x ->
  rows_len (ncols a) a -> Forall (fun v => 0 <= v) (col j w) ->
  length x = ncols a /\
  (forall d, length d = ncols a -> gdot (gstep_objective s w a g eps j) x d == 0) /\
  forall z, length z = ncols a -> chi2 (gstep_objective s w a g eps j) x <= chi2 (gstep_objective s w a g eps j) z.
Proof. exact gen_gstep_col_optimal. Qed.
Print Assumptions C15_gstep_col_optimal.

Theorem C15_gstep_optimal_colwise : forall s w a g eps g',
  (2 <= ncols s)%nat ->
  gstep s w a g eps = Some g' -> rows_len (ncols a) a -> Forall (Forall (fun v => 0 <= v)) w ->
  exists cols, g' = transpose cols /\ length cols = ncols s /\
    forall j x, nth_error cols j = Some x ->
      length x = ncols a /\
      forall z, length z = ncols a -> chi2 (gstep_objective s w a g eps j) x <= chi2 (gstep_objective s w a g eps j) z.
Proof. exact gen_gstep_optimal_colwise. Qed.
Print Assumptions C15_gstep_optimal_colwise.

(* chi-square (+ penalty) never increases in a coefficient update *)
Theorem C15_badness_nonincreasing_astep : forall s w a g eps anew,
  astep s w g = Some anew ->
  length a = length s -> length w = length s -> rows_len (length g) a -> Forall (Forall (fun v => 0 <= v)) w ->
  badness s w anew g eps <= badness s w a g eps.
Proof. exact gen_badness_nonincreasing_astep. Qed.
Print Assumptions C15_badness_nonincreasing_astep.

(* ... nor in a component update without smoothing (epsilon None, 0 or negative): chi-square regrouped by columns,
   every column minimised.  With smoothing the code updates all columns against the OLD neighbours (Jacobi style), for
   which no monotonicity is claimed. *)
Theorem C15_badness_nonincreasing_gstep : forall s w a g eps gnew,
  (2 <= ncols s)%nat ->
  gstep s w a g eps = Some gnew -> eps_active eps = None ->
  (0 < length s)%nat -> (0 < ncols s)%nat ->
  Forall (fun r => length r = ncols s) s -> Forall (fun r => length r = ncols s) w ->
  length w = length s -> length a = length s -> rows_len (ncols a) a ->
  length g = ncols a -> ncols g = ncols s ->
  Forall (Forall (fun v => 0 <= v)) w ->
  chi2_mat s w a gnew <= chi2_mat s w a g.
Proof. exact gen_badness_nonincreasing_gstep. Qed.
Print Assumptions C15_badness_nonincreasing_gstep.

Theorem C15_badness_nonincreasing_gstep_None : forall s w a g gnew,
  (2 <= ncols s)%nat ->
  gstep s w a g None = Some gnew ->
  (0 < length s)%nat -> (0 < ncols s)%nat ->
  Forall (fun r => length r = ncols s) s -> Forall (fun r => length r = ncols s) w ->
  length w = length s -> length a = length s -> rows_len (ncols a) a ->
  length g = ncols a -> ncols g = ncols s ->
  Forall (Forall (fun v => 0 <= v)) w ->
  badness s w a gnew None <= badness s w a g None.
Proof. exact gen_badness_nonincreasing_gstep_None. Qed.
Print Assumptions C15_badness_nonincreasing_gstep_None.

(* non-negative mode: the multiplicative updates keep non-negative factors non-negative *)
Theorem C15_astepnn_nonneg : forall s w a g, mnn s -> mnn w -> mnn a -> mnn g -> mnn (astepnn s w a g).
Proof. exact astepnn_nonneg. Qed.
Print Assumptions C15_astepnn_nonneg.
Theorem C15_gstepnn_nonneg : forall s w a g eps, mnn s -> mnn w -> mnn a -> mnn g -> mnn (gstepnn s w a g eps).
Proof. exact gstepnn_nonneg. Qed.
Print Assumptions C15_gstepnn_nonneg.

(* normalisation: (a diag n)(diag(1/n) g) = a g entry by entry, and unit rms in squared form *)
Theorem C15_normalise_preserves_model : forall n a g ai j,
  Forall (fun v => ~ v == 0) n -> length n = length g -> length ai = length g -> In ai a ->
  let '(a2, g2) := normalise n a g in
  dot (map2 Qmult ai n) (col j g2) == dot ai (col j g).
Proof. exact normalise_preserves_model. Qed.
Print Assumptions C15_normalise_preserves_model.

Theorem C15_normalise_unit_rms : forall gk nk,
  ~ nk == 0 -> nk * nk == vsum (map sqr gk) / inject_Z (Z.of_nat (length gk)) -> (0 < length gk)%nat ->
  vsum (map sqr (map (fun v => v / nk) gk)) / inject_Z (Z.of_nat (length (map (fun v => v / nk) gk))) == 1.
Proof. exact normalise_unit_rms. Qed.
Print Assumptions C15_normalise_unit_rms.

(* ---------------------------------------------------------------- eigen-decompositions (pcomp, pca_solve) *)
(* eigenvectors + completeness  =>  C = sum_k l_k v_k v_k^T (as operators) *)
Theorem C15_spectral_reconstruction : forall n C vs ls,
  length C = n -> Forall (fun v => length v = n) vs -> length ls = length vs ->
  Forall2 (fun v l => veq (mat_vec C v) (vscale l v)) vs ls ->
  (forall x, length x = n -> veq (vsumv n (map2 (fun c v => vscale c v) (map (fun v => dot v x) vs) vs)) x) ->
  forall x, length x = n ->
    veq (mat_vec C x) (vsumv n (map2 (fun cl v => vscale cl v) (map2 Qmult ls (map (fun v => dot v x) vs)) vs)).
Proof. exact spectral_reconstruction. Qed.
Print Assumptions C15_spectral_reconstruction.

(* for n vectors of Q^n orthonormality alone gives completeness: V^T V = I -> V V^T = I (m+1 vectors of Q^m are
   linearly dependent; no determinants) *)
Theorem C15_orthonormal_complete : forall n vs, length vs = n -> vlen n vs -> gram_identity vs ->
  forall x, length x = n -> veq (vsumv n (map2 (fun c v => vscale c v) (map (fun v => dot v x) vs) vs)) x.
Proof. exact orthonormal_complete. Qed.
Print Assumptions C15_orthonormal_complete.

(* hence: what eig_ok checks (eigen-equation + orthonormality) is enough for C = sum_k l_k v_k v_k^T ... *)
Theorem C15_spectral_reconstruction_orthonormal : forall n C vs ls,
  length C = n -> length vs = n -> vlen n vs -> length ls = length vs ->
  Forall2 (fun v l => veq (mat_vec C v) (vscale l v)) vs ls ->
  gram_identity vs ->
  forall x, length x = n ->
    veq (mat_vec C x) (vsumv n (map2 (fun cl v => vscale cl v) (map2 Qmult ls (map (fun v => dot v x) vs)) vs)).
Proof. exact spectral_reconstruction_orthonormal. Qed.
Print Assumptions C15_spectral_reconstruction_orthonormal.

(* ... and for trace C = sum of the eigenvalues (so the variance fractions l_k / trace C sum to one) *)
Theorem C15_trace_is_sum_of_eigenvalues : forall n (C : list (list Q)) (vs : list (list Q)) ls,
  length C = n -> rows_len n C -> length vs = n -> vlen n vs -> length ls = length vs ->
  Forall2 (fun v l => veq (mat_vec C v) (vscale l v)) vs ls ->
  gram_identity vs ->
  trace C == vsum ls.
Proof. exact trace_is_sum_of_eigenvalues. Qed.
Print Assumptions C15_trace_is_sum_of_eigenvalues.

Theorem C15_variance_fractions_sum_one : forall ls, ~ vsum ls == 0 -> vsum (map (fun l => l / vsum ls) ls) == 1.
Proof. exact variance_fractions_sum_one. Qed.
Print Assumptions C15_variance_fractions_sum_one.

(* the `descending` clause of eig_ok / pca_ok means what it says *)
Theorem C15_descending_sound : forall v, descending v = true ->
  forall i a b, nth_error v i = Some a -> nth_error v (S i) = Some b -> b <= a.
Proof. exact descending_sound. Qed.
Print Assumptions C15_descending_sound.

(* the normal-equation clause of chi2_ok / astep_ok / gstep_ok / pca_ok (pca_solve's acoeff against the
   implementation's own eigenspectra): a vector accepted with tolerance 0 is the weighted least-squares optimum *)
Theorem C15_projection_optimal : forall m D sol, wf m D -> grad_small 0 m D sol = true ->
  length sol = m /\ (forall d, gdot D sol d == 0) /\ forall z, length z = m -> chi2 D sol <= chi2 D z.
Proof. exact grad_small_exact_optimal. Qed.
Print Assumptions C15_projection_optimal.


(* ================================================================ round 5 *)
(* ---------------------------------------------------------------- HMF.__init__ / iterate as read from the source *)
(* the normalisation statements of the loop (np.repeat idioms, their axes and operators) are the reference normalise *)
Theorem C15_normalise_generated_is_reference : forall n a g, normalise_gen n a g = normalise n a g.
Proof. exact normalise_gen_eq. Qed.
Print Assumptions C15_normalise_generated_is_reference.
(* one pass of the loop: default mode = coefficient update, component update, rotation, normalisation; non-negative mode =
   the two multiplicative updates, normalisation (in BOTH modes); 128 initial coefficient updates in non-negative mode *)
Theorem C15_iterate_structure :
  g_iter_std = [SAstep; SGstep; SReorder; SNormalise] /\ g_iter_nn = [SAstepNN; SGstepNN; SNormalise] /\
  g_nn_init_steps = [SAstepNN] /\ g_norm_g_axis = ScaleRows /\ g_norm_a_axis = ScaleCols.
Proof. exact iterate_structure. Qed.
Print Assumptions C15_iterate_structure.
(* every seed given by the caller, 0 included, is stored by __init__ and passed to numpy.random.seed before whiten/kmeans *)
Theorem C15_seed_always_applied :
  (forall z, g_seed_test (g_seed_store (Some z)) = true) /\ g_seed_test (g_seed_store None) = false.
Proof. exact seed_always_applied. Qed.
Print Assumptions C15_seed_always_applied.
Theorem C15_n_iter_defaults : g_n_iter None true = 2048%Z /\ g_n_iter None false = 20%Z /\ forall v b, g_n_iter (Some v) b = v.
Proof. exact n_iter_defaults. Qed.
Print Assumptions C15_n_iter_defaults.
(* default mode without smoothing: a-step, then g-step from the NEW coefficients: chi-square falls (or stays) twice *)
Theorem C15_iteration_std_monotone : forall s w a g a1 g1,
  astep s w g = Some a1 -> gstep s w a1 g None = Some g1 ->
  (2 <= ncols s)%nat -> (0 < length s)%nat ->
  Forall (fun r => length r = ncols s) s -> Forall (fun r => length r = ncols s) w ->
  length w = length s -> length a = length s -> rows_len (length g) a -> ncols g = ncols s ->
  Forall (Forall (fun v => 0 <= v)) w ->
  badness s w a1 g1 None <= badness s w a1 g None /\ badness s w a1 g None <= badness s w a g None.
Proof. exact iteration_std_monotone. Qed.
Print Assumptions C15_iteration_std_monotone.
(* non-negative mode: every step of the pass (both updates AND the normalisation) keeps both factors >= 0 *)
Theorem C15_iteration_nn_nonneg : forall s w eps nw rec stp st st',
  In stp g_iter_nn -> mnn s -> mnn w -> vnn nw -> state_nn st ->
  hmf_apply s w eps nw rec stp st = Some st' -> state_nn st'.
Proof. exact iteration_nn_nonneg. Qed.
Print Assumptions C15_iteration_nn_nonneg.

(* the reduced evaluation of badness used by run_case computes badness *)
Theorem C15_badness_r_correct : forall s w a g eps, badness_r s w a g eps == badness s w a g eps.
Proof. exact badness_r_correct. Qed.
Print Assumptions C15_badness_r_correct.

(* ---------------------------------------------------------------- pca_solve as read from the source *)
Theorem C15_pca_generated :
  (forall mi f sw y, g_pca_filt mi f sw y == (mi * f + sw * y) / (mi + sw)) /\
  (forall v m, g_pca_weight (g_pca_maskivar v m) == v * m) /\
  (forall v, g_pca_synw_good v = negb (Qeq_bool v 0)) /\ g_pca_synw_default == 1 /\
  (forall v, g_pca_inmask v = negb (Qeq_bool v 0)) /\
  (forall q i m, g_pca_continue q i m = negb q && Nat.leb i m) /\
  (forall k, g_pca_nreturn None k = k) /\ (forall v k, g_pca_nreturn (Some v) k = v) /\
  g_pca_usemask_axis = 0%nat.
Proof. exact pca_generated. Qed.
Print Assumptions C15_pca_generated.
(* coefficients of one object in one pass = weighted least-squares projection on the first nkeep derived variables *)
Theorem C15_pca_obj_step_optimal : forall nkeep pres synw fi vi mi ac fl,
  pca_obj_step nkeep pres synw fi vi mi = Some (ac, fl) -> wf nkeep (pca_obj_data nkeep pres fi vi mi) ->
  length ac = nkeep /\
  (forall d, gdot (pca_obj_data nkeep pres fi vi mi) ac d == 0) /\
  forall z, length z = nkeep -> chi2 (pca_obj_data nkeep pres fi vi mi) ac <= chi2 (pca_obj_data nkeep pres fi vi mi) z.
Proof. exact pca_obj_step_optimal. Qed.
Print Assumptions C15_pca_obj_step_optimal.

(* ---------------------------------------------------------------- what acceptance by the checkers means, for all inputs *)
Theorem C15_inverse_ok_exact : forall cov N, inverse_ok 0 cov N = true ->
  length cov = length N /\
  forall i j r c, nth_error cov i = Some r -> nth_error (transpose N) j = Some c -> (j < length N)%nat ->
    dot r c == (if Nat.eqb i j then 1 else 0).
Proof. exact inverse_ok_exact. Qed.
Print Assumptions C15_inverse_ok_exact.
(* clause `chi2-not-minimal`: compared with the solver's answer, it bounds chi-square against EVERY coefficient vector *)
Theorem C15_near_optimal_sound : forall m D ia xopt t e, wf m D -> wls_solve m D = Some xopt -> 0 <= t ->
  Qle_bool (chi2r D ia) (chi2r D xopt * (1 + t) + e) = true ->
  forall z, length z = m -> chi2 D ia <= chi2 D z * (1 + t) + e.
Proof. exact near_optimal_sound. Qed.
Print Assumptions C15_near_optimal_sound.
Theorem C15_eig_ok_exact : forall C vals vecs n2, eig_ok 0 C vals vecs n2 = true ->
  descending vals = true /\
  (forall k l v, nth_error vals k = Some l -> nth_error vecs k = Some v -> veq (mat_vec C v) (vscale l v)) /\
  (forall j k vj vk nk, nth_error vecs j = Some vj -> nth_error vecs k = Some vk -> nth_error n2 k = Some nk ->
     dot vj vk == (if Nat.eqb j k then nk else 0)).
Proof. exact eig_ok_exact. Qed.
Print Assumptions C15_eig_ok_exact.

(* ---------------------------------------------------------------- non-vacuity witnesses *)
Example C15_example_chi2 :
  match computechi2 [1; 3; 2; 5] [1; 1; 0; 2] [[1; 0]; [1; 1]; [1; 2]; [1; 3]] with
  | Some r => veq_bool (c_acoeff r) [69 # 53; 66 # 53] && Z.eqb (c_dof r) 1 && veq_bool (c_var r) (diag (c_covar r))
  | None => false end = true.
Proof. vm_compute. reflexivity. Qed.
Example C15_example_gstep_eps :
  match gstep [[1; 2; 3]; [2; 1; 0]; [1; 1; 1]] [[1; 1; 1]; [1; 0; 1]; [2; 1; 1]] [[1; 0]; [0; 1]; [1; 1]] [[1; 1; 1]; [1; 2; 1]] (Some (1 # 2)) with
  | Some g' => Nat.eqb (length g') 2
  | None => false end = true.
Proof. vm_compute. reflexivity. Qed.
(* one pass of the non-negative loop as a checked trace (g = [[3;4;0;0] ...]: mean squares with rational roots) *)
Example C15_example_iter_nn :
  let s := [[1; 2]; [2; 1]] in let w := [[1; 1]; [1; 1]] in
  let a := [[1]; [1]] in let g := [[1; 1]] in
  match hmf_apply s w None [1] (a, g) SAstepNN (a, g) with
  | Some (a1, _) => match hmf_apply s w None [1] (a, g) SGstepNN (a1, g) with
                    | Some (_, g1) => veq_bool (vred (hd [] g1)) [1; 1] && mat_nonneg a1
                    | None => false end
  | None => false end = true.
Proof. vm_compute. reflexivity. Qed.
Example C15_example_iter_std :
  let s := [[1; 2; 3]; [2; 1; 0]; [1; 1; 2]] in let w := [[1; 1; 1]; [1; 1; 1]; [2; 1; 1]] in
  let g := [[1; 1; 1]; [1; 2; 4]] in
  match astep s w g with
  | Some a1 => match gstep s w a1 g None with Some g1 => Qle_bool (badness s w a1 g1 None) (badness s w a1 g None) | None => false end
  | None => false end = true.
Proof. vm_compute. reflexivity. Qed.
Example C15_example_pca_step :
  match pca_step 1 [[1; 2; 3]; [2; 4; 7]] [[1; 1; 0]; [1; 2; 1]] [[1; 1; 0]; [1; 1; 1]] [[1; 0]; [2; 1]; [3; 1]] with
  | Some [(ac0, f0); (ac1, f1)] => veq_bool ac0 [1] && Nat.eqb (length f1) 3
  | _ => false end = true.
Proof. vm_compute. reflexivity. Qed.
Example C15_example_checkers_exact :
  inverse_ok 0 [[1 # 2; 0]; [0; 1 # 4]] [[2; 0]; [0; 4]] && eig_ok 0 [[2; 0]; [0; 1]] [2; 1] [[1; 0]; [0; 1]] [1; 1] = true.
Proof. vm_compute. reflexivity. Qed.

(* ------------------------------------------------------------------ round 6: completeness of the checked elimination
   (C13/GJProofs.v, same LinAlg definitions, imported read-only) instantiated on the systems of C15 *)
(* every full-rank computechi2 system (full column rank on the points with non-zero sqivar) HAS coefficients in the model,
   and they minimise the weighted chi-square over all coefficient vectors *)
Theorem C15_chi2_acoeff_total : forall b sq A,
  rows_len (ncols A) A -> full_rank (ncols A) (cc_data A sq b) ->
  exists a, wls_solve (ncols A) (cc_data A sq b) = Some a /\ length a = ncols A /\
            forall z, length z = ncols A -> chi2 (cc_data A sq b) a <= chi2 (cc_data A sq b) z.
Proof. exact chi2_acoeff_total. Qed.
Print Assumptions C15_chi2_acoeff_total.
(* PARTIAL.  Full statement wanted: full rank -> computechi2_ref b sq A <> None.  Proved: on a full-rank system the model can
   decline only through the covariance branch (completeness of `inverse_checked`, the elimination with n right-hand sides,
   is not proved; its soundness is C15_covar_is_inverse) *)
Theorem C15_computechi2_ref_none_partial : forall b sq A,
  rows_len (ncols A) A -> full_rank (ncols A) (cc_data A sq b) ->
  computechi2_ref b sq A = None -> inverse_checked (mred (normal_mat (ncols A) (cc_data A sq b))) = None.
Proof. exact computechi2_ref_none_partial. Qed.
Print Assumptions C15_computechi2_ref_none_partial.
(* HMF: when every row problem has full rank the coefficient update exists; a full-rank column problem has its
   component update (no smoothing) *)
Theorem C15_astep_ref_total : forall s w g,
  Forall (fun wi => Forall (fun v => 0 <= v) wi) w ->
  (forall si wi, In si s -> In wi w -> full_rank (length g) (hmf_row_data g wi si)) ->
  exists a', astep_ref s w g = Some a'.
Proof. exact astep_ref_total. Qed.
Print Assumptions C15_astep_ref_total.
Theorem C15_gstep_col_ref_total : forall s w a g K M j,
  K = ncols a -> rows_len (ncols a) a -> Forall (fun v => 0 <= v) (col j w) ->
  full_rank K (hmf_col_data a (col j w) (col j s)) ->
  exists x, gstep_col_ref s w a g None K M j = Some x.
Proof. exact gstep_col_ref_total. Qed.
Print Assumptions C15_gstep_col_ref_total.
Example C15_example_full_rank : full_rank 2 (cc_data [[1; 0]; [1; 1]; [1; 2]] [1; 1; 0] [5; 7; 9]).
Proof. exact chi2_full_rank_example. Qed.
(* the certified clauses of one loop pass evaluated alone (case CHmfIterS, used for runs too large to re-compute exactly) *)
Example C15_example_iter_spec_only :
  run_case (CHmfIterS false [[1; 2]; [2; 4]] [[1; 1]; [1; 1]] None ([[1]; [1]], [[1; 1]])
              [([[3 # 2]; [3]], [[1; 1]]); ([[3 # 2]; [3]], [[2 # 3; 4 # 3]]); ([[3 # 2]; [3]], [[2 # 3; 4 # 3]])]) = 2%Z
  /\ diag_case (CHmfIterS false [[1; 2]; [2; 4]] [[1; 1]; [1; 1]] None ([[1]; [1]], [[1; 1]])
              [([[3 # 2]; [3]], [[1; 1]]); ([[3 # 2]; [3]], [[2 # 3; 4 # 3]]); ([[3 # 2]; [3]], [[2 # 3; 4 # 3]])]) = [true; false; true].
Proof. vm_compute. split; reflexivity. Qed.

(* ------------------------------------------------------------------ round 6: completeness for pcomp's SCALED columns *)
(* n vectors v_k and n vectors u_k of Q^n with u_j . v_k = delta_jk:  x = sum_k (u_k . x) v_k  for every x *)
Theorem C15_biorthogonal_complete : forall n us vs,
  length vs = n -> length us = n -> vlen n vs -> vlen n us -> bi_identity us vs ->
  forall x, length x = n -> veq (lincomb n (map (fun u => dot u x) us) vs) x.
Proof. exact biorthogonal_complete. Qed.
Print Assumptions C15_biorthogonal_complete.
(* n pairwise orthogonal vectors of Q^n with non-zero squared lengths l_k (pcomp's components: eigenvectors times
   sqrt(eigenvalue)) are complete: x = sum_k ((c_k . x) / l_k) c_k -- no square root needed *)
Theorem C15_scaled_columns_complete : forall n vs ls,
  length vs = n -> length ls = n -> vlen n vs -> Forall (fun l => ~ l == 0) ls -> gram_diag vs ls ->
  forall x, length x = n -> veq (lincomb n (map (fun u => dot u x) (dual ls vs)) vs) x.
Proof. exact scaled_columns_complete. Qed.
Print Assumptions C15_scaled_columns_complete.
(* the property's "components whose outer product reproduces the correlation (or covariance) matrix": what eig_ok tests
   (eigen-equation, Gram matrix = diag(l)) implies C x = sum_k (c_k . x) c_k for every x when no eigenvalue vanishes *)
Theorem C15_scaled_outer_product : forall n C vs ls,
  length C = n -> length vs = n -> length ls = n -> vlen n vs -> Forall (fun l => ~ l == 0) ls ->
  Forall2 (fun v l => veq (mat_vec C v) (vscale l v)) vs ls -> gram_diag vs ls ->
  forall x, length x = n -> veq (mat_vec C x) (lincomb n (map (fun v => dot v x) vs) vs).
Proof. exact scaled_outer_product. Qed.
Print Assumptions C15_scaled_outer_product.
Example C15_example_scaled_outer_product :
  gram_diag [[2; 0]; [0; 1]] [4; 1] /\ Forall2 (fun v l => veq (mat_vec [[4; 0]; [0; 1]] v) (vscale l v)) [[2; 0]; [0; 1]] [4; 1].
Proof. exact scaled_outer_product_example. Qed.
