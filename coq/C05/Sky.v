(* C05 -- the link relation computed independently of pydl's gcirc.  Definitions only (proofs: C05/SkyProofs.v).

   Input: the coordinates the caller passed (degrees, exact rationals num/den -- a double is a dyadic rational) and
   the linking length.  For every pair the cosine of the angular separation

       cossep = sin d1 sin d2 + cos d1 cos d2 cos (a1 - a2)            (spherical law of cosines)

   is enclosed by floating-point interval arithmetic (library Interval, radix-2 big-integer floats (Bignums), 150 bits) and
   compared with enclosures of cos(Lhi), cos(Llo), where  Lhi = rad(L) (1 + rel) + abs,  Llo = rad(L) (1 - rel) - abs
   is a narrow band around the linking length (rel = 1e-9, abs = 1e-13 rad in the harness: the rounding noise of a
   double-precision evaluation).  A pair gets
       cert_in  : certainly  cossep >= cos Lhi   (separation <= Lhi)
       cert_out : certainly  cossep <  cos Llo   (separation >  Llo)
   and the link bit is: cert_in only -> true; cert_out only -> false; both (the separation lies inside the band) ->
   the implementation's own decision.  sky_ok says that every pair has at least one certificate.  Nothing here
   depends on the implementation except the tie-break inside the band. *)
From Coq Require Import ZArith List Bool Reals.
From Interval Require Import Float.Specific_bigint Float.Specific_ops Float.Basic Real.Xreal
                             Interval.Interval Interval.Float_full.
From PV Require Import C05.Model C05.Algo.
Import ListNotations.

Module F := SpecificFloat BigIntRadix2.
Module I := FloatIntervalFull F.

Definition prec : I.precision := F.PtoP 150.

Definition rat := (Z * Z)%type.                       (* num / den *)
Definition ratI (q : rat) : I.type := I.div prec (I.fromZ prec (fst q)) (I.fromZ prec (snd q)).
Definition radI (x : I.type) : I.type := I.div prec (I.mul prec x (I.pi prec)) (I.fromZ prec 180).

(* enclosures of (sin dec, cos dec, sin ra, cos ra) of one position *)
Record ptI := { p_sd : I.type; p_cd : I.type; p_sa : I.type; p_ca : I.type }.
Definition mkptI (p : rat * rat) : ptI :=
  let a := radI (ratI (fst p)) in let d := radI (ratI (snd p)) in
  {| p_sd := I.sin prec d; p_cd := I.cos prec d; p_sa := I.sin prec a; p_ca := I.cos prec a |}.

(* sin d1 sin d2 + cos d1 cos d2 (cos a1 cos a2 + sin a1 sin a2) *)
Definition dotI (p q : ptI) : I.type :=
  I.add prec (I.mul prec (p_sd p) (p_sd q))
             (I.mul prec (I.mul prec (p_cd p) (p_cd q))
                         (I.add prec (I.mul prec (p_ca p) (p_ca q)) (I.mul prec (p_sa p) (p_sa q)))).

Definition one_plus (r : rat) : rat := ((snd r + fst r)%Z, snd r).
Definition one_minus (r : rat) : rat := ((snd r - fst r)%Z, snd r).
Definition LhiI (L rel abs : rat) : I.type := I.add prec (I.mul prec (radI (ratI L)) (ratI (one_plus rel))) (ratI abs).
Definition LloI (L rel abs : rat) : I.type := I.sub prec (I.mul prec (radI (ratI L)) (ratI (one_minus rel))) (ratI abs).

Definition den_pos (q : rat) : bool := (0 <? snd q)%Z.
Definition dens_ok (pts : list (rat * rat)) (L rel abs : rat) : bool :=
  forallb (fun p => den_pos (fst p) && den_pos (snd p)) pts && den_pos L && den_pos rel && den_pos abs.

Definition ge0 (x : I.type) : bool := match I.sign_large x with Xgt | Xeq => true | _ => false end.
Definition lt0 (x : I.type) : bool := match I.sign_strict x with Xlt => true | _ => false end.
Definition cert_in (cHi d : I.type) : bool := ge0 (I.sub prec d cHi).
Definition cert_out (cLo d : I.type) : bool := lt0 (I.sub prec d cLo).

Section Sky.
  Variable pts : list (rat * rat).       (* (ra, dec) in degrees *)
  Variable L rel abs : rat.              (* linking length in degrees; band *)
  Variable impl : nat -> nat -> bool.    (* the implementation's own decision, used inside the band only *)

  Definition ptsI : list ptI := map mkptI pts.
  Definition cHiI : I.type := I.cos prec (LhiI L rel abs).
  Definition cLoI : I.type := I.cos prec (LloI L rel abs).
  Definition nopt : ptI := {| p_sd := I.nai; p_cd := I.nai; p_sa := I.nai; p_ca := I.nai |}.

  (* decision for an ordered pair i < j, from the enclosures *)
  Definition decide (PI : list ptI) (cHi cLo : I.type) (i j : nat) : option bool :=
    let d := dotI (nth i PI nopt) (nth j PI nopt) in
    match cert_in cHi d, cert_out cLo d with
    | true, false => Some true
    | false, true => Some false
    | true, true => Some (impl i j || impl j i)
    | false, false => None
    end.

  (* upper triangle: row i lists the decisions for j = i+1 .. n-1 *)
  Definition tri : list (list (option bool)) :=
    let PI := ptsI in let cHi := cHiI in let cLo := cLoI in let n := length pts in
    map (fun i => map (fun j => decide PI cHi cLo i j) (seq (S i) (n - S i))) (seq 0 n).

  Definition tri_get (T : list (list (option bool))) (i j : nat) : option bool :=
    if i <? j then nth (j - S i) (nth i T []) None else nth (i - S j) (nth j T []) None.

  Definition link_from (T : list (list (option bool))) (i j : nat) : bool :=
    if Nat.eqb i j then true else match tri_get T i j with Some b => b | None => false end.

  Definition ok_from (T : list (list (option bool))) : bool :=
    forallb (forallb (fun o => match o with Some _ => true | None => false end)) T.

  Definition sky_link : nat -> nat -> bool := link_from tri.
  Definition sky_ok : bool := dens_ok pts L rel abs && ok_from tri.

  (* adjacency rows as bit masks (the representation Model.link_of reads) *)
  Definition row_of (f : nat -> bool) (n : nat) : Z :=
    fold_right (fun j acc => if f j then Z.setbit acc (Z.of_nat j) else acc) 0%Z (seq 0 n).
  Definition rows_from (T : list (list (option bool))) : list Z :=
    let n := length pts in map (fun i => row_of (link_from T i) n) (seq 0 n).
  Definition sky_rows : list Z := rows_from tri.
End Sky.

(* ------------------------------------------------------------------ correspondence cases *)
Record skyin := {
  s_pts : list (rat * rat); s_L : rat; s_rel : rat; s_abs : rat;
  s_impl : list Z          (* adjacency rows from the implementation's own gcirc *)
}.
Definition mksky (pts : list (rat * rat)) (L rel abs : rat) (impl : list Z) : skyin :=
  {| s_pts := pts; s_L := L; s_rel := rel; s_abs := abs; s_impl := impl |}.

Definition sky_eval (s : skyin) : list Z * bool :=
  let T := tri (s_pts s) (s_L s) (s_rel s) (s_abs s) (link_of (s_impl s)) in
  (rows_from (s_pts s) T, dens_ok (s_pts s) (s_L s) (s_rel s) (s_abs s) && ok_from T).

(* extra verdict bits: +4 the implementation's link decision differs from the certified one for some pair outside the
   band; +8 some pair could not be certified either way (enclosures too wide) *)
Definition sky_bits (s : skyin) (M : list Z) (ok : bool) : Z :=
  ((if listZ_eqb M (s_impl s) then 0 else 4) + (if ok then 0 else 8))%Z.

Definition with_adj (c : case) (M : list Z) : case := {| c_adj := M; c_out := c_out c; c_fof := c_fof c |}.

Definition run_sky_case (x : skyin * case) : Z :=
  let '(s, c) := x in
  let '(M, ok) := sky_eval s in
  (run_case (with_adj c M) + sky_bits s M ok)%Z.
Definition run_sky_cases (xs : list (skyin * case)) : list Z := map run_sky_case xs.

Definition run_sky_case2 (x : skyin * (case * (list cellrec * option (list Z * list Z * list Z * list Z * Z)))) : Z :=
  let '(s, (c, rest)) := x in
  let '(M, ok) := sky_eval s in
  (run_case2 (with_adj c M, rest) + sky_bits s M ok)%Z.
Definition run_sky_cases2 xs : list Z := map run_sky_case2 xs.
