"""setup: run every translator, refresh _CoqProject/Makefile, full .vo build (no -vos)."""
import importlib
import os
import pkgutil
import sys

from harness import common as C
import harness.props as props_pkg


class _Ctx:
    tier = 'quick'
    thorough = False


def main():
    from harness import regen
    regen.main()
    C.coq_project_refresh()
    ok, log = C.coq_make(['-k', 'all'], timeout=3000)
    print(log[-3000:])
    # the build may legitimately fail in a Props file when /repo violates a property; the per-property
    # check reports that.  Setup fails only if the shared libraries do not build.
    ok2, log2 = C.coq_make(['Lib/Bits.vo'], timeout=600)
    sys.exit(0 if ok2 else 1)


if __name__ == '__main__':
    main()
